(* C08 / C11, measure-directly pair creation at the level of Model V: the native calls of a successful request
     new, new, H a1, CNOT a1 a2, [H | K on a1], measure a1 (destructive), [H | K on a2], measure a2 (destructive)
   followed step by step through explicit node shapes WITH their tableaux (EprFailNode.v follows the shapes only).  In every
   network state satisfying the invariant, at every node: both temporaries sit in registers of their own, the CNOT merges them
   into one register of two qubits that nothing else shares, every call succeeds, the two outcomes are Epr.md_outcomes for the
   sampled bases and coins (hence possible for |Phi+>: Epr.md_outcomes_possible), and the network afterwards is EXACTLY the
   network before, except for the handle counter (+2) and the node's register-number counter (+2). *)
From Coq Require Import List Bool Arith Lia.
From SQ Require Import Base.ListUtil Stab.Pauli Stab.Kernels Stab.Tableau Net.Model Net.Refusal Net.Handles Net.Inv Net.InvNew Net.InvMeas Net.InvStep
  Net.PerNode Qasm.Exec Qasm.ExecProps Qasm.Teardown Qasm.TeardownX Qasm.EprFailNode Qasm.Epr Qasm.EprGate.
Import ListNotations.

Local Arguments step : simpl never.
Local Arguments measure : simpl never.
Local Arguments tensor : simpl never.
Local Arguments tab_gate1 : simpl never.
Local Arguments tab_gate2 : simpl never.

(* ---- the shapes, with tableaux ------------------------------------------------------------------------------------------------ *)
Lemma new_shape_t i s s1 v :
  ginv s -> step s (ONew i) = (s1, Ok v) ->
  let nd := nth_node s i in
  exists sn, nodes s1 = upd (nodes s) i (ext1 i nd (next_hid s) v sn (nextReg nd) 10 (add_qubit 0 []) 1) /\
             next_hid s1 = S (next_hid s) /\ i < length (nodes s) /\ fresh1 nd (next_hid s) sn (nextReg nd).
Proof.
  intros [HI IV] S1 nd. unfold step in S1.
  destruct (Nat.ltb_spec i (length (nodes s))) as [Li|Li]; [|discriminate].
  unfold op_new in S1. fold nd in S1.
  destruct (Nat.leb (maxQ nd) (length (virt nd))); [discriminate|].
  unfold add_register in S1. destruct (Nat.leb (maxR nd) (numRegs nd)); [discriminate|].
  pose proof (inv_nodes s IV i) as OK. fold nd in OK.
  assert (FK : ~ In (nextReg nd) (map r_num (regs nd))).
  { intro Hin. apply in_map_iff in Hin as (r & E & Hr). pose proof (ok_rlt nd OK r Hr). lia. }
  exists (fresh_id (map s_simNum (sims nd))).
  inversion S1; subst s1 v; clear S1. cbn [nodes next_hid].
  split.
  - f_equal. unfold ext1, with_virt, with_sims, with_regs, reg_with_ids, reg_with_tab.
    cbn [virt sims regs numRegs nextReg maxQ maxR r_num r_max r_n r_tab r_ids].
    match goal with |- context [set_reg (regs nd ++ [?r0]) ?r1] => rewrite (set_reg_app_new (regs nd) r0 r1 FK eq_refl []) end.
    cbn [set_reg map]. rewrite Nat.add_1_r. reflexivity.
  - split; [reflexivity|]. split; [exact Li|]. constructor.
    + intro Hin. assert (next_hid s < next_hid s); [|lia]. apply (hn_lt s i); auto.
    + apply fresh_id_not_in.
    + exact FK.
    + intros y Hy E. destruct (ok_sreg nd OK y Hy) as (r & Hr & Er & _). apply FK. rewrite <- E, <- Er. apply in_map. exact Hr.
Qed.

(* a supported single-qubit gate on the first of two temporaries that sit in two separate registers *)
Lemma gate1_nested_t i s nd a1 v1 sn1 K1 m1 t1 d1 a2 v2 sn2 K2 m2 t2 d2 g gg :
  hid_inv s -> i < length (nodes s) -> gate1_of g = Some gg ->
  nth_node s i = ext1 i (ext1 i nd a1 v1 sn1 K1 m1 t1 d1) a2 v2 sn2 K2 m2 t2 d2 ->
  fresh1 nd a1 sn1 K1 -> fresh1 (ext1 i nd a1 v1 sn1 K1 m1 t1 d1) a2 sn2 K2 ->
  step s (OGate1 a1 g) =
    (mkNet (upd (nodes s) i (ext1 i (ext1 i nd a1 v1 sn1 K1 m1 (tab_gate1 gg 1 0 t1) d1) a2 v2 sn2 K2 m2 t2 d2)) (next_hid s), OkNone).
Proof.
  intros HI Li GG E [Fa Fs FK FsK] [Fa2 Fs2 FK2 FsK2]. unfold step, op_gate1.
  set (q := mkVq a1 v1 i sn1 a1).
  assert (Hq : In q (virt (nth_node s i))).
  { rewrite E. cbn [virt ext1]. apply in_or_app. left. apply in_or_app. right. simpl. auto. }
  rewrite (find_handle_at s i q HI Hq : find_handle s a1 = Some (i, q)).
  unfold locate. cbn [v_simNode v_simNum q]. rewrite E. cbn [sims regs ext1].
  rewrite <- !app_assoc. cbn [app].
  rewrite (find_sq_app_new sn1 (sims nd) (mkSq sn1 K1 0) Fs eq_refl _). cbn [s_reg].
  rewrite (find_reg_app_new K1 (regs nd) (mkReg K1 m1 1 t1 [a1]) FK eq_refl _).
  rewrite GG. cbn [r_n r_tab s_pos].
  f_equal. unfold update_reg_at, set_node. cbn [nodes next_hid]. f_equal. f_equal.
  rewrite E. unfold with_regs, ext1, reg_with_tab.
  cbn [virt sims regs numRegs nextReg maxQ maxR r_num r_max r_n r_tab r_ids].
  rewrite <- !app_assoc. cbn [app].
  match goal with |- context [set_reg (regs nd ++ ?r0 :: ?l2) ?r1] => rewrite (set_reg_app_new (regs nd) r0 r1 FK eq_refl l2) end.
  cbn [set_reg map r_num].
  assert (NK : K2 <> K1).
  { intro; subst. apply FK2. cbn [regs ext1]. rewrite map_app. apply in_or_app. right. simpl. auto. }
  destruct (Nat.eqb_spec K2 K1); [contradiction|]. reflexivity.
Qed.

(* CNOT between them: the second register is merged into the first; the tableau is the tensor product, then the gate *)
Lemma gate2_nested_t i s nd a1 v1 sn1 K1 m1 t1 d1 a2 v2 sn2 K2 m2 t2 d2 :
  hid_inv s -> i < length (nodes s) ->
  nth_node s i = ext1 i (ext1 i nd a1 v1 sn1 K1 m1 t1 d1) a2 v2 sn2 K2 m2 t2 d2 ->
  fresh1 nd a1 sn1 K1 -> fresh1 (ext1 i nd a1 v1 sn1 K1 m1 t1 d1) a2 sn2 K2 ->
  step s (OGate2 a1 a2 NCnot) =
    (mkNet (upd (nodes s) i (ext2m i nd a1 v1 sn1 a2 v2 sn2 K1 (m1 + 1) (tab_gate2 GCNOT 2 0 1 (tensor 1 t1 1 t2)) (d1 + d2))) (next_hid s),
     OkNone).
Proof.
  intros HI Li E [Fa Fs FK FsK] [Fa2 Fs2 FK2 FsK2]. unfold step, op_gate2.
  set (q1 := mkVq a1 v1 i sn1 a1). set (q2 := mkVq a2 v2 i sn2 a2).
  assert (Hq1 : In q1 (virt (nth_node s i))).
  { rewrite E. cbn [virt ext1]. apply in_or_app. left. apply in_or_app. right. simpl. auto. }
  assert (Hq2 : In q2 (virt (nth_node s i))).
  { rewrite E. cbn [virt ext1]. apply in_or_app. right. simpl. auto. }
  rewrite (find_handle_at s i q1 HI Hq1 : find_handle s a1 = Some (i, q1)).
  rewrite (find_handle_at s i q2 HI Hq2 : find_handle s a2 = Some (i, q2)).
  rewrite Nat.eqb_refl. cbn [negb v_simNode v_simNum q1 q2]. rewrite Nat.eqb_refl.
  assert (NK : K2 <> K1).
  { intro; subst. apply FK2. cbn [regs ext1]. rewrite map_app. apply in_or_app. right. simpl. auto. }
  assert (NS : sn2 <> sn1).
  { intro; subst. apply Fs2. cbn [sims ext1]. rewrite map_app. apply in_or_app. right. simpl. auto. }
  assert (Fs2' : ~ In sn2 (map s_simNum (sims nd))).
  { intro H. apply Fs2. cbn [sims ext1]. rewrite map_app. apply in_or_app. left. exact H. }
  assert (FK2' : ~ In K2 (map r_num (regs nd))).
  { intro H. apply FK2. cbn [regs ext1]. rewrite map_app. apply in_or_app. left. exact H. }
  assert (P1 : pos_of s i sn1 = (K1, 0)).
  { unfold pos_of. rewrite E. cbn [sims ext1]. rewrite <- !app_assoc. cbn [app].
    rewrite (find_sq_app_new sn1 (sims nd) (mkSq sn1 K1 0) Fs eq_refl _). reflexivity. }
  assert (P2 : pos_of s i sn2 = (K2, 0)).
  { unfold pos_of. rewrite E. cbn [sims ext1].
    rewrite (find_sq_app_new sn2 (sims nd ++ [mkSq sn1 K1 0]) (mkSq sn2 K2 0)); [reflexivity| |reflexivity].
    rewrite map_app. intro H. apply in_app_iff in H as [H|[H|[]]]; [exact (Fs2' H)|]. cbn in H. congruence. }
  rewrite P1, P2. destruct (Nat.eqb_spec K1 K2) as [EK|_]; [congruence|].
  assert (FKa : ~ In K2 (map r_num (regs nd ++ [mkReg K1 m1 1 t1 [a1]]))) by exact FK2.
  assert (LM : local_merge s i K1 K2 =
               mkNet (upd (nodes s) i (ext2m i nd a1 v1 sn1 a2 v2 sn2 K1 (m1 + 1) (tensor 1 t1 1 t2) (d1 + d2))) (next_hid s)).
  { unfold local_merge. rewrite E. cbn [regs sims virt numRegs nextReg maxQ maxR ext1].
    rewrite (find_reg_app_l K1 _ _ [mkReg K2 m2 1 t2 [a2]] (find_reg_app_new K1 (regs nd) (mkReg K1 m1 1 t1 [a1]) FK eq_refl [])).
    rewrite (find_reg_app_new K2 (regs nd ++ [mkReg K1 m1 1 t1 [a1]]) (mkReg K2 m2 1 t2 [a2]) FKa eq_refl []).
    cbn [r_n r_num r_max r_tab r_ids].
    unfold set_node. cbn [nodes next_hid]. f_equal. f_equal. unfold ext2m. f_equal.
    - rewrite map_app. rewrite (map_mv_old K1 K2 1 (sims nd ++ [mkSq sn1 K1 0]) FsK2).
      cbn [map s_reg s_simNum s_pos]. rewrite Nat.eqb_refl. reflexivity.
    - rewrite (set_reg_nested_first (regs nd)); [|exact FK|reflexivity|exact NK].
      rewrite (del_reg_app_new K2 (regs nd ++ [_]) (mkReg K2 m2 1 t2 [a2])); [|rewrite map_app; rewrite map_app in FKa; exact FKa|reflexivity].
      cbn [del_reg filter]. rewrite app_nil_r. reflexivity.
    - lia. }
  rewrite LM. clear LM.
  set (mx := m1 + 1). set (t := tensor 1 t1 1 t2).
  set (sm := mkNet _ _).
  assert (EM : nth_node sm i = ext2m i nd a1 v1 sn1 a2 v2 sn2 K1 mx t (d1 + d2)).
  { unfold sm. rewrite nth_node_mk, Nat.eqb_refl. destruct (Nat.ltb_spec i (length (nodes s))); [reflexivity|lia]. }
  assert (P1' : pos_of sm i sn1 = (K1, 0)).
  { unfold pos_of. rewrite EM. cbn [sims ext2m].
    rewrite (find_sq_app_l sn1 _ _ [mkSq sn2 K1 1] (find_sq_app_new sn1 (sims nd) (mkSq sn1 K1 0) Fs eq_refl [])). reflexivity. }
  assert (P2' : pos_of sm i sn2 = (K1, 1)).
  { unfold pos_of. rewrite EM. cbn [sims ext2m].
    rewrite (find_sq_app_new sn2 (sims nd ++ [mkSq sn1 K1 0]) (mkSq sn2 K1 1)); [reflexivity| |reflexivity].
    rewrite map_app. intro H. apply in_app_iff in H as [H|[H|[]]]; [exact (Fs2' H)|]. cbn in H. congruence. }
  rewrite P1', P2'. unfold apply_gate2_at. rewrite EM. cbn [regs ext2m].
  rewrite (find_reg_app_new K1 (regs nd) (mkReg K1 mx 2 t [a1; a2]) FK eq_refl []).
  f_equal. unfold update_reg_at, set_node, sm. cbn [nodes next_hid]. rewrite upd_upd. f_equal. f_equal.
  rewrite nth_node_mk, Nat.eqb_refl. destruct (Nat.ltb_spec i (length (nodes s))); [|lia]. cbn [andb].
  unfold with_regs, ext2m, reg_with_tab. cbn [virt sims regs numRegs nextReg maxQ maxR r_num r_max r_n r_tab r_ids gate2_of].
  match goal with |- context [set_reg (regs nd ++ [?r0]) ?r1] => rewrite (set_reg_app_new (regs nd) r0 r1 FK eq_refl []) end.
  cbn [set_reg map]. reflexivity.
Qed.

(* a supported single-qubit gate on the first of two temporaries that share a register (position 0) *)
Lemma gate1_pair_first_t i s nd a1 v1 sn1 a2 v2 sn2 K mx t dk g gg :
  hid_inv s -> i < length (nodes s) -> gate1_of g = Some gg ->
  nth_node s i = ext2m i nd a1 v1 sn1 a2 v2 sn2 K mx t dk -> fresh1 nd a1 sn1 K ->
  step s (OGate1 a1 g) = (mkNet (upd (nodes s) i (ext2m i nd a1 v1 sn1 a2 v2 sn2 K mx (tab_gate1 gg 2 0 t) dk)) (next_hid s), OkNone).
Proof.
  intros HI Li GG E [Fa Fs FK FsK]. unfold step, op_gate1.
  set (q := mkVq a1 v1 i sn1 a1).
  assert (Hq : In q (virt (nth_node s i))).
  { rewrite E. cbn [virt ext2m]. apply in_or_app. left. apply in_or_app. right. simpl. auto. }
  rewrite (find_handle_at s i q HI Hq : find_handle s a1 = Some (i, q)).
  unfold locate. cbn [v_simNode v_simNum q]. rewrite E. cbn [sims regs ext2m].
  rewrite (find_sq_app_l sn1 _ _ [mkSq sn2 K 1] (find_sq_app_new sn1 (sims nd) (mkSq sn1 K 0) Fs eq_refl [])). cbn [s_reg].
  rewrite (find_reg_app_new K (regs nd) (mkReg K mx 2 t [a1; a2]) FK eq_refl []).
  rewrite GG. cbn [r_n r_tab s_pos].
  f_equal. unfold update_reg_at, set_node. cbn [nodes next_hid]. f_equal. f_equal.
  rewrite E. unfold with_regs, ext2m, reg_with_tab.
  cbn [virt sims regs numRegs nextReg maxQ maxR r_num r_max r_n r_tab r_ids].
  match goal with |- context [set_reg (regs nd ++ [?r0]) ?r1] => rewrite (set_reg_app_new (regs nd) r0 r1 FK eq_refl []) end.
  cbn [set_reg map]. reflexivity.
Qed.

(* measuring the first of the two out: outcome and remaining tableau as the engine computes them *)
Lemma meas_first_t i s nd a1 v1 sn1 a2 v2 sn2 K mx t dk c :
  hid_inv s -> i < length (nodes s) -> nth_node s i = ext2m i nd a1 v1 sn1 a2 v2 sn2 K mx t dk ->
  fresh1 nd a1 sn1 K -> a2 <> a1 -> sn2 <> sn1 ->
  let o := fst (fst (measure 2 0 true c t)) in
  let t' := snd (measure 2 0 false c (snd (measure 2 0 true c t))) in
  step s (OMeas a1 false c) = (mkNet (upd (nodes s) i (ext1 i nd a2 v2 sn2 K mx t' dk)) (next_hid s), Ok (if o then 1 else 0)).
Proof.
  intros HI Li E [Fa Fs FK FsK] Na Ns. unfold step, op_meas.
  set (q := mkVq a1 v1 i sn1 a1).
  assert (Hq : In q (virt (nth_node s i))).
  { rewrite E. cbn [virt ext2m]. apply in_or_app. left. apply in_or_app. right. simpl. auto. }
  rewrite (find_handle_at s i q HI Hq : find_handle s a1 = Some (i, q)).
  unfold locate. cbn [v_simNode v_simNum q]. rewrite E. cbn [sims regs ext2m].
  rewrite (find_sq_app_l sn1 _ _ [mkSq sn2 K 1] (find_sq_app_new sn1 (sims nd) (mkSq sn1 K 0) Fs eq_refl [])). cbn [s_reg].
  rewrite (find_reg_app_new K (regs nd) (mkReg K mx 2 t [a1; a2]) FK eq_refl []).
  cbn [r_n r_tab s_pos].
  pose proof (measure_n 2 0 true c t) as M1. destruct (measure 2 0 true c t) as [[o n1] t1]. cbn [fst snd] in M1. subst n1.
  cbn [fst snd].
  rewrite remove_sim_eq.
  set (r1 := reg_with_tab _ 2 t1). set (x := mkSq sn1 K 0).
  unfold update_reg_at. rewrite E.
  set (ndA := with_regs _ _ _).
  rewrite (nth_node_set_eq s i ndA Li).
  set (t' := snd (measure (r_n r1) (s_pos x) false c (r_tab r1))).
  set (ndB := rm_node ndA x r1 t').
  assert (LA : i < length (nodes (set_node s i ndA))) by (rewrite set_node_length; exact Li).
  rewrite (nth_node_set_eq _ i ndB LA).
  assert (EB : ndB = mkNode ((virt nd ++ [q]) ++ [mkVq a2 v2 i sn2 a2]) (sims nd ++ [mkSq sn2 K 0]) (regs nd ++ [mkReg K mx 1 t' [a2]])
                            (S (numRegs nd)) (nextReg nd + dk) (maxQ nd) (maxR nd)).
  { unfold ndB, rm_node, ndA, with_regs, ext2m, r1, x, reg_with_tab.
    cbn [virt sims regs numRegs nextReg maxQ maxR r_n r_num r_max r_ids s_pos s_simNum].
    cbn [Nat.sub Nat.eqb remove_nth].
    match goal with |- context [set_reg (regs nd ++ [?r0]) ?r1] => rewrite (set_reg_app_new (regs nd) r0 r1 FK eq_refl []) end.
    cbn [set_reg map].
    match goal with |- context [set_reg (regs nd ++ [?r0]) ?r1] => rewrite (set_reg_app_new (regs nd) r0 r1 FK eq_refl []) end.
    cbn [set_reg map].
    rewrite !map_app, (shift_old K 0 (sims nd) FsK). cbn [map]. unfold shift_sq. cbn [s_reg s_pos s_simNum]. rewrite Nat.eqb_refl.
    cbn [andb Nat.ltb Nat.leb Nat.sub].
    rewrite filter_app. rewrite (filter_sim_app_new sn1 (sims nd) (mkSq sn1 K 0) Fs eq_refl []).
    cbn [filter s_simNum]. destruct (Nat.eqb_spec sn2 sn1); [contradiction|]. cbn [negb]. rewrite app_nil_r. reflexivity. }
  rewrite EB. unfold with_virt. cbn [virt sims regs numRegs nextReg maxQ maxR].
  assert (RV : remove_vq a1 ((virt nd ++ [q]) ++ [mkVq a2 v2 i sn2 a2]) = virt nd ++ [mkVq a2 v2 i sn2 a2]).
  { rewrite <- app_assoc. cbn [app]. rewrite (remove_vq_app_new a1 (virt nd) q Fa eq_refl _).
    unfold remove_vq. cbn [filter v_hid]. destruct (Nat.eqb_spec a2 a1); [contradiction|]. reflexivity. }
  rewrite RV.
  f_equal. unfold set_node. cbn [nodes next_hid]. rewrite !upd_upd. reflexivity.
Qed.

(* a supported single-qubit gate on a temporary alone in its register *)
Lemma gate1_single_t i s nd a v sn K mx t dk g gg :
  hid_inv s -> i < length (nodes s) -> gate1_of g = Some gg ->
  nth_node s i = ext1 i nd a v sn K mx t dk -> fresh1 nd a sn K ->
  step s (OGate1 a g) = (mkNet (upd (nodes s) i (ext1 i nd a v sn K mx (tab_gate1 gg 1 0 t) dk)) (next_hid s), OkNone).
Proof.
  intros HI Li GG E [Fa Fs FK FsK]. unfold step, op_gate1.
  set (q := mkVq a v i sn a).
  assert (Hq : In q (virt (nth_node s i))) by (rewrite E; cbn [virt ext1]; apply in_or_app; right; simpl; auto).
  rewrite (find_handle_at s i q HI Hq : find_handle s a = Some (i, q)).
  unfold locate. cbn [v_simNode v_simNum q]. rewrite E. cbn [sims regs ext1].
  rewrite (find_sq_app_new sn (sims nd) (mkSq sn K 0) Fs eq_refl []). cbn [s_reg].
  rewrite (find_reg_app_new K (regs nd) (mkReg K mx 1 t [a]) FK eq_refl []).
  rewrite GG. cbn [r_n r_tab s_pos].
  f_equal. unfold update_reg_at, set_node. cbn [nodes next_hid]. f_equal. f_equal.
  rewrite E. unfold with_regs, ext1, reg_with_tab.
  cbn [virt sims regs numRegs nextReg maxQ maxR r_num r_max r_n r_tab r_ids].
  match goal with |- context [set_reg (regs nd ++ [?r0]) ?r1] => rewrite (set_reg_app_new (regs nd) r0 r1 FK eq_refl []) end.
  cbn [set_reg map]. reflexivity.
Qed.

(* measuring the last temporary out, with its outcome *)
Lemma meas_out_t i s nd a v sn K mx t dk c :
  hid_inv s -> i < length (nodes s) -> nth_node s i = ext1 i nd a v sn K mx t dk -> fresh1 nd a sn K ->
  let o := fst (fst (measure 1 0 true c t)) in
  step s (OMeas a false c) = (mkNet (upd (nodes s) i (bump nd dk)) (next_hid s), Ok (if o then 1 else 0)).
Proof.
  intros HI Li E [Fa Fs FK _]. unfold step, op_meas.
  set (q := mkVq a v i sn a).
  assert (Hq : In q (virt (nth_node s i))) by (rewrite E; cbn [virt ext1]; apply in_or_app; right; simpl; auto).
  rewrite (find_handle_at s i q HI Hq : find_handle s a = Some (i, q)).
  unfold locate. cbn [v_simNode v_simNum q]. rewrite E. cbn [sims regs ext1].
  rewrite (find_sq_app_new sn (sims nd) (mkSq sn K 0) Fs eq_refl []). cbn [s_reg].
  rewrite (find_reg_app_new K (regs nd) (mkReg K mx 1 t [a]) FK eq_refl []).
  cbn [r_n r_tab s_pos].
  pose proof (measure_n 1 0 true c t) as M1. destruct (measure 1 0 true c t) as [[o n1] t1]. cbn [fst snd] in M1. subst n1.
  cbn [fst snd].
  rewrite remove_sim_eq.
  set (r1 := reg_with_tab _ 1 t1). set (x := mkSq sn K 0).
  set (t' := snd (measure _ _ false c _)).
  unfold update_reg_at. rewrite E.
  set (ndA := with_regs _ _ _).
  rewrite (nth_node_set_eq s i ndA Li).
  set (ndB := rm_node ndA x r1 t').
  assert (LA : i < length (nodes (set_node s i ndA))) by (rewrite set_node_length; exact Li).
  rewrite (nth_node_set_eq _ i ndB LA).
  assert (EB : ndB = mkNode (virt nd ++ [q]) (sims nd) (regs nd) (numRegs nd) (nextReg nd + dk) (maxQ nd) (maxR nd)).
  { unfold ndB, rm_node, ndA, with_regs, ext1, r1, x, reg_with_tab.
    cbn [virt sims regs numRegs nextReg maxQ maxR r_n r_num r_max r_ids s_pos s_simNum].
    cbn [Nat.sub Nat.eqb].
    rewrite (set_reg_app_new (regs nd) (mkReg K mx 1 t [a]) (mkReg K mx 1 t1 [a]) FK eq_refl []).
    rewrite (filter_sim_app_new sn (sims nd) (mkSq sn K 0) Fs eq_refl []).
    rewrite (del_reg_app_new K (regs nd) (mkReg K mx 1 t1 [a]) FK eq_refl _).
    cbn [filter set_reg map del_reg]. rewrite !app_nil_r, Nat.sub_0_r. reflexivity. }
  rewrite EB. unfold with_virt. cbn [virt sims regs numRegs nextReg maxQ maxR].
  rewrite (remove_vq_app_new a (virt nd) q Fa eq_refl []). cbn [remove_vq filter]. rewrite app_nil_r.
  f_equal. unfold set_node. cbn [nodes next_hid]. rewrite !upd_upd. reflexivity.
Qed.

(* ---- the outcome table of the engine calls Model V makes = Epr.md_outcomes ------------------------------------------------------ *)
Definition eng_gate (b : mbasis) : option gate1 := match b with BZ => None | BX => Some GH | BY => Some GK end.
Lemma eng_gate_ok b : match basis_g1 b with None => eng_gate b = None | Some g => gate1_of g = eng_gate b end.
Proof. destruct b; reflexivity. Qed.
Definition rot (b : mbasis) (n : nat) (t : tab) : tab := match eng_gate b with None => t | Some g => tab_gate1 g n 0 t end.
(* the register of the two temporaries after H and CNOT, as Model V builds it: H on the one-qubit register, then the merge *)
Definition pair_tab : tab := tab_gate2 GCNOT 2 0 1 (tensor 1 (tab_gate1 GH 1 0 (add_qubit 0 [])) 1 (add_qubit 0 [])).
Definition mv_after_first (bl : mbasis) (c1 : bool) : tab :=
  snd (measure 2 0 false c1 (snd (measure 2 0 true c1 (rot bl 2 pair_tab)))).
Definition mv_outcomes (bl br : mbasis) (c1 c2 : bool) : bool * bool :=
  (fst (fst (measure 2 0 true c1 (rot bl 2 pair_tab))), fst (fst (measure 1 0 true c2 (rot br 1 (mv_after_first bl c1))))).

Lemma pair_tab_is_bell : pair_tab = bell_tab.
Proof. vm_compute. reflexivity. Qed.
Lemma mv_outcomes_table bl br c1 c2 : mv_outcomes bl br c1 c2 = md_outcomes bl br c1 c2.
Proof. destruct bl, br, c1, c2; vm_compute; reflexivity. Qed.

Definition b2n (b : bool) : nat := if b then 1 else 0.
(* one basis rotation as a (possibly empty) list of native operations *)
Definition basis_ops (h : nat) (b : mbasis) : list op := match basis_g1 b with None => [] | Some g => [OGate1 h g] end.

(* ---- the theorem ---------------------------------------------------------------------------------------------------------------- *)
(* every native call of a successful measure-directly pair creation, one after the other: results and final network *)
Theorem md_steps i s s1 s2 v1 v2 bl br c1 c2 :
  ginv s -> step s (ONew i) = (s1, Ok v1) -> step s1 (ONew i) = (s2, Ok v2) ->
  let a1 := next_hid s in let a2 := S (next_hid s) in
  let o := md_outcomes bl br c1 c2 in
  exists s3 s4 s5 s6 s7,
    step s2 (OGate1 a1 NH) = (s3, OkNone) /\ step s3 (OGate2 a1 a2 NCnot) = (s4, OkNone) /\
    match basis_g1 bl with None => s5 = s4 | Some g => step s4 (OGate1 a1 g) = (s5, OkNone) end /\
    step s5 (OMeas a1 false c1) = (s6, Ok (b2n (fst o))) /\
    match basis_g1 br with None => s7 = s6 | Some g => step s6 (OGate1 a2 g) = (s7, OkNone) end /\
    step s7 (OMeas a2 false c2) = (mkNet (upd (nodes s) i (bump (nth_node s i) 2)) (S (S (next_hid s))), Ok (b2n (snd o))) /\
    next_hid s1 = a2 /\ next_hid s2 = S a2 /\
    ginv (mkNet (upd (nodes s) i (bump (nth_node s i) 2)) (S (S (next_hid s)))) /\
    (* in between: the two temporaries are the ONLY qubits of one register of node i, whose tableau is |Phi+>'s *)
    exists sn1 sn2, nth_node s4 i = ext2m i (nth_node s i) a1 v1 sn1 a2 v2 sn2 (nextReg (nth_node s i)) 11 bell_tab 2.
Proof.
  intros G S1 S2 a1 a2 o. set (nd := nth_node s i).
  destruct (new_shape_t i s s1 v1 G S1) as (sn1 & N1 & X1 & Li & F1). fold nd a1 in N1, F1.
  assert (G1 : ginv s1) by (pose proof (step_ginv s (ONew i) G) as X; rewrite S1 in X; exact X).
  assert (L1 : i < length (nodes s1)) by (rewrite N1, upd_length; exact Li).
  pose proof (nth_node_of_nodes s s1 i _ N1 Li) as E1.
  destruct (new_shape_t i s1 s2 v2 G1 S2) as (sn2 & N2 & X2 & _ & F2).
  rewrite E1 in N2, F2. rewrite X1 in N2, F2, X2. fold a1 a2 in N2, F2, X2.
  cbn [nextReg ext1] in N2, F2. set (K1 := nextReg nd) in *. set (K2 := K1 + 1) in *.
  assert (G2 : ginv s2) by (pose proof (step_ginv s1 (ONew i) G1) as X; rewrite S2 in X; exact X).
  assert (L2 : i < length (nodes s2)) by (rewrite N2, upd_length; exact L1).
  pose proof (nth_node_of_nodes s1 s2 i _ N2 L1) as E2.
  set (q0 := add_qubit 0 []) in *.
  (* H *)
  pose proof (gate1_nested_t i s2 nd a1 v1 sn1 K1 10 q0 1 a2 v2 sn2 K2 10 q0 1 NH GH (proj1 G2) L2 eq_refl E2 F1 F2) as S3.
  set (s3 := mkNet _ _) in S3.
  assert (G3 : ginv s3) by (pose proof (step_ginv s2 (OGate1 a1 NH) G2) as X; rewrite S3 in X; exact X).
  assert (L3 : i < length (nodes s3)) by (unfold s3; cbn [nodes]; rewrite upd_length; exact L2).
  assert (E3 : nth_node s3 i = ext1 i (ext1 i nd a1 v1 sn1 K1 10 (tab_gate1 GH 1 0 q0) 1) a2 v2 sn2 K2 10 q0 1).
  { apply (nth_node_of_nodes s2 s3 i); [reflexivity|exact L2]. }
  (* CNOT *)
  pose proof (gate2_nested_t i s3 nd a1 v1 sn1 K1 10 (tab_gate1 GH 1 0 q0) 1 a2 v2 sn2 K2 10 q0 1 (proj1 G3) L3 E3 F1
                (fresh1_tab _ _ _ _ _ _ _ _ _ _ _ _ _ F2)) as S4.
  fold pair_tab in S4. change (10 + 1) with 11 in S4. change (1 + 1) with 2 in S4.
  set (s4 := mkNet _ _) in S4.
  assert (G4 : ginv s4) by (pose proof (step_ginv s3 (OGate2 a1 a2 NCnot) G3) as X; rewrite S4 in X; exact X).
  assert (L4 : i < length (nodes s4)) by (unfold s4; cbn [nodes]; rewrite upd_length; exact L3).
  assert (E4 : nth_node s4 i = ext2m i nd a1 v1 sn1 a2 v2 sn2 K1 11 pair_tab 2).
  { apply (nth_node_of_nodes s3 s4 i); [reflexivity|exact L3]. }
  destruct F2 as [Fa2 Fs2 FK2 FsK2]. cbn [virt sims regs ext1] in Fa2, Fs2, FK2, FsK2. rewrite map_app in Fa2, Fs2.
  assert (Na : a2 <> a1) by (unfold a2, a1; lia).
  assert (Ns : sn2 <> sn1) by (intro; subst; apply Fs2; apply in_or_app; right; simpl; auto).
  (* the rotation of the first temporary *)
  assert (R5 : exists s5, match basis_g1 bl with None => s5 = s4 | Some g => step s4 (OGate1 a1 g) = (s5, OkNone) end /\
                          ginv s5 /\ i < length (nodes s5) /\ next_hid s5 = next_hid s4 /\ nodes s5 = upd (nodes s4) i (nth_node s5 i) /\
                          nth_node s5 i = ext2m i nd a1 v1 sn1 a2 v2 sn2 K1 11 (rot bl 2 pair_tab) 2).
  { assert (GATE : forall g gg, gate1_of g = Some gg -> exists s5, step s4 (OGate1 a1 g) = (s5, OkNone) /\
                          ginv s5 /\ i < length (nodes s5) /\ next_hid s5 = next_hid s4 /\ nodes s5 = upd (nodes s4) i (nth_node s5 i) /\
                          nth_node s5 i = ext2m i nd a1 v1 sn1 a2 v2 sn2 K1 11 (tab_gate1 gg 2 0 pair_tab) 2).
    { intros g gg GG.
      pose proof (gate1_pair_first_t i s4 nd a1 v1 sn1 a2 v2 sn2 K1 11 pair_tab 2 g gg (proj1 G4) L4 GG E4 F1) as S5.
      eexists. split; [exact S5|].
      split; [pose proof (step_ginv s4 (OGate1 a1 g) G4) as X; rewrite S5 in X; exact X|].
      cbn [nodes next_hid]. split; [rewrite upd_length; exact L4|]. split; [reflexivity|].
      assert (EN : nth_node (mkNet (upd (nodes s4) i (ext2m i nd a1 v1 sn1 a2 v2 sn2 K1 11 (tab_gate1 gg 2 0 pair_tab) 2)) (next_hid s4)) i =
                   ext2m i nd a1 v1 sn1 a2 v2 sn2 K1 11 (tab_gate1 gg 2 0 pair_tab) 2).
      { apply (nth_node_of_nodes s4 _ i); [reflexivity|exact L4]. }
      rewrite EN. split; reflexivity. }
    destruct bl; cbn [basis_g1]; unfold rot; cbn [eng_gate].
    - exists s4. split; [reflexivity|]. split; [exact G4|]. split; [exact L4|]. split; [reflexivity|].
      split; [symmetry; apply upd_same|exact E4].
    - exact (GATE NH GH eq_refl).
    - exact (GATE NK GK eq_refl). }
  destruct R5 as (s5 & S5 & G5 & L5 & X5 & N5 & E5).
  (* the first temporary is measured out *)
  pose proof (meas_first_t i s5 nd a1 v1 sn1 a2 v2 sn2 K1 11 (rot bl 2 pair_tab) 2 c1 (proj1 G5) L5 E5 F1 Na Ns) as S6.
  cbv zeta in S6. fold (mv_after_first bl c1) in S6.
  set (s6 := mkNet _ _) in S6.
  assert (G6 : ginv s6) by (pose proof (step_ginv s5 (OMeas a1 false c1) G5) as X; rewrite S6 in X; exact X).
  assert (L6 : i < length (nodes s6)) by (unfold s6; cbn [nodes]; rewrite upd_length; exact L5).
  assert (E6 : nth_node s6 i = ext1 i nd a2 v2 sn2 K1 11 (mv_after_first bl c1) 2).
  { apply (nth_node_of_nodes s5 s6 i); [reflexivity|exact L5]. }
  assert (F6 : fresh1 nd a2 sn2 K1).
  { destruct F1 as [Fa Fs FK FsK]. constructor; auto.
    - intro H. apply Fa2. apply in_or_app. left. exact H.
    - intro H. apply Fs2. apply in_or_app. left. exact H. }
  (* the rotation of the second *)
  assert (R7 : exists s7, match basis_g1 br with None => s7 = s6 | Some g => step s6 (OGate1 a2 g) = (s7, OkNone) end /\
                          ginv s7 /\ i < length (nodes s7) /\ next_hid s7 = next_hid s6 /\ nodes s7 = upd (nodes s6) i (nth_node s7 i) /\
                          nth_node s7 i = ext1 i nd a2 v2 sn2 K1 11 (rot br 1 (mv_after_first bl c1)) 2).
  { assert (GATE : forall g gg, gate1_of g = Some gg -> exists s7, step s6 (OGate1 a2 g) = (s7, OkNone) /\
                          ginv s7 /\ i < length (nodes s7) /\ next_hid s7 = next_hid s6 /\ nodes s7 = upd (nodes s6) i (nth_node s7 i) /\
                          nth_node s7 i = ext1 i nd a2 v2 sn2 K1 11 (tab_gate1 gg 1 0 (mv_after_first bl c1)) 2).
    { intros g gg GG.
      pose proof (gate1_single_t i s6 nd a2 v2 sn2 K1 11 (mv_after_first bl c1) 2 g gg (proj1 G6) L6 GG E6 F6) as S7.
      eexists. split; [exact S7|].
      split; [pose proof (step_ginv s6 (OGate1 a2 g) G6) as X; rewrite S7 in X; exact X|].
      cbn [nodes next_hid]. split; [rewrite upd_length; exact L6|]. split; [reflexivity|].
      assert (EN : nth_node (mkNet (upd (nodes s6) i (ext1 i nd a2 v2 sn2 K1 11 (tab_gate1 gg 1 0 (mv_after_first bl c1)) 2)) (next_hid s6)) i =
                   ext1 i nd a2 v2 sn2 K1 11 (tab_gate1 gg 1 0 (mv_after_first bl c1)) 2).
      { apply (nth_node_of_nodes s6 _ i); [reflexivity|exact L6]. }
      rewrite EN. split; reflexivity. }
    destruct br; cbn [basis_g1]; unfold rot; cbn [eng_gate].
    - exists s6. split; [reflexivity|]. split; [exact G6|]. split; [exact L6|]. split; [reflexivity|].
      split; [symmetry; apply upd_same|exact E6].
    - exact (GATE NH GH eq_refl).
    - exact (GATE NK GK eq_refl). }
  destruct R7 as (s7 & S7 & G7 & L7 & X7 & N7 & E7).
  pose proof (meas_out_t i s7 nd a2 v2 sn2 K1 11 (rot br 1 (mv_after_first bl c1)) 2 c2 (proj1 G7) L7 E7 F6) as S8.
  cbv zeta in S8.
  assert (OO : o = mv_outcomes bl br c1 c2) by (unfold o; symmetry; apply mv_outcomes_table).
  exists s3, s4, s5, s6, s7.
  split; [exact S3|]. split; [exact S4|]. split; [exact S5|].
  split. { rewrite S6, OO. reflexivity. }
  split; [exact S7|].
  split.
  { rewrite S8, OO. unfold mv_outcomes, b2n. cbn [fst snd]. f_equal.
    rewrite N7, upd_upd. unfold s6. cbn [nodes next_hid]. rewrite upd_upd, N5, upd_upd.
    unfold s4, s3. cbn [nodes next_hid]. rewrite !upd_upd, N2, upd_upd, N1, upd_upd. f_equal.
    rewrite X7. unfold s6. cbn [next_hid]. rewrite X5. unfold s4, s3. cbn [next_hid]. exact X2. }
  assert (FIN : mkNet (upd (nodes s7) i (bump nd 2)) (next_hid s7) = mkNet (upd (nodes s) i (bump nd 2)) (S (S (next_hid s)))).
  { f_equal.
    - rewrite N7, upd_upd. unfold s6. cbn [nodes next_hid]. rewrite upd_upd, N5, upd_upd.
      unfold s4, s3. cbn [nodes next_hid]. rewrite !upd_upd, N2, upd_upd, N1, upd_upd. reflexivity.
    - rewrite X7. unfold s6. cbn [next_hid]. rewrite X5. unfold s4, s3. cbn [next_hid]. exact X2. }
  split; [exact X1|]. split; [exact X2|].
  split. { pose proof (step_ginv s7 (OMeas a2 false c2) G7) as X. rewrite S8 in X. cbn [fst] in X. rewrite FIN in X. exact X. }
  exists sn1, sn2. rewrite E4, pair_tab_is_bell. reflexivity.
Qed.

(* ... as one statement about Model V: the operations, run from any state satisfying the invariant in which the two creations
   are accepted, return the outcomes of the table and leave the network as it was up to the two counters *)
Definition md_ops (i a1 a2 : nat) (bl br : mbasis) (c1 c2 : bool) : list op :=
  [ONew i; ONew i; OGate1 a1 NH; OGate2 a1 a2 NCnot] ++ basis_ops a1 bl ++ [OMeas a1 false c1] ++ basis_ops a2 br ++ [OMeas a2 false c2].
Definition basis_outs (b : mbasis) : list out := match basis_g1 b with None => [] | Some _ => [OkNone] end.

Theorem md_temps_restored i s v1 v2 bl br c1 c2 :
  ginv s -> snd (step s (ONew i)) = Ok v1 -> snd (step (fst (step s (ONew i))) (ONew i)) = Ok v2 ->
  let ops := md_ops i (next_hid s) (S (next_hid s)) bl br c1 c2 in
  let o := md_outcomes bl br c1 c2 in
  run s ops = mkNet (upd (nodes s) i (bump (nth_node s i) 2)) (S (S (next_hid s))) /\
  run_outs s ops = [Ok v1; Ok v2; OkNone; OkNone] ++ basis_outs bl ++ [Ok (b2n (fst o))] ++ basis_outs br ++ [Ok (b2n (snd o))] /\
  (let '(o1, o2) := o in phi_plus_possible bl br o1 o2) = true.
Proof.
  intros G OK1 OK2 ops o.
  destruct (step s (ONew i)) as [s1 r1] eqn:S1. cbn [fst snd] in *. subst r1.
  destruct (step s1 (ONew i)) as [s2 r2] eqn:S2. cbn [fst snd] in *. subst r2.
  destruct (md_steps i s s1 s2 v1 v2 bl br c1 c2 G S1 S2) as (s3 & s4 & s5 & s6 & s7 & S3 & S4 & S5 & S6 & S7 & S8 & _).
  fold o in S6, S8.
  assert (POS : (let '(o1, o2) := o in phi_plus_possible bl br o1 o2) = true).
  { unfold o. clear. destruct bl, br, c1, c2; vm_compute; reflexivity. }
  split; [|split; [|exact POS]].
  - unfold ops, md_ops, basis_ops, run. cbn [app fold_left]. rewrite S1. cbn [fst]. rewrite S2. cbn [fst]. rewrite S3. cbn [fst].
    rewrite S4. cbn [fst].
    destruct (basis_g1 bl) as [gl|]; cbn [app fold_left]; [rewrite S5; cbn [fst]|subst s5]; rewrite S6; cbn [fst];
      (destruct (basis_g1 br) as [gr|]; cbn [app fold_left]; [rewrite S7; cbn [fst]|subst s7]; rewrite S8; reflexivity).
  - unfold ops, md_ops, basis_ops, basis_outs. cbn [app run_outs]. rewrite S1, S2, S3, S4.
    destruct (basis_g1 bl) as [gl|]; cbn [app run_outs]; [rewrite S5|subst s5]; rewrite S6;
      (destruct (basis_g1 br) as [gr|]; cbn [app run_outs]; [rewrite S7|subst s7]; rewrite S8; reflexivity).
Qed.
