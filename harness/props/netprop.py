"""Shared driver of the five Model-V properties (C01, C02, C05, C06, C07): property theorems, random programs on the
in-process network with exact step-by-step correspondence, independent oracles, shrinking, findings."""
import random

import common
import net_gen2 as G2
import net_run as R
import net_sync as N

TRUST = ["harness/net_pb.py: a share of the programs runs over the real Perspective Broker (PBClientFactory/PBServerFactory joined by twisted.test.iosim "
         "fake transports, links flushed to quiescence after each operation), so remote references and remote errors take the production path",
         "harness/net_sync.py drives the unmodified virtualNode/virtualQubit/simulatedQubit/stabilizerEngine objects of the scratch copy in one interpreter: "
         "connect_to_node replaced by direct wiring, module-global reactor replaced by twisted task.Clock, StabilizerState's randint replaced by a scripted coin",
         "Twisted (inlineCallbacks, DeferredLock) and numpy are not modelled; all locks are free between operations (sequential semantics)",
         "oracles (state-vector ideal register, object-graph walk, capacity/atomicity rules) are plain Python, independent of the Coq model"]


def scenario(env, caps, sym):
    """fixed symbolic program (handles named by the index of the creating operation); a refused or crashed creating
    operation just drops its dependants"""
    return R.replay(env, caps, sym)


def run_property(ctx, pid, profiles, nprog, nops, scenarios=(), own_props=None, extra=None, pb_every=5, props_file=True):
    own_props = own_props or [pid]
    ctx.trusted += TRUST
    if props_file:
        common.check_properties_file(ctx)
    env = N.setup()
    rng = ctx.rng
    runners = []
    for i in range(nprog):
        # every pb_every-th program runs over the real Perspective Broker (in-memory transports) instead of direct calls
        use_pb = pb_every and (i % pb_every == pb_every - 1)
        if i % 4 == 3:
            # every fourth program keeps several multi-qubit registers side by side on one node (harness/net_gen2.py)
            runners.append(G2.clustered_program(env, rng, nops, pb=use_pb))
        else:
            runners.append(R.random_program(env, rng, nops, profiles[i % len(profiles)], pb=use_pb))
        if use_pb:
            ctx.count("programs_over_real_PB")
    fixed = []
    for (name, caps, ops) in scenarios:
        r = scenario(env, caps, ops)
        r.scenario = name
        fixed.append(r)
        r = R.replay(env, caps, ops, pb=True)
        r.scenario = name + "@pb"
        fixed.append(r)
        ctx.count("programs_over_real_PB")
    allr = fixed + runners
    # ---- coverage -----------------------------------------------------------------------------------------
    for r in allr:
        for k, v in r.stats.items():
            ctx.count(k, v)
        for st in r.steps:
            ctx.case((str(r.caps), str(st[0]), str(st[2])), nontrivial=True)
    ctx.count("programs", len(allr))
    ctx.sample(R.program_of(allr[0]))
    ctx.sample(R.program_of(allr[-1]))
    # fail closed when a placement case was never exercised
    if pid == "C01":
        missing = [c for c in range(1, 8) for g in ("cnot", "cphase") if ("case%d_%s" % (c, g)) not in ctx.coverage]
        ctx.obligation("all 7 placement cases x {cnot, cphase} exercised", not missing, "never hit: %r" % missing)
    # fail closed when the two client operations on registers, or one of their refusal causes, were never exercised
    if pid in ("C01", "C02", "C05", "C07"):
        need = ["op_newreg", "refused_newreg_KQuantum", "op_newinreg", "op_newinregq", "newinreg_ok_at_pos0", "newinreg_ok_at_pos1",
                "newinreg_register_full", "newinreg_node_full", "newinreg_foreign"]
        missing = [k for k in need if k not in ctx.coverage]
        ctx.obligation("client register operations (remote_add_register, remote_new_qubit_inreg) and all their refusal causes exercised",
                       not missing, "never hit: %r" % missing)
    # ---- correspondence -------------------------------------------------------------------------------------
    bad = R.correspond(ctx, allr, "Model V vs virtual nodes")
    # ---- oracle verdicts --------------------------------------------------------------------------------------
    found = False
    seen = set()
    for r in allr:
        probs = [p for p in r.problems if p["prop"] in own_props]
        if not probs:
            continue
        p = probs[0]
        sym = R.symbolic(r, p["step"])
        want = p["what"].split(":")[0][:40]

        def pred(rr, want=want):
            return any(q["prop"] in own_props and q["what"].startswith(want[:25]) for q in rr.problems)
        small = R.shrink(env, r.caps, sym, pred, pb=r.pb)
        rr = R.replay(env, r.caps, small, pb=r.pb)
        pp = [q for q in rr.problems if q["prop"] in own_props]
        what = pp[0]["what"] if pp else p["what"]
        key = "%s:%s" % (pid, what.split(":")[0][:60])
        if key in seen:
            continue
        seen.add(key)
        ctx.obligation("oracle %s" % key, False, what)
        if ctx.report(key, what, {"caps": r.caps, "ops": [list(o) for o in small],
                                  "note": "handles are named by the index of the creating operation", "over_real_PB": r.pb,
                                  "impl_outs": [s[1] for s in rr.steps]}, found_input=True):
            found = True
        else:
            ctx.broken_explained_by_known = True
    if not seen:
        ctx.obligation("oracles (%s) hold after every operation of every program" % ", ".join(own_props), True)
    if extra:
        extra(ctx, env, allr)
    if bad and not found and not seen:
        r, i = bad[0]
        ctx.report("correspondence:%s" % pid,
                   "model and implementation disagree (no property oracle is violated on the explored programs)",
                   {"caps": r.caps, "ops": [list(s[0]) for s in r.steps[:i + 1]], "impl_out": r.steps[i][1],
                    "broken": ctx.broken()}, found_input=False)
