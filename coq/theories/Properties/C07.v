(* C07 — per-node qubit capacity is enforced exactly (Model V). *)
From Coq Require Import List Bool Arith.
From SQ Require Import Base.ListUtil Net.Model Net.Refusal Net.Capacity Net.CapacityHist.
Import ListNotations.

(* after ANY history of operations (failed ones included) on ANY network, every node holds at most its configured maximum *)
Theorem C07_never_more_than_configured_max : forall caps ops i,
  i < length caps ->
  length (virt (nth_node (run (init_net caps) ops) i)) <= fst (nth i caps (0, 0)).
Proof. exact held_le_configured_max. Qed.
Print Assumptions C07_never_more_than_configured_max.

(* creating succeeds iff the node holds fewer than the maximum (and a register can still be created: a fresh qubit needs a fresh register) *)
Theorem C07_create_iff : forall s i, i < length (nodes s) ->
  let nd := nth_node s i in
  (snd (step s (ONew i)) = Err KNoQubit <-> maxQ nd <= length (virt nd)) /\
  (snd (step s (ONew i)) = Err KQuantum <-> length (virt nd) < maxQ nd /\ maxR nd <= numRegs nd) /\
  ((exists v, snd (step s (ONew i)) = Ok v) <-> length (virt nd) < maxQ nd /\ numRegs nd < maxR nd).
Proof. exact new_decision. Qed.
Print Assumptions C07_create_iff.

(* creating a qubit inside a register the node lists succeeds iff the node holds fewer than its maximum and the register has room *)
Theorem C07_create_in_register_iff : forall s i ow k r, i < length (nodes s) ->
  find_reg k (regs (nth_node s ow)) = Some r ->
  let nd := nth_node s i in
  (snd (step s (ONewInReg i ow k)) = Err KQuantum <-> ow <> i) /\
  (snd (step s (ONewInReg i ow k)) = Err KNoQubit <-> ow = i /\ (maxQ nd <= length (virt nd) \/ r_max r <= r_n r)) /\
  ((exists v, snd (step s (ONewInReg i ow k)) = Ok v) <-> ow = i /\ length (virt nd) < maxQ nd /\ r_n r < r_max r).
Proof. exact newinreg_decision. Qed.
Print Assumptions C07_create_in_register_iff.

(* `creating more registers than the configured maximum is refused`: remote_add_register succeeds iff fewer than the maximum exist *)
Theorem C07_create_register_iff : forall s i mq, i < length (nodes s) ->
  let nd := nth_node s i in
  (snd (step s (ONewReg i mq)) = Err KQuantum <-> maxR nd <= numRegs nd) /\
  ((exists v, snd (step s (ONewReg i mq)) = Ok v) <-> numRegs nd < maxR nd) /\
  (snd (step s (ONewReg i mq)) = Ok (nextReg nd) <-> numRegs nd < maxR nd).
Proof. exact newreg_decision. Qed.
Print Assumptions C07_create_register_iff.

(* receiving succeeds iff the receiver holds fewer than its maximum — wherever the qubit is simulated *)
Theorem C07_receive_iff : forall s h t vi q, find_handle s h = Some (vi, q) ->
  (snd (step s (OSend h t)) = Err KVirtNet <-> length (nodes s) <= t) /\
  (snd (step s (OSend h t)) = Err KNoQubit <-> t < length (nodes s) /\ maxQ (nth_node s t) <= length (virt (nth_node s t))) /\
  ((exists v, snd (step s (OSend h t)) = Ok v) <-> t < length (nodes s) /\ length (virt (nth_node s t)) < maxQ (nth_node s t)).
Proof. exact send_decision. Qed.
Print Assumptions C07_receive_iff.

(* register merges never fail for capacity reasons: a two-qubit gate is refused only for identical operands *)
Theorem C07_merges_never_refused_for_capacity : forall s h1 h2 g k,
  snd (step s (OGate2 h1 h2 g)) = Err k -> k = KValue.
Proof. exact gate2_refusals. Qed.
Print Assumptions C07_merges_never_refused_for_capacity.

(* history level, against the CONFIGURED maximum: the limit a node enforces never drifts ... *)
Theorem C07_enforced_limit_is_the_configured_one_forever : forall caps ops i,
  maxQ (nth_node (run (init_net caps) ops) i) = fst (nth i caps (0, 0)).
Proof. exact configured_max_constant. Qed.
Print Assumptions C07_enforced_limit_is_the_configured_one_forever.

(* ... after ANY history a node holding exactly its configured maximum refuses creation (noQubitError, nothing changes) ... *)
Theorem C07_full_node_refuses_creation : forall caps ops i,
  i < length caps ->
  length (virt (nth_node (run (init_net caps) ops) i)) = fst (nth i caps (0, 0)) ->
  step (run (init_net caps) ops) (ONew i) = (run (init_net caps) ops, Err KNoQubit).
Proof. exact full_node_refuses_creation. Qed.
Print Assumptions C07_full_node_refuses_creation.

(* ... and every hand-over towards it; the whole network, the sender's qubit included, is unchanged ... *)
Theorem C07_full_node_refuses_receive : forall caps ops h t vi q,
  t < length caps ->
  find_handle (run (init_net caps) ops) h = Some (vi, q) ->
  length (virt (nth_node (run (init_net caps) ops) t)) = fst (nth t caps (0, 0)) ->
  step (run (init_net caps) ops) (OSend h t) = (run (init_net caps) ops, Err KNoQubit).
Proof. exact full_node_refuses_receive. Qed.
Print Assumptions C07_full_node_refuses_receive.

(* ... while below the configured maximum creation is never refused for lack of qubit capacity (the limit is exact, not early) *)
Theorem C07_below_max_never_refused_for_capacity : forall caps ops i,
  i < length caps ->
  length (virt (nth_node (run (init_net caps) ops) i)) < fst (nth i caps (0, 0)) ->
  snd (step (run (init_net caps) ops) (ONew i)) <> Err KNoQubit.
Proof. exact below_max_never_noqubit. Qed.
Print Assumptions C07_below_max_never_refused_for_capacity.
