(* Model F, part 3: the server-side stream parser  NetQASMProtocol.dataReceived / _parse_message
   (simulaqron/netqasm_backend/factory.py:90-133).  Executable definitions only; proofs are in StreamProofs.v.

   Two parsers are modelled:
     parse_cur / feed_cur : the code as found (one message per dataReceived call, payload = buf[8:] not cut)
     parse_fix / feed_fix : the repaired code (fixes/D08-frame-loop.diff): `while True:` around
                            _parse_message + handle, payload = buf[8:hdr.length]
   `self.buf` is None or b"" when empty; `if self.buf: buf + data else data` is concatenation in both cases. *)
From Coq Require Import List NArith Arith Lia Bool.
From SQ Require Import Base.ListUtil Frame.Bytes Frame.Msg.
Import ListNotations.
Open Scope N_scope.

Definition frame := (N * hostmsg)%type.          (* (msg_id, msg) as passed to handle_netqasm_message *)

Inductive pres :=
| PIncomplete                                     (* IncompleteMessageError *)
| PRaise                                          (* ValueError out of deserialize_host_msg: propagates, buf untouched *)
| PParsed (id : N) (m : hostmsg) (rest : bytes).

(* MessageHeader.from_buffer_copy(self.buf): ValueError (-> IncompleteMessageError) below 8 bytes *)
Definition hdr (buf : bytes) : option (N * N) :=
  if (8 <=? length buf)%nat then Some (rd32_at 0 buf, rd32_at 4 buf) else None.

Definition parse_fix (buf : bytes) : pres :=
  match hdr buf with
  | None => PIncomplete
  | Some (id, hlen) =>
      if blen buf <? hlen then PIncomplete
      else match deser (slice 8 hlen buf) with
           | None => PRaise
           | Some m => PParsed id m (drop hlen buf)
           end
  end.

Definition parse_cur (buf : bytes) : pres :=
  match hdr buf with
  | None => PIncomplete
  | Some (id, hlen) =>
      if blen buf <? hlen then PIncomplete
      else match deser (drop 8 buf) with
           | None => PRaise
           | Some m => PParsed id m (drop hlen buf)
           end
  end.

Inductive status := SWait | SRaise | SFuel.

Definition status_eqb (a b : status) : bool :=
  match a, b with SWait, SWait | SRaise, SRaise | SFuel, SFuel => true | _, _ => false end.

(* the repaired loop; fuel = S (length buf) is always enough (StreamProofs.drainF_no_fuel) *)
Fixpoint drainF (fuel : nat) (buf : bytes) : list frame * bytes * status :=
  match fuel with
  | O => ([], buf, SFuel)
  | S f =>
      match parse_fix buf with
      | PIncomplete => ([], buf, SWait)
      | PRaise => ([], buf, SRaise)
      | PParsed id m rest => let '(hs, r, s) := drainF f rest in ((id, m) :: hs, r, s)
      end
  end.

Definition drain (buf : bytes) := drainF (S (length buf)) buf.

(* one dataReceived call: (messages handed to the handler in order, new self.buf, how the call ended) *)
Definition feed_fix (buf data : bytes) : list frame * bytes * status := drain (buf ++ data).

Definition feed_cur (buf data : bytes) : list frame * bytes * status :=
  let b := buf ++ data in
  match parse_cur b with
  | PIncomplete => ([], b, SWait)
  | PRaise => ([], b, SRaise)
  | PParsed id m rest => ([(id, m)], rest, SWait)
  end.

(* a sequence of dataReceived calls on one connection *)
Fixpoint run (feed : bytes -> bytes -> list frame * bytes * status) (buf : bytes) (cs : list bytes)
  : list frame * bytes :=
  match cs with
  | [] => ([], buf)
  | c :: cs' =>
      let '(h1, r1, _) := feed buf c in
      let '(h2, r2) := run feed r1 cs' in (h1 ++ h2, r2)
  end.

Definition run_fix := run feed_fix.
Definition run_cur := run feed_cur.

(* what SimulaQronConnection._commit_serialized_message puts on the wire (connection.py:185-191) *)
Definition enc1 (f : frame) : bytes :=
  let '(id, m) := f in le32 id ++ le32 (8 + blen (ser m)) ++ ser m.

Definition encode (ms : list frame) : bytes := flat_map enc1 ms.

Definition wf_frame (f : frame) : Prop :=
  let '(id, m) := f in u32_ok id /\ wf_host m /\ u32_ok (8 + blen (ser m)).

Definition frame_eqb (a b : frame) : bool := (fst a =? fst b) && hostmsg_eqb (snd a) (snd b).

Fixpoint frames_eqb (a b : list frame) : bool :=
  match a, b with
  | [], [] => true
  | x :: a', y :: b' => frame_eqb x y && frames_eqb a' b'
  | _, _ => false
  end.
