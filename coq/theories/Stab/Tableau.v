(* Tableau-level model of StabilizerState: product of rows with the phase rule as coded,
   Gaussian elimination as coded (all 2n+1 columns, rows above the pivot included),
   tensor product, add_qubit, equality, membership and measurement. Executable; theorems elsewhere. *)
From Coq Require Import List Bool Arith Lia.
From SQ Require Import Base.ListUtil Stab.Pauli Stab.Kernels.
Import ListNotations.

Definition tab := list row.

(* ---------- _multiply_stabilizers / _multiply_compute_phase (stabilizer_states.py:318-374) ------- *)

(* positions where (P1,P2) in {XY,YZ,ZX} give +i, {YX,ZY,XZ} give -i *)
Definition is_plus_i (a b : pauli) : bool :=
  match a, b with PX,PY | PY,PZ | PZ,PX => true | _,_ => false end.
Definition is_minus_i (a b : pauli) : bool :=
  match a, b with PY,PX | PZ,PY | PX,PZ => true | _,_ => false end.

Definition count_pos (n : nat) (f : nat -> bool) : nat :=
  length (filter f (seq 0 n)).

Definition pauli_at' (n : nat) (r : row) (i : nat) : pauli := pauli_of (get r i) (get r (i + n)).

(* ((num_i - num_minus_i) % 4) / 2 is a float in {0,0.5,1,1.5}; numpy's logical_xor takes its truth value *)
Definition has_minus_phase (n : nat) (s1 s2 : row) : bool :=
  let ni := count_pos n (fun i => is_plus_i (pauli_at' n s1 i) (pauli_at' n s2 i)) in
  let nm := count_pos n (fun i => is_minus_i (pauli_at' n s1 i) (pauli_at' n s2 i)) in
  negb (Nat.eqb ((ni + 4 * nm - nm) mod 4) 0).      (* (ni - nm) mod 4, python semantics, <> 0 *)

Fixpoint xor_prefix (k : nat) (a b : row) : row :=
  match k with
  | O => []
  | S k' => xorb (hd false a) (hd false b) :: xor_prefix k' (tl a) (tl b)
  end.

Definition mul_rows (n : nat) (s1 s2 : row) : row :=
  xor_prefix (2 * n) s1 s2 ++ [xorb (xorb (get s1 (2 * n)) (get s2 (2 * n))) (has_minus_phase n s1 s2)].

(* ---------- boolean_gaussian_elimination (stabilizer_states.py:263-312) ------------------------- *)

Fixpoint find_pivot_from (i : nat) (k : nat) (t : tab) : option nat :=   (* first row index >= h ... *)
  match t with
  | [] => None
  | r :: t' => if get r k then Some i else find_pivot_from (S i) k t'
  end.
Definition find_pivot (h k : nat) (t : tab) : option nat := find_pivot_from h k (skipn h t).

Definition swap_rows (t : tab) (a b : nat) : tab :=
  upd (upd t a (nth b t [])) b (nth a t []).

Fixpoint map_idx_from {A B} (i : nat) (f : nat -> A -> B) (l : list A) : list B :=
  match l with [] => [] | x :: t => f i x :: map_idx_from (S i) f t end.
Definition map_idx {A B} (f : nat -> A -> B) (l : list A) : list B := map_idx_from 0 f l.

Definition eliminate (n h k : nat) (t : tab) : tab :=
  let piv := nth h t [] in
  map_idx (fun j r => if negb (Nat.eqb j h) && get r k then mul_rows n r piv else r) t.

(* fuel = number of columns still to visit; k increases by one per iteration exactly as in the code *)
Fixpoint gauss_aux (fuel n k h : nat) (t : tab) : tab :=
  match fuel with
  | O => t
  | S f =>
      if Nat.ltb h (length t) then
        match find_pivot h k t with
        | None => gauss_aux f n (S k) h t
        | Some i =>
            let t1 := if Nat.eqb i h then t else swap_rows t h i in
            gauss_aux f n (S k) (S h) (eliminate n h k t1)
        end
      else t
  end.

(* a tableau for n qubits has 2n+1 columns; n is passed explicitly because permuted/extended matrices
   (measure, contains) have a different number of rows *)
Definition gauss (n : nat) (t : tab) : tab := gauss_aux (2 * n + 1) n 0 0 t.

(* ---------- construction ----------------------------------------------------------------------- *)

Definition zero_state_row (n i : nat) : row :=
  map (fun j => Nat.eqb j (i + n)) (seq 0 (2 * n + 1)).
Definition zero_state (n : nat) : tab := map (zero_state_row n) (seq 0 n).

Definition xpart (n : nat) (r : row) : row := firstn n r.
Definition zpart (n : nat) (r : row) : row := firstn n (skipn n r).
Definition sgn_of (n : nat) (r : row) : bool := get r (2 * n).

(* tensor_product (stabilizer_states.py:473-507), block_diag of X parts and Z parts *)
Definition tensor (n1 : nat) (t1 : tab) (n2 : nat) (t2 : tab) : tab :=
  match n1, n2 with
  | O, _ => t2
  | _, O => t1
  | _, _ =>
    map (fun r => xpart n1 r ++ repeat false n2 ++ zpart n1 r ++ repeat false n2 ++ [sgn_of n1 r]) t1 ++
    map (fun r => repeat false n1 ++ xpart n2 r ++ repeat false n1 ++ zpart n2 r ++ [sgn_of n2 r]) t2
  end.

Definition add_qubit (n : nat) (t : tab) : tab := tensor n t 1 [[false; true; false]].

(* ---------- gates on whole tableaux ------------------------------------------------------------- *)
Definition tab_gate1 (g : gate1) (n p : nat) (t : tab) : tab :=
  map (match g with
       | GX => apply_X_row n p | GY => apply_Y_row n p | GZ => apply_Z_row n p
       | GH => apply_H_row n p | GK => apply_K_row n p | GS => apply_S_row n p end) t.
Definition tab_gate2 (g : gate2) (n c t' : nat) (t : tab) : tab :=
  map (match g with GCNOT => apply_CNOT_row n c t' | GCZ => apply_CZ_row n c t' end) t.

(* ---------- equality / membership --------------------------------------------------------------- *)
Definition row_eqb (a b : row) : bool := list_eqb Bool.eqb a b.
Definition tab_eqb (a b : tab) : bool := list_eqb row_eqb a b.

Definition teq (n1 : nat) (t1 : tab) (n2 : nat) (t2 : tab) : bool :=
  Nat.eqb n1 n2 && tab_eqb (gauss n1 t1) (gauss n2 t2).

Definition symp (n : nat) (a b : row) : bool :=      (* true = anticommute *)
  fold_right xorb false
    (map (fun i => xorb (get a i && get b (i + n)) (get a (i + n) && get b i)) (seq 0 n)).
Definition all_commute (n : nat) (t : tab) : bool :=
  forallb (fun a => forallb (fun b => negb (symp n a b)) t) t.

Definition is_zero_row (r : row) : bool := forallb negb r.
Definition num_zero_rows (t : tab) : nat := length (filter is_zero_row t).

(* _contains: stabilizer given with explicit sign column *)
Definition contains (n : nat) (t : tab) (g : row) : bool :=
  let ext := t ++ [g] in
  if all_commute n ext then Nat.eqb (num_zero_rows (gauss n ext)) 1 else false.

(* ---------- measurement (stabilizer_states.py:703-784) ------------------------------------------ *)
Definition others (n p : nat) : list nat := filter (fun i => negb (Nat.eqb i p)) (seq 0 n).
Definition perm_row (n p : nat) (r : row) : row :=
  get r p :: map (get r) (others n p) ++ get r (p + n) :: map (fun i => get r (i + n)) (others n p) ++ [get r (2 * n)].
(* inverse of perm_row: column j of the result *)
Definition unperm_col (n p j : nat) : nat :=
  (* where does original column j sit in the permuted row *)
  if Nat.eqb j (2 * n) then 2 * n
  else let base := if Nat.ltb j n then 0 else n in
       let q := j - base in
       if Nat.eqb q p then base else if Nat.ltb q p then base + q + 1 else base + q.
Definition unperm_row (n p : nat) (r : row) : row :=
  map (fun j => get r (unperm_col n p j)) (seq 0 (2 * n + 1)).

Definition z_first (n : nat) : row := map (fun j => Nat.eqb j n) (seq 0 (2 * n + 1)).

(* returns (outcome, new n, new tableau). coin = the value randint(0,1) returns (only used in the random branch) *)
Definition measure (n p : nat) (inplace : bool) (coin : bool) (t : tab) : bool * nat * tab :=
  let tmp := gauss n (map (perm_row n p) t) in
  if get (nth 0 tmp []) 0 then
    let outcome := coin in
    let tmp1 := if outcome then map (fun r => flip_if (get r n) r (2 * n)) tmp else tmp in
    if negb inplace then
      (outcome, n - 1,
       map (fun r => firstn (n - 1) (skipn 1 r) ++ skipn (n + 1) r) (skipn 1 tmp1))
    else
      let first := if outcome then upd (z_first n) (2 * n) true else z_first n in
      let rest := map (fun r => upd r n false) (skipn 1 tmp1) in
      (outcome, n, map (unperm_row n p) (first :: rest))
  else
    let outcome := negb (contains n tmp (z_first n)) in
    if negb inplace then
      let back := map (unperm_row n p) tmp in
      let kept := filter (fun r => negb (get r (n + p))) back in
      (outcome, n - 1,
       map (fun r => map (get r) (filter (fun j => negb (Nat.eqb j p) && negb (Nat.eqb j (p + n))) (seq 0 (2 * n + 1)))) kept)
    else
      (outcome, n, map (unperm_row n p) tmp).
