"""Independent numerical oracle for stabilizer properties (C13, C14, C15, C01, C08): plain 2^n x 2^n matrices.
Nothing here imports simulaqron or mirrors the Coq model; it is the judge used when a tie breaks, and a
cross-check of the textbook link 'stabilizer group <-> state' that the Coq development does not re-prove."""
import itertools

import numpy as np

I2 = np.eye(2, dtype=complex)
PX = np.array([[0, 1], [1, 0]], dtype=complex)
PY = np.array([[0, -1j], [1j, 0]], dtype=complex)
PZ = np.array([[1, 0], [0, -1]], dtype=complex)
GH = np.array([[1, 1], [1, -1]], dtype=complex) / np.sqrt(2)
GK = np.array([[1, -1j], [1j, -1]], dtype=complex) / np.sqrt(2)
GS = np.array([[1, 0], [0, 1j]], dtype=complex)
G1 = {"X": PX, "Y": PY, "Z": PZ, "H": GH, "K": GK, "S": GS}
PAULI = {(False, False): I2, (True, False): PX, (True, True): PY, (False, True): PZ}


def kron_all(ms):
    out = np.array([[1]], dtype=complex)
    for m in ms:
        out = np.kron(out, m)
    return out


def op1(n, p, m):
    return kron_all([m if i == p else I2 for i in range(n)])


def op2(n, c, t, kind):
    """CNOT / CZ with control c, target t; qubit 0 is the most significant bit"""
    d = 2 ** n
    u = np.zeros((d, d), dtype=complex)
    for b in range(d):
        bits = [(b >> (n - 1 - i)) & 1 for i in range(n)]
        if kind == "CNOT":
            nb = list(bits)
            if bits[c]:
                nb[t] ^= 1
            b2 = sum(x << (n - 1 - i) for i, x in enumerate(nb))
            u[b2, b] = 1
        else:
            u[b, b] = -1 if (bits[c] and bits[t]) else 1
    return u


def row_matrix(row, n):
    row = [bool(x) for x in row]
    m = kron_all([PAULI[(row[i], row[i + n])] for i in range(n)])
    return -m if row[2 * n] else m


def projector(tab, n):
    d = 2 ** n
    p = np.eye(d, dtype=complex)
    for r in tab:
        p = p @ (np.eye(d) + row_matrix(r, n)) / 2
    return p


def is_pure_state(p):
    return abs(np.trace(p) - 1) < 1e-9 and np.allclose(p @ p, p, atol=1e-9) and np.allclose(p, p.conj().T, atol=1e-9)


def close(a, b):
    return a.shape == b.shape and np.allclose(a, b, atol=1e-9)


def partial_trace_out(rho, n, p):
    """trace out qubit p of an n-qubit density matrix (remaining qubits keep their order)"""
    r = rho.reshape([2] * (2 * n))
    r = np.trace(r, axis1=p, axis2=n + p)
    return r.reshape(2 ** (n - 1), 2 ** (n - 1))


# ---- an independent tableau generator (CHP rules written from the textbook, not from simulaqron) ----------
def ref_zero(n):
    t = np.zeros((n, 2 * n + 1), dtype=bool)
    for i in range(n):
        t[i, n + i] = True
    return t


def ref_gate(t, n, g, *pos):
    t = t.copy()
    if g == "H":
        (p,) = pos
        x, z = t[:, p].copy(), t[:, p + n].copy()
        t[:, -1] ^= x & z
        t[:, p], t[:, p + n] = z, x
    elif g == "S":
        (p,) = pos
        x, z = t[:, p].copy(), t[:, p + n].copy()
        t[:, -1] ^= x & z
        t[:, p + n] = z ^ x
    elif g == "CNOT":
        c, tt = pos
        xc, zc, xt, zt = t[:, c].copy(), t[:, c + n].copy(), t[:, tt].copy(), t[:, tt + n].copy()
        t[:, -1] ^= xc & zt & ~(xt ^ zc)
        t[:, tt] = xt ^ xc
        t[:, c + n] = zc ^ zt
    return t


_PH = {("X", "Y"): 1, ("Y", "Z"): 1, ("Z", "X"): 1, ("Y", "X"): 3, ("Z", "Y"): 3, ("X", "Z"): 3}
_NAME = {(False, False): "I", (True, False): "X", (True, True): "Y", (False, True): "Z"}


def ref_mul(a, b, n):
    """exact product of two commuting signed Pauli rows"""
    ph = (2 if a[2 * n] else 0) + (2 if b[2 * n] else 0)
    out = np.zeros(2 * n + 1, dtype=bool)
    for i in range(n):
        pa, pb = _NAME[(bool(a[i]), bool(a[i + n]))], _NAME[(bool(b[i]), bool(b[i + n]))]
        ph += _PH.get((pa, pb), 0)
        out[i] = a[i] ^ b[i]
        out[i + n] = a[i + n] ^ b[i + n]
    ph %= 4
    assert ph in (0, 2), "rows do not commute"
    out[2 * n] = ph == 2
    return out


def ref_random_tableau(n, rng, mix=True):
    t = ref_zero(n)
    for _ in range(4 * n + 2):
        g = rng.choice(["H", "S", "CNOT"] if n > 1 else ["H", "S"])
        if g == "CNOT":
            c, tt = rng.sample(range(n), 2)
            t = ref_gate(t, n, g, c, tt)
        else:
            t = ref_gate(t, n, g, rng.randrange(n))
    if mix and n > 1:
        for _ in range(rng.randrange(2 * n)):
            i, j = rng.sample(range(n), 2)
            if rng.random() < 0.3:
                t[[i, j]] = t[[j, i]]
            else:
                t[i] = ref_mul(t[i], t[j], n)
    return t


def group_elements(t, n):
    els = set()
    for sel in itertools.product([0, 1], repeat=n):
        cur = np.zeros(2 * n + 1, dtype=bool)
        for k, s in enumerate(sel):
            if s:
                cur = ref_mul(cur, t[k], n)
        els.add(tuple(bool(x) for x in cur))
    return frozenset(els)


def all_stabilizer_states(n):
    """every stabilizer state on n qubits (n<=3), one tableau each, by closure under H,S,CNOT"""
    start = ref_zero(n)
    seen = {group_elements(start, n): start}
    todo = [start]
    while todo:
        t = todo.pop()
        succ = []
        for p in range(n):
            succ.append(ref_gate(t, n, "H", p))
            succ.append(ref_gate(t, n, "S", p))
        for c in range(n):
            for tt in range(n):
                if c != tt:
                    succ.append(ref_gate(t, n, "CNOT", c, tt))
        for s in succ:
            k = group_elements(s, n)
            if k not in seen:
                seen[k] = s
                todo.append(s)
    return list(seen.values())


def generating_sets(t, n, rng, k=2):
    """a few other generating sets of the same group (row operations)"""
    out = [t]
    for _ in range(k):
        u = t.copy()
        if n > 1:
            for _ in range(rng.randrange(1, 2 * n)):
                i, j = rng.sample(range(n), 2)
                if rng.random() < 0.4:
                    u[[i, j]] = u[[j, i]]
                else:
                    u[i] = ref_mul(u[i], u[j], n)
        out.append(u)
    return out
