"""C14 — stabilizer measurement follows the Born rule and collapses correctly.
   obligations   : Properties/C14.v (group-level measurement theorems)
   correspondence: exact outcome + size + generator matrix of Stab/Tableau.v `measure` vs the real StabilizerState.measure,
                   randint forced both ways, every state / generating set / position / mode
   oracle        : Born probability, projected state, partial trace with 2^n x 2^n matrices (harness/oracle_meas.py)"""
import json

import numpy as np

import common
import oracle_meas as OM
import oracle_np as O
import stab_common as S


def impl_measure(tin, p, inplace, coin):
    """run the real measure with randint forced to `coin`; returns (outcome, n_after, tableau_after, coin_was_used)"""
    import simulaqron.toolbox.stabilizer_states as M
    used = []

    def forced(a, b):
        used.append((a, b))
        return coin

    old = M.randint
    M.randint = forced
    try:
        s = S.mk_state(tin)
        out = s.measure(p, inplace=inplace)
    finally:
        M.randint = old
    return int(out), int(s.num_qubits), S.arr_of(s), bool(used)


def case_text(n, p, inplace, coin, tin, out, nout, tout):
    return "CMeasure %d %d %s %s %s %s %d %s" % (n, p, common.cbool(inplace), common.cbool(coin), common.ctab(tin),
                                                 common.cbool(out), nout, common.ctab(tout))


def bug_shapes():
    """the two shapes named in the changelog"""
    out = []
    # (a) qubit in a Z eigenstate while *other* generators carry Z at the measured position
    out.append(("z-eigenstate, other generators carry Z at p", 2, 1, [[0, 0, 1, 1, 0], [0, 0, 0, 1, 0]]))       # ZZ, IZ  (|00>)
    out.append(("z-eigenstate, other generators carry Z at p", 2, 0, [[0, 0, 1, 1, 1], [0, 0, 1, 0, 1]]))       # -ZZ, -ZI (|10>)
    out.append(("z-eigenstate, other generators carry Z at p", 3, 1, [[1, 0, 1, 0, 1, 0, 0], [0, 0, 0, 1, 1, 1, 1], [0, 0, 0, 0, 1, 0, 1]]))
    out.append(("z-eigenstate, other generators carry Z at p", 3, 2, [[1, 1, 0, 0, 0, 1, 0], [0, 0, 0, 1, 1, 1, 0], [0, 0, 0, 0, 0, 1, 0]]))
    # (b) elimination needs a row swap (the pivot for the measured qubit's X column is not in the first row)
    out.append(("elimination with row swap", 2, 0, [[0, 0, 0, 1, 0], [1, 0, 0, 0, 0]]))                        # IZ, XI
    out.append(("elimination with row swap", 2, 1, [[0, 0, 1, 1, 0], [1, 1, 0, 0, 1]]))                        # ZZ, -XX
    out.append(("elimination with row swap", 3, 2, [[0, 0, 0, 1, 1, 0, 0], [0, 0, 0, 0, 1, 1, 0], [1, 1, 1, 0, 0, 0, 0]]))  # GHZ, XXX last
    out.append(("elimination with row swap", 3, 1, [[0, 0, 0, 1, 0, 1, 1], [1, 0, 1, 0, 0, 0, 0], [0, 1, 0, 0, 1, 0, 0]]))
    return [(w, n, p, [[bool(x) for x in r] for r in t]) for (w, n, p, t) in out]


def run(ctx):
    rng = ctx.rng
    thorough = ctx.tier == "thorough"
    nmax = 3 if thorough else 2
    ctx.trusted += ["numpy primitives used by StabilizerState.measure (fancy column indexing, argsort, boolean row masks, concatenate): modelled by hand, exercised by the correspondence",
                    "random.randint replaced by a forced coin (the only source of randomness in measure)",
                    "link stabilizer group <-> Hilbert-space state and the Born rule for stabilizer states: not re-proved; evaluated numerically by oracle_meas on every case"]
    ctx.rule = ("exhaustive: every stabilizer state on 1..%d qubits (closure under H,S,CNOT) in 1+2 generating sets x every position x in-place/destructive x coin 0/1, "
                "each in-place result re-measured with both coins; the changelog bug shapes; wide structured states (GHZ / odd-parity superpositions on 6..8 qubits under layers of S and H on every qubit, several generating sets: row products with +-i imbalance up to 8); random reference-generated states on 3..8 qubits; raw boolean matrices (model totality); "
                "a case is non-trivial if the tableau after differs from the tableau before; distinct = distinct (input tableau, position, mode, coin)" % nmax)
    common.check_properties_file(ctx)

    cases = []            # (coq text, description)
    oracle_bad = []       # (key, description dict)

    def one_input(n, tin, p, inplace, judge=True, tag="state"):
        """both coins on one (state, position, mode); oracle on everything; returns the two results"""
        tin = S.tabl(tin)
        res = []
        for coin in (0, 1):
            out, nout, tout, used = impl_measure(tin, p, inplace, coin)
            d = {"op": "measure", "n": n, "pos": p, "inplace": inplace, "coin": coin, "in": tin,
                 "impl_outcome": out, "impl_n": nout, "impl_out": tout, "coin_used": used, "class": tag}
            cases.append((case_text(n, p, inplace, coin, tin, out, nout, tout), d))
            ctx.case((tag, n, p, inplace, coin, str(tin)), nontrivial=(tout != tin))
            ctx.count("branch_%s_%s" % ("random" if used else "determined", "inplace" if inplace else "destructive"))
            res.append(d)
        if not judge:
            return res
        rho = O.projector(tin, n)
        pr0 = OM.born(rho, n, p, 0)
        for d in res:
            ok, why, _ = OM.judge_measure(tin, n, p, inplace, d["impl_outcome"], d["impl_n"], d["impl_out"])
            ctx.count("oracle_evaluations")
            if not ok:
                oracle_bad.append(("collapse" if "result" in why else "outcome", dict(d, why=why)))
        o0, o1 = res[0]["impl_outcome"], res[1]["impl_outcome"]
        if 1e-9 < pr0 < 1 - 1e-9:
            ctx.count("oracle_random_states")
            if {o0, o1} != {0, 1}:
                oracle_bad.append(("both-occur", dict(res[0], why="both outcomes have probability %.3f but the two coins give %d and %d" % (pr0, o0, o1))))
        else:
            ctx.count("oracle_determined_states")
            certain = 0 if pr0 > 0.5 else 1
            if o0 != certain or o1 != certain:
                oracle_bad.append(("certain", dict(res[0], why="qubit is in a Z eigenstate with certain outcome %d but coins give %d and %d" % (certain, o0, o1))))
        if inplace:
            # immediate re-measurement repeats the outcome and leaves the state alone, whatever the coin
            for d in res:
                if d["impl_n"] != n or not OM.shape_ok(d["impl_out"], n):
                    continue
                for coin in (0, 1):
                    out2, n2, t2, used2 = impl_measure(d["impl_out"], p, True, coin)
                    d2 = {"op": "re-measure", "n": n, "pos": p, "inplace": True, "coin": coin, "in": d["impl_out"],
                          "impl_outcome": out2, "impl_n": n2, "impl_out": t2, "coin_used": used2, "first": d}
                    cases.append((case_text(n, p, True, coin, d["impl_out"], out2, n2, t2), d2))
                    ctx.case(("re", n, p, coin, str(d["impl_out"])), nontrivial=(t2 != d["impl_out"]))
                    ctx.count("remeasure")
                    good = (out2 == d["impl_outcome"] and n2 == n and OM.shape_ok(t2, n)
                            and O.close(O.projector(t2, n), O.projector(d["impl_out"], n)))
                    if not good:
                        oracle_bad.append(("repeat", dict(d2, why="re-measurement gave %d after %d or changed the state" % (out2, d["impl_outcome"]))))
        return res

    # ---- replay of a stored witness ---------------------------------------------------------------------------
    if ctx.replay:
        r = json.load(open(ctx.replay))["replay"]
        if isinstance(r, dict) and "in" in r:
            one_input(r["n"], r["in"], r["pos"], r["inplace"], tag="replay")

    # ---- exhaustive small states --------------------------------------------------------------------------------
    nstates = 0
    for n in range(1, nmax + 1):
        for t in O.all_stabilizer_states(n):
            nstates += 1
            for u in O.generating_sets(t, n, rng, 2 if n > 1 else 0):
                for p in range(n):
                    for inplace in (True, False):
                        one_input(n, u, p, inplace)
    ctx.count("exhaustive_states", nstates)
    ctx.coverage["exhaustive"] = True
    ctx.coverage["exhaustive_scope"] = "all stabilizer states on 1..%d qubits x 3 generating sets x all positions x both modes x both coins" % nmax

    # ---- historical bug shapes ------------------------------------------------------------------------------------
    for what, n, p, t in bug_shapes():
        for inplace in (True, False):
            one_input(n, t, p, inplace, tag="bugshape:" + what)
        ctx.count("bug_shapes")

    # ---- wide structured states: the elimination multiplies rows that meet in many X.Y / Y.Z / Z.X positions, so that the +i/-i imbalance
    # of a row product reaches +-4, +-6, +-8 (random circuits of this length almost never do) --------------------------------------------
    def wide_states(n):
        out = []
        ghz = O.ref_zero(n)
        ghz = O.ref_gate(ghz, n, "H", 0)
        for j in range(1, n):
            ghz = O.ref_gate(ghz, n, "CNOT", 0, j)
        # odd-parity superposition (the construction of a demonstration by a reviewer): CNOT(j,1), H(0), CNOT(0,j)
        odd = O.ref_zero(n)
        for j in range(2, n):
            odd = O.ref_gate(odd, n, "CNOT", j, 1)
        odd = O.ref_gate(odd, n, "H", 0)
        for j in range(1, n):
            odd = O.ref_gate(odd, n, "CNOT", 0, j)
        for base_name, base in (("ghz", ghz), ("odd", odd)):
            for layers in (["S"], ["S", "H"], ["H", "S"], ["S", "H", "S"], ["H", "S", "H"], ["S", "S", "S", "H"]):
                t = base
                for g in layers:
                    for q in range(n):
                        t = O.ref_gate(t, n, g, q)
                out.append((base_name + ":" + "".join(layers), t))
        return out
    for n in ((6, 7, 8) if thorough else (6, 7)):
        for name, t in wide_states(n):
            for u in [t] + O.generating_sets(t, n, rng, 2 if thorough else 1):
                for p in ([0, n // 2, n - 1] if not thorough else range(n)):
                    for inplace in (True, False):
                        one_input(n, u, p, inplace, tag="wide:" + name)
            ctx.count("wide_structured_states_n%d" % n)

    # ---- random larger states ---------------------------------------------------------------------------------------
    for _ in range(250 if thorough else 40):
        n = rng.randrange(3, 9)
        t = O.ref_random_tableau(n, rng)
        p = rng.randrange(n)
        for inplace in (True, False):
            one_input(n, t, p, inplace, tag="random")
        ctx.count("random_states_n%d" % n)

    # ---- malformed stream: raw boolean matrices (the model must follow the code even off the valid states), bad positions
    for _ in range(150 if thorough else 40):
        n = rng.randrange(1, 5)
        t = [[rng.random() < 0.4 for _ in range(2 * n + 1)] for _ in range(n)]
        try:
            one_input(n, t, rng.randrange(n), rng.random() < 0.5, judge=False, tag="raw")
            ctx.count("raw_matrix_cases")
        except Exception as e:          # the implementation may legitimately choke on a non-state; not a verdict
            ctx.count("raw_matrix_impl_exception:" + type(e).__name__)
    badpos_ok = True
    for _ in range(20):
        n = rng.randrange(1, 5)
        t = S.tabl(O.ref_random_tableau(n, rng))
        p = rng.choice([n, n + 1, -1, -n - 1, 17])
        s = S.mk_state(t)
        try:
            s.measure(p, inplace=rng.random() < 0.5)
            badpos_ok = False
        except ValueError:
            badpos_ok = badpos_ok and S.arr_of(s) == t and s.num_qubits == n
        ctx.count("bad_position_calls")
    ctx.obligation("a position outside [0,n) is refused with ValueError and leaves the state untouched", badpos_ok)

    for c in cases[:2] + cases[-2:]:
        ctx.sample({k: v for k, v in c[1].items() if k != "first"})
    # raw (non-state) matrices are outside the property: their agreement is reported as coverage, not as an obligation
    raw = [c for c in cases if c[1].get("class") == "raw"]
    cases = [c for c in cases if c[1].get("class") != "raw"]
    failing = S.run_cases(ctx, cases, "stabilizer measurement (outcome, size, generator matrix)")
    if raw:
        ok, out = common.coq_eval(S.coq_cases_text([c[0] for c in raw]))
        lists = common.parse_nat_lists(out) if ok else []
        ctx.coverage["raw_matrix_model_disagreements"] = len(lists[0]) if len(lists) == 1 else "not evaluated"
    ctx.count("oracle_disagreements", len(oracle_bad))
    ctx.obligation("oracle (Born probability > 0, projected state, partial trace, both outcomes reachable, repeatability) accepts the implementation on every case",
                   not oracle_bad, repr([(k, d["why"]) for k, d in oracle_bad[:2]]))

    # ---- verdict --------------------------------------------------------------------------------------------------------
    if oracle_bad:
        # smallest failing input (fewest qubits, then shortest text) per failure class
        seen = set()
        for key, d in sorted(oracle_bad, key=lambda kd: (kd[1]["n"], len(str(kd[1]["in"])), str(kd[1]["in"]))):
            if key in seen:
                continue
            seen.add(key)
            d = {k: v for k, v in d.items() if k != "first"}
            ctx.report("oracle:measure:" + key, "measure(position=%d, inplace=%s) on a %d-qubit state: %s" % (d["pos"], d["inplace"], d["n"], d["why"]), d, True)
    elif ctx.broken():
        ctx.report("broken:" + ";".join(ctx.broken()),
                   "proof obligation / correspondence no longer checks: " + "; ".join(ctx.broken()),
                   {"broken": ctx.broken(), "first_disagreement": [{k: v for k, v in d.items() if k != "first"} for d in failing[:1]]},
                   found_input=False)
