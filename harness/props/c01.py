"""C01 — location transparency (Model V + ideal-register oracle)."""
from props import netprop, scen


def run(ctx):
    t = ctx.tier == "thorough"
    ctx.rule = ("random native-operation programs (profiles mixed/merge/stale/refuse) over 1..4 nodes with <= 7 live qubits plus 16 deterministic "
                "placement scenarios; after EVERY operation the full bookkeeping dump (virtual list, simulated list, registers with exact generator "
                "matrices, counters) is compared with the Coq model and the joint state with an ideal single-register state-vector simulator; "
                "a case = one executed operation; distinct = distinct (capacities, operation, resulting dump)")
    netprop.run_property(ctx, "C01", ["merge", "mixed", "merge", "stale", "registers"], 1500 if t else 150, 30 if t else 24,
                         scenarios=scen.placement_cases() + scen.forwarding() + scen.register_limit() + scen.big_merge() + scen.register_api(), own_props=["C01"])
