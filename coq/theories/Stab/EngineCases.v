(* Correspondence cases for the engine layer (C15): a program over a pool of engines together with, for every call,
   what the real stabilizerEngine returned / raised and the (activeQubits, get_register_RI()) of every engine after it. *)
From Coq Require Import List Bool Arith.
From SQ Require Import Base.ListUtil Stab.Pauli Stab.Kernels Stab.Tableau Stab.Engine.
Import ListNotations.

Definition obs := list (nat * tab).

Definition eerr_eqb (a b : eerr) : bool :=
  match a, b with
  | ENoQubit, ENoQubit | EQuantum, EQuantum | EValue, EValue | EUnsupported, EUnsupported
  | ENotImpl, ENotImpl | EOther, EOther => true
  | _, _ => false
  end.

Definition eres_eqb (a b : eres) : bool :=
  match a, b with
  | RUnit, RUnit => true
  | RNat x, RNat y => Nat.eqb x y
  | ROutcome x, ROutcome y => Bool.eqb x y
  | RErr x, RErr y => eerr_eqb x y
  | _, _ => false
  end.

Definition obs_of (pool : list engine) : obs := map (fun e => (e_n e, e_tab e)) pool.

Definition obs_eqb (a b : obs) : bool :=
  list_eqb (fun x y => Nat.eqb (fst x) (fst y) && tab_eqb (snd x) (snd y)) a b.

(* index of the first call whose result or resulting pool differs; None = the whole program agrees *)
Fixpoint first_diff (k : nat) (pool : list engine) (p : list (pcall * eres * obs)) : option nat :=
  match p with
  | [] => None
  | (c, r, o) :: p' =>
      let '(pool', r') := pstep pool c in
      if eres_eqb r' r && obs_eqb (obs_of pool') o then first_diff (S k) pool' p' else Some k
  end.

Definition prog_ok (p : list (pcall * eres * obs)) : bool :=
  match first_diff 0 [] p with None => true | Some _ => false end.

Definition failing_progs (l : list (list (pcall * eres * obs))) : list nat := failing (map prog_ok l).
(* for the failing programs: the step at which they diverge *)
Definition diverge_at (l : list (list (pcall * eres * obs))) : list nat :=
  flat_map (fun p => match first_diff 0 [] p with None => [] | Some k => [k] end) l.
