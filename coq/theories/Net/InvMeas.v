(* invariant preservation: measurement (in place and destructive) *)
From Coq Require Import List Bool Arith Lia Permutation.
From SQ Require Import Base.ListUtil Stab.Tableau Net.Model Net.Refusal Net.Capacity Net.Handles Net.Fresh Net.Inv Net.InvNew.
Import ListNotations.

Lemma measure_n n p ip c t : snd (fst (measure n p ip c t)) = if ip then n else n - 1.
Proof.
  unfold measure. destruct (get _ _); destruct ip; simpl; auto.
Qed.

Lemma length_remove_nth {A} p (l : list A) : p < length l -> length (remove_nth p l) = length l - 1.
Proof.
  revert p; induction l as [|a t IH]; intros [|p] H; simpl in *; try lia. rewrite IH; lia.
Qed.

Lemma nth_remove_nth {A} p i (l : list A) d : i <> p ->
  nth (if Nat.ltb p i then i - 1 else i) (remove_nth p l) d = nth i l d.
Proof.
  revert p i; induction l as [|a t IH]; intros p i H.
  - destruct p; simpl; destruct (Nat.ltb _ _); destruct (i - 1); destruct i; auto.
  - destruct p as [|p]; simpl.
    + destruct i as [|i]; [lia|]. simpl. rewrite Nat.sub_0_r. auto.
    + destruct i as [|i]; simpl; auto.
      specialize (IH p i). destruct (Nat.ltb_spec p i); destruct (Nat.ltb_spec (S p) (S i)); try lia.
      * rewrite Nat.sub_0_r. destruct i; [lia|]. simpl in IH. rewrite Nat.sub_0_r in IH. apply IH; lia.
      * apply IH; lia.
Qed.

Lemma map_rnum_set_reg l r' : map r_num (set_reg l r') = map r_num l.
Proof.
  unfold set_reg. rewrite map_map. apply map_ext. intros x. destruct (Nat.eqb_spec (r_num x) (r_num r')); auto.
Qed.

Lemma in_set_reg l r' y : In y (set_reg l r') -> (In y l /\ r_num y <> r_num r') \/ y = r'.
Proof.
  unfold set_reg. intro H. apply in_map_iff in H as [z [E Hz]].
  destruct (Nat.eqb_spec (r_num z) (r_num r')); subst; auto.
Qed.

Lemma in_set_reg_other l r' y : In y l -> r_num y <> r_num r' -> In y (set_reg l r').
Proof.
  intros H N. unfold set_reg. apply in_map_iff. exists y. destruct (Nat.eqb_spec (r_num y) (r_num r')); tauto.
Qed.

Lemma in_set_reg_new l r r' : In r l -> r_num r = r_num r' -> In r' (set_reg l r').
Proof.
  intros H E. unfold set_reg. apply in_map_iff. exists r. rewrite E, Nat.eqb_refl. auto.
Qed.

Lemma in_del_reg l k y : In y (del_reg l k) <-> In y l /\ r_num y <> k.
Proof.
  unfold del_reg. rewrite filter_In. destruct (Nat.eqb_spec (r_num y) k); simpl; intuition congruence.
Qed.

Lemma length_del_reg l k : NoDup (map r_num l) -> In k (map r_num l) -> length (del_reg l k) = length l - 1.
Proof.
  unfold del_reg. induction l as [|a t IH]; simpl; [tauto|].
  intros Hn Hin. inversion Hn; subst.
  destruct (Nat.eqb_spec (r_num a) k); simpl.
  - rewrite Nat.sub_0_r. clear IH Hin.
    assert (forall y, In y t -> r_num y <> k).
    { intros y Hy E. apply H1. rewrite e, <- E. apply in_map; auto. }
    clear - H. induction t as [|b t IH]; simpl; auto.
    destruct (Nat.eqb_spec (r_num b) k); [exfalso; apply (H b); simpl; auto|]. simpl. f_equal. apply IH. intros; apply H; simpl; auto.
  - destruct Hin as [|Hin]; [congruence|]. rewrite IH; auto.
    destruct t; simpl in *; [tauto|lia].
Qed.

(* the node after _remove_sim_qubit, as a function of the node *)
Definition shift_sq (k p : nat) (y : sq) : sq :=
  if Nat.eqb (s_reg y) k && Nat.ltb p (s_pos y) then mkSq (s_simNum y) (s_reg y) (s_pos y - 1) else y.

Definition rm_node (nd : node) (x : sq) (r : reg) (t' : tab) : node :=
  let n' := r_n r - 1 in
  let r' := mkReg (r_num r) (r_max r) n' t' (remove_nth (s_pos x) (r_ids r)) in
  let keep := fun y => negb (Nat.eqb (s_simNum y) (s_simNum x)) in
  if Nat.eqb n' 0 then
    mkNode (virt nd) (filter keep (sims nd)) (del_reg (regs nd) (r_num r)) (numRegs nd - 1) (nextReg nd) (maxQ nd) (maxR nd)
  else
    mkNode (virt nd) (filter keep (map (shift_sq (r_num r) (s_pos x)) (sims nd))) (set_reg (regs nd) r')
           (numRegs nd) (nextReg nd) (maxQ nd) (maxR nd).

Lemma remove_sim_eq s ni x r coin :
  remove_sim s ni x r coin =
  set_node s ni (rm_node (nth_node s ni) x r (snd (measure (r_n r) (s_pos x) false coin (r_tab r)))).
Proof.
  unfold remove_sim, rm_node.
  pose proof (measure_n (r_n r) (s_pos x) false coin (r_tab r)) as E.
  destruct (measure (r_n r) (s_pos x) false coin (r_tab r)) as [[o n'] t']. simpl in E. subst n'. simpl snd.
  destruct (Nat.eqb (r_n r - 1) 0); reflexivity.
Qed.

Lemma shift_simNum k p y : s_simNum (shift_sq k p y) = s_simNum y.
Proof. unfold shift_sq. destruct (_ && _); auto. Qed.
Lemma shift_reg k p y : s_reg (shift_sq k p y) = s_reg y.
Proof. unfold shift_sq. destruct (_ && _); auto. Qed.
Lemma shift_pos k p y : s_pos (shift_sq k p y) =
  if Nat.eqb (s_reg y) k && Nat.ltb p (s_pos y) then s_pos y - 1 else s_pos y.
Proof. unfold shift_sq. destruct (_ && _); auto. Qed.

Lemma map_simNum_filter_shift k p (kf : sq -> bool) l :
  (forall y, kf (shift_sq k p y) = kf y) ->
  map s_simNum (filter kf (map (shift_sq k p) l)) = map s_simNum (filter kf l).
Proof.
  intros H. induction l as [|a t IH]; simpl; auto. rewrite H. destruct (kf a); simpl; rewrite ?shift_simNum, ?IH; auto.
Qed.

Lemma count_reg_filter_shift k p kk (kf : sq -> bool) l :
  (forall y, kf (shift_sq k p y) = kf y) ->
  length (filter (fun z => Nat.eqb (s_reg z) kk) (filter kf (map (shift_sq k p) l))) =
  length (filter (fun z => Nat.eqb (s_reg z) kk) (filter kf l)).
Proof.
  intros H. induction l as [|a t IH]; simpl; auto. rewrite H. destruct (kf a); simpl; auto.
  rewrite shift_reg. destruct (Nat.eqb (s_reg a) kk); simpl; auto.
Qed.

Lemma count_filter_one {A} (f g : A -> bool) (l : list A) (x : A) (key : A -> nat) :
  NoDup (map key l) -> In x l -> f x = true -> (forall y, g y = negb (Nat.eqb (key y) (key x))) ->
  length (filter f (filter g l)) = length (filter f l) - 1.
Proof.
  intros Hn Hx Hf Hg. induction l as [|a t IH]; simpl in *; [tauto|].
  inversion Hn; subst. rewrite Hg.
  destruct Hx as [->|Hx].
  - rewrite Nat.eqb_refl. simpl. rewrite Hf. simpl. rewrite Nat.sub_0_r.
    f_equal. clear IH. 
    assert (E : filter g t = t).
    { clear - H1 Hg. induction t as [|b t IH]; simpl; auto.
      rewrite Hg. destruct (Nat.eqb_spec (key b) (key x)); simpl.
      - exfalso. apply H1. rewrite <- e. simpl; auto.
      - f_equal. apply IH. intro Hin; apply H1; simpl; auto. }
    rewrite E. reflexivity.
  - destruct (Nat.eqb_spec (key a) (key x)).
    + exfalso. apply H1. rewrite e. apply in_map; auto.
    + simpl. destruct (f a); simpl; rewrite IH; auto.
      assert (0 < length (filter f t)).
      { clear - Hx Hf. induction t as [|b t IH]; simpl in *; [tauto|]. destruct Hx as [->|Hx]; [rewrite Hf; simpl; lia|].
        destruct (f b); simpl; auto; lia. }
      lia.
Qed.

Lemma count_filter_other {A} (f g : A -> bool) (l : list A) :
  (forall y, In y l -> f y = true -> g y = true) -> length (filter f (filter g l)) = length (filter f l).
Proof.
  intros H. induction l as [|a t IH]; simpl; auto.
  destruct (g a) eqn:Eg; simpl.
  - destruct (f a); simpl; rewrite IH; auto; intros; apply H; simpl; auto.
  - destruct (f a) eqn:Ef; [rewrite (H a) in Eg; simpl; auto; discriminate|]. apply IH. intros; apply H; simpl; auto.
Qed.

Lemma node_ok_rm nd x r t' :
  node_ok nd -> In x (sims nd) -> In r (regs nd) -> r_num r = s_reg x -> node_ok (rm_node nd x r t').
Proof.
  intros OK Hx Hr Ek.
  pose proof (ok_vnum nd OK) as ok_vnum0. pose proof (ok_snum nd OK) as ok_snum0. pose proof (ok_rnum nd OK) as ok_rnum0.
  pose proof (ok_rlt nd OK) as ok_rlt0. pose proof (ok_nregs nd OK) as ok_nregs0. pose proof (ok_rn nd OK) as ok_rn0.
  pose proof (ok_sreg nd OK) as ok_sreg0. pose proof (ok_pos_inj nd OK) as ok_pos_inj0. pose proof (ok_count nd OK) as ok_count0.
  set (p := s_pos x).
  assert (Px : p < r_n r).
  { destruct (ok_sreg0 x Hx) as [r2 [H2 [E2 L2]]].
    assert (r2 = r) by (apply (NoDup_map_inj r_num (regs nd)); auto; congruence). subst; auto. }
  set (keep := fun y => negb (Nat.eqb (s_simNum y) (s_simNum x))).
  assert (KEEP : forall y, In y (sims nd) -> keep y = true <-> y <> x).
  { intros y Hy. unfold keep. destruct (Nat.eqb_spec (s_simNum y) (s_simNum x)); simpl; split; intro K; try discriminate; auto.
    - exfalso. apply K. apply (NoDup_map_inj s_simNum (sims nd)); auto.
    - intro; subst; congruence. }
  assert (POSNE : forall y, In y (sims nd) -> y <> x -> s_reg y = (r_num r) -> s_pos y <> p).
  { intros y Hy Ne Ey Ep. apply Ne. apply (NoDup_map_inj s_simNum (sims nd)); auto.
    apply ok_pos_inj0; auto; congruence. }
  unfold rm_node. fold p. fold keep.
  destruct (Nat.eqb_spec (r_n r - 1) 0) as [Z|NZ].
  - (* last qubit of the register: the register is deleted *)
    assert (ONLY : forall y, In y (sims nd) -> s_reg y = (r_num r) -> y = x).
    { intros y Hy Ey. destruct (ok_sreg0 y Hy) as [r2 [H2 [E2 L2]]].
      assert (r2 = r) by (apply (NoDup_map_inj r_num (regs nd)); auto; congruence). subst r2.
      apply (NoDup_map_inj s_simNum (sims nd)); auto. apply ok_pos_inj0; auto; try congruence. fold p. lia. }
    constructor; cbn [virt sims regs numRegs nextReg]; auto.
    + apply NoDup_map_filter; auto.
    + unfold del_reg. apply NoDup_map_filter; auto.
    + intros y Hy. apply in_del_reg in Hy as [Hy _]. auto.
    + rewrite length_del_reg; auto. apply in_map; auto.
    + intros y Hy. apply in_del_reg in Hy as [Hy _]. auto.
    + intros y Hy. apply filter_In in Hy as [Hy Ky]. apply KEEP in Ky; auto.
      destruct (ok_sreg0 y Hy) as [r2 [H2 [E2 L2]]]. exists r2. split; auto. apply in_del_reg. split; auto.
      intro E. apply Ky. apply ONLY; auto. congruence.
    + intros y z Hy Hz. apply filter_In in Hy as [Hy _]. apply filter_In in Hz as [Hz _]. auto.
    + intros y Hy. apply in_del_reg in Hy as [Hy Ny].
      rewrite count_filter_other; auto.
      intros z Hz Ez. apply Nat.eqb_eq in Ez. apply KEEP; auto. intro; subst z. congruence.
  - set (r' := mkReg (r_num r) (r_max r) (r_n r - 1) t' (remove_nth p (r_ids r))).
    set (sh := shift_sq (r_num r) p).
    assert (INS : forall y, In y (filter keep (map sh (sims nd))) <-> exists y0, In y0 (sims nd) /\ y0 <> x /\ y = sh y0).
    { intros y. rewrite filter_In, in_map_iff. split.
      - intros [[y0 [E Hy0]] Ky]. exists y0. split; auto. split; auto. subst y.
        unfold keep in Ky. unfold sh in Ky. rewrite shift_simNum in Ky. apply (KEEP y0 Hy0). exact Ky.
      - intros [y0 [Hy0 [Ne ->]]]. split; [exists y0; auto|]. unfold keep, sh. rewrite shift_simNum. apply (KEEP y0 Hy0). auto. }
    constructor; cbn [virt sims regs numRegs nextReg]; auto.
    + assert (KSH : forall y, keep (shift_sq (r_num r) p y) = keep y) by (intro y; unfold keep; rewrite shift_simNum; auto).
      assert (E : map s_simNum (filter keep (map sh (sims nd))) = map s_simNum (filter keep (sims nd))).
      { apply map_simNum_filter_shift; auto. }
      rewrite E. apply NoDup_map_filter; auto.
    + rewrite map_rnum_set_reg; auto.
    + intros y Hy. apply in_set_reg in Hy as [[Hy _]| ->]; auto. simpl. apply ok_rlt0; auto.
    + unfold set_reg. rewrite map_length. auto.
    + intros y Hy. apply in_set_reg in Hy as [[Hy _]| ->]; auto. simpl.
      rewrite length_remove_nth; rewrite (ok_rn0 r Hr); auto.
    + intros y Hy. apply INS in Hy as [y0 [Hy0 [Ne ->]]]. unfold sh. rewrite shift_reg, shift_pos.
      destruct (ok_sreg0 y0 Hy0) as [r2 [H2 [E2 L2]]].
      destruct (Nat.eqb_spec (s_reg y0) (r_num r)) as [Ey|Ney]; simpl.
      * assert (r2 = r) by (apply (NoDup_map_inj r_num (regs nd)); auto; congruence). subst r2.
        exists r'. split; [apply in_set_reg_new with (r := r); auto|]. split; [simpl; congruence|]. simpl.
        pose proof (POSNE y0 Hy0 Ne Ey). destruct (Nat.ltb_spec p (s_pos y0)); lia.
      * exists r2. split; [apply in_set_reg_other; auto; simpl; congruence|]. auto.
    + intros y z Hy Hz E1 E2. apply INS in Hy as [y0 [Hy0 [Ney ->]]]. apply INS in Hz as [z0 [Hz0 [Nez ->]]].
      unfold sh in *. rewrite !shift_simNum. rewrite !shift_reg in E1. rewrite !shift_pos in E2.
      apply ok_pos_inj0; auto. rewrite <- E1 in E2.
      destruct (Nat.eqb_spec (s_reg y0) (r_num r)) as [Ey|]; simpl in E2; auto.
      pose proof (POSNE y0 Hy0 Ney Ey). pose proof (POSNE z0 Hz0 Nez (eq_trans (eq_sym E1) Ey)).
      destruct (Nat.ltb_spec p (s_pos y0)), (Nat.ltb_spec p (s_pos z0)); lia.
    + intros y Hy.
      assert (KSH : forall y, keep (shift_sq (r_num r) p y) = keep y) by (intro z; unfold keep; rewrite shift_simNum; auto).
      assert (EC : forall kk, length (filter (fun z => Nat.eqb (s_reg z) kk) (filter keep (map sh (sims nd)))) =
                              length (filter (fun z => Nat.eqb (s_reg z) kk) (filter keep (sims nd)))).
      { intro kk. apply count_reg_filter_shift; auto. }
      rewrite EC. apply in_set_reg in Hy as [[Hy Ny]| ->].
      * rewrite count_filter_other; auto. intros z Hz Ez. apply Nat.eqb_eq in Ez. apply KEEP; auto. intro; subst z. simpl in Ny. congruence.
      * simpl r_num. simpl r_n.
        assert (C1 : length (filter (fun z => Nat.eqb (s_reg z) (r_num r)) (filter keep (sims nd))) =
                     length (filter (fun z => Nat.eqb (s_reg z) (r_num r)) (sims nd)) - 1).
        { apply (count_filter_one (fun z => Nat.eqb (s_reg z) (r_num r)) keep (sims nd) x s_simNum); auto.
          apply Nat.eqb_eq. auto. }
        rewrite C1. rewrite (ok_count0 r Hr). reflexivity.
Qed.

(* what _remove_sim_qubit does to the simulated qubits and to the identities recorded in the registers *)
Lemma rm_node_spec nd x r t' :
  node_ok nd -> In x (sims nd) -> In r (regs nd) -> r_num r = s_reg x ->
  virt (rm_node nd x r t') = virt nd /\
  (forall z, In z (sims (rm_node nd x r t')) <->
             exists y0, In y0 (sims nd) /\ y0 <> x /\ z = shift_sq (r_num r) (s_pos x) y0) /\
  (forall y0 r0, In y0 (sims nd) -> y0 <> x -> In r0 (regs nd) -> r_num r0 = s_reg y0 ->
     exists r0', In r0' (regs (rm_node nd x r t')) /\ r_num r0' = s_reg y0 /\
                 nth (s_pos (shift_sq (r_num r) (s_pos x) y0)) (r_ids r0') 0 = nth (s_pos y0) (r_ids r0) 0).
Proof.
  intros OK Hx Hr Ek.
  pose proof (ok_snum nd OK) as ok_snum0. pose proof (ok_rnum nd OK) as ok_rnum0.
  pose proof (ok_sreg nd OK) as ok_sreg0. pose proof (ok_pos_inj nd OK) as ok_pos_inj0.
  set (p := s_pos x).
  set (keep := fun y => negb (Nat.eqb (s_simNum y) (s_simNum x))).
  assert (KEEP : forall y, In y (sims nd) -> keep y = true <-> y <> x).
  { intros y Hy. unfold keep. destruct (Nat.eqb_spec (s_simNum y) (s_simNum x)); simpl; split; intro K; try discriminate; auto.
    - exfalso. apply K. apply (NoDup_map_inj s_simNum (sims nd)); auto.
    - intro; subst; congruence. }
  assert (POSNE : forall y, In y (sims nd) -> y <> x -> s_reg y = r_num r -> s_pos y <> p).
  { intros y Hy Ne Ey Ep. apply Ne. apply (NoDup_map_inj s_simNum (sims nd)); auto.
    apply ok_pos_inj0; auto; congruence. }
  unfold rm_node. fold p. fold keep.
  destruct (Nat.eqb_spec (r_n r - 1) 0) as [Z|NZ]; cbn [virt sims regs].
  - assert (ONLY : forall y, In y (sims nd) -> s_reg y = r_num r -> y = x).
    { intros y Hy Ey. destruct (ok_sreg0 y Hy) as [r2 [H2 [E2 L2]]].
      assert (r2 = r) by (apply (NoDup_map_inj r_num (regs nd)); auto; congruence). subst r2.
      destruct (ok_sreg0 x Hx) as [r3 [H3 [E3 L3]]].
      assert (r3 = r) by (apply (NoDup_map_inj r_num (regs nd)); auto; congruence). subst r3.
      apply (NoDup_map_inj s_simNum (sims nd)); auto. apply ok_pos_inj0; auto; try congruence. lia. }
    assert (SHID : forall y0, In y0 (sims nd) -> y0 <> x -> shift_sq (r_num r) p y0 = y0).
    { intros y0 Hy0 Ne. unfold shift_sq. destruct (Nat.eqb_spec (s_reg y0) (r_num r)); simpl; auto.
      exfalso. apply Ne. apply ONLY; auto. }
    split; [reflexivity|]. split.
    + intros z. rewrite filter_In. split.
      * intros [Hz Kz]. exists z. apply KEEP in Kz; auto. split; auto. split; auto. symmetry. apply SHID; auto.
      * intros [y0 [Hy0 [Ne ->]]]. rewrite SHID; auto. split; auto. apply KEEP; auto.
    + intros y0 r0 Hy0 Ne Hr0 E0. exists r0. rewrite SHID; auto. split; [|split; auto].
      apply in_del_reg. split; auto. intro E. apply Ne. apply ONLY; auto. congruence.
  - set (r' := mkReg (r_num r) (r_max r) (r_n r - 1) t' (remove_nth p (r_ids r))).
    split; [reflexivity|]. split.
    + intros z. rewrite filter_In, in_map_iff. split.
      * intros [[y0 [E Hy0]] Ky]. exists y0. split; auto. split; auto. subst z.
        unfold keep in Ky. rewrite shift_simNum in Ky. apply (KEEP y0 Hy0). exact Ky.
      * intros [y0 [Hy0 [Ne ->]]]. split; [exists y0; auto|]. unfold keep. rewrite shift_simNum. apply (KEEP y0 Hy0). auto.
    + intros y0 r0 Hy0 Ne Hr0 E0. rewrite shift_pos.
      destruct (Nat.eqb_spec (s_reg y0) (r_num r)) as [Ey|Ney]; simpl.
      * assert (r0 = r) by (apply (NoDup_map_inj r_num (regs nd)); auto; congruence). subst r0.
        exists r'. split; [apply in_set_reg_new with (r := r); auto|]. split; [simpl; congruence|]. simpl r_ids.
        apply nth_remove_nth. apply POSNE; auto.
      * exists r0. split; [apply in_set_reg_other; auto; simpl; congruence|]. auto.
Qed.

Lemma node_ok_filter_virt nd (f : vq -> bool) : node_ok nd -> node_ok (with_virt nd (filter f (virt nd))).
Proof.
  intros OK. destruct OK. constructor; cbn [virt sims regs numRegs nextReg with_virt]; auto.
  apply NoDup_map_filter; auto.
Qed.

(* removal of one held qubit together with its simulated qubit *)
Lemma inv_remove s h vi q x r t' :
  hid_inv s -> inv s ->
  In q (virt (nth_node s vi)) -> v_hid q = h ->
  In x (sims (nth_node s (v_simNode q))) -> s_simNum x = v_simNum q ->
  In r (regs (nth_node s (v_simNode q))) -> r_num r = s_reg x ->
  let s2 := set_node s (v_simNode q) (rm_node (nth_node s (v_simNode q)) x r t') in
  inv (set_node s2 vi (with_virt (nth_node s2 vi) (remove_vq h (virt (nth_node s2 vi))))).
Proof.
  intros HI H Hq Ehq Hx Ex Hr Er s2.
  set (sn := v_simNode q) in *.
  pose proof (in_virt_lt s vi q Hq) as Lvi. pose proof (in_sims_lt s sn x Hx) as Lsn.
  set (rn := rm_node (nth_node s sn) x r t') in *.
  pose proof (inv_nodes s H) as inv_nodes0. pose proof (inv_backed s H) as inv_backed0.
  pose proof (inv_inj s H) as inv_inj0. pose proof (inv_onto s H) as inv_onto0.
  pose proof (inv_qid_inj s H) as inv_qid_inj0. pose proof (inv_qid_lt s H) as inv_qid_lt0.
  destruct (rm_node_spec (nth_node s sn) x r t' (inv_nodes0 sn) Hx Hr Er) as (RV & RS & RR). fold rn in RV, RS, RR.
  pose proof (node_ok_rm (nth_node s sn) x r t' (inv_nodes0 sn) Hx Hr Er) as RNOK. fold rn in RNOK.
  assert (E2 : forall j, nth_node s2 j = if Nat.eqb j sn then rn else nth_node s j).
  { intro j. unfold s2. rewrite nth_node_set. destruct (Nat.ltb_spec sn (length (nodes s))); try lia. rewrite andb_true_r. auto. }
  assert (L2 : length (nodes s2) = length (nodes s)) by (unfold s2; apply set_node_length).
  set (s3 := set_node s2 vi (with_virt (nth_node s2 vi) (remove_vq h (virt (nth_node s2 vi))))).
  assert (E3 : forall j, nth_node s3 j = if Nat.eqb j vi then with_virt (nth_node s2 vi) (remove_vq h (virt (nth_node s2 vi))) else nth_node s2 j).
  { intro j. unfold s3. rewrite nth_node_set. rewrite L2. destruct (Nat.ltb_spec vi (length (nodes s))); try lia. rewrite andb_true_r. auto. }
  assert (V2 : forall j, virt (nth_node s2 j) = virt (nth_node s j)).
  { intro j. rewrite E2. destruct (Nat.eqb_spec j sn) as [->|]; auto. }
  assert (VIN : forall j p, In p (virt (nth_node s3 j)) <-> In p (virt (nth_node s j)) /\ (j <> vi \/ v_hid p <> h)).
  { intros j p. rewrite E3. destruct (Nat.eqb_spec j vi) as [->|Hj].
    - cbn [virt with_virt]. unfold remove_vq. rewrite filter_In, V2.
      destruct (Nat.eqb_spec (v_hid p) h); simpl; split; intros [K1 K2]; split; auto; try discriminate.
      destruct K2; congruence.
    - rewrite V2. split; [intro K; split; auto | intros [K _]; auto]. }
  assert (SR3 : forall j, sims (nth_node s3 j) = sims (nth_node s2 j) /\ regs (nth_node s3 j) = regs (nth_node s2 j)).
  { intro j. rewrite E3. destruct (Nat.eqb_spec j vi) as [->|]; auto. }
  (* a surviving held qubit is not q *)
  assert (SURV : forall i p, In p (virt (nth_node s i)) -> (i <> vi \/ v_hid p <> h) -> vref p <> vref q /\ v_qid p <> v_qid q).
  { intros i p Hp C. split; intro E.
    - pose proof (inv_inj0 i vi p q Hp Hq E) as E'. destruct (hid_unique s i vi p q HI Hp Hq E') as [-> ->]. destruct C; congruence.
    - pose proof (inv_qid_inj0 i vi p q Hp Hq E) as E'. destruct (hid_unique s i vi p q HI Hp Hq E') as [-> ->]. destruct C; congruence. }
  assert (NOTQ : forall i p, In p (virt (nth_node s i)) -> vref p <> vref q -> (i <> vi \/ v_hid p <> h)).
  { intros i p Hp Ne. destruct (Nat.eq_dec (v_hid p) h) as [E|]; auto.
    left. intro; subst i. rewrite <- Ehq in E. destruct (hid_unique s vi vi p q HI Hp Hq E) as [_ ->]. congruence. }
  fold s3. constructor.
  - intro j. rewrite E3. destruct (Nat.eqb_spec j vi) as [->|].
    + unfold remove_vq. apply node_ok_filter_virt. rewrite E2. destruct (Nat.eqb vi sn); auto.
    + rewrite E2. destruct (Nat.eqb j sn); auto.
  - intros i p Hp. apply VIN in Hp as [Hp C].
    destruct (SURV i p Hp C) as [NR _].
    destruct (inv_backed0 i p Hp) as (y & ry & B1 & B2 & B3 & B4 & B5).
    destruct (SR3 (v_simNode p)) as [S1 S2]. rewrite S1, S2. rewrite E2.
    destruct (Nat.eqb_spec (v_simNode p) sn) as [Es|Ns].
    + rewrite Es in *.
      assert (Ny : y <> x). { intro; subst y. apply NR. unfold vref. fold sn. congruence. }
      destruct (RR y ry B1 Ny B3 B4) as (ry' & R1 & R2 & R3).
      exists (shift_sq (r_num r) (s_pos x) y), ry'. rewrite shift_simNum, shift_reg.
      repeat split; auto; [apply RS; exists y; auto | congruence].
    + exists y, ry. repeat split; auto.
  - intros i j p p' Hp Hp'. apply VIN in Hp as [Hp _]. apply VIN in Hp' as [Hp' _]. eauto.
  - intros j z Hz. destruct (SR3 j) as [S1 _]. rewrite S1 in Hz. rewrite E2 in Hz.
    destruct (Nat.eqb_spec j sn) as [->|Nj].
    + apply RS in Hz as [y0 [Hy0 [Ne ->]]]. rewrite shift_simNum.
      destruct (inv_onto0 sn y0 Hy0) as (i & p & Hp & E). exists i, p. split; auto. apply VIN. split; auto.
      apply NOTQ; auto. rewrite E. unfold vref. fold sn. intro K. injection K as K.
      apply Ne. apply (NoDup_map_inj s_simNum (sims (nth_node s sn))); auto; [apply (ok_snum _ (inv_nodes0 sn))|congruence].
    + destruct (inv_onto0 j z Hz) as (i & p & Hp & E). exists i, p. split; auto. apply VIN. split; auto.
      apply NOTQ; auto. rewrite E. unfold vref. fold sn. intro K. injection K as K1 K2. congruence.
  - intros i j p p' Hp Hp'. apply VIN in Hp as [Hp _]. apply VIN in Hp' as [Hp' _]. eauto.
  - intros i p Hp. apply VIN in Hp as [Hp _]. unfold s3, s2, set_node; simpl. eauto.
Qed.

Lemma inv_meas s h ip c : hid_inv s -> inv s -> inv (fst (op_meas s h ip c)).
Proof.
  intros HI H. unfold op_meas.
  destruct (find_handle s h) as [[vi q]|] eqn:EF; [|exact H].
  destruct (locate s q) as [[x r]|] eqn:EL; [|exact H].
  apply find_handle_some in EF as (Lvi & Hq & Ehq).
  unfold locate in EL.
  destruct (find_sq (v_simNum q) (sims (nth_node s (v_simNode q)))) as [x0|] eqn:E1; [|discriminate].
  destruct (find_reg (s_reg x0) (regs (nth_node s (v_simNode q)))) as [r0|] eqn:E2; [|discriminate].
  inversion EL; subst x0 r0. clear EL.
  apply find_sq_some in E1 as [Hx Ex]. apply find_reg_some in E2 as [Hr Er].
  pose proof (measure_n (r_n r) (s_pos x) true c (r_tab r)) as EN.
  destruct (measure (r_n r) (s_pos x) true c (r_tab r)) as [[o n1] t1]. simpl in EN. subst n1.
  set (r1 := reg_with_tab r (r_n r) t1).
  assert (I1 : inv (update_reg_at s (v_simNode q) r1)) by (apply inv_update_tab with (r := r); auto).
  destruct ip; cbn [fst]; [exact I1|].
  set (s1 := update_reg_at s (v_simNode q) r1) in *.
  assert (HI1 : hid_inv s1) by (apply (hid_inv_hkeeps _ s (update_reg_at_hkeeps (v_simNode q) r1) HI)).
  pose proof (in_sims_lt s (v_simNode q) x Hx) as Lsn.
  assert (EN1 : forall j, virt (nth_node s1 j) = virt (nth_node s j) /\ sims (nth_node s1 j) = sims (nth_node s j)).
  { intro j. unfold s1, update_reg_at. rewrite nth_node_set. destruct (_ && _)%bool eqn:EE; auto.
    apply andb_true_iff in EE as [EE _]. apply Nat.eqb_eq in EE. subst j. auto. }
  assert (R1 : In r1 (regs (nth_node s1 (v_simNode q)))).
  { unfold s1, update_reg_at. rewrite nth_node_set_eq; auto. cbn [regs with_regs]. apply in_set_reg_new with (r := r); auto. }
  rewrite remove_sim_eq.
  destruct (EN1 vi) as [V1 _]. destruct (EN1 (v_simNode q)) as [_ S1].
  apply (inv_remove s1 h vi q x r1 _ HI1 I1); auto; try congruence.
Qed.
