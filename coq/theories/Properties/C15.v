(* C15 — one register contract; proved for the model of the stabilizer backend only (qutip / projectq cannot be
   imported in this environment, so no model of them could be tied to code).  Only statements, closed by `exact`. *)
From Coq Require Import List Bool Arith.
From SQ Require Import Base.ListUtil Stab.Pauli Stab.Kernels Stab.Gates Stab.Tableau Stab.Engine Stab.EngineProof Stab.Examples.
Import ListNotations.

Theorem C15_add_fresh_refused_exactly_at_limit : forall e,
  (e_max e <= e_n e -> step e KAddFresh = (e, RErr ENoQubit)) /\
  (e_n e < e_max e -> step e KAddFresh = (mkE (e_max e) (S (e_n e)) (add_qubit (e_n e) (e_tab e)), RNat (e_n e))).
Proof. exact add_fresh_refusal. Qed.
Print Assumptions C15_add_fresh_refused_exactly_at_limit.

Theorem C15_absorb_refused_exactly_at_limit : forall a b,
  (e_max a < e_n a + e_n b -> step a (KAbsorb b) = (a, RErr EQuantum)) /\
  (e_n a + e_n b <= e_max a ->
   step a (KAbsorb b) = (mkE (e_max a) (e_n a + e_n b) (tensor (e_n a) (e_tab a) (e_n b) (e_tab b)), RUnit)).
Proof. exact absorb_refusal. Qed.
Print Assumptions C15_absorb_refused_exactly_at_limit.

Theorem C15_refusal_atomic : forall e c err, snd (step e c) = RErr err -> fst (step e c) = e.
Proof. exact refusal_atomic. Qed.
Print Assumptions C15_refusal_atomic.

Theorem C15_absorb_parts_export : forall a b, valid_engine b ->
  step a (KAbsorbParts (fst (export b)) (snd (export b))) = step a (KAbsorb b).
Proof. exact absorb_parts_export. Qed.
Print Assumptions C15_absorb_parts_export.

(* the contract as one record (stated for an arbitrary backend), instantiated and proved for the stabilizer engine:
   add_fresh returns the old size and appends |0>; absorb a b = a (x) b with b behind a; refusals exactly at the size
   limit and without mutation; absorb_parts a (export b) = absorb a b.
   `tensor` is the block-diagonal construction of the code; its group-level reading (rows of a padded with I on the
   right, rows of b padded with I on the left) is NOT proved here (covered by the CTensor correspondence + kron oracle). *)
Theorem C15_stab_engine_laws :
  EngineLaws engine (nat * tab) (list row * nat) e_n e_max stab_den stab_ten (1, [[false; true; false]]) valid_engine
             (fun e => step e KAddFresh) (fun a b => step a (KAbsorb b))
             export (fun a x => step a (KAbsorbParts (fst x) (snd x))).
Proof. exact stab_engine_laws. Qed.
Print Assumptions C15_stab_engine_laws.

Theorem C15_nonvacuous : (valid_engine eng_example /\ e_n eng_example = 3) /\
  (snd (step eng_example (KAbsorb eng_example)) = RErr EQuantum /\
   snd (step (fst (step eng_example KAddFresh)) KAddFresh) = RErr ENoQubit /\
   snd (step (new_engine 6) (KAbsorb eng_example)) = RUnit).
Proof. exact (conj eng_example_valid eng_limit_reached). Qed.
Print Assumptions C15_nonvacuous.
