(* Model F, part 4: the host side, SimulaQronConnection._handle_reply / _read_more_data
   (simulaqron/sdk/connection.py:220-264), over an arbitrary message codec.  Executable definitions only.

     def _handle_reply(self):
         try: ret_msg = deserialize_return_msg(self.buf)
         except ValueError:                       # "incomplete"
             time.sleep(0.1); self._read_more_data(); return self._handle_reply()
         self.buf = self.buf[len(ret_msg):]
         Done -> return msg_id | RetReg/RetArr -> update shared memory, go on | Err -> raise RuntimeError

   The socket is a script: the list of chunks the successive recv(1024) calls will return; an exhausted script
   ends the call (`HRStarved`; the real call would block). *)
From Coq Require Import List NArith Arith Lia Bool.
From SQ Require Import Frame.Bytes Frame.Msg.
Import ListNotations.
Local Open Scope nat_scope.

Inductive kind := KDone (id : N) | KErr | KData.

Inductive hr_out (M : Type) :=
| HRDone (id : N)            (* returned msg id *)
| HRError (m : M)            (* RuntimeError("Received error message from backend") *)
| HRStarved                  (* needs more bytes than the script provides *)
| HRFuel.                    (* unreachable with the fuel used (ReplyProofs.hr_spec) *)
Arguments HRDone {M}. Arguments HRError {M}. Arguments HRStarved {M}. Arguments HRFuel {M}.

Section Client.
  Context {M : Type}.
  Variable enc : M -> bytes.
  Variable parse : bytes -> option M.
  Variable kind_of : M -> kind.

  (* one call of _handle_reply: (outcome, shared-memory updates made during the call in order, self.buf, rest of script) *)
  Fixpoint hr (fuel : nat) (buf : bytes) (sock : list bytes) (upd : list M)
    : hr_out M * list M * bytes * list bytes :=
    match fuel with
    | O => (HRFuel, upd, buf, sock)
    | S f =>
        match parse buf with
        | None =>
            match sock with
            | [] => (HRStarved, upd, buf, [])
            | c :: sock' => hr f (buf ++ c) sock' upd
            end
        | Some m =>
            let buf' := skipn (length (enc m)) buf in
            match kind_of m with
            | KDone id => (HRDone id, upd, buf', sock)
            | KErr => (HRError m, upd, buf', sock)
            | KData => hr f buf' sock (upd ++ [m])
            end
        end
    end.

  (* successive calls (as _wait_for_done / block() make them) until one does not return a Done *)
  Fixpoint session (n fuel : nat) (buf : bytes) (sock : list bytes) : list (hr_out M * list M) * bytes :=
    match n with
    | O => ([], buf)
    | S k =>
        let '(o, upd, b, s) := hr fuel buf sock [] in
        match o with
        | HRDone _ => let '(l, b') := session k fuel b s in ((o, upd) :: l, b')
        | _ => ([(o, upd)], b)
        end
    end.

  (* what the calls should return for a reply stream ms: cut it after every Done *)
  Fixpoint cut (ms : list M) : list M * hr_out M * list M :=
    match ms with
    | [] => ([], HRStarved, [])
    | m :: ms' =>
        match kind_of m with
        | KDone id => ([], HRDone id, ms')
        | KErr => ([], HRError m, ms')
        | KData => let '(pre, o, post) := cut ms' in (m :: pre, o, post)
        end
    end.

  Fixpoint spec (n : nat) (ms : list M) : list (hr_out M * list M) :=
    match n with
    | O => []
    | S k =>
        let '(pre, o, post) := cut ms in
        match o with
        | HRDone _ => (o, pre) :: spec k post
        | _ => [(o, pre)]
        end
    end.
End Client.

(* the concrete instance: netqasm return messages *)
Definition ret_kind (m : retmsg) : kind :=
  match m with RDone id => KDone id | RErr _ => KErr | _ => KData end.

Definition hr_ret := hr enc_ret parse_ret ret_kind.
Definition session_ret := session enc_ret parse_ret ret_kind.
Definition spec_ret := spec ret_kind.
