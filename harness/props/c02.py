"""C02 — conservation and bookkeeping integrity at every quiescent point."""
from props import netprop, scen


def run(ctx):
    t = ctx.tier == "thorough"
    ctx.rule = ("random programs (all profiles, failed operations included) over 1..4 nodes; after every operation the object graph of all "
                "virtualNode instances is walked (id()-based): backing bijection, positions 0..k-1 per register, id uniqueness, numRegs, and the "
                "population delta of the operation; the same dump is compared with the Coq model; concurrent clients under seeded schedules over the real PB, the same walk once the network is quiescent; distinct = distinct (capacities, operation, dump)")
    netprop.run_property(ctx, "C02", ["mixed", "merge", "capacity", "stale", "refuse", "registers"], 1500 if t else 150, 30 if t else 24,
                         scenarios=scen.placement_cases() + scen.forwarding() + scen.stale() + scen.register_api(), own_props=["C02"],
                         extra=concurrent_part)


def concurrent_part(ctx, env0, runners):
    from props import concextra
    concextra.run(ctx, "C02", concextra.judge_c02,
                  "after concurrent operations, once nothing is in flight, the object graph satisfies the same invariant (ids unique, backing bijection, positions)")
