#!/usr/bin/env python3
"""Confirm a seeded defect and run the checks against it.
usage: tools/seedtest.py <src dir with patch.diff demo.py note.md> <seed id> <property it targets> <checks to run, comma separated> [--nosuite]
Steps: scratch worktree of /repo HEAD; demo on the clean tree (must exit 0); apply patch; demo (must exit != 0); full test-suite (must
equal the baseline: 116 passed, only test_going_to_graph failing); remove worktree; apply the patch to /repo, run the checks, undo.
Writes /verif/seeded/<seed id>/{patch.diff,demo.py,note.md,meta.json}."""
import json, os, re, shutil, subprocess, sys

src, sid, prop, checks = sys.argv[1], sys.argv[2], sys.argv[3], sys.argv[4].split(",")
nosuite = "--nosuite" in sys.argv
wt = "/tmp/seedwt-%s" % sid
out = "/verif/seeded/%s" % sid
os.makedirs(out, exist_ok=True)
for f in ("patch.diff", "demo.py", "note.md"):
    if os.path.exists(os.path.join(src, f)):
        shutil.copy(os.path.join(src, f), os.path.join(out, f))
meta = {"seed": sid, "breaks_property": prop, "checks_run": checks}
prev_meta = {}
if os.path.exists(os.path.join(out, "meta.json")):
    try:
        prev_meta = json.load(open(os.path.join(out, "meta.json")))
    except Exception:
        prev_meta = {}
if nosuite:
    for k in ("suite_with_change", "suite_ok"):
        if k in prev_meta:
            meta[k] = prev_meta[k]


def sh(cmd, **kw):
    return subprocess.run(cmd, shell=True, stdout=subprocess.PIPE, stderr=subprocess.STDOUT, text=True, **kw)


sh("git -C /repo worktree remove --force %s" % wt)
r = sh("git -C /repo worktree add --detach %s" % wt)
env = dict(os.environ, PYTHONPATH=wt)
d0 = sh("cd %s && timeout 300 /venv/bin/python %s/demo.py" % (wt, out), env=env)
meta["demo_without_change_exit"] = d0.returncode
a = sh("git -C %s apply %s/patch.diff" % (wt, out))
meta["patch_applies"] = a.returncode == 0
d1 = sh("cd %s && timeout 300 /venv/bin/python %s/demo.py" % (wt, out), env=env)
meta["demo_with_change_exit"] = d1.returncode
meta["demo_with_change_tail"] = d1.stdout[-300:]
if not nosuite:
    # the demonstrations may leave git-ignored files behind (package config written through the settings object): the suite runs on a pristine tree + patch
    sh("git -C %s checkout -- . && git -C %s clean -fdxq" % (wt, wt))
    sh("git -C %s apply %s/patch.diff" % (wt, out))
    s = sh("cd %s && flock /tmp/repo-suite.lock timeout 1500 /venv/bin/python -m pytest -q -p no:cacheprovider --timeout=900 --continue-on-collection-errors 2>&1 | tail -8" % wt)
    m = re.search(r"(\d+) failed, (\d+) passed", s.stdout)
    meta["suite_with_change"] = s.stdout.strip().split("\n")[-1]
    meta["suite_ok"] = bool(m and m.group(1) == "1" and m.group(2) == "116" and "test_going_to_graph" in s.stdout)
# run the checks against a worktree of /repo with the patch applied (VERIF_REPO), so that /repo itself stays untouched while
# other work is going on; equivalent to `git -C /repo apply` + run + `git -C /repo checkout -- .`
sh("git -C %s checkout -- ." % wt)
sh("git -C %s apply %s/patch.diff" % (wt, out))
meta["patched_tree_verified"] = bool(sh("git -C %s diff --stat" % wt).stdout.strip())
if not meta["patched_tree_verified"]:
    print("the patch is not in the worktree; not running the checks")
    checks = []
res = {}
try:
    for c in checks:
        r = sh("cd /verif && VERIF_REPO=%s timeout 1500 ./check %s" % (wt, c))
        lines = [l for l in r.stdout.split("\n") if l.startswith(("VIOLATION", "KNOWN-FINDING", "CHECK-ERROR", "OBLIGATION-BROKEN"))]
        res[c] = {"exit": r.returncode, "lines": [l[:400] for l in lines[:6]]}
        for l in lines:
            m = re.match(r"VIOLATION property=\S+ replay=(\S+)", l)
            if m and os.path.exists(m.group(1)):
                res[c].setdefault("replays", []).append(json.load(open(m.group(1))).get("what", "")[:200])
finally:
    sh("git -C /repo worktree remove --force %s" % wt)
meta["check_results"] = res
meta["caught_by"] = [c for c in checks if res.get(c, {}).get("exit") == 1]
json.dump(meta, open(os.path.join(out, "meta.json"), "w"), indent=1)
print(json.dumps(meta, indent=1)[:3000])
