(* C04, refuted part 1: a send addressed to the issuing node, and two crossing sends, reach states from which NO continuation
   completes them, the node locks staying held.  Invariant arguments over all continuations, in every context of
   lock-disciplined operations (creations, single-qubit operations, other sends). *)
From Coq Require Import List Bool Arith Lia.
From SQ Require Import Base.ListUtil Conc.Model Conc.Own.
Import ListNotations.

Definition ev_op (e : ev) : opid :=
  match e with
  | EIssue o | ELockn o | EReq _ o _ | EAcq _ o _ | ERel _ o _ | ETimeout o | EDone o => o
  end.

Ltac own_contra HS o Eo :=
  let X := fresh in pose proof (own_ops _ HS o) as X; unfold op_ok in X; rewrite Eo in X; contradiction.

(* an event of operation o' leaves the other operations and the locks held by other operations alone *)
Lemma step_frame cfg s e s' :
  all_disciplined cfg -> Own s -> step cfg s e = Some s' ->
  (forall o, o <> ev_op e -> op_of s' o = op_of s o) /\
  (forall n o b, o <> ev_op e -> lock_of s n = Some (o, b) -> lock_of s' n = Some (o, b)).
Proof.
  intros HC HS ST. destruct e as [o'|o'|n' o' r|n' o' r|n' o' was|o'|o']; simpl in *.
  - destruct (op_of s o') eqn:Eo; try discriminate.
    pose proof (disciplined_kind cfg o' HC) as D.
    destruct (kind_of cfg o'); simpl in D; try discriminate; inv ST;
      (split; [intros; apply op_set_neq; auto | intros; rewrite lock_set_op; auto]).
  - pose proof (disciplined_kind cfg o' HC) as D. destruct (kind_of cfg o'); simpl in D; discriminate.
  - rewrite (own_orph _ HS) in ST. simpl in ST.
    destruct (op_of s o') eqn:Eo; try discriminate; try (own_contra HS o' Eo).
    destruct prog as [|[m|m|m] p]; try discriminate. destruct cur; try discriminate.
    destruct (Nat.eqb m n'); try discriminate. inv ST.
    split; [intros; apply op_set_neq; auto | intros; rewrite lock_set_op; auto].
  - destruct (lock_of s n') eqn:El; try discriminate.
    destruct (Nat.ltb n' (length (locks s))); try discriminate.
    rewrite (own_orph _ HS) in ST. simpl in ST.
    destruct (op_of s o') eqn:Eo; try discriminate; try (own_contra HS o' Eo).
    destruct prog as [|[m|m|m] p]; try discriminate. destruct cur as [r'|]; try discriminate.
    destruct (Nat.eqb m n' && Nat.eqb r r'); try discriminate. inv ST.
    split.
    + intros. rewrite op_set_lock. apply op_set_neq; auto.
    + intros n o b Ho E. rewrite lock_set_neq; auto. intro; subst. congruence.
  - destruct (op_of s o') eqn:Eo; try discriminate; try (own_contra HS o' Eo).
    destruct prog as [|[m|m|m] p]; try discriminate. destruct cur; try discriminate.
    destruct (Nat.eqb_spec m n'); try discriminate. subst m.
    unfold rel_lock in ST. destruct (Bool.eqb was _); try discriminate. inv ST.
    destruct (own_ops_run _ _ _ _ _ HS Eo) as (W & ND & HL).
    simpl in W. apply andb_true_iff in W. destruct W as [Hm _]. apply mem_In in Hm. apply HL in Hm.
    split.
    + intros. rewrite op_set_lock. apply op_set_neq; auto.
    + intros n o b Ho E. rewrite lock_set_neq; auto. intro; subst. congruence.
  - pose proof (disciplined_kind cfg o' HC) as D. destruct (kind_of cfg o'); simpl in D; discriminate.
  - destruct (op_of s o') eqn:Eo; try discriminate; try (own_contra HS o' Eo).
    destruct prog; try discriminate. destruct cur; try discriminate. inv ST.
    split; [intros; apply op_set_neq; auto | intros; rewrite lock_set_op; auto].
Qed.

(* an operation polling for a lock that is held makes no step of its own *)
Lemma waiting_blocked cfg s e s' o held n p r x :
  all_disciplined cfg -> Own s ->
  op_of s o = SRun held (AAcq n :: p) (Some r) -> lock_of s n = Some x ->
  step cfg s e = Some s' -> ev_op e <> o.
Proof.
  intros HC HS Eo El ST Heq. destruct e as [o'|o'|n' o' r'|n' o' r'|n' o' was|o'|o']; simpl in *; subst o'.
  - rewrite Eo in ST. discriminate.
  - pose proof (disciplined_kind cfg o HC) as D. destruct (kind_of cfg o); simpl in D; discriminate.
  - rewrite (own_orph _ HS) in ST. simpl in ST. rewrite Eo in ST. discriminate.
  - destruct (lock_of s n') eqn:El'; try discriminate.
    destruct (Nat.ltb n' (length (locks s))); try discriminate.
    rewrite (own_orph _ HS) in ST. simpl in ST. rewrite Eo in ST.
    destruct (Nat.eqb_spec n n'); simpl in ST; try discriminate. subst. congruence.
  - rewrite Eo in ST. discriminate.
  - pose proof (disciplined_kind cfg o HC) as D. destruct (kind_of cfg o); simpl in D; discriminate.
  - rewrite Eo in ST. discriminate.
Qed.

(* ---- (a) the self-addressed send ---- *)
Definition self_stuck (s : st) (o : opid) (a : nid) : Prop :=
  (exists r, op_of s o = SRun [a] [AAcq a; ARel a; ARel a] (Some r)) /\ lock_of s a = Some (o, false).

Lemma self_stuck_step cfg s e s' o a :
  all_disciplined cfg -> Own s -> self_stuck s o a -> step cfg s e = Some s' -> self_stuck s' o a.
Proof.
  intros HC HS [[r Eo] El] ST.
  pose proof (waiting_blocked _ _ _ _ _ _ _ _ _ _ HC HS Eo El ST) as Ne.
  destruct (step_frame _ _ _ _ HC HS ST) as [F1 F2].
  split.
  - exists r. rewrite F1; auto.
  - apply F2; auto.
Qed.

Lemma self_stuck_run cfg tr : forall s s' o a,
  all_disciplined cfg -> Own s -> self_stuck s o a -> run cfg s tr = Some s' -> self_stuck s' o a.
Proof.
  induction tr as [|e t IH]; simpl; intros s s' o a HC HS K R.
  - inv R. auto.
  - destruct (step cfg s e) as [s0|] eqn:E; try discriminate.
    apply (IH s0 s' o a); auto. eapply own_step; eauto. eapply self_stuck_step; eauto.
Qed.

Lemma run_cons cfg s e t :
  run cfg s (e :: t) = match step cfg s e with Some s' => run cfg s' t | None => None end.
Proof. reflexivity. Qed.

(* symbolic execution of straight-line programs *)
Lemma step_issue cfg s o :
  op_of s o = SIdle -> disciplined (kind_of cfg o) = true ->
  step cfg s (EIssue o) = Some (set_op s o (SRun [] (prog_of (kind_of cfg o)) None)).
Proof. intros E D. simpl. rewrite E. destruct (kind_of cfg o); simpl in D; try discriminate; reflexivity. Qed.

Lemma step_req cfg s o n r held p :
  orph s = [] -> op_of s o = SRun held (AReq n :: p) None ->
  step cfg s (EReq n o r) = Some (set_op s o (SRun held p (Some r))).
Proof. intros Ho E. simpl. rewrite Ho. simpl. rewrite E, Nat.eqb_refl. reflexivity. Qed.

Lemma step_acq cfg s o n r held p :
  orph s = [] -> lock_of s n = None -> n < length (locks s) -> op_of s o = SRun held (AAcq n :: p) (Some r) ->
  step cfg s (EAcq n o r) = Some (set_lock (set_op s o (SRun (n :: held) p None)) n (Some (o, false))).
Proof.
  intros Ho El Rn E. simpl. rewrite El.
  destruct (Nat.ltb_spec n (length (locks s))); try lia.
  rewrite Ho. simpl. rewrite E, !Nat.eqb_refl. reflexivity.
Qed.

Lemma self_send_reaches_stuck cfg s o a :
  Own s -> kind_of cfg o = KSend a a -> op_of s o = SIdle -> lock_of s a = None -> a < length (locks s) ->
  exists s', run cfg s [EIssue o; EReq a o 0; EAcq a o 0; EReq a o 1] = Some s' /\ self_stuck s' o a.
Proof.
  intros HS K Eo El Ra.
  assert (Ro : o < length (ops s)) by (apply op_of_range; congruence).
  pose proof (own_orph _ HS) as Horph.
  set (s1 := set_op s o (SRun [] (prog_of (kind_of cfg o)) None)).
  assert (S1 : step cfg s (EIssue o) = Some s1) by (apply step_issue; auto; rewrite K; reflexivity).
  assert (E1 : op_of s1 o = SRun [] [AReq a; AAcq a; AReq a; AAcq a; ARel a; ARel a] None).
  { unfold s1. rewrite op_set_eq by auto. rewrite K. reflexivity. }
  set (s2 := set_op s1 o (SRun [] [AAcq a; AReq a; AAcq a; ARel a; ARel a] (Some 0))).
  assert (S2 : step cfg s1 (EReq a o 0) = Some s2) by (apply step_req; auto).
  assert (R1 : o < length (ops s1)) by (unfold s1; simpl; rewrite upd_length; auto).
  assert (E2 : op_of s2 o = SRun [] [AAcq a; AReq a; AAcq a; ARel a; ARel a] (Some 0)) by (unfold s2; apply op_set_eq; auto).
  set (s3 := set_lock (set_op s2 o (SRun [a] [AReq a; AAcq a; ARel a; ARel a] None)) a (Some (o, false))).
  assert (S3 : step cfg s2 (EAcq a o 0) = Some s3) by (apply step_acq; auto).
  assert (R2 : o < length (ops s2)) by (unfold s2; simpl; rewrite upd_length; auto).
  assert (E3 : op_of s3 o = SRun [a] [AReq a; AAcq a; ARel a; ARel a] None).
  { unfold s3. rewrite op_set_lock. apply op_set_eq; auto. }
  set (s4 := set_op s3 o (SRun [a] [AAcq a; ARel a; ARel a] (Some 1))).
  assert (S4 : step cfg s3 (EReq a o 1) = Some s4) by (apply step_req; auto).
  exists s4. split.
  - rewrite run_cons, S1, run_cons, S2, run_cons, S3, run_cons, S4. reflexivity.
  - split.
    + exists 1. unfold s4. apply op_set_eq. unfold s3; simpl. rewrite upd_length. auto.
    + unfold s4. rewrite lock_set_op. unfold s3. apply lock_set_eq. auto.
Qed.

Theorem self_send_hangs_lemma cfg nn o a :
  all_disciplined cfg -> kind_of cfg o = KSend a a -> o < length cfg -> a < nn ->
  exists tr s, run cfg (init nn cfg) tr = Some s /\
    forall tr' s', run cfg s tr' = Some s' -> done s' o = false /\ lock_of s' a = Some (o, false).
Proof.
  intros HC K Ro Ra.
  destruct (self_send_reaches_stuck cfg (init nn cfg) o a) as (s & R & St); auto.
  - apply own_init.
  - apply op_of_init_idle; auto.
  - apply lock_of_init.
  - unfold init; simpl. rewrite repeat_length. auto.
  - exists [EIssue o; EReq a o 0; EAcq a o 0; EReq a o 1], s. split; auto.
    intros tr' s' R'.
    assert (Own s) by (eapply own_run; eauto; apply own_init).
    destruct (self_stuck_run cfg tr' s s' o a HC H St R') as [[r E] L].
    split; auto. unfold done. rewrite E. reflexivity.
Qed.
