(* C03, proved part: lock discipline.  In every reachable state of a configuration without _lock_nodes operations the sets of
   node locks held by two different operations are disjoint and every held lock is recorded for its owner: the critical
   sections on one node never overlap, which is the premise of the classic two-phase-locking argument. *)
From Coq Require Import List Bool Arith Lia.
From SQ Require Import Base.ListUtil Conc.Model Conc.Own Conc.Deadlock.
Import ListNotations.

Definition holds (s : st) (o : opid) (n : nid) : Prop :=
  match op_of s o with SRun held _ _ => In n held | _ => False end.

Theorem disciplined_mutex cfg nn tr s o1 o2 n :
  all_disciplined cfg -> run cfg (init nn cfg) tr = Some s ->
  holds s o1 n -> holds s o2 n -> o1 = o2.
Proof.
  intros HC R H1 H2.
  assert (HS : Own s) by (eapply own_run; eauto; apply own_init).
  unfold holds in *.
  destruct (op_of s o1) eqn:E1; try contradiction.
  destruct (op_of s o2) eqn:E2; try contradiction.
  destruct (own_ops_run _ _ _ _ _ HS E1) as (_ & _ & L1).
  destruct (own_ops_run _ _ _ _ _ HS E2) as (_ & _ & L2).
  apply L1 in H1. apply L2 in H2. congruence.
Qed.

Theorem disciplined_holder_is_owner cfg nn tr s n o b :
  all_disciplined cfg -> run cfg (init nn cfg) tr = Some s ->
  lock_of s n = Some (o, b) -> b = false /\ holds s o n.
Proof.
  intros HC R E.
  assert (HS : Own s) by (eapply own_run; eauto; apply own_init).
  destruct (own_locks_run _ _ _ _ HS E) as (-> & held & prog & cur & Eo & Hin).
  split; auto. unfold holds. rewrite Eo. auto.
Qed.

(* only the owner's own release frees a lock *)
Theorem disciplined_release_by_owner cfg nn tr s n o was s' :
  all_disciplined cfg -> run cfg (init nn cfg) tr = Some s ->
  step cfg s (ERel n o was) = Some s' -> was = true /\ lock_of s n = Some (o, false).
Proof.
  intros HC R ST.
  assert (HS : Own s) by (eapply own_run; eauto; apply own_init).
  simpl in ST.
  destruct (op_of s o) eqn:Eo; try discriminate; try (own_contra HS o Eo).
  destruct prog as [|[m|m|m] p]; try discriminate. destruct cur; try discriminate.
  destruct (Nat.eqb_spec m n); try discriminate. subst m.
  destruct (own_ops_run _ _ _ _ _ HS Eo) as (W & _ & HL).
  simpl in W. apply andb_true_iff in W. destruct W as [Hm _]. apply mem_In in Hm. apply HL in Hm.
  unfold rel_lock in ST. rewrite lock_set_op, Hm in ST. simpl in ST.
  destruct was; simpl in ST; try discriminate. auto.
Qed.

(* swap lemma: two adjacent events of different operations that do not touch the same node lock commute.

   The data-level theorem (two-phase locking implies serializability in lock-point order, for abstract node data and any
   deterministic access function) is proved in Conc/TwoPhase.v, together with the fact that every run accepted here is a legal
   two-phase lock schedule.  What is still NOT proved: that `fold_left Net.Model.step` over the operations in lock-point order
   gives the final Model-V state of a concurrent run - model L carries no data, and that the operations of virtual.py access a
   node's bookkeeping only under that node's lock is an assumption (false at virtual.py:1377, see notes/C03.md). *)
Definition ev_node (e : ev) : option nid :=
  match e with EAcq n _ _ | ERel n _ _ => Some n | _ => None end.

Definition independent (e1 e2 : ev) : Prop :=
  ev_op e1 <> ev_op e2 /\
  match ev_node e1, ev_node e2 with Some n1, Some n2 => n1 <> n2 | _, _ => True end.

Lemma upd_comm {A} (l : list A) i j x y : i <> j -> upd (upd l i x) j y = upd (upd l j y) i x.
Proof.
  revert i j. induction l as [|h t IH]; intros [|i] [|j] H; simpl; auto; try lia.
  f_equal. apply IH. lia.
Qed.
