(* GF(2) view of a boolean matrix (list of rows), restricted to the first m columns:
   linear combinations, span, independence, reduced row echelon form.  Definitions only (shared by
   Rref.v, GaussRref.v, GaussIndep.v, EqProof.v); no Pauli content. *)
From Coq Require Import List Bool Arith Lia.
From SQ Require Import Base.ListUtil Stab.Kernels.
Import ListNotations.

(* bit j of the GF(2) combination of the rows of A selected by sel (truncated to the shorter list) *)
Fixpoint lin (sel : list bool) (A : list row) (j : nat) : bool :=
  match sel, A with
  | s :: sel', r :: A' => xorb (s && get r j) (lin sel' A' j)
  | _, _ => false
  end.

(* f (a column-indexed bit vector) lies in the row space of A, columns < m *)
Definition inspan (m : nat) (A : list row) (f : nat -> bool) : Prop :=
  exists sel, length sel = length A /\ forall j, j < m -> f j = lin sel A j.

(* the rows are linearly independent over GF(2) on columns < m *)
Definition lindep (m : nat) (A : list row) : Prop :=
  forall sel, length sel = length A -> (forall j, j < m -> lin sel A j = false) -> forallb negb sel = true.

(* equality of two rows on the first m columns *)
Definition eqm (m : nat) (a b : row) : Prop := forall j, j < m -> get a j = get b j.

(* c is the leading (first non-zero) column of r, among columns < m *)
Definition lead (m : nat) (r : row) (c : nat) : Prop :=
  c < m /\ get r c = true /\ forall j, j < c -> get r j = false.

(* reduced row echelon form on columns < m, all rows non-zero: leading columns strictly increase,
   and a leading column carries a single 1 *)
Inductive rref (m : nat) : list row -> Prop :=
| rref_nil : rref m []
| rref_cons r c A :
    lead m r c ->
    (forall r', In r' A -> forall j, j <= c -> get r' j = false) ->
    (forall r' c', In r' A -> lead m r' c' -> get r c' = false) ->
    rref m A -> rref m (r :: A).
