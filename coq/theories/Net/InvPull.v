(* invariant preservation: remote_merge_from (export a register from its simulating node, absorb it here,
   re-create its simulated qubits, re-point every node's held qubits) *)
From Coq Require Import List Bool Arith Lia Permutation.
From SQ Require Import Base.ListUtil Stab.Tableau Net.Model Net.Refusal Net.Capacity Net.Handles Net.Fresh Net.Inv Net.InvNew Net.InvMeas Net.InvMerge.
Import ListNotations.

(* ---- alloc_sims ---------------------------------------------------------------------------------------------- *)
Lemma alloc_spec cnt : forall k off l,
  let '(l', ids) := alloc_sims cnt k off l in
  length ids = cnt /\
  l' = l ++ map (fun j => mkSq (nth j ids 0) k (off + j)) (seq 0 cnt) /\
  NoDup ids /\ (forall i, In i ids -> ~ In i (map s_simNum l)).
Proof.
  induction cnt as [|c IH]; intros k off l; simpl.
  - split; [reflexivity|]. split; [rewrite app_nil_r; auto|]. split; [constructor|intros i []].
  - specialize (IH k (S off) (l ++ [mkSq (fresh_id (map s_simNum l)) k off])).
    destruct (alloc_sims c k (S off) (l ++ [mkSq (fresh_id (map s_simNum l)) k off])) as [l' ids'].
    destruct IH as (L & E & N & D).
    split; [simpl; lia|]. split; [|split].
    + rewrite E. rewrite <- app_assoc. f_equal. simpl. rewrite Nat.add_0_r. f_equal.
      rewrite <- seq_shift, map_map. apply map_ext. intros j. simpl. f_equal. lia.
    + constructor; auto. intro Hin. apply (D _ Hin). rewrite map_app. simpl. apply in_or_app; right; simpl; auto.
    + intros i [<-|Hi].
      * apply fresh_id_notin.
      * intro Hin. apply (D _ Hi). rewrite map_app. apply in_or_app; auto.
Qed.

(* ---- pigeonhole ------------------------------------------------------------------------------------------------ *)
Lemma NoDup_map_of_inj {A B} (f : A -> B) l :
  NoDup l -> (forall a b, In a l -> In b l -> f a = f b -> a = b) -> NoDup (map f l).
Proof.
  induction l as [|x t IH]; simpl; intros Hn Hi; [constructor|].
  inversion Hn; subst. constructor.
  - intro Hin. apply in_map_iff in Hin as [y [E Hy]]. assert (y = x) by (apply Hi; auto). subst; auto.
  - apply IH; auto.
Qed.

Lemma NoDup_of_map {A B} (f : A -> B) l : NoDup (map f l) -> NoDup l.
Proof.
  induction l as [|x t IH]; simpl; intro H; [constructor|]. inversion H; subst.
  constructor; auto. intro Hin. apply H2. apply in_map; auto.
Qed.

Lemma pigeon l n : NoDup l -> (forall a, In a l -> a < n) -> length l = n -> forall j, j < n -> In j l.
Proof.
  intros Hn Hb Hl j Hj.
  assert (I : incl (seq 0 n) l).
  { apply NoDup_length_incl; auto.
    - rewrite seq_length. lia.
    - intros a Ha. apply in_seq. specialize (Hb a Ha). lia. }
  apply I. apply in_seq. lia.
Qed.

(* ---- the exporting node ------------------------------------------------------------------------------------------ *)
Lemma node_ok_export nd ko :
  node_ok nd -> In ko (map r_num (regs nd)) ->
  node_ok (mkNode (virt nd) (filter (fun y => negb (Nat.eqb (s_reg y) ko)) (sims nd))
                  (del_reg (regs nd) ko) (numRegs nd - 1) (nextReg nd) (maxQ nd) (maxR nd)).
Proof.
  intros OK Hk.
  pose proof (ok_vnum nd OK) as ok_vnum0. pose proof (ok_snum nd OK) as ok_snum0. pose proof (ok_rnum nd OK) as ok_rnum0.
  pose proof (ok_rlt nd OK) as ok_rlt0. pose proof (ok_nregs nd OK) as ok_nregs0. pose proof (ok_rn nd OK) as ok_rn0.
  pose proof (ok_sreg nd OK) as ok_sreg0. pose proof (ok_pos_inj nd OK) as ok_pos_inj0. pose proof (ok_count nd OK) as ok_count0.
  constructor; cbn [virt sims regs numRegs nextReg]; auto.
  - apply NoDup_map_filter; auto.
  - unfold del_reg. apply NoDup_map_filter; auto.
  - intros r Hr. apply in_del_reg in Hr as [Hr _]. auto.
  - rewrite length_del_reg; auto.
  - intros r Hr. apply in_del_reg in Hr as [Hr _]. auto.
  - intros y Hy. apply filter_In in Hy as [Hy Ky]. destruct (ok_sreg0 y Hy) as [r [Hr [E L]]].
    exists r. split; auto. apply in_del_reg. split; auto.
    destruct (Nat.eqb_spec (s_reg y) ko); simpl in Ky; [discriminate|congruence].
  - intros y z Hy Hz. apply filter_In in Hy as [Hy _]. apply filter_In in Hz as [Hz _]. auto.
  - intros r Hr. apply in_del_reg in Hr as [Hr Nr]. rewrite count_filter_other; auto.
    intros z Hz Ez. apply Nat.eqb_eq in Ez. destruct (Nat.eqb_spec (s_reg z) ko); simpl; auto. congruence.
Qed.

(* ---- the absorbing node ------------------------------------------------------------------------------------------- *)
Lemma count_app_news k off ids cnt kk (l : list sq) :
  length (filter (fun z => Nat.eqb (s_reg z) kk) (l ++ map (fun j => mkSq (nth j ids 0) k (off + j)) (seq 0 cnt))) =
  length (filter (fun z => Nat.eqb (s_reg z) kk) l) + (if Nat.eqb k kk then cnt else 0).
Proof.
  rewrite filter_app, app_length. f_equal.
  assert (G : forall js, length (filter (fun z => Nat.eqb (s_reg z) kk) (map (fun j => mkSq (nth j ids 0) k (off + j)) js)) =
                         if Nat.eqb k kk then length js else 0).
  { clear. induction js as [|j t IH]; simpl; [destruct (Nat.eqb k kk); auto|].
    destruct (Nat.eqb k kk); simpl; auto. }
  rewrite G. destruct (Nat.eqb k kk); auto. apply seq_length.
Qed.

Lemma node_ok_absorb nd lr no oids tabx ids :
  node_ok nd -> In lr (regs nd) -> length oids = no ->
  length ids = no -> NoDup ids -> (forall i, In i ids -> ~ In i (map s_simNum (sims nd))) ->
  node_ok (mkNode (virt nd)
                  (sims nd ++ map (fun j => mkSq (nth j ids 0) (r_num lr) (r_n lr + j)) (seq 0 no))
                  (set_reg (regs nd) (mkReg (r_num lr) (r_max lr + no) (r_n lr + no) tabx (r_ids lr ++ oids)))
                  (numRegs nd) (nextReg nd) (maxQ nd) (maxR nd)).
Proof.
  intros OK Hlr Lo Li Ni Di.
  pose proof (ok_vnum nd OK) as ok_vnum0. pose proof (ok_snum nd OK) as ok_snum0. pose proof (ok_rnum nd OK) as ok_rnum0.
  pose proof (ok_rlt nd OK) as ok_rlt0. pose proof (ok_nregs nd OK) as ok_nregs0. pose proof (ok_rn nd OK) as ok_rn0.
  pose proof (ok_sreg nd OK) as ok_sreg0. pose proof (ok_pos_inj nd OK) as ok_pos_inj0. pose proof (ok_count nd OK) as ok_count0.
  set (lr' := mkReg (r_num lr) (r_max lr + no) ((r_n lr) + no) tabx (r_ids lr ++ oids)).
  set (news := map (fun j => mkSq (nth j ids 0) (r_num lr) ((r_n lr) + j)) (seq 0 no)).
  assert (NEW : forall z, In z news <-> exists j, j < no /\ z = mkSq (nth j ids 0) (r_num lr) ((r_n lr) + j)).
  { intro z. unfold news. rewrite in_map_iff. split.
    - intros [j [<- Hj]]. apply in_seq in Hj. exists j. split; auto; lia.
    - intros [j [Hj ->]]. exists j. split; auto. apply in_seq. lia. }
  assert (POSL : forall y, In y (sims nd) -> s_reg y = (r_num lr) -> s_pos y < (r_n lr)).
  { intros y Hy E. destruct (ok_sreg0 y Hy) as [r [Hr [Er L]]].
    assert (r = lr) by (apply (NoDup_map_inj r_num (regs nd)); auto; congruence). subst; auto. }
  constructor; cbn [virt sims regs numRegs nextReg]; auto.
  - rewrite map_app. apply NoDup_app_iff. split; [auto|]. split.
    + unfold news. rewrite map_map. simpl.
      assert (E : map (fun j => nth j ids 0) (seq 0 no) = ids).
      { rewrite <- Li. clear. induction ids as [|a t IH]; simpl; auto. f_equal. rewrite <- seq_shift, map_map. simpl. auto. }
      rewrite E. auto.
    + intros a Ha Hb. apply in_map_iff in Hb as [z [<- Hz]]. apply NEW in Hz as [j [Hj ->]]. simpl in Ha.
      apply (Di (nth j ids 0)); auto. apply nth_In. lia.
  - rewrite map_rnum_set_reg; auto.
  - intros r Hr. apply in_set_reg in Hr as [[Hr _]| ->]; auto. simpl. apply ok_rlt0; auto.
  - unfold set_reg. rewrite map_length. auto.
  - intros r Hr. apply in_set_reg in Hr as [[Hr _]| ->]; auto. simpl. rewrite app_length. rewrite (ok_rn0 lr Hlr). lia.
  - intros y Hy. apply in_app_iff in Hy as [Hy|Hy].
    + destruct (ok_sreg0 y Hy) as [r [Hr [E L]]].
      destruct (Nat.eq_dec (r_num r) (r_num lr)) as [Ek|Nk].
      * assert (r = lr) by (apply (NoDup_map_inj r_num (regs nd)); auto). subst r.
        exists lr'. split; [apply in_set_reg_new with (r := lr); auto|]. split; [simpl; auto|]. simpl. lia.
      * exists r. split; [apply in_set_reg_other; auto|]. auto.
    + apply NEW in Hy as [j [Hj ->]]. exists lr'. split; [apply in_set_reg_new with (r := lr); auto|]. simpl. split; auto. lia.
  - intros y z Hy Hz Er Ep. apply in_app_iff in Hy as [Hy|Hy]; apply in_app_iff in Hz as [Hz|Hz].
    + auto.
    + exfalso. apply NEW in Hz as [j [Hj ->]]. simpl in *. pose proof (POSL y Hy Er). lia.
    + exfalso. apply NEW in Hy as [j [Hj ->]]. simpl in *. pose proof (POSL z Hz (eq_sym Er)). lia.
    + apply NEW in Hy as [j [Hj ->]]. apply NEW in Hz as [j' [Hj' ->]]. simpl in *. f_equal. lia.
  - intros r Hr. unfold news. rewrite count_app_news.
    apply in_set_reg in Hr as [[Hr Nr]| ->].
    + simpl in Nr. destruct (Nat.eqb_spec (r_num lr) (r_num r)); [congruence|]. rewrite Nat.add_0_r. auto.
    + simpl. rewrite Nat.eqb_refl. rewrite (ok_count0 lr Hlr). reflexivity.
Qed.

(* ---- auxiliary ------------------------------------------------------------------------------------------------------ *)
Lemma in_regs_lt s i r : In r (regs (nth_node s i)) -> i < length (nodes s).
Proof.
  intros H. destruct (Nat.ltb_spec i (length (nodes s))); auto.
  rewrite nth_node_overflow in H; auto. simpl in H. contradiction.
Qed.

Lemma find_sq_filter_some l g y :
  NoDup (map s_simNum l) -> In y l -> g y = true -> find_sq (s_simNum y) (filter g l) = Some y.
Proof.
  intros Hn Hy Hg. apply find_sq_in; auto.
  - apply NoDup_map_filter; auto.
  - apply filter_In; auto.
Qed.

Lemma find_sq_filter_none l g y :
  NoDup (map s_simNum l) -> In y l -> g y = false -> find_sq (s_simNum y) (filter g l) = None.
Proof.
  intros Hn Hy Hg. destruct (find_sq (s_simNum y) (filter g l)) as [z|] eqn:E; auto.
  apply find_sq_some in E as [Hz Ez]. apply filter_In in Hz as [Hz Gz].
  assert (z = y) by (apply (NoDup_map_inj s_simNum l); auto). subst. congruence.
Qed.

Lemma NoDup_nth_inj (l : list nat) i j d : NoDup l -> i < length l -> j < length l -> nth i l d = nth j l d -> i = j.
Proof. intros Hn Hi Hj E. apply (proj1 (NoDup_nth l d) Hn i j Hi Hj E). Qed.

Lemma node_ok_map_virt nd (f : vq -> vq) :
  (forall q, v_num (f q) = v_num q) -> node_ok nd -> node_ok (with_virt nd (map f (virt nd))).
Proof.
  intros Hf OK. pose proof (ok_vnum nd OK) as VN.
  destruct OK. constructor; cbn [virt sims regs numRegs nextReg with_virt]; auto.
  rewrite map_map. erewrite map_ext; [exact VN|]. intro q. apply Hf.
Qed.

Lemma nth_node_map_virt s (f : vq -> vq) j :
  nth_node (mkNet (map (fun nd => with_virt nd (map f (virt nd))) (nodes s)) (next_hid s)) j =
  with_virt (nth_node s j) (map f (virt (nth_node s j))).
Proof.
  unfold nth_node. cbn [nodes].
  change (empty_node 0 0) with ((fun nd => with_virt nd (map f (virt nd))) (empty_node 0 0)) at 1.
  rewrite map_nth. reflexivity.
Qed.

(* ---- remote_merge_from ------------------------------------------------------------------------------------------------ *)
Lemma inv_merge_from s li oi simNum lk : li <> oi -> inv s -> inv (fst (merge_from s li oi simNum lk)).
Proof.
  intros Hne H. unfold merge_from.
  set (on := nth_node s oi).
  destruct (find_sq simNum (sims on)) as [x|] eqn:FX; [|exact H].
  destruct (find_reg (s_reg x) (regs on)) as [orr|] eqn:FO; [|exact H].
  apply find_sq_some in FX as [Hx Ex]. apply find_reg_some in FO as [Horr Eo].
  set (on1 := mkNode (virt on) (filter (fun y => negb (Nat.eqb (s_reg y) (r_num orr))) (sims on))
                     (del_reg (regs on) (r_num orr)) (numRegs on - 1) (nextReg on) (maxQ on) (maxR on)).
  rewrite (nth_node_set_neq s oi on1 li Hne).
  set (ln := nth_node s li).
  destruct (find_reg lk (regs ln)) as [lr|] eqn:FL; [|exact H].
  apply find_reg_some in FL as [Hlr El].
  pose proof (alloc_spec (r_n orr) lk (r_n lr) (sims ln)) as AS.
  destruct (alloc_sims (r_n orr) lk (r_n lr) (sims ln)) as [sims' ids].
  destruct AS as (Lids & Esims & Nids & Dids).
  cbn [fst].
  pose proof (in_sims_lt s oi x Hx) as Loi. pose proof (in_regs_lt s li lr Hlr) as Lli.
  pose proof (inv_nodes s H) as inv_nodes0. pose proof (inv_backed s H) as inv_backed0.
  pose proof (inv_inj s H) as inv_inj0. pose proof (inv_onto s H) as inv_onto0.
  pose proof (inv_qid_inj s H) as inv_qid_inj0. pose proof (inv_qid_lt s H) as inv_qid_lt0.
  pose proof (inv_nodes0 oi) as OKo. fold on in OKo. pose proof (inv_nodes0 li) as OKl. fold ln in OKl.
  set (moved := filter (fun y => Nat.eqb (s_reg y) (r_num orr)) (sims on)).
  set (lr' := mkReg (r_num lr) (r_max lr + r_n orr) (r_n lr + r_n orr) (tensor (r_n lr) (r_tab lr) (r_n orr) (r_tab orr)) (r_ids lr ++ r_ids orr)).
  set (ln1 := mkNode (virt ln) sims' (set_reg (regs ln) lr') (numRegs ln) (nextReg ln) (maxQ ln) (maxR ln)).
  set (s1 := set_node s oi on1).
  set (s2 := set_node s1 li ln1).
  set (rp := fun q : vq =>
        if Nat.eqb (v_simNode q) oi then
          match find_sq (v_simNum q) moved with
          | Some y => mkVq (v_hid q) (v_num q) li (nth (s_pos y) ids 0) (v_qid q)
          | None => q
          end
        else q).
  change (inv (mkNet (map (fun nd => with_virt nd (map rp (virt nd))) (nodes s2)) (next_hid s2))).
  assert (E2 : forall j, nth_node s2 j = if Nat.eqb j li then ln1 else if Nat.eqb j oi then on1 else nth_node s j).
  { intro j. unfold s2, s1. rewrite nth_node_set. rewrite set_node_length.
    destruct (Nat.ltb_spec li (length (nodes s))); try lia. rewrite andb_true_r.
    destruct (Nat.eqb j li); auto. rewrite nth_node_set.
    destruct (Nat.ltb_spec oi (length (nodes s))); try lia. rewrite andb_true_r. auto. }
  assert (V2 : forall j, virt (nth_node s2 j) = virt (nth_node s j)).
  { intro j. rewrite E2. destruct (Nat.eqb_spec j li) as [->|]; auto. destruct (Nat.eqb_spec j oi) as [->|]; auto. }
  assert (E3 : forall j, nth_node (mkNet (map (fun nd => with_virt nd (map rp (virt nd))) (nodes s2)) (next_hid s2)) j =
                         with_virt (nth_node s2 j) (map rp (virt (nth_node s j)))).
  { intro j. rewrite nth_node_map_virt, V2. reflexivity. }
  set (s3 := mkNet (map (fun nd => with_virt nd (map rp (virt nd))) (nodes s2)) (next_hid s2)) in *.
  assert (VIN : forall j p', In p' (virt (nth_node s3 j)) <-> exists p, In p (virt (nth_node s j)) /\ p' = rp p).
  { intros j p'. rewrite E3. cbn [virt with_virt]. rewrite in_map_iff. split; intros [p [A B]]; exists p; auto. }
  assert (SIM3 : forall j, sims (nth_node s3 j) = sims (nth_node s2 j) /\ regs (nth_node s3 j) = regs (nth_node s2 j)).
  { intro j. rewrite E3. auto. }
  (* facts about the exported register *)
  pose proof (ok_snum on OKo) as SNo. pose proof (ok_rnum on OKo) as RNo.
  assert (MOVED : forall y, In y moved <-> In y (sims on) /\ s_reg y = r_num orr).
  { intro y. unfold moved. rewrite filter_In. rewrite Nat.eqb_eq. tauto. }
  assert (POSo : forall y, In y moved -> s_pos y < r_n orr).
  { intros y Hy. apply MOVED in Hy as [Hy Ey]. destruct (ok_sreg on OKo y Hy) as [r [Hr [Er L]]].
    assert (r = orr) by (apply (NoDup_map_inj r_num (regs on)); auto; congruence). subst; auto. }
  assert (SURJ : forall j, j < r_n orr -> exists y, In y moved /\ s_pos y = j).
  { intros j Hj.
    assert (Hin : In j (map s_pos moved)).
    { apply (pigeon (map s_pos moved) (r_n orr)); auto.
      - apply NoDup_map_of_inj.
        + unfold moved. apply NoDup_filter. apply (NoDup_of_map s_simNum). auto.
        + intros a b Ha Hb E. apply MOVED in Ha as [Ha Ea]. apply MOVED in Hb as [Hb Eb].
          apply (NoDup_map_inj s_simNum (sims on)); auto. apply (ok_pos_inj on OKo); auto. congruence.
      - intros a Ha. apply in_map_iff in Ha as [y [<- Hy]]. apply POSo; auto.
      - rewrite map_length. unfold moved. apply (ok_count on OKo orr Horr). }
    apply in_map_iff in Hin as [y [E Hy]]. eauto. }
  (* how re-pointing acts on a held qubit, given its backing simulated qubit *)
  assert (RP : forall i p y, In p (virt (nth_node s i)) -> In y (sims (nth_node s (v_simNode p))) -> s_simNum y = v_simNum p ->
               (v_simNode p = oi /\ s_reg y = r_num orr /\ rp p = mkVq (v_hid p) (v_num p) li (nth (s_pos y) ids 0) (v_qid p)) \/
               ((v_simNode p <> oi \/ s_reg y <> r_num orr) /\ rp p = p)).
  { intros i p y Hp Hy Ey. unfold rp. destruct (Nat.eqb_spec (v_simNode p) oi) as [Eo'|No]; [|right; auto].
    rewrite Eo' in Hy. fold on in Hy.
    destruct (Nat.eq_dec (s_reg y) (r_num orr)) as [Er|Nr].
    - left. rewrite <- Ey. unfold moved. rewrite find_sq_filter_some; auto. apply Nat.eqb_eq; auto.
    - right. rewrite <- Ey. unfold moved. rewrite find_sq_filter_none; auto. apply Nat.eqb_neq; auto. }
  assert (RPH : forall p, v_hid (rp p) = v_hid p /\ v_qid (rp p) = v_qid p /\ v_num (rp p) = v_num p).
  { intro p. unfold rp. destruct (Nat.eqb _ _); auto. destruct (find_sq _ _); auto. }
  assert (IDS_L : length (r_ids lr) = r_n lr) by (apply (ok_rn ln OKl lr Hlr)).
  assert (NEWIN : forall j, j < r_n orr -> In (mkSq (nth j ids 0) lk (r_n lr + j)) sims').
  { intros j Hj. rewrite Esims. apply in_or_app; right. apply in_map_iff. exists j. split; auto. apply in_seq. lia. }
  assert (LR'IN : In lr' (regs ln1)).
  { unfold ln1; cbn [regs]. apply in_set_reg_new with (r := lr); auto. }
  constructor.
  - (* node_ok *)
    intro j. rewrite E3, <- (V2 j). apply node_ok_map_virt; [intro q; apply RPH|].
    rewrite E2. destruct (Nat.eqb_spec j li) as [->|]; [|destruct (Nat.eqb_spec j oi) as [->|]; auto].
    + unfold ln1. rewrite Esims.
      assert (EQ : lk = r_num lr) by congruence. rewrite EQ.
      apply (node_ok_absorb ln lr (r_n orr) (r_ids orr)); auto. apply (ok_rn on OKo orr Horr).
    + apply node_ok_export; auto. apply in_map; auto.
  - (* backed *)
    intros i p' Hp'. apply VIN in Hp' as [p [Hp ->]].
    destruct (inv_backed0 i p Hp) as (y & ry & B1 & B2 & B3 & B4 & B5).
    destruct (RP i p y Hp B1 B2) as [(Eo' & Er & ->)|[C ->]].
    + (* moved *)
      cbn [v_simNode v_simNum v_qid].
      destruct (SIM3 li) as [S1 S2]. rewrite S1, S2. rewrite E2, Nat.eqb_refl.
      rewrite Eo' in B1, B3. fold on in B1, B3.
      assert (ry = orr) by (apply (NoDup_map_inj r_num (regs on)); auto; congruence). subst ry.
      assert (Py : s_pos y < r_n orr) by (apply POSo; apply MOVED; auto).
      exists (mkSq (nth (s_pos y) ids 0) lk (r_n lr + s_pos y)), lr'.
      split; [unfold ln1; cbn [sims]; apply NEWIN; auto|]. split; [reflexivity|]. split; [exact LR'IN|].
      split; [simpl; congruence|]. cbn [s_pos r_ids lr'].
      rewrite <- IDS_L. rewrite Nat.add_comm. rewrite nth_app_r. exact B5.
    + destruct (SIM3 (v_simNode p)) as [S1 S2]. rewrite S1, S2. rewrite E2.
      destruct (Nat.eqb_spec (v_simNode p) li) as [El'|Nl].
      * rewrite El' in B1, B3. fold ln in B1, B3.
        destruct (Nat.eq_dec (r_num ry) lk) as [Ek|Nk].
        -- assert (ry = lr) by (apply (NoDup_map_inj r_num (regs ln)); auto; [apply (ok_rnum ln OKl)|congruence]). subst ry.
           exists y, lr'. split; [unfold ln1; cbn [sims]; rewrite Esims; apply in_or_app; auto|]. split; [exact B2|].
           split; [exact LR'IN|]. split; [simpl; congruence|]. cbn [r_ids lr'].
           rewrite nth_app_l; auto. rewrite IDS_L.
           destruct (ok_sreg ln OKl y B1) as [r2 [H2 [E2' L2]]].
           assert (r2 = lr) by (apply (NoDup_map_inj r_num (regs ln)); auto; [apply (ok_rnum ln OKl)|congruence]). subst; auto.
        -- exists y, ry. split; [unfold ln1; cbn [sims]; rewrite Esims; apply in_or_app; auto|]. split; [exact B2|].
           split; [unfold ln1; cbn [regs]; apply in_set_reg_other; auto; simpl; congruence|]. split; auto.
      * destruct (Nat.eqb_spec (v_simNode p) oi) as [Eo'|No].
        -- rewrite Eo' in B1, B3. fold on in B1, B3. destruct C as [C|C]; [congruence|].
           exists y, ry. split; [unfold on1; cbn [sims]; apply filter_In; split; auto; apply negb_true_iff; apply Nat.eqb_neq; auto|].
           split; [exact B2|]. split; [unfold on1; cbn [regs]; apply in_del_reg; split; auto; congruence|]. split; auto.
        -- exists y, ry. repeat split; auto.
  - (* injective *)
    intros i j p1' p2' Hp1 Hp2 E. apply VIN in Hp1 as [p1 [Hp1 ->]]. apply VIN in Hp2 as [p2 [Hp2 ->]].
    destruct (RPH p1) as (-> & _ & _). destruct (RPH p2) as (-> & _ & _).
    destruct (inv_backed0 i p1 Hp1) as (y1 & ry1 & A1 & A2 & _).
    destruct (inv_backed0 j p2 Hp2) as (y2 & ry2 & C1 & C2 & _).
    destruct (RP i p1 y1 Hp1 A1 A2) as [(Eo1 & Er1 & R1)|[D1 R1]]; destruct (RP j p2 y2 Hp2 C1 C2) as [(Eo2 & Er2 & R2)|[D2 R2]];
      rewrite R1, R2 in E.
    + unfold vref in E. cbn [v_simNode v_simNum] in E. injection E as E.
      rewrite Eo1 in A1. rewrite Eo2 in C1. fold on in A1, C1.
      assert (P1 : s_pos y1 < r_n orr) by (apply POSo; apply MOVED; auto).
      assert (P2 : s_pos y2 < r_n orr) by (apply POSo; apply MOVED; auto).
      assert (EP : s_pos y1 = s_pos y2) by (apply (NoDup_nth_inj ids _ _ 0); auto; lia).
      assert (ES : s_simNum y1 = s_simNum y2) by (apply (ok_pos_inj on OKo); auto; congruence).
      apply (inv_inj0 i j p1 p2 Hp1 Hp2). unfold vref. congruence.
    + exfalso. unfold vref in E. cbn [v_simNode v_simNum] in E. injection E as E1' E2'.
      rewrite <- E1' in C1. fold ln in C1.
      assert (P1 : s_pos y1 < r_n orr). { rewrite Eo1 in A1. apply POSo; apply MOVED; auto. }
      apply (Dids (nth (s_pos y1) ids 0)); [apply nth_In; lia|]. rewrite E2', <- C2. apply in_map; auto.
    + exfalso. unfold vref in E. cbn [v_simNode v_simNum] in E. injection E as E1' E2'.
      rewrite E1' in A1. fold ln in A1.
      assert (P2 : s_pos y2 < r_n orr). { rewrite Eo2 in C1. apply POSo; apply MOVED; auto. }
      apply (Dids (nth (s_pos y2) ids 0)); [apply nth_In; lia|]. rewrite <- E2', <- A2. apply in_map; auto.
    + eauto.
  - (* onto *)
    intros j z Hz. destruct (SIM3 j) as [S1 _]. rewrite S1 in Hz. rewrite E2 in Hz.
    destruct (Nat.eqb_spec j li) as [->|Nl].
    + unfold ln1 in Hz; cbn [sims] in Hz. rewrite Esims in Hz. apply in_app_iff in Hz as [Hz|Hz].
      * destruct (inv_onto0 li z Hz) as (i & p & Hp & E). exists i, (rp p). split; [apply VIN; eauto|].
        unfold rp. destruct (Nat.eqb_spec (v_simNode p) oi) as [Eo'|]; auto.
        exfalso. unfold vref in E. injection E as E1' _. congruence.
      * apply in_map_iff in Hz as [jj [<- Hjj]]. apply in_seq in Hjj. cbn [s_simNum].
        destruct (SURJ jj) as [y [Hy Ey]]; [lia|]. apply MOVED in Hy as [Hy Er].
        destruct (inv_onto0 oi y Hy) as (i & p & Hp & E). exists i, (rp p). split; [apply VIN; eauto|].
        unfold vref in E. injection E as E1' E2'.
        assert (B1 : In y (sims (nth_node s (v_simNode p)))) by (rewrite E1'; exact Hy).
        destruct (RP i p y Hp B1 (eq_sym E2')) as [(_ & _ & ->)|[[C|C] _]]; try congruence.
        unfold vref. cbn [v_simNode v_simNum]. congruence.
    + destruct (Nat.eqb_spec j oi) as [->|No].
      * unfold on1 in Hz; cbn [sims] in Hz. apply filter_In in Hz as [Hz Kz].
        apply negb_true_iff in Kz. apply Nat.eqb_neq in Kz.
        destruct (inv_onto0 oi z Hz) as (i & p & Hp & E). exists i, (rp p). split; [apply VIN; eauto|].
        unfold vref in E. injection E as E1' E2'.
        assert (B1 : In z (sims (nth_node s (v_simNode p)))) by (rewrite E1'; exact Hz).
        destruct (RP i p z Hp B1 (eq_sym E2')) as [(_ & Er & _)|[_ ->]]; [congruence|].
        unfold vref. congruence.
      * destruct (inv_onto0 j z Hz) as (i & p & Hp & E). exists i, (rp p). split; [apply VIN; eauto|].
        unfold rp. destruct (Nat.eqb_spec (v_simNode p) oi) as [Eo'|]; auto.
        exfalso. unfold vref in E. injection E as E1' _. congruence.
  - intros i j p1' p2' Hp1 Hp2 E. apply VIN in Hp1 as [p1 [Hp1 ->]]. apply VIN in Hp2 as [p2 [Hp2 ->]].
    destruct (RPH p1) as (-> & Q1 & _). destruct (RPH p2) as (-> & Q2 & _). rewrite Q1, Q2 in E. eauto.
  - intros i p' Hp'. apply VIN in Hp' as [p [Hp ->]]. destruct (RPH p) as (_ & -> & _).
    unfold s3, s2, s1, set_node; simpl. eauto.
Qed.
