(* Model G: the boolean check of a recorded choice sequence is sound, and a concrete instance of the
   random_connected theorem (non-vacuity). *)
From Coq Require Import List Bool Arith Lia.
From SQ Require Import Graph.Model Graph.Props Graph.Named.
Import ListNotations.

Lemma nmem_In x l : nmem x l = true <-> In x l.
Proof.
  unfold nmem. rewrite existsb_exists. split.
  - intros (y & Hy & He). apply Nat.eqb_eq in He. subst; auto.
  - intros H. exists x. split; auto. apply Nat.eqb_refl.
Qed.

Lemma nbrs_spec g a l : NoDup (map fst g) -> In (a, l) g -> nbrs g a = l.
Proof.
  unfold nbrs. induction g as [|[a0 l0] g IH]; simpl; intros Hnd Hin; [contradiction|].
  inversion Hnd as [|? ? Hn Hd]; subst. destruct (Nat.eqb_spec a0 a) as [->|Hne].
  - destruct Hin as [Heq|Hin]; [inversion Heq; auto|]. exfalso. apply Hn. apply (in_map fst) in Hin; auto.
  - destruct Hin as [Heq|Hin]; [inversion Heq; subst; contradiction|]. apply IH; auto.
Qed.

Lemma not_adj_b g u v : NoDup (map fst g) -> nmem v (nbrs g u) = false -> ~ adj g u v.
Proof.
  intros Hnd Hb (l & Hl & Hv). rewrite (nbrs_spec g u l Hnd Hl) in Hb.
  apply nmem_In in Hv. congruence.
Qed.

Lemma valid_choices_b_sound cs : forall g,
  NoDup (map fst g) -> valid_choices_b g cs = true -> valid_choices g cs.
Proof.
  induction cs as [|[u v] cs IH]; simpl; intros g Hnd H; auto.
  repeat (apply andb_true_iff in H; destruct H as [H ?]).
  apply negb_true_iff in H. apply Nat.eqb_neq in H.
  repeat split; auto.
  - apply nmem_In; auto.
  - apply nmem_In; auto.
  - apply not_adj_b; auto. apply negb_true_iff; auto.
  - apply not_adj_b; auto. apply negb_true_iff; auto.
  - apply IH; auto. rewrite keys_add_edge; auto.
Qed.

(* a concrete instance: 5 names, the path 0-1-2-3-4 as the library tree, three added non-edges, k = 7 *)
Lemma random_connected_example :
  let nodes := [17; 3; 42; 8; 11] in
  let t := idx_graph 5 (path_nb 5) in
  let cs := [(0, 2); (4, 1); (3, 0); (2, 4)] in
  exists g, random_connected nodes 7 t cs = Some g /\ good nodes g 7 /\
            g = [(17, [3; 42; 8]); (3, [17; 42; 11]); (42, [3; 8; 17]); (8, [42; 11; 17]); (11, [8; 3])].
Proof.
  intros nodes t cs.
  destruct (random_connected_ok nodes 7 t cs) as (g & Hg & Hgood).
  - repeat constructor; simpl; intuition; discriminate.
  - apply (path_idx_good 5). lia.
  - simpl. lia.
  - simpl; lia.
  - apply valid_choices_b_sound; [|vm_compute; reflexivity]. unfold t. rewrite keys_idx. apply seq_NoDup.
  - exists g. split; [exact Hg|split; [exact Hgood|]]. vm_compute in Hg. inversion Hg. reflexivity.
Qed.
