(* The multiset of all registers of the network, and how each native operation changes it (up to permutation):
   interface between the placement layer (Net/Placement.v) and the state layer of C01. *)
From Coq Require Import List Bool Arith Lia Permutation.
From SQ Require Import Base.ListUtil Stab.Tableau Net.Model Net.Refusal Net.Capacity Net.Handles Net.Fresh
     Net.Inv Net.InvNew Net.InvMeas Net.InvMerge Net.InvPull Net.InvStep Net.Bookkeeping Net.Placement.
Import ListNotations.

Definition all_regs (s : net) : list reg := flat_map regs (nodes s).

(* ---- generic list facts ------------------------------------------------------------------------------------------ *)
Lemma concat_upd1 {A} (L : list (list A)) i : i < length L ->
  exists R, Permutation (concat L) (nth i L [] ++ R) /\ forall x, Permutation (concat (upd L i x)) (x ++ R).
Proof.
  revert i; induction L as [|a t IH]; intros [|i] H; simpl in *; try lia.
  - exists (concat t). split; [reflexivity|]. intro x; reflexivity.
  - destruct (IH i) as (R & P1 & P2); [lia|]. exists (a ++ R). split.
    + rewrite P1. apply Permutation_app_swap_app.
    + intro x. rewrite (P2 x). apply Permutation_app_swap_app.
Qed.

Lemma map_upd {A B} (f : A -> B) l i x : map f (upd l i x) = upd (map f l) i (f x).
Proof. revert i; induction l as [|a t IH]; intros [|i]; simpl; auto. f_equal; auto. Qed.

Lemma all_regs_concat s : all_regs s = concat (map regs (nodes s)).
Proof. apply flat_map_concat_map. Qed.

Lemma in_all_regs s r : In r (all_regs s) <-> exists i, In r (regs (nth_node s i)).
Proof.
  unfold all_regs. rewrite in_flat_map. split.
  - intros (nd & Hnd & Hr). destruct (In_nth _ _ (empty_node 0 0) Hnd) as (i & Hi & E).
    exists i. unfold nth_node. rewrite E. exact Hr.
  - intros (i & Hr). exists (nth_node s i). split; auto. apply nth_In. apply (in_regs_lt s i r Hr).
Qed.

(* replacing one node: the registers of the other nodes are a common remainder *)
Lemma perm_node_regs s i nd a b rest0 : i < length (nodes s) ->
  Permutation (regs (nth_node s i)) (a ++ rest0) -> Permutation (regs nd) (b ++ rest0) ->
  exists rest, Permutation (all_regs s) (a ++ rest) /\ Permutation (all_regs (set_node s i nd)) (b ++ rest).
Proof.
  intros Hi Pa Pb. rewrite !all_regs_concat. unfold set_node; cbn [nodes]. rewrite map_upd.
  destruct (concat_upd1 (map regs (nodes s)) i) as (R & P1 & P2); [rewrite map_length; auto|].
  assert (E : nth i (map regs (nodes s)) [] = regs (nth_node s i)).
  { exact (map_nth regs (nodes s) (empty_node 0 0) i). }
  rewrite E in P1. exists (rest0 ++ R). split.
  - rewrite P1, Pa, app_assoc. reflexivity.
  - rewrite (P2 (regs nd)), Pb, app_assoc. reflexivity.
Qed.

Lemma all_regs_set_same s i nd : regs nd = regs (nth_node s i) -> all_regs (set_node s i nd) = all_regs s.
Proof.
  intro E. rewrite !all_regs_concat. unfold set_node; cbn [nodes].
  rewrite (map_upd_same regs (nodes s) i nd (empty_node 0 0)); auto.
Qed.

Lemma all_regs_mk l h h' : all_regs (mkNet l h) = all_regs (mkNet l h').
Proof. reflexivity. Qed.

Lemma flat_map_regs_with_virt (f : node -> list vq) l :
  flat_map regs (map (fun nd => with_virt nd (f nd)) l) = flat_map regs l.
Proof. induction l as [|a t IH]; simpl; auto. rewrite IH. reflexivity. Qed.

(* ---- inside one node ----------------------------------------------------------------------------------------------- *)
Lemma set_reg_notin l r' : ~ In (r_num r') (map r_num l) -> set_reg l r' = l.
Proof.
  intro H. unfold set_reg. rewrite <- (map_id l) at 2. apply map_ext_in. intros x Hx.
  destruct (Nat.eqb_spec (r_num x) (r_num r')); auto. exfalso. apply H. rewrite <- e. apply in_map; auto.
Qed.

Lemma del_reg_notin l k : ~ In k (map r_num l) -> del_reg l k = l.
Proof.
  unfold del_reg. induction l as [|a t IH]; simpl; auto. intro H.
  destruct (Nat.eqb_spec (r_num a) k); simpl; [exfalso; apply H; auto|]. f_equal. apply IH. tauto.
Qed.

Lemma perm_del_reg l r : NoDup (map r_num l) -> In r l -> Permutation l (r :: del_reg l (r_num r)).
Proof.
  induction l as [|a t IH]; simpl; [tauto|]. intros Hn Hin. inversion Hn; subst.
  destruct Hin as [->|Hin].
  - rewrite Nat.eqb_refl. simpl. fold (del_reg t (r_num r)). rewrite del_reg_notin; auto.
  - destruct (Nat.eqb_spec (r_num a) (r_num r)) as [E|N]; simpl.
    + exfalso. apply H1. rewrite E. apply in_map; auto.
    + fold (del_reg t (r_num r)). rewrite (IH H2 Hin) at 1. apply perm_swap.
Qed.

Lemma perm_set_reg l r r' : NoDup (map r_num l) -> In r l -> r_num r' = r_num r ->
  Permutation (set_reg l r') (r' :: del_reg l (r_num r)).
Proof.
  induction l as [|a t IH]; simpl; [tauto|]. intros Hn Hin E. inversion Hn; subst.
  fold (set_reg t r'). fold (del_reg t (r_num r)).
  destruct Hin as [->|Hin].
  - rewrite E, Nat.eqb_refl. simpl. rewrite set_reg_notin by (rewrite E; auto). rewrite del_reg_notin; auto.
  - destruct (Nat.eqb_spec (r_num a) (r_num r)) as [E'|N]; simpl.
    + exfalso. apply H1. rewrite E'. apply in_map; auto.
    + rewrite E. destruct (Nat.eqb_spec (r_num a) (r_num r)); [contradiction|].
      rewrite (IH H2 Hin E). apply perm_swap.
Qed.

Lemma del_set_comm l r' k : r_num r' <> k -> del_reg (set_reg l r') k = set_reg (del_reg l k) r'.
Proof.
  intro N. unfold del_reg, set_reg. induction l as [|a t IH]; simpl; auto.
  destruct (Nat.eqb_spec (r_num a) (r_num r')) as [E|N'].
  - destruct (Nat.eqb_spec (r_num r') k); [contradiction|]. destruct (Nat.eqb_spec (r_num a) k); [congruence|].
    simpl. rewrite E, Nat.eqb_refl. f_equal. exact IH.
  - destruct (Nat.eqb_spec (r_num a) k); simpl; auto.
    destruct (Nat.eqb_spec (r_num a) (r_num r')); [contradiction|]. f_equal. exact IH.
Qed.

(* ---- identities recorded in registers ------------------------------------------------------------------------------ *)
Lemma pos_onto s i r p : inv s -> In r (regs (nth_node s i)) -> p < r_n r ->
  exists x, In x (sims (nth_node s i)) /\ s_reg x = r_num r /\ s_pos x = p.
Proof.
  intros H Hr Hp. pose proof (inv_nodes s H i) as OK. set (nd := nth_node s i) in *.
  set (l := map s_pos (filter (fun x => Nat.eqb (s_reg x) (r_num r)) (sims nd))).
  assert (Hin : In p l).
  { apply (pigeon l (r_n r)); auto.
    - apply NoDup_map_of_inj.
      + apply NoDup_filter. apply (NoDup_of_map s_simNum). apply (ok_snum nd OK).
      + intros a b Ha Hb E. apply filter_In in Ha as [Ha Ea]. apply filter_In in Hb as [Hb Eb].
        apply Nat.eqb_eq in Ea, Eb.
        apply (NoDup_map_inj s_simNum (sims nd)); auto; [apply (ok_snum nd OK)|].
        apply (ok_pos_inj nd OK); auto. congruence.
    - intros a Ha. apply in_map_iff in Ha as [y [<- Hy]]. apply filter_In in Hy as [Hy Ey]. apply Nat.eqb_eq in Ey.
      destruct (ok_sreg nd OK y Hy) as [r2 [H2 [E2 L2]]].
      assert (r2 = r) by (apply (NoDup_map_inj r_num (regs nd)); auto; [apply (ok_rnum nd OK)|congruence]). subst. auto.
    - unfold l. rewrite map_length. apply (ok_count nd OK r Hr). }
  apply in_map_iff in Hin as [x [E Hx]]. apply filter_In in Hx as [Hx Ex]. apply Nat.eqb_eq in Ex. eauto.
Qed.

(* every identity recorded in a register is the identity of a held qubit, hence below next_hid *)
Lemma reg_ids_held s i r id : ginv s -> In r (regs (nth_node s i)) -> In id (r_ids r) ->
  exists j q, In q (virt (nth_node s j)) /\ v_qid q = id.
Proof.
  intros [_ H] Hr Hid. pose proof (inv_nodes s H i) as OK.
  destruct (In_nth _ _ 0 Hid) as (p & Lp & Ep). rewrite (ok_rn _ OK r Hr) in Lp.
  destruct (pos_onto s i r p H Hr Lp) as (x & Hx & Ex & Epx).
  destruct (inv_onto s H i x Hx) as (j & q & Hq & Eq). unfold vref in Eq. injection Eq as E1 E2.
  exists j, q. split; auto.
  destruct (inv_backed s H j q Hq) as (y & ry & B1 & B2 & B3 & B4 & B5). rewrite E1 in B1, B3.
  assert (y = x) by (apply (NoDup_map_inj s_simNum (sims (nth_node s i))); auto; [apply (ok_snum _ OK)|congruence]). subst y.
  assert (ry = r) by (apply (NoDup_map_inj r_num (regs (nth_node s i))); auto; [apply (ok_rnum _ OK)|congruence]). subst ry.
  congruence.
Qed.

Lemma reg_ids_lt s r id : ginv s -> In r (all_regs s) -> In id (r_ids r) -> id < next_hid s.
Proof.
  intros G Hr Hid. apply in_all_regs in Hr as [i Hr].
  destruct (reg_ids_held s i r id G Hr Hid) as (j & q & Hq & <-). destruct G as [_ H]. apply (inv_qid_lt s H j q Hq).
Qed.

(* ---- tableau update of one register ---------------------------------------------------------------------------------- *)
Lemma perm_update_reg s ni r r' : inv s -> In r (regs (nth_node s ni)) -> r_num r' = r_num r ->
  exists rest, Permutation (all_regs s) (r :: rest) /\ Permutation (all_regs (update_reg_at s ni r')) (r' :: rest).
Proof.
  intros H Hr E. pose proof (ok_rnum _ (inv_nodes s H ni)) as RN. pose proof (in_regs_lt s ni r Hr) as L.
  unfold update_reg_at.
  apply (perm_node_regs s ni _ [r] [r'] (del_reg (regs (nth_node s ni)) (r_num r))); auto.
  - simpl. apply perm_del_reg; auto.
  - simpl. apply perm_set_reg; auto.
Qed.

Lemma apply_gate2_at_eq s ni k g c t r : inv s -> In r (regs (nth_node s ni)) -> r_num r = k ->
  apply_gate2_at s ni k g c t =
  update_reg_at s ni (reg_with_tab r (r_n r) (tab_gate2 (gate2_of g) (r_n r) c t (r_tab r))).
Proof.
  intros H Hr E. unfold apply_gate2_at.
  rewrite (find_reg_in k _ r (ok_rnum _ (inv_nodes s H ni)) Hr E). reflexivity.
Qed.

(* ---- merges --------------------------------------------------------------------------------------------------------------- *)
Lemma perm_local_merge s ni k1 k2 r1 r2 : inv s -> k1 <> k2 ->
  In r1 (regs (nth_node s ni)) -> r_num r1 = k1 -> In r2 (regs (nth_node s ni)) -> r_num r2 = k2 ->
  exists rest, Permutation (all_regs s) (r1 :: r2 :: rest) /\
    Permutation (all_regs (local_merge s ni k1 k2))
      (mkReg (r_num r1) (r_max r1 + r_n r2) (r_n r1 + r_n r2)
             (tensor (r_n r1) (r_tab r1) (r_n r2) (r_tab r2)) (r_ids r1 ++ r_ids r2) :: rest).
Proof.
  intros H Hne Hr1 E1 Hr2 E2.
  pose proof (ok_rnum _ (inv_nodes s H ni)) as RN. pose proof (in_regs_lt s ni r1 Hr1) as L.
  unfold local_merge. rewrite (find_reg_in k1 _ r1 RN Hr1 E1), (find_reg_in k2 _ r2 RN Hr2 E2). cbv zeta.
  set (l := regs (nth_node s ni)) in *.
  set (r1' := mkReg _ _ _ _ _).
  assert (RN2 : NoDup (map r_num (del_reg l k2))) by (unfold del_reg; apply NoDup_map_filter; auto).
  assert (Hr1' : In r1 (del_reg l k2)) by (apply in_del_reg; split; auto; congruence).
  apply (perm_node_regs s ni _ [r1; r2] [r1'] (del_reg (del_reg l k2) k1)); auto.
  - simpl. fold l. rewrite (perm_del_reg l r2 RN Hr2) at 1. rewrite E2.
    rewrite (perm_del_reg (del_reg l k2) r1 RN2 Hr1') at 1. rewrite E1. apply perm_swap.
  - cbn [regs app]. rewrite del_set_comm by (simpl; congruence). rewrite <- E1.
    apply perm_set_reg; auto.
Qed.

Lemma perm_merge_from s li oi simNum lk x lr : li <> oi -> inv s ->
  In x (sims (nth_node s oi)) -> s_simNum x = simNum -> In lr (regs (nth_node s li)) -> r_num lr = lk ->
  exists orr rest, In orr (regs (nth_node s oi)) /\ Permutation (all_regs s) (lr :: orr :: rest) /\
    Permutation (all_regs (fst (merge_from s li oi simNum lk)))
      (mkReg (r_num lr) (r_max lr + r_n orr) (r_n lr + r_n orr)
             (tensor (r_n lr) (r_tab lr) (r_n orr) (r_tab orr)) (r_ids lr ++ r_ids orr) :: rest).
Proof.
  intros Hne H Hx Ex Hlr El.
  pose proof (inv_nodes s H oi) as OKo. pose proof (inv_nodes s H li) as OKl.
  destruct (ok_sreg _ OKo x Hx) as [orr [Horr [Eo Lx]]].
  exists orr.
  unfold merge_from.
  rewrite (find_sq_in simNum _ x (ok_snum _ OKo) Hx Ex).
  rewrite (find_reg_in (s_reg x) _ orr (ok_rnum _ OKo) Horr Eo).
  set (on := nth_node s oi) in *.
  set (on1 := mkNode (virt on) (filter (fun y => negb (Nat.eqb (s_reg y) (r_num orr))) (sims on))
                     (del_reg (regs on) (r_num orr)) (numRegs on - 1) (nextReg on) (maxQ on) (maxR on)).
  rewrite (nth_node_set_neq s oi on1 li Hne).
  set (ln := nth_node s li) in *.
  rewrite (find_reg_in lk _ lr (ok_rnum _ OKl) Hlr El).
  destruct (alloc_sims (r_n orr) lk (r_n lr) (sims ln)) as [sims' ids].
  cbn [fst].
  set (lr' := mkReg (r_num lr) (r_max lr + r_n orr) (r_n lr + r_n orr) (tensor (r_n lr) (r_tab lr) (r_n orr) (r_tab orr)) (r_ids lr ++ r_ids orr)).
  set (ln1 := mkNode (virt ln) sims' (set_reg (regs ln) lr') (numRegs ln) (nextReg ln) (maxQ ln) (maxR ln)).
  set (s1 := set_node s oi on1).
  set (s2 := set_node s1 li ln1).
  pose proof (in_sims_lt s oi x Hx) as Loi. pose proof (in_regs_lt s li lr Hlr) as Lli.
  (* step 1: the exported register leaves node oi *)
  destruct (perm_node_regs s oi on1 [orr] [] (del_reg (regs on) (r_num orr))) as (rest1 & A1 & A2); auto.
  { simpl. apply perm_del_reg; auto. apply (ok_rnum _ OKo). }
  fold s1 in A2. simpl in A1, A2.
  (* step 2: node li absorbs it *)
  assert (EL : nth_node s1 li = ln) by (unfold s1; apply nth_node_set_neq; auto).
  destruct (perm_node_regs s1 li ln1 [lr] [lr'] (del_reg (regs ln) (r_num lr))) as (rest2 & B1 & B2).
  { unfold s1. rewrite set_node_length. auto. }
  { rewrite EL. simpl. apply perm_del_reg; auto. apply (ok_rnum _ OKl). }
  { simpl. apply perm_set_reg; auto. apply (ok_rnum _ OKl). }
  fold s2 in B2. simpl in B1, B2.
  exists rest2. split; auto. split.
  - rewrite A1, <- A2, B1. apply perm_swap.
  - unfold all_regs at 1. cbn [nodes].
    rewrite (flat_map_regs_with_virt _ (nodes s2)). exact B2.
Qed.

Lemma perm_add_register_force s vi : vi < length (nodes s) ->
  Permutation (all_regs (set_node s vi (fst (add_register_force (nth_node s vi)))))
              (mkReg (nextReg (nth_node s vi)) 10 0 [] [] :: all_regs s).
Proof.
  intros L. unfold add_register_force. cbn [fst].
  set (nd := nth_node s vi). set (r0 := mkReg _ _ _ _ _).
  destruct (perm_node_regs s vi (mkNode (virt nd) (sims nd) (regs nd ++ [r0]) (S (numRegs nd)) (S (nextReg nd)) (maxQ nd) (maxR nd))
              [] [r0] (regs nd)) as (rest & A1 & A2); auto.
  { cbn [regs]. apply Permutation_app_comm. }
  simpl in A1, A2. rewrite A2, A1. reflexivity.
Qed.

(* ---- creation (the statement needs the invariant: register numbers below nextReg) ---------------------------------- *)
Lemma perm_new_alt s n : inv s ->
  (exists v r, snd (step s (ONew n)) = Ok v /\ r_n r = 1 /\ r_tab r = add_qubit 0 [] /\ r_ids r = [next_hid s] /\
               Permutation (all_regs (fst (step s (ONew n)))) (r :: all_regs s))
  \/ ((forall v, snd (step s (ONew n)) <> Ok v) /\ fst (step s (ONew n)) = s).
Proof.
  intros H. simpl. destruct (Nat.ltb_spec n (length (nodes s))) as [L|L]; [|right; split; [discriminate|reflexivity]].
  unfold op_new. set (nd := nth_node s n).
  destruct (Nat.leb (maxQ nd) (length (virt nd))); [right; split; [discriminate|reflexivity]|].
  unfold add_register. destruct (Nat.leb (maxR nd) (numRegs nd)); [right; split; [discriminate|reflexivity]|].
  left. cbv zeta. cbn [fst snd].
  set (r0 := mkReg (nextReg nd) 10 0 [] []).
  set (r1 := reg_with_ids (reg_with_tab r0 1 (add_qubit 0 [])) [next_hid s]).
  eexists. exists r1. split; [reflexivity|]. split; [reflexivity|]. split; [reflexivity|]. split; [reflexivity|].
  match goal with |- Permutation (all_regs (mkNet (upd _ _ ?nd4) _)) _ =>
    change (Permutation (all_regs (set_node s n nd4)) (r1 :: all_regs s));
    destruct (perm_node_regs s n nd4 [] [r1] (regs nd)) as (rest & A1 & A2); auto
  end.
  { cbn [regs with_virt with_sims with_regs]. fold nd.
    rewrite (set_reg_fresh (regs nd) r0 r1).
    - apply Permutation_app_comm.
    - intros r Hr. pose proof (ok_rlt _ (inv_nodes s H n) r Hr). fold nd in H0. simpl. lia.
    - reflexivity. }
  cbn [app] in A1, A2. rewrite A2, A1. reflexivity.
Qed.

(* ---- client-made registers ------------------------------------------------------------------------------------------------ *)
Lemma perm_newreg_alt s n mq :
  (exists v, snd (step s (ONewReg n mq)) = Ok v /\
             Permutation (all_regs (fst (step s (ONewReg n mq)))) (mkReg (nextReg (nth_node s n)) mq 0 [] [] :: all_regs s))
  \/ ((forall v, snd (step s (ONewReg n mq)) <> Ok v) /\ fst (step s (ONewReg n mq)) = s).
Proof.
  simpl. destruct (Nat.ltb_spec n (length (nodes s))) as [L|L]; [|right; split; [discriminate|reflexivity]].
  unfold op_newreg. set (nd := nth_node s n).
  destruct (Nat.leb (maxR nd) (numRegs nd)); [right; split; [discriminate|reflexivity]|].
  left. cbn [fst snd]. eexists. split; [reflexivity|].
  set (r0 := mkReg _ _ _ _ _).
  destruct (perm_node_regs s n (mkNode (virt nd) (sims nd) (regs nd ++ [r0]) (S (numRegs nd)) (S (nextReg nd)) (maxQ nd) (maxR nd))
              [] [r0] (regs nd)) as (rest & A1 & A2); auto.
  { cbn [regs]. apply Permutation_app_comm. }
  simpl in A1, A2. rewrite A2, A1. reflexivity.
Qed.

Lemma perm_new_inreg_alt s n ow k : inv s ->
  (exists v r rest, snd (step s (ONewInReg n ow k)) = Ok v /\ In r (regs (nth_node s n)) /\ r_num r = k /\
      Permutation (all_regs s) (r :: rest) /\
      Permutation (all_regs (fst (step s (ONewInReg n ow k))))
        (mkReg (r_num r) (r_max r) (S (r_n r)) (add_qubit (r_n r) (r_tab r)) (r_ids r ++ [next_hid s]) :: rest))
  \/ ((forall v, snd (step s (ONewInReg n ow k)) <> Ok v) /\ fst (step s (ONewInReg n ow k)) = s).
Proof.
  intros H. simpl. destruct (Nat.ltb_spec n (length (nodes s))) as [L|L]; [|right; split; [discriminate|reflexivity]].
  unfold op_new_inreg. destruct (negb _); [right; split; [discriminate|reflexivity]|].
  set (nd := nth_node s n).
  destruct (Nat.leb (maxQ nd) (length (virt nd))); [right; split; [discriminate|reflexivity]|].
  destruct (find_reg k (regs nd)) as [r|] eqn:EF; [|right; split; [discriminate|reflexivity]].
  destruct (Nat.leb (r_max r) (r_n r)); [right; split; [discriminate|reflexivity]|].
  left. cbv zeta. cbn [fst snd]. apply find_reg_some in EF as [Hr Ek].
  pose proof (ok_rnum _ (inv_nodes s H n)) as RN. fold nd in RN.
  set (r1 := reg_with_ids (reg_with_tab r (S (r_n r)) (add_qubit (r_n r) (r_tab r))) (r_ids r ++ [next_hid s])).
  match goal with |- exists v r0 rest, _ /\ _ /\ _ /\ _ /\ Permutation (all_regs (mkNet (upd _ _ ?nd4) _)) _ =>
    destruct (perm_node_regs s n nd4 [r] [r1] (del_reg (regs nd) (r_num r))) as (rest & A1 & A2); auto end.
  { cbn [app]. apply perm_del_reg; auto. }
  { cbn [regs with_virt with_sims with_regs app]. apply perm_set_reg; auto. }
  eexists. exists r, rest. split; [reflexivity|]. split; [exact Hr|]. split; [exact Ek|]. split; [exact A1|]. exact A2.
Qed.

(* placement of a qubit created inside a register: in every reachable state a successful remote_new_qubit_inreg changes exactly the
   named register of the asked node -- |0> appended at its end (engine add_qubit), recorded under the fresh identity -- and no other
   register of the network; a successful remote_add_register adds one empty register and changes no other *)
Theorem new_inreg_appends_to_named_register s n ow k v : reachable s -> snd (step s (ONewInReg n ow k)) = Ok v ->
  ow = n /\ exists r rest, In r (regs (nth_node s n)) /\ r_num r = k /\ r_n r < r_max r /\
    Permutation (all_regs s) (r :: rest) /\
    Permutation (all_regs (fst (step s (ONewInReg n ow k))))
      (mkReg (r_num r) (r_max r) (S (r_n r)) (add_qubit (r_n r) (r_tab r)) (r_ids r ++ [next_hid s]) :: rest).
Proof.
  intros R EO. destruct (reachable_ginv s R) as [_ H].
  destruct (perm_new_inreg_alt s n ow k H) as [(v' & r & rest & _ & Hr & Ek & P1 & P2) | (NO & _)]; [|exfalso; apply (NO v); exact EO].
  assert (Ln : n < length (nodes s)).
  { simpl in EO. destruct (Nat.ltb_spec n (length (nodes s))); [auto|discriminate]. }
  pose proof (find_reg_in k _ r (ok_rnum _ (inv_nodes s H n)) Hr Ek) as EF.
  destruct (Nat.eq_dec ow n) as [->|NE].
  - destruct (newinreg_decision s n n k r Ln EF) as (_ & _ & [K _]). destruct (K (ex_intro _ v EO)) as (_ & _ & LT).
    split; auto. exists r, rest. auto.
  - exfalso. simpl in EO. destruct (Nat.ltb n (length (nodes s))); [|discriminate]. unfold op_new_inreg in EO.
    destruct (Nat.eqb_spec ow n); [contradiction|]. discriminate.
Qed.

Theorem newreg_adds_one_empty_register s n mq v : snd (step s (ONewReg n mq)) = Ok v ->
  v = nextReg (nth_node s n) /\
  Permutation (all_regs (fst (step s (ONewReg n mq)))) (mkReg v mq 0 [] [] :: all_regs s).
Proof.
  intros EO. destruct (perm_newreg_alt s n mq) as [(v' & EO' & P) | (NO & _)]; [|exfalso; apply (NO v); exact EO].
  assert (v = nextReg (nth_node s n)).
  { simpl in EO. destruct (Nat.ltb n (length (nodes s))); [|discriminate]. unfold op_newreg in EO.
    destruct (Nat.leb _ _); [discriminate|]. inversion EO. reflexivity. }
  subst v. auto.
Qed.

(* without the invariant the statement fails: a register already numbered nextReg is overwritten by set_reg *)
Lemma perm_new_needs_inv :
  exists s n, ~ ((exists v r, snd (step s (ONew n)) = Ok v /\ r_n r = 1 /\ r_tab r = add_qubit 0 [] /\ r_ids r = [next_hid s] /\
               Permutation (all_regs (fst (step s (ONew n)))) (r :: all_regs s))
  \/ ((forall v, snd (step s (ONew n)) <> Ok v) /\ fst (step s (ONew n)) = s)).
Proof.
  exists (mkNet [mkNode [] [] [mkReg 0 10 0 [] []] 1 0 5 5] 0), 0.
  intros [(v & r & _ & _ & _ & _ & P)|[N _]].
  - assert (Hin : In (mkReg 0 10 0 [] []) (r :: [mkReg 0 10 0 [] []])) by (simpl; auto).
    apply (Permutation_in _ (Permutation_sym P)) in Hin.
    vm_compute in Hin. destruct Hin as [E|[E|[]]]; discriminate.
  - apply (N 0). reflexivity.
Qed.

(* ---- sending --------------------------------------------------------------------------------------------------------------- *)
Lemma all_regs_send s h t : all_regs (fst (step s (OSend h t))) = all_regs s.
Proof.
  simpl. unfold op_send. destruct (find_handle s h) as [[vi q]|]; [|reflexivity].
  destruct (Nat.leb (length (nodes s)) t); [reflexivity|].
  destruct (Nat.leb _ _); [reflexivity|]. cbn [fst].
  rewrite all_regs_set_same by reflexivity.
  match goal with |- all_regs (mkNet (upd _ _ ?tn1) _) = _ => change (all_regs (set_node s t tn1) = all_regs s) end.
  apply all_regs_set_same. reflexivity.
Qed.

(* ---- operations that do nothing ------------------------------------------------------------------------------------------ *)
Lemma gate1_unsupported_noop s h g : gate1_of g = None -> fst (step s (OGate1 h g)) = s.
Proof.
  intro E. simpl. unfold op_gate1. destruct (find_handle s h) as [[vi q]|]; [|reflexivity].
  destruct (locate s q) as [[x r]|]; [|reflexivity]. rewrite E. reflexivity.
Qed.

Lemma gate1_stale_noop s h g : find_handle s h = None -> fst (step s (OGate1 h g)) = s.
Proof. intro E. simpl. unfold op_gate1. rewrite E. reflexivity. Qed.

Lemma gate2_noop s h1 h2 g :
  (find_handle s h1 = None \/ find_handle s h2 = None \/ h1 = h2 \/
   (exists v1 q1 v2 q2, find_handle s h1 = Some (v1, q1) /\ find_handle s h2 = Some (v2, q2) /\ v1 <> v2)) ->
  fst (step s (OGate2 h1 h2 g)) = s.
Proof.
  simpl. unfold op_gate2. intros [E|[E|[E|(v1 & q1 & v2 & q2 & E1 & E2 & N)]]].
  - rewrite E. reflexivity.
  - rewrite E. destruct (find_handle s h1) as [[vi q1]|]; reflexivity.
  - subst h2. destruct (find_handle s h1) as [[vi q1]|]; [|reflexivity].
    rewrite !Nat.eqb_refl. cbn [negb].
    destruct (pos_of s (v_simNode q1) (v_simNum q1)) as [k1 p1]. rewrite !Nat.eqb_refl. reflexivity.
  - rewrite E1, E2. destruct (Nat.eqb_spec v1 v2); [contradiction|]. reflexivity.
Qed.

Lemma meas_stale_noop s h ip c : find_handle s h = None -> step s (OMeas h ip c) = (s, Ignored).
Proof. intro E. simpl. unfold op_meas. rewrite E. reflexivity. Qed.

(* ---- shape of a measurement on a live handle ------------------------------------------------------------------------------ *)
Lemma meas_shape s h vi q ip coin : ginv s -> find_handle s h = Some (vi, q) ->
  exists x r rest, In r (regs (nth_node s (v_simNode q))) /\ s_pos x < r_n r /\
    nth (s_pos x) (r_ids r) 0 = v_qid q /\
    Permutation (all_regs s) (r :: rest) /\
    let '(o, n1, t1) := measure (r_n r) (s_pos x) true coin (r_tab r) in
    snd (step s (OMeas h ip coin)) = Ok (if o then 1 else 0) /\
    Permutation (all_regs (fst (step s (OMeas h ip coin))))
      (if ip then reg_with_tab r n1 t1 :: rest
       else let '(_, n2, t2) := measure n1 (s_pos x) false coin t1 in
            if Nat.eqb n2 0 then rest
            else mkReg (r_num r) (r_max r) n2 t2 (remove_nth (s_pos x) (r_ids r)) :: rest).
Proof.
  intros [HI H] EF.
  pose proof (find_handle_some s h vi q EF) as (Lvi & Hq & Eh).
  destruct (inv_backed s H vi q Hq) as (y & ry & B1 & B2 & B3 & B4 & B5).
  set (sn := v_simNode q) in *.
  pose proof (inv_nodes s H sn) as OK.
  pose proof (in_regs_lt s sn ry B3) as Lsn.
  assert (LP : s_pos y < r_n ry).
  { destruct (ok_sreg _ OK y B1) as [r2 [H2 [E2 L2]]].
    assert (r2 = ry) by (apply (NoDup_map_inj r_num (regs (nth_node s sn))); auto; [apply (ok_rnum _ OK)|congruence]). subst; auto. }
  pose proof (measure_n (r_n ry) (s_pos y) true coin (r_tab ry)) as EN.
  destruct (measure (r_n ry) (s_pos y) true coin (r_tab ry)) as [[o n1] t1] eqn:EM. simpl in EN. subst n1.
  set (r1 := reg_with_tab ry (r_n ry) t1).
  destruct (perm_update_reg s sn ry r1 H B3 eq_refl) as (rest & P1 & P2).
  exists y, ry, rest. split; auto. split; auto. split; auto. split; auto.
  rewrite EM.
  simpl step. unfold op_meas. rewrite EF. unfold locate. fold sn.
  rewrite (find_sq_in (v_simNum q) _ y (ok_snum _ OK) B1 B2).
  rewrite (find_reg_in (s_reg y) _ ry (ok_rnum _ OK) B3 B4). rewrite EM. fold r1.
  set (s1 := update_reg_at s sn r1) in *.
  destruct ip; cbn [fst snd]; [split; [reflexivity|exact P2]|].
  split; [reflexivity|].
  rewrite all_regs_set_same by reflexivity.
  assert (I1 : inv s1) by (apply inv_update_tab with (r := ry); auto).
  assert (R1 : In r1 (regs (nth_node s1 sn))).
  { unfold s1, update_reg_at. rewrite nth_node_set_eq; auto. cbn [regs with_regs]. apply in_set_reg_new with (r := ry); auto. }
  assert (L1 : sn < length (nodes s1)) by (apply (in_regs_lt s1 sn r1 R1)).
  pose proof (ok_rnum _ (inv_nodes s1 I1 sn)) as RN1.
  unfold remove_sim.
  change (r_n r1) with (r_n ry). change (r_tab r1) with t1.
  destruct (measure (r_n ry) (s_pos y) false coin t1) as [[o2 n2] t2].
  destruct (Nat.eqb n2 0).
  - match goal with |- Permutation (all_regs (set_node s1 sn ?nd)) _ =>
      destruct (perm_node_regs s1 sn nd [r1] [] (del_reg (regs (nth_node s1 sn)) (r_num r1))) as (rest' & Q1 & Q2); auto end.
    { cbn [app]. apply perm_del_reg; auto. }
    cbn [app] in Q1, Q2. rewrite Q2. rewrite P2 in Q1. apply Permutation_cons_inv in Q1. symmetry. exact Q1.
  - set (r' := reg_with_ids (reg_with_tab r1 n2 t2) (remove_nth (s_pos y) (r_ids r1))).
    match goal with |- Permutation (all_regs (set_node s1 sn ?nd)) _ =>
      destruct (perm_node_regs s1 sn nd [r1] [r'] (del_reg (regs (nth_node s1 sn)) (r_num r1))) as (rest' & Q1 & Q2); auto end.
    { cbn [app]. apply perm_del_reg; auto. }
    { cbn [regs with_sims app]. apply perm_set_reg; auto. }
    cbn [app] in Q1, Q2. rewrite Q2. rewrite P2 in Q1. apply Permutation_cons_inv in Q1.
    change r' with (mkReg (r_num ry) (r_max ry) n2 t2 (remove_nth (s_pos y) (r_ids ry))).
    apply perm_skip. symmetry. exact Q1.
Qed.
