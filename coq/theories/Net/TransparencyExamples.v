(* C01, layer 2: non-vacuity.  Three nodes; a Bell pair is built by a BOTH-REMOTE two-qubit gate (node 2 holds two qubits
   simulated at nodes 0 and 1), one half is then sent on so the pair is split over two nodes, a third qubit is created in
   another register, and both halves are measured (in place, random branch; destructively, determined branch). *)
From Coq Require Import List Bool Arith.
From SQ Require Import Base.ListUtil Stab.Pauli Stab.Kernels Stab.Tableau Stab.Group Stab.GroupGates
     Net.Model Net.RegsPerm Net.Joint Net.Ideal Net.Transparency.
Import ListNotations.

Definition caps3 : list (nat * nat) := [(5,5);(5,5);(5,5)].
Definition prog7 : list op :=
  [ONew 0; ONew 1; OGate1 0 NH; OSend 0 2; OSend 1 2; OGate2 2 3 NCnot; OSend 3 0; ONew 1].
Definition prog : list op := prog7 ++ [OMeas 4 true true; OMeas 2 false false].
Notation s7 := (run (init_net caps3) prog7).

(* placement after prog7: (handle, simulating node, identity) of the held qubits per node: the Bell pair (identities 0, 1)
   lives in a register of node 2 and is held by nodes 2 and 0; node 1 holds and simulates identity 5 *)
Example ex_placement :
  map (fun nd => map (fun q => (v_hid q, v_simNode q, v_qid q)) (virt nd)) (nodes s7) = [[(4, 2, 1)]; [(5, 1, 5)]; [(2, 2, 0)]].
Proof. vm_compute. reflexivity. Qed.

(* the registers of the network as factors (node order), and the ideal register: different qubit orders *)
Example ex_factors :
  factors s7 = [mkF [5] 1 [[false; true; false]];
                mkF [0; 1] 2 [[true; true; false; false; false]; [false; false; true; true; false]]].
Proof. vm_compute. reflexivity. Qed.

Example ex_ideal_state :
  irun iinit (tr_run (init_net caps3) prog7) =
  ([0; 1; 5], [[true; true; false; false; false; false; false];
               [false; false; false; true; true; false; false];
               [false; false; false; false; false; true; false]]).
Proof. vm_compute. reflexivity. Qed.

(* the translation mentions identities only; sends disappear *)
Example ex_translation :
  tr_run (init_net caps3) prog =
  [ICreate 0; ICreate 1; IGate1 0 GH; INop; INop; IGate2 0 1 GCNOT; INop; ICreate 5; IMeas 1 true true; IMeas 0 false false].
Proof. vm_compute. reflexivity. Qed.

(* Z_0 Z_1, X_0 X_1 and Z_5 with sign + are in the joint group of the network ... *)
Definition g2 (a : nat) (x : pauli) (b : nat) (y : pauli) : nat -> pauli := gupd (gupd (fun _ => PI) a x) b y.

Example ex_joint_ZZ : joint s7 (P0, g2 0 PZ 1 PZ).
Proof.
  unfold joint. rewrite ex_factors. simpl.
  exists (pone 1), (P0, g2 0 PZ 1 PZ). split; [apply gen_one|]. split.
  - exists (decode_ph 2 [false; false; true; true; false]), gone. split; [apply gen_row; simpl; auto|].
    split; [apply geq_refl|]. split; [reflexivity|]. intros [|[|q]]; reflexivity.
  - split; [reflexivity|]. intros [|[|[|[|[|[|q]]]]]]; reflexivity.
Qed.

Example ex_joint_XX_Z5 : joint s7 (P0, gupd (g2 0 PX 1 PX) 5 PZ).
Proof.
  unfold joint. rewrite ex_factors. simpl.
  exists (decode_ph 1 [false; true; false]), (P0, g2 0 PX 1 PX). split; [apply gen_row; simpl; auto|]. split.
  - exists (decode_ph 2 [true; true; false; false; false]), gone. split; [apply gen_row; simpl; auto|].
    split; [apply geq_refl|]. split; [reflexivity|]. intros [|[|q]]; reflexivity.
  - split; [reflexivity|]. intros [|[|[|[|[|[|q]]]]]]; reflexivity.
Qed.

(* ... hence, by the theorem, in the group of the ideal register (whose qubit order is different) *)
Example ex_ideal_ZZ : ideal (irun iinit (tr_run (init_net caps3) prog7)) (P0, g2 0 PZ 1 PZ).
Proof.
  pose proof (location_transparency caps3 prog7) as H. cbv zeta in H. destruct H as [H _].
  apply (proj1 (H _)). exact ex_joint_ZZ.
Qed.

(* outcomes: the in-place measurement of identity 1 (random branch, coin 1) reports 1; the destructive measurement of the
   other half (identity 0, held by another node) is then determined and reports 1 as well; the ideal machine agrees *)
Example ex_outcomes :
  run_outs (init_net caps3) prog = [Ok 0; Ok 0; OkNone; Ok 0; Ok 1; OkNone; Ok 0; Ok 0; Ok 1; Ok 1] /\
  outs_meas prog (run_outs (init_net caps3) prog) = [None; None; None; None; None; None; None; None; Some true; Some true] /\
  irun_outs iinit (tr_run (init_net caps3) prog) = [None; None; None; None; None; None; None; None; Some true; Some true].
Proof. vm_compute. auto. Qed.

(* after both measurements: identity 0 is gone, identity 1 carries -Z *)
Example ex_after :
  factors (run (init_net caps3) prog) = [mkF [5] 1 [[false; true; false]]; mkF [1] 1 [[false; true; true]]] /\
  irun iinit (tr_run (init_net caps3) prog) = ([1; 5], [[false; false; true; false; true]; [false; false; false; true; false]]).
Proof. vm_compute. auto. Qed.

(* the hypothesis of reported_outcome_possible is satisfiable: node 0 measures its half of the pair *)
Example ex_reported : snd (step s7 (OMeas 4 true true)) = Ok 1 /\ snd (step s7 (OMeas 4 true false)) = Ok 0.
Proof. vm_compute. auto. Qed.

(* ---- client-made registers (remote_add_register / remote_new_qubit_inreg) ------------------------------------------------------------
   Node 0 makes a register of capacity 2 and fills it with two qubits (a third creation is refused: register full); they are
   entangled inside that register; node 1 makes a register it never uses; one half is sent to node 1, which creates an ordinary
   qubit and applies CNOT(new qubit, received half): node 1 PULLS the client-made register of node 0.  The empty register is an
   empty factor, the register operations translate to creations of fresh |0> qubits / no-ops. *)
Definition capsr : list (nat * nat) := [(5,3);(5,3)].
Definition regprog10 : list op :=
  [ONewReg 0 2; ONewInReg 0 0 0; ONewInReg 0 0 0; ONewInReg 0 0 0; OGate1 0 NH; OGate2 0 1 NCnot; ONewReg 1 4; OSend 1 1; ONew 1;
   OGate2 3 2 NCnot].
Definition regprog : list op := regprog10 ++ [OMeas 2 true true; OMeas 0 false false; OMeas 3 false true].

Example ex_reg_translation :
  tr_run (init_net capsr) regprog =
  [INop; ICreate 0; ICreate 1; INop; IGate1 0 GH; IGate2 0 1 GCNOT; INop; INop; ICreate 3; IGate2 3 1 GCNOT;
   IMeas 1 true true; IMeas 0 false false; IMeas 3 false true].
Proof. vm_compute. reflexivity. Qed.

(* the unused register of node 1 is an empty factor; the pulled register holds identities 3, 0, 1 in ITS order *)
Example ex_reg_factors :
  factors (run (init_net capsr) regprog10) =
  [mkF [] 0 [];
   mkF [3; 0; 1] 3 [[false; false; false; true; false; false; false];
                    [false; true; true; false; false; false; false];
                    [false; false; false; true; true; true; false]]] /\
  irun iinit (tr_run (init_net capsr) regprog10) =
  ([0; 1; 3], [[true; true; false; false; false; false; false];
               [false; false; false; true; true; true; false];
               [false; false; false; false; false; true; false]]).
Proof. vm_compute. auto. Qed.

Example ex_reg_outcomes :
  run_outs (init_net capsr) regprog =
    [Ok 0; Ok 0; Ok 1; Err KNoQubit; OkNone; OkNone; Ok 0; Ok 0; Ok 1; OkNone; Ok 1; Ok 1; Ok 0] /\
  outs_meas regprog (run_outs (init_net capsr) regprog) =
    [None; None; None; None; None; None; None; None; None; None; Some true; Some true; Some false] /\
  irun_outs iinit (tr_run (init_net capsr) regprog) =
    [None; None; None; None; None; None; None; None; None; None; Some true; Some true; Some false].
Proof. vm_compute. auto. Qed.

(* X_0 X_1 (the Bell pair made inside the client-made register) is in the joint group, hence in the ideal group *)
Example ex_reg_joint_XX : joint (run (init_net capsr) regprog10) (P0, g2 0 PX 1 PX).
Proof.
  unfold joint. rewrite (proj1 ex_reg_factors). simpl.
  exists (pone 0), (P0, g2 0 PX 1 PX). split; [apply gen_one|]. split.
  - exists (decode_ph 3 [false; true; true; false; false; false; false]), gone. split; [apply gen_row; simpl; auto|].
    split; [apply geq_refl|]. split; [reflexivity|]. intros [|[|[|[|q]]]]; reflexivity.
  - split; [reflexivity|]. intro q; reflexivity.
Qed.

Example ex_reg_ideal_XX : ideal (irun iinit (tr_run (init_net capsr) regprog10)) (P0, g2 0 PX 1 PX).
Proof.
  pose proof (location_transparency capsr regprog10) as H. cbv zeta in H. destruct H as [H _].
  apply (proj1 (H _)). exact ex_reg_joint_XX.
Qed.
