#!/usr/bin/env python3
"""Regenerates MANIFEST.json from the table below (single source of truth for what is claimed)."""
import json
import os

VERIF = os.path.dirname(os.path.dirname(os.path.abspath(__file__)))
ALL = ["C%02d" % i for i in range(1, 21)]

CLAIMED = {
    "C11": dict(
        text="Coq theorems: a teardown invariant (held qubits of a node = |qubitList|, handles live) holds over every application history; StopApp completes and answers Done on error-free applications and leaves no held qubit of the application, for any number of application generations (`C11_stop_restores`); the network a host drives is a reachable Model-V state and, once every application is stopped, NO node holds a qubit, simulates a qubit or keeps a register (`C11_stop_leaves_nothing`, via 'registers are never empty at a quiescent point'); halves handed to the peer survive the creator's stop; a pair creation that does not succeed answers an error and leaves every host's bookkeeping and every node's held qubits, simulated qubits, registers and register count exactly as before (C11_failed_creation_restores; the repaired cmd_epr removes its temporaries; C11_unrepaired_code_leaked keeps the old behaviour as a refutation of the old function). Several hosts with pair creation (Qasm/TeardownNet.v): over one shared Model-V network with one host per node, for every history of instructions, successful pair creations (cmd_epr_keep + delivery) and polls that is `clean` (no binding to an occupied address, no re-initialised application id; refused pair creations ARE allowed), the global invariant holds, held(j) = |qubit list of j| + |unclaimed halves at j|, nothing host i executes (in particular a stop) changes what another node holds (C11_stop_keeps_peer_halves), and once every host has stopped and no half is unclaimed NO node holds, simulates or registers anything (C11_net_stop_leaves_nothing; C11_unclaimed_half_stays shows the hypothesis is needed). The N-host model (cmd_epr_keep with its cleanup, address mapping, receive deques, polls) is tied message by message by Qasm/EprCases.v (native calls incl. the cleanup measurements, node dumps, host bookkeeping, deques) on failed and successful requests; the multi-node oracle exercises longer histories on the real handlers. Tie: applications with allocations, frees, pair halves and deliberately failing subroutines at capacities 1..3 over >= 3 generations through the real handler; on 2-3 nodes: generations of create-and-keep requests, gates between the halves a node holds (repeater: both simulated elsewhere), measurements, frees and stops in any order, after which every node's (held, simulated, registers, register counter) must be (0, 0, 0, 0) and a stop must not change what other nodes hold.",
        design="9.5/C11 (notes/C11.md)",
        note="Trusted: as C09. Known finding: C11:appid-reuse (application id cannot be reused after StopApp; root cause in netqasm's SharedMemoryManager). Repaired: D16(i) refused qalloc, D16(ii) temporaries of a failed pair creation (ba627eb).",
        technique="Coq proof (teardown invariant over application histories, refutation witness) + vm_compute correspondence + count oracle"),
    "C12": dict(
        text="Coq theorems: may_create topo known self r = true <-> r is a known node, r <> self, and (no topology configured or r is listed among self's neighbours) — directed topologies, nodes absent from the topology, unknown ids; refusal kinds in the order cmd_epr checks them. is_adjacent is regenerated from factory.py on every run and proved equal to the model; the order of the three checks in cmd_epr before the first cmd_new is a generated obligation. Tie: the real NetQASMFactory.is_adjacent / cmd_epr (sentinel cmd_new) over ALL directed topologies on <= 3 nodes x all ordered pairs, random up to 5 nodes.",
        design="9.5/C12 (notes/C12.md)",
        note="Trusted: Coq kernel; ast translator translate/adjacent.py; the end-to-end clause 'a refused request creates no qubits anywhere' is proved as C12_refused_creates_nothing (Properties/C08.v, Qasm/EprGate.v) and exercised by props/c12_e2e.py on the in-process NetQASM hosts.",
        technique="Coq proof (iff decision theorem) + source-to-Coq translator with generated equality lemma + exhaustive small-domain correspondence"),
    "C13": dict(
        text="Coq theorems for all tableau sizes: each of the 8 gate kernels is the Clifford conjugation (sign included) of the Pauli string a row denotes; "
             "conjugation tables proved against Gaussian-integer matrices; conjugation is an injective homomorphism of the n-qubit Pauli group preserving commutation, hence a gate maps the generated group onto exactly the conjugated group and keeps the generators commuting and independent; the row product implements the Pauli product with the phase rule as coded; tensor product / add_qubit generate the product group (rows are the identity-padded rows); Gaussian elimination preserves the generated group (signs included), yields the unique reduced row echelon form, and therefore == holds iff the two groups are equal and contains(g) iff g is in the group (C13_teq_iff_same_group, C13_contains_iff_in_group, C13_rref_unique). "
             "The kernels are regenerated from stabilizer_states.py on every run and proved equal to the model; exact model/implementation correspondence for gates, tensor, add_qubit, Gaussian elimination, ==, contains, row product (incl. structured +-i imbalances); value semantics of the model checked on the objects: copies, products (also with the empty state) and queries share no storage with their operands.",
        design="4/C13",
        note="Trusted: Coq kernel+vm_compute; ast translator for the gate kernels; numpy semantics of masks/views; group<->state link checked numerically (oracle), not proved.",
        technique="Coq proof (per-row conjugation theorems, all n) + source-to-Coq translator with generated equality lemmas + vm_compute correspondence"),
    "C01": dict(
        text="Coq theorems over Model V (seven client operations: create, create register, create in a register, one- and two-qubit gates, send, measure) for every network, program and placement history (all seven merge cases). Layer 1 (placement): each native operation issues its engine call at exactly the register position whose recorded identity is the physical qubit the handle denotes (control/target order preserved); merges preserve the bookkeeping invariant and the identity records; sending hands over the same physical qubit; identities are never duplicated. Layer 2 (C01_location_transparency): the product of the stabilizer groups of all registers of all nodes, each placed on the identities it records, equals the stabilizer group of an ideal single register running the translated program with the same coins, and the list of measurement outcomes is identical; C01_reported_outcome_possible: a reported outcome is never the impossible one (group criterion). Composition of the C13/C14 group theorems. Not formalised: stabilizer group <-> Hilbert-space vector and the Born rule (same status as C13/C14); other engines go through C15. Tie: exact model/implementation dump equality after every operation (direct calls and real PB), and an independent state-vector oracle comparing the joint state after EVERY operation.",
        design="4/C01",
        note="Trusted: Coq kernel+vm_compute; in-process harness; Hilbert space not formalised (stabilizer group <-> state is textbook, checked numerically by the oracle); the ideal machine is a specification.",
        technique="Coq proof (placement refinement with ghost qubit identities + joint-group = ideal-group simulation, induction over operation lists) + vm_compute correspondence + state-vector oracle"),
    "C02": dict(
        text="Coq theorem over Model V: an explicit inductive invariant (per node: id uniqueness, register table consistency, positions of a register's simulated qubits injective/bounded/as many as the register size; network-wide: backing map held qubit -> simulated qubit total, injective and onto, ghost identities aligned) holds in every state reachable by ANY list of the seven client operations (create, create register, create in a register, gates, send, measure) on ANY network (failed operations included); corollaries: backed by exactly one existing simulated qubit, no sharing/no orphan, positions are a permutation of 0..k-1, ids unique, exact population deltas per operation. Tie: dump equality after every operation + an id()-based walk of the real object graph evaluating the same invariant.",
        design="4/C02",
        note="Trusted: Coq kernel; in-process harness (direct wiring / real PB in memory, virtual clock, scripted coin); sequential semantics (quiescent points only); tableau shape facts are not part of this invariant.",
        technique="Coq proof (inductive invariant preserved by every case of every operation, induction over operation lists) + vm_compute correspondence + object-graph oracle"),
    "C03": dict(
        text="PARTIAL. Coq theorems over Model L (labelled transition system at the granularity of the code's yield points: lock request, poller acquisition, remote delivery, timer expiry, release): ownership invariant, mutual exclusion for lock-disciplined (two-phase) runs, a held lock is held by its owner and released only by it; `C03_serializable_refuted`/`C03_foreign_release`: the _lock_nodes timeout path releases a lock owned by another operation (recorded 14-event trace of the real code, known finding D6). Data level, proved GENERICALLY (Conc/TwoPhase.v): for abstract node data, per-operation local state and any deterministic access function, a legal, covered, two-phase schedule ends with the store and every operation's local state of the SERIAL schedule in lock-point order, that order respects real-time precedence, and each hypothesis is needed (refutation examples); every accepted Model-L run of a lock-disciplined configuration is a legal two-phase lock schedule, so any covered placement of accesses inside a recorded trace is serializable in the order computed from the trace alone (C03_disciplined_runs_serializable). Not proved and not checked by the tie: that virtual.py's operations ARE such access sequences (coverage of each node's bookkeeping footprint by its node lock); it is an assumption, known to fail for the `active` test (D23) and for the removal of a measured qubit at the holding node, where runs stay serializable in another order (counters lockpoint_order_matches / other_order_matches). Tie: every lock-event trace recorded from the real code under a seeded scheduler over the real Perspective Broker (~900 schedules quick) must be accepted event by event by the LTS (vm_compute), completed operations and held locks must agree; Coq's sched_report on the recorded lock schedules (legal, two-phase, lock order) must equal the harness's; oracle: results, final dump and joint state equal those of SOME sequential order respecting each client's order.",
        design="9.5/C03 (notes/C03.md)",
        note="Trusted: Coq kernel; scheduler harness (iosim pumps, virtual clock, seeded back-off / timer ties / host order, lock taps by wrapping methods from outside); qubit-level locks are judged by the Python oracle only. Known findings: D6 (_lock_nodes timeout with pending request), D23 (shared handle consumed by a concurrent operation).",
        technique="Coq proof (invariants of an LTS, refutation traces) + trace acceptance by vm_compute + serializability oracle over explored schedules"),
    "C04": dict(
        text="Coq theorems over Model L: any number of single-lock operations complete under EVERY schedule within a bounded number of events and leave all locks free; lock-disciplined runs are bounded; `_refuted` family proved by stuck-state invariants (not bounded search): a send addressed to the issuing node hangs holding its lock (D4), crossing / cyclic sends and any wait-for knot of sends deadlock (D5), the _lock_nodes timeout path orphans a lock for ever (D6) — listed known findings. Tie: as C03 (trace acceptance); oracle: every operation's Deferred fires within a virtual-time budget and no node or qubit lock is held at quiescence; any hang outside the listed trigger classes is a VIOLATION with the schedule as replay.",
        design="9.5/C04 (notes/C04.md)",
        note="Trusted: as C03. Liveness of _lock_nodes beyond D6 is neither proved nor refuted (random back-off); the explored schedules are a test of it.",
        technique="Coq proof (completion by measure, deadlock by invariant) + trace acceptance by vm_compute + completion/lock oracle over explored schedules"),
    "C05": dict(
        text="Coq theorems over Model V (sequential semantics of the virtual-node network) for every state and operation: a refused operation returns the whole network state unchanged (refusal_atomic), "
             "iff-tables for every refusal cause, no undocumented failure; model tied to the code by step-by-step dump equality (bookkeeping + exact generator matrices + returned value / exception class) on random and scripted histories.",
        design="4/C05",
        note="Trusted: Coq kernel; in-process harness (direct wiring, virtual clock, scripted coin); Twisted/numpy not modelled; lock release is observed by the oracle, not proved. Error class across a real PB boundary is checked by the PB part when present.",
        technique="Coq proof (atomicity + decision tables over all states) + vm_compute correspondence of Model V with the real virtual nodes"),
    "C06": dict(
        text="Coq theorems: an operation of any kind through a stale handle is the identity on the whole network state; handle ids are unique and never reused, so a handle whose qubit was sent or measured destructively is stale after any later history (induction over all operation sequences). Tie: dump equality after every operation, ~25% of operations issued through retained stale handles.",
        design="4/C06",
        note="Trusted: as C05. Handle ids are ghost state of the model (allocated whenever the code constructs a virtualQubit); the harness assigns the same ids to the Python objects.",
        technique="Coq proof (invariant by induction over operation lists) + vm_compute correspondence"),
    "C07": dict(
        text="Coq theorems: for every capacity configuration and every history (failed operations included) every node holds at most its configured maximum; create/receive succeed iff held < max (register availability made explicit); two-qubit gates are never refused for capacity. Tie: dump equality after every operation against capacities 1..5 / registers 1..8.",
        design="4/C07",
        note="Trusted: as C05. Concurrent arrivals for the last slot are covered by the PB schedules of C03 when present, not by this sequential model.",
        technique="Coq proof (capacity invariant over fold_left step + iff decision theorems) + vm_compute correspondence"),
    "C08": dict(
        text="Coq theorems over the EPR layer model: for every n and EVERY interleaving of creator steps and receiver polls both sides obtain exactly n results whose i-th entries carry equal sequence numbers, opposite directionality, each other's node id and the local socket as purpose id, FIFO per socket; the same for the KEYED model with any number of sockets, node pairs and directions in one event list: FIFO per receiving queue, and per directed key received ++ queued = created in order with sequence numbers start, start+1, ... and the i-th received record = the i-th created one (C08_keyed_pairing; C08_shared_queue_unfiltered_refuted shows what fails when two creators share one receiving socket, C08_keyed_pairing_sole the unfiltered statement for a sole creator); sequence numbers are unique per direction; `C08_seq_unique_refuted`: pairs created in opposite directions on one socket pair collide (known finding D15); after the creator's four native operations the pair register is exactly [XX; ZZ] (stabilizer model, vm_compute); measure-directly outcome table for all 3x3 bases x coins consistent with |Phi+>. Tie: two/three real SubroutineHandlers on the in-process network driven through netqasm.sdk under a seeded scheduler (25% over real PB); measure-directly requests carry random 8-bit basis-choice weights per side (written into the request array, which the SDK leaves at 0), nodes give up earlier halves between requests; ReturnArray contents on both hosts, reported bases within the requested sets, joint state of the delivered qubits (numpy), FIFO/sequence model compared in Coq.",
        design="9.5/C08 (notes/C08.md)",
        note="Trusted: Coq kernel; netqasm SDK/message layer (library code); the keyed (multi-socket, multi-node, both directions) model is tied by correspondence and the pairing theorem is proved for it directly (Qasm/EprKeyed.v); the item record carries no directionality flag (checked by the oracle only).",
        technique="Coq proof (LTS over all interleavings, finite tables by vm_compute, refutation witness) + vm_compute correspondence with real NetQASM handlers"),
    "C09": dict(
        text="Coq theorems over Model N (NetQASM executor on top of Model V): the address chain virtual address -> physical id -> handle is a partial injection preserved by every instruction incl. failing ones; a re-allocated address denotes a fresh qubit; each quantum instruction issues the native operation of the (translated) instruction table on the handle its address denotes, control first; instructions the backend cannot simulate and instructions on unmapped/identical operands are refused with the state unchanged. The instruction table is regenerated from executioner.py on every run and proved equal to the model's. Classical instruction semantics is netqasm library code: compared with an independent Python reference interpreter. Tie: random well-formed subroutines through the real SubroutineHandler; returned messages and node dump after every subroutine.",
        design="9.5/C09 (notes/C09.md)",
        note="Trusted: Coq kernel; translate/optable.py; netqasm parser/classical interpreter (not modelled; reference interpreter is the oracle); builds on Model V's tie.",
        technique="Coq proof (address-chain invariant by induction over instruction lists) + translator with generated table lemmas + vm_compute correspondence"),
    "C10": dict(
        text="Coq theorems over Model F: server-side reassembly for ALL message lists and ALL chunkings of the byte stream (each message handled once, in order, payload cut at the header length, buffer empty at the end; chunking-invariant even for malformed streams; the loop terminates), one Done per handled message, client-side reassembly for any prefix-free codec with the concrete return-message layouts shown prefix-free, byte-stream integrity of the classical socket; `_refuted` theorems with concrete witnesses for what the code violates (reply routed to the last-opened connection; unframed classical socket: coalescing and truncation) — these are listed known findings. Tie: the real NetQASMProtocol / SimulaQronConnection._handle_reply / Socket objects are fed all chunkings (exhaustive for short streams) and compared with the model in Coq.",
        design="9.5/C10 (notes/C10.md)",
        note="Trusted: Coq kernel; netqasm message (de)serialisers (their prefix-rejection is checked per run, not proved); handlers are synchronous in model and harness; real TCP buffering replaced by chosen chunkings / a local socketpair.",
        technique="Coq proof (induction over chunk lists / message lists, prefix-free codec lemma, refutation witnesses) + vm_compute correspondence"),
    "C14": dict(
        text="Coq theorems at the level of the stabilizer group, in the ORIGINAL qubit order, for every well-formed state of n commuting independent generators and every position: random branch: outcome = coin for both coins and the in-place result is exactly {h, (-1)^coin Z_p h : h in G commuting with Z_p}; determined branch: outcome = 0 iff +Z_p in G (one of +-Z_p always is), group unchanged; destructive results are exactly the elements of the in-place group acting as I on p with that position deleted and the others in order, again n-1 commuting independent generators; an immediate in-place re-measurement repeats the outcome and keeps the group (C14_meas_random, C14_meas_determined_outcome, C14_meas_*_destructive, C14_meas_repeat). Not formalised: the link stabilizer group <-> Hilbert-space state / Born rule (textbook; checked numerically by the projector oracle on every run). Tie: exact tableau+outcome correspondence with the coin forced both ways (exhaustive on 1..2 qubits quick / 1..3 thorough x positions x modes x coins, random up to 8 qubits).",
        design="9.5/C14 (notes/C14.md)",
        note="Trusted: Coq kernel; numpy primitives of StabilizerState.measure (modelled by hand, tied by exact correspondence); Born rule <-> stabilizer group link checked numerically.",
        technique="Coq proof (group-level measurement lemmas over the elimination invariant) + exhaustive small-domain vm_compute correspondence + numpy oracle"),
    "C15": dict(
        text="PARTIAL (stabilizer backend only; qutip and projectq are not installed, their engine modules cannot be imported, so no model of them could be tied to code). Coq record EngineLaws (add_fresh returns the old size and appends |0>; absorb = tensor product with the absorbed positions offset; absorb_parts after export = absorb; refusal exactly when the size limit would be exceeded and before any mutation) proved for the model of stabilizerEngine; the tableau after absorb generates exactly the product group {a (x) b} with the absorbed qubits behind (C15_absorb_is_product_group), and every call sequence of the interface (gates, both measurement modes and branches, add_fresh, absorb / absorb_parts of full registers) keeps a full stabilizer state of n commuting independent generators (C15_interface_keeps_full_states); tie: the real stabilizerEngine driven call-for-call (random sequences <= 20 calls, 1..6 qubits, absorb into empty/non-empty, export/import) with exact get_register_RI comparison in Coq plus the numpy state oracle.",
        design="9.5/C15 (notes/C15.md)",
        note="Trusted: Coq kernel; the contract is stated once, the qutip/projectq instances are NOT claimed.",
        technique="Coq proof (engine contract record instantiated for the stabilizer engine) + vm_compute correspondence"),
    "C16": dict(
        text="Coq theorems over Model C (configuration store with the OS port probe as an arbitrary oracle) for EVERY edit sequence: no two endpoints share (host, port) in memory or on disk (inductive invariant preserved by all 8 operations incl. refused ones), a removed node is gone from node list, topology keys and neighbour lists and stays gone, write/read round trip, node id = index in the verified sorted name list with both lookups mutual inverses and reader-independent. Tie: after every edit of random edit sequences the real NetworksConfigConstructor / SocketsConfig / SimulaQronNetworkInfo results equal the model's (vm_compute), independent Python oracle states the property directly.",
        design="9.5/C16 (notes/C16.md)",
        note="Trusted: Coq kernel; harness patches _check_socket_is_free with a scripted probe (and leaves it real in a few runs); json/file system not modelled; only ASCII node names exercised for sorted vs String.leb.",
        technique="Coq proof (invariant by induction over edit lists, verified insertion sort) + vm_compute correspondence"),
    "C17": dict(
        text="Coq theorems for EVERY n: the complete/ring/path constructions as coded are symmetric simple connected graphs over exactly the given nodes with n(n-1)/2, n, n-1 edges; relabelling and adding k-(n-1) distinct non-edges to a tree preserve the predicates for every choice sequence; range check iff. networkx returning a tree is library behaviour: each sampled tree is checked to be one (in Coq and by the oracle). Tie: construct_topology_config on node lists of 2..12 names, recorded trees and choice sequences replayed in the model.",
        design="9.5/C17 (notes/C17.md)",
        note="Trusted: Coq kernel; networkx tree generator (validated per sample, not proved); Python's random for the choice sequence (recorded).",
        technique="Coq proof (graph predicates for all n, induction) + vm_compute correspondence"),
    "C18": dict(
        text="Coq theorems over Model P (store file, user override file, per-process cache): for single-writer histories of set/reset/reload/spawn of any length a later process reads the written value unless the user file overrides that key; reset restores every documented default in the store; user-file keys take precedence whenever overrides are enabled and are ignored otherwise. Tie: every 'process started later' is a fresh interpreter on a scratch copy of the package and a scratch HOME; ordered whole caches and the store file are compared with the model after every step.",
        design="9.5/C18 (notes/C18.md)",
        note="Trusted: Coq kernel; json round trip of JSON-native scalars (exercised, not proved); the lost update between two long-lived writers is stated as a remark with witness (outside the property's quantifier).",
        technique="Coq proof (invariants by induction over histories) + vm_compute correspondence with fresh interpreters"),
    "C19": dict(
        text="Coq theorems over Model Z: with noise disabled the decision is 'nothing' for every idle time; for 0 <= p <= 1/4 the X/Y/Z decision sets are the disjoint intervals [0,p), [p,2p), [2p,3p) of length p inside [0,1) (exact rationals; plus a counting form for all N); the applied Pauli touches only the addressed position (sign flips exactly on anticommuting generators); 0 <= (1-exp(-t/T1))/4 < 1/4 over Coq's reals. Translators: the threshold comparisons and the rate expression are regenerated from quantum.py and proved equal to the model; every gate/measurement method calls the noise routine before touching the register (generated obligation). Tie: the real _apply_random_pauli_noise on a real simulatedQubit with patched clock and draw at thresholds +-1 ulp, exact rational comparison of doubles.",
        design="9.5/C19 (notes/C19.md)",
        note="Trusted: Coq kernel; stdlib axioms used ONLY by the three rate theorems in Properties/C19_rate.v: ClassicalDedekindReals.sig_forall_dec, ClassicalDedekindReals.sig_not_dec, FunctionalExtensionality.functional_extensionality_dep, Classical_Prop.classic (all declared by the Coq standard library, pulled in by Reals/exp_increasing); numpy exp is not modelled (p is taken from the implementation and its range is checked). Observation only: in two-qubit gates only the control's idle clock is consulted.",
        technique="Coq proof (interval arithmetic over Q, Reals for the rate bound) + translators with generated lemmas + exact-rational correspondence"),
    "C20": dict(
        text="PARTIAL by nature. Coq theorems over Model D (connect-retry state machine as coded; process list of Network): in every fair run, for every n and every order in which nodes come up, a state is reached in which check_connections holds at every node, it is stable, never prematurely true, no duplicate connections; stop empties the process set and start after stop works (repaired start()); the unrepaired restart is refuted. The OS half (process death, port release, spawn latency) is OBSERVED, not proved: real Network.start/stop on a scratch copy with real processes and TCP (1..3 nodes quick, 1..5 thorough), readiness, check_connections over a PB client at every node, a native program and create_keep/recv_keep over real sockets, every pid dead and every port listenable after stop, restart, staggered manual launches compared with the model on the recorded launch order.",
        design="9.5/C20 (notes/C20.md)",
        note="Trusted: Coq kernel; spawn/terminate are Section hypotheses (spawn Fresh = Alive, terminate Alive = Ended), not axioms; the OS; connection attempts are not observable from outside (only the monotone predicate is compared).",
        technique="Coq proof (fairness/measure argument over the connect-retry LTS) + correspondence with real processes and sockets"),
}

PENDING_REASON = "machinery for this property is not built yet in this revision (no claim made); see DESIGN.md section 4"


def main():
    checks = []
    for pid in ALL:
        if pid not in CLAIMED:
            continue
        c = CLAIMED[pid]
        checks.append({
            "property_id": pid,
            "quick_cmd": "./check %s --tier quick" % pid,
            "thorough_cmd": "./check %s --tier thorough" % pid,
            "evidence_file": "/verif/evidence/%s.json" % pid,
            "replay_cmd_template": "./check %s --replay {path}" % pid,
            "engine": "coq-sq",
            "level_claimed": {"category": "proof", "text": c["text"], "design_ref": "DESIGN.md section " + c["design"]},
            "level_note": c["note"],
            "technique": c["technique"],
        })
    m = {
        "version": 1,
        "setup_cmd": "./check build",
        "hooks": {
            "guard": "SIMULAQRON_VERIF",
            "enable": "no hook commits exist: the harness drives the unmodified code from outside (scratch copy of /repo, monkey-patched reactor/random/clock); SIMULAQRON_VERIF=1 is exported by the harness but nothing in /repo reads it",
            "baseline_off_cmd": "cd /repo && /venv/bin/python -m pytest -ra -q -p no:cacheprovider --timeout=900 --continue-on-collection-errors",
            "source_commits": [],
            "add_only": True,
        },
        "engines": [{"name": "coq-sq", "path": "/verif/coq", "serves_properties": sorted(CLAIMED),
                     "kind_free_text": "Coq 8.16.1 development (models + theorems), Python ast translators, vm_compute correspondence driven by /verif/harness"}],
        "checks": checks,
        "notes": "Every check copies /repo's working tree to a scratch directory, regenerates the translated Coq files, rebuilds the Coq development, re-checks the property theorems (Print Assumptions) and runs the model/implementation correspondence. known_findings.json lists genuine defects recorded rather than repaired.",
        "not_applicable": [{"property_id": p, "reason": PENDING_REASON} for p in ALL if p not in CLAIMED],
    }
    json.dump(m, open(os.path.join(VERIF, "MANIFEST.json"), "w"), indent=1)
    print("claimed:", sorted(CLAIMED))


if __name__ == "__main__":
    main()
