(* Model F, part 5: one node with several host connections and its single shared message handler.

   NetQASMFactory.__init__          : self.backend = backend(self)              ONE handler per node   (factory.py:174)
   NetQASMProtocol.__init__         : self.messageHandler = factory.backend
                                      self.messageHandler.protocol = self       overwritten by every new connection (factory.py:66-67)
   QNodeController._handle_message  : run the handler for the message type, then _mark_message_finished
   SubroutineHandler._mark_message_finished : self._return_msg(MsgDoneMessage(msg_id))               (qnodeos.py:39-41)
   SubroutineHandler._return_msg    : self.protocol._return_msg(bytes(msg))     -> transport.write on THAT protocol (qnodeos.py:46-50)

   The handlers are taken to complete synchronously (as the stub handlers of the harness do); `exec m` is the list
   of return messages the executor sends while handling m, before the Done.  The stream parser is the repaired one. *)
From Coq Require Import List NArith Arith Lia Bool.
From SQ Require Import Base.ListUtil Frame.Bytes Frame.Msg Frame.Stream.
Import ListNotations.
Local Open Scope nat_scope.

Record node := mkNode {
  bufs : list bytes;                    (* NetQASMProtocol.buf of connection 0, 1, ... in the order they were opened *)
  hp : option nat;                      (* SubroutineHandler._protocol: the connection replies are written to *)
  outs : list (nat * retmsg);           (* every transport.write, in order: (connection, message) *)
  log : list (nat * frame)              (* every handle_netqasm_message call, in order: (connection it arrived on, frame) *)
}.

Inductive nop :=
| Open                                  (* factory.buildProtocol(addr) *)
| Data (c : nat) (d : bytes)            (* connection c: dataReceived(d) *)
| Close (c : nat).                      (* connection c: connectionLost(reason) — `pass` in the code: no effect on the node *)

Definition node0 : node := mkNode [] None [] [].

Definition replies (exec : hostmsg -> list retmsg) (f : frame) : list retmsg :=
  exec (snd f) ++ [RDone (fst f)].

Definition nstep_gen (feed : bytes -> bytes -> list frame * bytes * status)
  (exec : hostmsg -> list retmsg) (st : node) (op : nop) : node :=
  match op with
  | Open => mkNode (bufs st ++ [[]]) (Some (length (bufs st))) (outs st) (log st)
  | Data c d =>
      if c <? length (bufs st) then
        let '(hs, r, _) := feed (nth c (bufs st) []) d in
        match hp st with
        | Some t =>
            mkNode (upd (bufs st) c r) (hp st)
                   (outs st ++ flat_map (fun f => map (fun m => (t, m)) (replies exec f)) hs)
                   (log st ++ map (fun f => (c, f)) hs)
        | None => mkNode (upd (bufs st) c r) (hp st) (outs st) (log st ++ map (fun f => (c, f)) hs)
        end
      else st
  | Close _ => st
  end.

Definition nstep := nstep_gen feed_fix.
(* the same node around the parser as found (only used to recognise the unrepaired tree) *)
Definition nrun_cur (exec : hostmsg -> list retmsg) (ops : list nop) : node :=
  fold_left (nstep_gen feed_cur exec) ops node0.

Definition nrun (exec : hostmsg -> list retmsg) (ops : list nop) : node := fold_left (nstep exec) ops node0.

Definition done_id (w : nat * retmsg) : option N := match snd w with RDone id => Some id | _ => None end.

Fixpoint done_ids (ws : list (nat * retmsg)) : list N :=
  match ws with
  | [] => []
  | w :: ws' => match done_id w with Some id => id :: done_ids ws' | None => done_ids ws' end
  end.

Definition is_done (m : retmsg) : bool := match m with RDone _ => true | _ => false end.

(* bytes on the wire of connection c *)
Definition wire (c : nat) (ws : list (nat * retmsg)) : list bytes :=
  map (fun w => enc_ret (snd w)) (filter (fun w => fst w =? c) ws).

(* the routing the property asks for: the Done of every handled frame is written to the connection the frame
   arrived on.  `routed_ok` pairs the k-th handled frame with the k-th Done. *)
Fixpoint dones (ws : list (nat * retmsg)) : list (nat * N) :=
  match ws with
  | [] => []
  | (c, RDone id) :: ws' => (c, id) :: dones ws'
  | _ :: ws' => dones ws'
  end.

Definition arrivals (l : list (nat * frame)) : list (nat * N) := map (fun x => (fst x, fst (snd x))) l.
