(* C01, layer 2 (definitions and the algebra of factor lists).
   A global signed Pauli string assigns a Pauli to every physical-qubit IDENTITY (a natural number) and carries a
   phase; it is order-free: no qubit order is chosen.  A *factor* is a register seen from outside: the identities at
   its positions and its tableau.  `jgroup fs P`: P is in the product of the groups of the factors fs, every factor
   placed on its own identities.  For a network the factors are all registers of all nodes (`factors`, `joint`); for the
   ideal machine there is exactly one factor (`ideal`).  Everything is stated up to `geq` (equal phase, pointwise equal
   Paulis): no functional extensionality. *)
From Coq Require Import List Bool Arith Lia Permutation.
From SQ Require Import Base.ListUtil Stab.Pauli Stab.Kernels Stab.Gates Stab.Tableau Stab.Group Stab.GroupGates
     Stab.TensorProof Net.Model.
Import ListNotations.

Definition gstr := (ph * (nat -> pauli))%type.
Definition geq (P Q : gstr) : Prop := fst P = fst Q /\ forall q, snd P q = snd Q q.
Definition gone : gstr := (P0, fun _ => PI).

Lemma geq_refl P : geq P P. Proof. split; auto. Qed.
Lemma geq_sym P Q : geq P Q -> geq Q P. Proof. intros [A B]; split; auto. Qed.
Lemma geq_trans P Q R : geq P Q -> geq Q R -> geq P R.
Proof. intros [A B] [C D]; split; [congruence|]. intro q. rewrite B; auto. Qed.

(* place the string l on the identities ids (position by position), f elsewhere; first occurrence wins *)
Fixpoint over (ids : list nat) (l : list pauli) (f : nat -> pauli) (q : nat) : pauli :=
  match ids, l with
  | a :: ids', x :: l' => if Nat.eqb a q then x else over ids' l' f q
  | _, _ => f q
  end.

Definition gover (ids : list nat) (g : pstr) (P : gstr) : gstr := (padd (fst g) (fst P), over ids (snd g) (snd P)).

Record factor := mkF { f_ids : list nat; f_n : nat; f_tab : tab }.

Fixpoint jgroup (fs : list factor) (P : gstr) : Prop :=
  match fs with
  | [] => geq P gone
  | f :: fs' => exists g P', gen (f_n f) (f_tab f) g /\ jgroup fs' P' /\ geq P (gover (f_ids f) g P')
  end.

Definition all_ids (fs : list factor) : list nat := flat_map f_ids fs.

(* ---- over ------------------------------------------------------------------------------------------------------- *)
Lemma over_cases ids : forall l q,
  (In q ids /\ exists x, forall f, over ids l f q = x) \/ (forall f, over ids l f q = f q).
Proof.
  induction ids as [|a ids IH]; intros [|x l] q; simpl; auto.
  destruct (Nat.eqb_spec a q) as [->|Hne].
  - left. split; auto. exists x. auto.
  - destruct (IH l q) as [[Hin [y Hy]]|H]; [left|right]; auto. split; auto. exists y; auto.
Qed.

Lemma over_notin ids : forall l f q, ~ In q ids -> over ids l f q = f q.
Proof.
  intros l f q H. destruct (over_cases ids l q) as [[Hin _]|E]; [contradiction|auto].
Qed.

Lemma over_ext ids : forall l f f' q, f q = f' q -> over ids l f q = over ids l f' q.
Proof.
  intros l f f' q E. destruct (over_cases ids l q) as [[_ [x Hx]]|H].
  - rewrite !Hx. reflexivity.
  - rewrite !H. exact E.
Qed.

Lemma over_swap ids1 l1 ids2 l2 f q : (forall y, In y ids1 -> In y ids2 -> False) ->
  over ids1 l1 (over ids2 l2 f) q = over ids2 l2 (over ids1 l1 f) q.
Proof.
  intro D.
  destruct (over_cases ids1 l1 q) as [[I1 [x1 H1]]|H1], (over_cases ids2 l2 q) as [[I2 [x2 H2]]|H2].
  - exfalso; eauto.
  - rewrite H1, H2, H1. reflexivity.
  - rewrite H1, H2, H2. reflexivity.
  - rewrite H1, H2, H2, H1. reflexivity.
Qed.

Lemma over_app ids1 : forall l1 ids2 l2 f q, length ids1 = length l1 ->
  over (ids1 ++ ids2) (l1 ++ l2) f q = over ids1 l1 (over ids2 l2 f) q.
Proof.
  induction ids1 as [|a ids1 IH]; intros [|x l1] ids2 l2 f q HL; simpl in *; try discriminate; auto.
  destruct (Nat.eqb a q); auto.
Qed.

Lemma over_nth ids : forall l f p, NoDup ids -> length ids = length l -> p < length ids ->
  over ids l f (nth p ids 0) = nth p l PI.
Proof.
  induction ids as [|a ids IH]; intros [|x l] f p ND HL Hp; simpl in *; try discriminate; try lia.
  inversion ND; subst.
  destruct p as [|p].
  - rewrite Nat.eqb_refl. reflexivity.
  - destruct (Nat.eqb_spec a (nth p ids 0)) as [E|_].
    + exfalso. apply H1. rewrite E. apply nth_In. lia.
    + apply IH; auto; lia.
Qed.

Definition gupd (f : nat -> pauli) (q : nat) (x : pauli) : nat -> pauli := fun y => if Nat.eqb y q then x else f y.

Lemma over_upd ids : forall l f p x y, NoDup ids -> length ids = length l -> p < length ids ->
  over ids (upd l p x) f y = gupd (over ids l f) (nth p ids 0) x y.
Proof.
  induction ids as [|a ids IH]; intros [|z l] f p x y ND HL Hp; simpl in *; try discriminate; try lia.
  inversion ND; subst. unfold gupd in *.
  destruct p as [|p]; simpl.
  - rewrite (Nat.eqb_sym y a). destruct (Nat.eqb a y); reflexivity.
  - rewrite IH by (auto; lia).
    destruct (Nat.eqb_spec a y) as [->|Hne]; auto.
    destruct (Nat.eqb_spec y (nth p ids 0)) as [E|_]; auto.
    exfalso. apply H1. rewrite E. apply nth_In. lia.
Qed.

Lemma over_repeat_PI ids : forall n q, over ids (repeat PI n) (fun _ => PI) q = PI.
Proof.
  induction ids as [|a ids IH]; intros [|n] q; simpl; auto. destruct (Nat.eqb a q); auto.
Qed.

(* removing a position that carries the identity, when the background is the identity at that qubit *)
Lemma over_remove ids : forall l f p y, NoDup ids -> length ids = length l -> p < length ids ->
  nth p l PI = PI -> f (nth p ids 0) = PI ->
  over (remove_nth p ids) (remove_nth p l) f y = over ids l f y.
Proof.
  induction ids as [|a ids IH]; intros [|x l] f p y ND HL Hp Hx Hf; simpl in *; try discriminate; try lia.
  inversion ND; subst.
  destruct p as [|p]; simpl in *.
  - subst x. destruct (Nat.eqb_spec a y) as [->|Hne]; auto.
    rewrite over_notin; auto.
  - destruct (Nat.eqb a y); auto. apply IH; auto; lia.
Qed.

(* ---- geq and jgroup ------------------------------------------------------------------------------------------------ *)
Lemma gover_geq ids g P Q : geq P Q -> geq (gover ids g P) (gover ids g Q).
Proof.
  intros [A B]. split; simpl; [congruence|]. intro q. apply over_ext. apply B.
Qed.

Lemma jgroup_geq fs P Q : geq P Q -> jgroup fs P -> jgroup fs Q.
Proof.
  destruct fs as [|f fs]; simpl; intros E H.
  - apply geq_trans with P; auto. apply geq_sym; auto.
  - destruct H as (g & P' & G & J & E'). exists g, P'. split; [auto|split; [auto|]].
    apply geq_trans with P; auto. apply geq_sym; auto.
Qed.

Lemma jgroup_one fs : jgroup fs gone.
Proof.
  induction fs as [|f fs IH]; simpl; [apply geq_refl|].
  exists (pone (f_n f)), gone. split; [apply gen_one|split; [auto|]]. split; [reflexivity|].
  intro q. simpl. rewrite over_repeat_PI. reflexivity.
Qed.

(* outside all identities a member of the joint group is the identity *)
Lemma jgroup_support fs : forall P q, jgroup fs P -> ~ In q (all_ids fs) -> snd P q = PI.
Proof.
  induction fs as [|f fs IH]; simpl; intros P q H Hn.
  - destruct H as [_ H]. apply H.
  - destruct H as (g & P' & G & J & [_ E]). rewrite E. simpl.
    rewrite over_notin by (intro; apply Hn; apply in_or_app; auto).
    apply IH; auto. intro; apply Hn; apply in_or_app; auto.
Qed.

Lemma padd_swap a b c : padd a (padd b c) = padd b (padd a c).
Proof. destruct a, b, c; reflexivity. Qed.

Lemma jgroup_swap f1 f2 fs P : (forall y, In y (f_ids f1) -> In y (f_ids f2) -> False) ->
  jgroup (f1 :: f2 :: fs) P -> jgroup (f2 :: f1 :: fs) P.
Proof.
  intros D (g1 & P1 & G1 & (g2 & P2 & G2 & J & E2) & E1).
  exists g2, (gover (f_ids f1) g1 P2). split; auto. split.
  - exists g1, P2. split; [auto|split; [auto|apply geq_refl]].
  - apply geq_trans with (gover (f_ids f1) g1 P1); auto.
    apply geq_trans with (gover (f_ids f1) g1 (gover (f_ids f2) g2 P2)); [apply gover_geq; auto|].
    split; simpl; [apply padd_swap|]. intro q. apply over_swap; auto.
Qed.

Lemma Permutation_flat_map' {A B} (f : A -> list B) l l' : Permutation l l' -> Permutation (flat_map f l) (flat_map f l').
Proof.
  induction 1; simpl; auto.
  - apply Permutation_app_head; auto.
  - rewrite !app_assoc. apply Permutation_app_tail. apply Permutation_app_comm.
  - eapply Permutation_trans; eauto.
Qed.

Lemma NoDup_app_disj {A} (a b : list A) : NoDup (a ++ b) -> forall y, In y a -> In y b -> False.
Proof.
  induction a as [|x a IH]; simpl; intros H y Ha Hb; [contradiction|].
  inversion H; subst. destruct Ha as [->|Ha]; [apply H2; apply in_or_app; auto | eauto].
Qed.

Lemma NoDup_app_l {A} (a b : list A) : NoDup (a ++ b) -> NoDup a.
Proof.
  induction a as [|x a IH]; simpl; intros H; [constructor|]. inversion H; subst. constructor; auto.
  intro; apply H2; apply in_or_app; auto.
Qed.
Lemma NoDup_app_r {A} (a b : list A) : NoDup (a ++ b) -> NoDup b.
Proof. induction a as [|x a IH]; simpl; intros H; auto. inversion H; auto. Qed.

Lemma jgroup_perm_1 fs fs' : Permutation fs fs' -> NoDup (all_ids fs) -> forall P, jgroup fs P -> jgroup fs' P.
Proof.
  induction 1; intros ND P J0; auto.
  - simpl in *. destruct J0 as (g & P' & G & J & E). exists g, P'. split; [auto|split; [|auto]].
    apply IHPermutation; auto. apply NoDup_app_r in ND; auto.
  - apply jgroup_swap; auto. simpl in ND. rewrite app_assoc in ND. apply NoDup_app_l in ND.
    intros z A B. apply (NoDup_app_disj _ _ ND z); auto.
  - apply IHPermutation2; [|apply IHPermutation1; auto].
    apply Permutation_NoDup with (all_ids l); auto. apply Permutation_flat_map'; auto.
Qed.

Theorem jgroup_perm fs fs' P : Permutation fs fs' -> NoDup (all_ids fs) -> (jgroup fs P <-> jgroup fs' P).
Proof.
  intros Hp ND. split; [apply jgroup_perm_1; auto|].
  apply jgroup_perm_1; [apply Permutation_sym; auto|].
  apply Permutation_NoDup with (all_ids fs); auto. apply Permutation_flat_map'; auto.
Qed.

(* replacing the head factor by one that generates the same group *)
Lemma jgroup_head_congr ids n t t' fs P : same_group n t t' ->
  (jgroup (mkF ids n t :: fs) P <-> jgroup (mkF ids n t' :: fs) P).
Proof.
  intro SG. simpl. split; intros (g & P' & G & J & E); exists g, P'; (split; [apply SG; auto|split; auto]).
Qed.

(* an empty factor contributes nothing *)
Lemma gen_0_nil g : gen 0 [] g <-> g = (P0, []).
Proof.
  split; [apply gen_nil | intros ->; apply (gen_one 0 [])].
Qed.

Lemma jgroup_drop_empty ids fs P : jgroup (mkF ids 0 [] :: fs) P <-> jgroup fs P.
Proof.
  simpl. split.
  - intros (g & P' & G & J & E). apply gen_0_nil in G. subst g. apply jgroup_geq with P'; auto.
    apply geq_sym. eapply geq_trans; [exact E|]. split; simpl; [apply padd_0_l|]. intro q. destruct ids; reflexivity.
  - intro J. exists (P0, []), P. split; [apply gen_0_nil; auto|]. split; auto.
    split; simpl; [symmetry; apply padd_0_l|]. intro q. destruct ids; reflexivity.
Qed.

(* ---- merging two factors: tensor on the concatenated identities ------------------------------------------------------ *)
Theorem jgroup_merge ids1 n1 t1 ids2 n2 t2 fs P :
  wf_tab n1 t1 -> wf_tab n2 t2 -> (n1 = 0 -> t1 = []) -> (n2 = 0 -> t2 = []) -> length ids1 = n1 ->
  (jgroup (mkF (ids1 ++ ids2) (n1 + n2) (tensor n1 t1 n2 t2) :: fs) P <->
   jgroup (mkF ids1 n1 t1 :: mkF ids2 n2 t2 :: fs) P).
Proof.
  intros W1 W2 Z1 Z2 L1. simpl. split.
  - intros (g & P' & G & J & E).
    apply (tensor_group n1 t1 n2 t2 W1 W2 Z1 Z2) in G. destruct G as (a & b & Ga & Gb & ->).
    exists a, (gover ids2 b P'). split; auto. split; [exists b, P'; split; [auto|split; [auto|apply geq_refl]]|].
    eapply geq_trans; [exact E|]. split; simpl; [symmetry; apply padd_assoc|].
    intro q. apply over_app. rewrite (gen_length _ _ _ Ga). auto.
  - intros (a & P1 & Ga & (b & P' & Gb & J & E2) & E1).
    exists (ptensor a b), P'. split; [apply (tensor_group n1 t1 n2 t2 W1 W2 Z1 Z2); eauto|]. split; auto.
    eapply geq_trans; [exact E1|]. eapply geq_trans; [apply gover_geq; exact E2|].
    split; simpl; [apply padd_assoc|]. intro q. symmetry. apply over_app. rewrite (gen_length _ _ _ Ga). auto.
Qed.

(* ---- the global counterparts of the local transformations ------------------------------------------------------------ *)
Definition gconj1 (g : gate1) (q : nat) (P : gstr) : gstr :=
  (padd (fst P) (ph_of_sign (fst (conj1_tbl g (snd P q)))), gupd (snd P) q (snd (conj1_tbl g (snd P q)))).

Definition gconj2 (g : gate2) (qc qt : nat) (P : gstr) : gstr :=
  let r := conj2_tbl g (snd P qc) (snd P qt) in
  (padd (fst P) (ph_of_sign (fst r)), gupd (gupd (snd P) qc (fst (snd r))) qt (snd (snd r))).

(* (-1)^coin Z_q from the left *)
Definition gmulz (coin : bool) (q : nat) (P : gstr) : gstr :=
  (padd (padd (ph_of_sign coin) (fst P)) (fst (pmul1 PZ (snd P q))), gupd (snd P) q (snd (pmul1 PZ (snd P q)))).

(* i^s Z_q *)
Definition gz (s : ph) (q : nat) : gstr := (s, gupd (fun _ => PI) q PZ).

Lemma gconj1_geq g q P Q : geq P Q -> geq (gconj1 g q P) (gconj1 g q Q).
Proof.
  intros [A B]. unfold gconj1. rewrite A, (B q). split; simpl; auto. intro y. unfold gupd. destruct (Nat.eqb y q); auto.
Qed.
Lemma gconj2_geq g qc qt P Q : geq P Q -> geq (gconj2 g qc qt P) (gconj2 g qc qt Q).
Proof.
  intros [A B]. unfold gconj2. rewrite A, (B qc), (B qt). split; simpl; auto. intro y. unfold gupd.
  destruct (Nat.eqb y qt); auto. destruct (Nat.eqb y qc); auto.
Qed.
Lemma gmulz_geq c q P Q : geq P Q -> geq (gmulz c q P) (gmulz c q Q).
Proof.
  intros [A B]. unfold gmulz. rewrite A, (B q). split; simpl; auto. intro y. unfold gupd. destruct (Nat.eqb y q); auto.
Qed.

Section Head.
  Variables (ids : list nat) (n : nat).
  Hypothesis ND : NoDup ids.
  Hypothesis LN : length ids = n.

  Lemma head_conj1 g p a P : length (snd a) = n -> p < n ->
    geq (gover ids (conj1p g p a) P) (gconj1 g (nth p ids 0) (gover ids a P)).
  Proof.
    intros La Hp. unfold gconj1, gover, conj1p. cbn [fst snd].
    rewrite (over_nth ids (snd a) (snd P) p) by (auto; lia).
    split; cbn [fst snd].
    - set (k := ph_of_sign _). destruct (fst a), (fst P), k; reflexivity.
    - intro y. apply over_upd; auto; lia.
  Qed.

  Lemma head_conj2 g c t a P : length (snd a) = n -> c < n -> t < n -> c <> t ->
    geq (gover ids (conj2p g c t a) P) (gconj2 g (nth c ids 0) (nth t ids 0) (gover ids a P)).
  Proof.
    intros La Hc Ht Hne. unfold gconj2, gover, conj2p. cbn [fst snd].
    rewrite (over_nth ids (snd a) (snd P) c) by (auto; lia).
    rewrite (over_nth ids (snd a) (snd P) t) by (auto; lia).
    split; cbn [fst snd].
    - set (k := ph_of_sign _). destruct (fst a), (fst P), k; reflexivity.
    - intro y. rewrite over_upd by (auto; rewrite ?upd_length; lia).
      unfold gupd at 1. unfold gupd at 1. destruct (Nat.eqb y (nth t ids 0)); auto.
      apply over_upd; auto; lia.
  Qed.
End Head.
