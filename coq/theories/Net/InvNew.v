(* invariant preservation: creation and sending *)
From Coq Require Import List Bool Arith Lia Permutation.
From SQ Require Import Base.ListUtil Stab.Tableau Net.Model Net.Refusal Net.Capacity Net.Handles Net.Fresh Net.Inv.
Import ListNotations.

Lemma nth_node_mk s i nd h j :
  nth_node (mkNet (upd (nodes s) i nd) h) j =
  if (Nat.eqb j i && Nat.ltb i (length (nodes s)))%bool then nd else nth_node s j.
Proof. apply (nth_node_set s i nd j). Qed.

Lemma set_reg_fresh l r0 r1 :
  (forall r, In r l -> r_num r <> r_num r1) -> r_num r0 = r_num r1 -> set_reg (l ++ [r0]) r1 = l ++ [r1].
Proof.
  intros H E. unfold set_reg. rewrite map_app. simpl. rewrite E, Nat.eqb_refl. f_equal.
  rewrite <- (map_id l) at 2. apply map_ext_in. intros x Hx.
  destruct (Nat.eqb_spec (r_num x) (r_num r1)); auto. exfalso. apply (H x); auto.
Qed.

Lemma in_app_one {A} (x a : A) l : In x (l ++ [a]) <-> In x l \/ x = a.
Proof. rewrite in_app_iff; simpl; intuition. Qed.

Lemma NoDup_app_one {A} (a : A) l : NoDup l -> ~ In a l -> NoDup (l ++ [a]).
Proof.
  intros H Ha. apply NoDup_app_iff. repeat split; auto.
  - constructor; [simpl; tauto | constructor].
  - intros x Hx [->|[]]. contradiction.
Qed.

Lemma filter_app_one {A} (f : A -> bool) l a : filter f (l ++ [a]) = filter f l ++ (if f a then [a] else []).
Proof. rewrite filter_app. simpl. destruct (f a); auto. Qed.

(* ---- creation --------------------------------------------------------------------------------------------------- *)
Lemma inv_new s n : hid_inv s -> inv s -> inv (fst (op_new s n)) .
Proof.
  intros HI H. unfold op_new.
  destruct (Nat.leb_spec (maxQ (nth_node s n)) (length (virt (nth_node s n)))); [exact H|].
  unfold add_register. destruct (Nat.leb_spec (maxR (nth_node s n)) (numRegs (nth_node s n))); [exact H|].
  cbn [fst].
  set (nd := nth_node s n) in *.
  set (K := nextReg nd). set (HH := next_hid s).
  set (simNum := fresh_id (map s_simNum (sims nd))).
  set (newNum := fresh_id (map v_num (virt nd))).
  pose proof (inv_nodes s H n) as OK. fold nd in OK.
  set (r0 := mkReg K 10 0 [] []).
  set (r1 := mkReg K 10 1 (add_qubit 0 []) [HH]).
  assert (RLT : forall r, In r (regs nd) -> r_num r <> K).
  { intros r Hr. pose proof (ok_rlt nd OK r Hr). unfold K. lia. }
  assert (ER : set_reg (regs nd ++ [r0]) r1 = regs nd ++ [r1]) by (apply set_reg_fresh; auto).
  set (xnew := mkSq simNum K 0).
  set (qnew := mkVq HH newNum n simNum HH).
  set (nd4 := mkNode (virt nd ++ [qnew]) (sims nd ++ [xnew]) (regs nd ++ [r1]) (S (numRegs nd)) (S K) (maxQ nd) (maxR nd)).
  match goal with |- inv (mkNet (upd _ _ ?x) _) => replace x with nd4 end.
  2:{ unfold nd4. rewrite <- ER. reflexivity. }
  destruct (Nat.ltb_spec n (length (nodes s))) as [Hn|Hn].
  2:{ (* out of range: nothing changes except the counter; the model guards this in [step] *)
      assert (EN : forall j, nth_node (mkNet (upd (nodes s) n nd4) (S HH)) j = nth_node s j).
      { intro j. rewrite nth_node_mk. destruct (Nat.ltb_spec n (length (nodes s))); try lia.
        rewrite andb_false_r. reflexivity. }
      constructor.
      - intro i. rewrite EN. apply (inv_nodes s H).
      - intros i q Hq. rewrite EN in Hq. rewrite EN. apply (inv_backed s H i q Hq).
      - intros i j q q' Hq Hq'. rewrite EN in Hq, Hq'. apply (inv_inj s H i j q q' Hq Hq').
      - intros j x Hx. rewrite EN in Hx. destruct (inv_onto s H j x Hx) as (i & q & Hq & E). exists i, q. rewrite EN. auto.
      - intros i j q q' Hq Hq'. rewrite EN in Hq, Hq'. apply (inv_qid_inj s H i j q q' Hq Hq').
      - intros i q Hq. rewrite EN in Hq. pose proof (inv_qid_lt s H i q Hq). simpl. unfold HH. lia. }
  assert (EN : forall j, nth_node (mkNet (upd (nodes s) n nd4) (S HH)) j = if Nat.eqb j n then nd4 else nth_node s j).
  { intro j. rewrite nth_node_mk. destruct (Nat.ltb_spec n (length (nodes s))); try lia. rewrite andb_true_r. reflexivity. }
  assert (SOLD : forall x, In x (sims nd) -> s_reg x <> K).
  { intros x Hx. destruct (ok_sreg nd OK x Hx) as [r [Hr [E _]]]. rewrite <- E. apply RLT; auto. }
  assert (FR1 : ~ In simNum (map s_simNum (sims nd))) by apply fresh_id_notin.
  assert (FR2 : ~ In newNum (map v_num (virt nd))) by apply fresh_id_notin.
  assert (NOK : node_ok nd4).
  { pose proof (ok_vnum nd OK) as ok_vnum0. pose proof (ok_snum nd OK) as ok_snum0. pose proof (ok_rnum nd OK) as ok_rnum0.
    pose proof (ok_rlt nd OK) as ok_rlt0. pose proof (ok_nregs nd OK) as ok_nregs0. pose proof (ok_rn nd OK) as ok_rn0.
    pose proof (ok_sreg nd OK) as ok_sreg0. pose proof (ok_pos_inj nd OK) as ok_pos_inj0. pose proof (ok_count nd OK) as ok_count0.
    constructor; unfold nd4; cbn [virt sims regs numRegs nextReg].
    - rewrite map_app. simpl. apply NoDup_app_one; auto.
    - rewrite map_app. simpl. apply NoDup_app_one; auto.
    - rewrite map_app. simpl. apply NoDup_app_one; auto.
      intro Hin. apply in_map_iff in Hin as [r [E Hr]]. apply (RLT r); auto.
    - intros r Hr. apply in_app_one in Hr as [Hr| ->]; [specialize (ok_rlt0 r Hr); fold K in ok_rlt0; lia | simpl; lia].
    - rewrite app_length; simpl. lia.
    - intros r Hr. apply in_app_one in Hr as [Hr| ->]; auto.
    - intros x Hx. apply in_app_one in Hx as [Hx| ->].
      + destruct (ok_sreg0 x Hx) as [r [Hr E]]. exists r. split; auto. apply in_app_one; auto.
      + exists r1. split; [apply in_app_one; auto|]. simpl. split; auto.
    - intros x y Hx Hy E1 E2. apply in_app_one in Hx as [Hx| ->]; apply in_app_one in Hy as [Hy| ->]; auto.
      + exfalso. apply (SOLD x Hx). simpl in E1. auto.
      + exfalso. apply (SOLD y Hy). simpl in E1. auto.
    - intros r Hr. rewrite filter_app_one. rewrite app_length. simpl (s_reg xnew).
      apply in_app_one in Hr as [Hr| ->].
      + destruct (Nat.eqb_spec K (r_num r)); [exfalso; apply (RLT r); auto|]. simpl. rewrite Nat.add_0_r. auto.
      + simpl (r_num r1). rewrite Nat.eqb_refl. simpl.
        assert (E0 : filter (fun x => Nat.eqb (s_reg x) K) (sims nd) = []).
        { clear - SOLD. induction (sims nd) as [|a t IH]; simpl; auto.
          destruct (Nat.eqb_spec (s_reg a) K); [exfalso; apply (SOLD a); simpl; auto|].
          apply IH. intros x Hx. apply SOLD. simpl; auto. }
        rewrite E0. reflexivity. }
  pose proof (inv_nodes s H) as inv_nodes0. pose proof (inv_backed s H) as inv_backed0.
  pose proof (inv_inj s H) as inv_inj0. pose proof (inv_onto s H) as inv_onto0.
  pose proof (inv_qid_inj s H) as inv_qid_inj0. pose proof (inv_qid_lt s H) as inv_qid_lt0.
  constructor.
  - intro i. rewrite EN. destruct (Nat.eqb i n); auto.
  - intros i q Hq. rewrite EN in Hq.
    assert (CASE : (In q (virt (nth_node s i))) \/ (i = n /\ q = qnew)).
    { destruct (Nat.eqb_spec i n) as [->|]; auto. unfold nd4 in Hq; cbn [virt] in Hq.
      apply in_app_one in Hq as [Hq| ->]; auto. }
    destruct CASE as [Hq0|[-> ->]].
    + destruct (inv_backed0 i q Hq0) as (x & r & B1 & B2 & B3 & B4 & B5).
      exists x, r. rewrite EN. destruct (Nat.eqb_spec (v_simNode q) n) as [E|E]; [|repeat split; auto].
      rewrite E in *. fold nd in B1, B3. unfold nd4; cbn [sims regs]. repeat split; auto; apply in_app_one; auto.
    + exists xnew, r1. rewrite EN. simpl (v_simNode qnew). rewrite Nat.eqb_refl. unfold nd4; cbn [sims regs].
      repeat split; auto; apply in_app_one; auto.
  - intros i j q q' Hq Hq' E. rewrite EN in Hq, Hq'.
    assert (CASE : forall i q, In q (virt (if Nat.eqb i n then nd4 else nth_node s i)) -> In q (virt (nth_node s i)) \/ q = qnew).
    { intros i0 q0 Hq0. destruct (Nat.eqb_spec i0 n) as [->|]; auto. unfold nd4 in Hq0; cbn [virt] in Hq0.
      apply in_app_one in Hq0 as [Hq0| ->]; auto. }
    destruct (CASE _ _ Hq) as [A| ->], (CASE _ _ Hq') as [B| ->]; eauto.
    + exfalso. destruct (inv_backed0 i q A) as (x & r & B1 & B2 & _).
      unfold vref in E. simpl in E. injection E as E1 E2. rewrite E1 in B1. fold nd in B1.
      apply FR1. rewrite <- E2, <- B2. apply in_map; auto.
    + exfalso. destruct (inv_backed0 j q' B) as (x & r & B1 & B2 & _).
      unfold vref in E. simpl in E. injection E as E1 E2. rewrite <- E1 in B1. fold nd in B1.
      apply FR1. rewrite E2, <- B2. apply in_map; auto.
  - intros j x Hx. rewrite EN in Hx.
    assert (CASE : In x (sims (nth_node s j)) \/ (j = n /\ x = xnew)).
    { destruct (Nat.eqb_spec j n) as [->|]; auto. unfold nd4 in Hx; cbn [sims] in Hx.
      apply in_app_one in Hx as [Hx| ->]; auto. }
    destruct CASE as [Hx0|[-> ->]].
    + destruct (inv_onto0 j x Hx0) as (i & q & Hq & E). exists i, q. rewrite EN. split; auto.
      destruct (Nat.eqb_spec i n) as [->|]; auto. unfold nd4; cbn [virt]. apply in_app_one; auto.
    + exists n, qnew. rewrite EN, Nat.eqb_refl. unfold nd4; cbn [virt]. split; [apply in_app_one; auto|reflexivity].
  - intros i j q q' Hq Hq' E. rewrite EN in Hq, Hq'.
    assert (CASE : forall i q, In q (virt (if Nat.eqb i n then nd4 else nth_node s i)) -> (exists i', In q (virt (nth_node s i'))) \/ q = qnew).
    { intros i0 q0 Hq0. destruct (Nat.eqb_spec i0 n) as [->|]; eauto. unfold nd4 in Hq0; cbn [virt] in Hq0.
      apply in_app_one in Hq0 as [Hq0| ->]; eauto. }
    destruct (CASE _ _ Hq) as [[a A]| ->], (CASE _ _ Hq') as [[b B]| ->]; eauto.
    + exfalso. specialize (inv_qid_lt0 _ _ A). simpl in E. unfold HH in E. lia.
    + exfalso. specialize (inv_qid_lt0 _ _ B). simpl in E. unfold HH in E. lia.
  - intros i q Hq. rewrite EN in Hq. simpl.
    destruct (Nat.eqb_spec i n) as [->|].
    + unfold nd4 in Hq; cbn [virt] in Hq. apply in_app_one in Hq as [Hq| ->].
      * specialize (inv_qid_lt0 _ _ Hq). unfold HH. lia.
      * simpl. unfold HH. lia.
    + specialize (inv_qid_lt0 _ _ Hq). unfold HH. lia.
Qed.

(* ---- handle ids identify a held qubit ------------------------------------------------------------------------- *)
Lemma NoDup_flat_map_index {A B} (f : A -> list B) (l : list A) d i j a :
  NoDup (flat_map f l) -> i < length l -> j < length l ->
  In a (f (nth i l d)) -> In a (f (nth j l d)) -> i = j.
Proof.
  revert i j. induction l as [|x t IH]; intros i j Hn Hi Hj Ha Hb; simpl in *; [lia|].
  apply NoDup_app_iff in Hn as (N1 & N2 & N3).
  destruct i as [|i], j as [|j]; auto.
  - exfalso. apply (N3 a Ha). apply in_flat_map. exists (nth j t d). split; auto. apply nth_In; lia.
  - exfalso. apply (N3 a Hb). apply in_flat_map. exists (nth i t d). split; auto. apply nth_In; lia.
  - f_equal. apply IH; auto; lia.
Qed.

Lemma NoDup_flat_map_in {A B} (f : A -> list B) (l : list A) x : NoDup (flat_map f l) -> In x l -> NoDup (f x).
Proof.
  induction l as [|a t IH]; simpl; [tauto|]. intros Hn [->|Hx].
  - apply NoDup_app_iff in Hn. tauto.
  - apply NoDup_app_iff in Hn as (_ & N2 & _). auto.
Qed.

Lemma hid_unique s i j p p' :
  hid_inv s -> In p (virt (nth_node s i)) -> In p' (virt (nth_node s j)) -> v_hid p = v_hid p' -> i = j /\ p = p'.
Proof.
  intros [Hn _] Hp Hp' E.
  pose proof (in_virt_lt s i p Hp) as Li. pose proof (in_virt_lt s j p' Hp') as Lj.
  assert (Eij : i = j).
  { apply (NoDup_flat_map_index hn (nodes s) (empty_node 0 0) i j (v_hid p) Hn Li Lj).
    - unfold hn. apply in_map. exact Hp.
    - unfold hn. rewrite E. apply in_map. exact Hp'. }
  split; auto. subst j.
  apply (NoDup_map_inj v_hid (virt (nth_node s i))); auto.
  apply (NoDup_flat_map_in hn (nodes s) (nth_node s i) Hn). apply nth_In; auto.
Qed.

Lemma NoDup_map_filter {A B} (f : A -> B) (g : A -> bool) l : NoDup (map f l) -> NoDup (map f (filter g l)).
Proof.
  induction l as [|a t IH]; simpl; auto. intro Hn. inversion Hn; subst.
  destruct (g a); simpl; auto. constructor; auto.
  intro Hin. apply H1. apply in_map_iff in Hin as [y [E Hy]]. apply filter_In in Hy as [Hy _].
  rewrite <- E. apply in_map; auto.
Qed.

(* ---- sending ------------------------------------------------------------------------------------------------------ *)
Lemma inv_send s h t : hid_inv s -> inv s -> inv (fst (op_send s h t)).
Proof.
  intros HI H. unfold op_send.
  destruct (find_handle s h) as [[vi q]|] eqn:EF; [|exact H].
  destruct (Nat.leb_spec (length (nodes s)) t) as [|Ht]; [exact H|].
  destruct (Nat.leb_spec (maxQ (nth_node s t)) (length (virt (nth_node s t)))); [exact H|].
  cbn [fst].
  apply find_handle_some in EF as (Lvi & Hq & Ehq).
  set (HH := next_hid s).
  set (tn := nth_node s t).
  set (newNum := fresh_id (map v_num (virt tn))).
  set (nq := mkVq HH newNum (v_simNode q) (v_simNum q) (v_qid q)).
  set (tn1 := with_virt tn (virt tn ++ [nq])).
  set (s1 := mkNet (upd (nodes s) t tn1) (S HH)).
  assert (Hlt : h < HH).
  { destruct HI as [_ HB]. rewrite Forall_forall in HB. apply HB. unfold hids. apply in_flat_map.
    exists (nth_node s vi). split; [apply nth_In; auto|]. unfold hn. rewrite <- Ehq. apply in_map; auto. }
  assert (EN1 : forall j, nth_node s1 j = if Nat.eqb j t then tn1 else nth_node s j).
  { intro j. unfold s1. rewrite nth_node_mk. destruct (Nat.ltb_spec t (length (nodes s))); try lia. rewrite andb_true_r. auto. }
  set (vn := nth_node s1 vi).
  set (s2 := set_node s1 vi (with_virt vn (remove_vq h (virt vn)))).
  assert (L1 : length (nodes s1) = length (nodes s)) by (unfold s1; simpl; apply upd_length).
  assert (EN2 : forall j, nth_node s2 j = if Nat.eqb j vi then with_virt vn (remove_vq h (virt vn)) else nth_node s1 j).
  { intro j. unfold s2. rewrite nth_node_set. rewrite L1. destruct (Nat.ltb_spec vi (length (nodes s))); try lia. rewrite andb_true_r. auto. }
  (* membership in the final virtual lists *)
  assert (VIN : forall j p, In p (virt (nth_node s2 j)) <->
                 (In p (virt (nth_node s j)) /\ (j <> vi \/ v_hid p <> h)) \/ (j = t /\ p = nq)).
  { intros j p. rewrite EN2. destruct (Nat.eqb_spec j vi) as [->|Hj].
    - cbn [virt with_virt]. unfold remove_vq. rewrite filter_In. unfold vn. rewrite EN1.
      destruct (Nat.eqb_spec vi t) as [->|Hvt].
      + unfold tn1; cbn [virt with_virt]. rewrite in_app_one. fold tn.
        destruct (Nat.eqb_spec (v_hid p) h); simpl; split; intro K.
        * destruct K as [_ K]; discriminate.
        * destruct K as [[K1 [K2|K2]]|[_ K2]]; try congruence. subst p. simpl in e. lia.
        * destruct K as [[K| ->] _]; auto.
        * destruct K as [[K1 _]|[_ K2]]; auto.
      + destruct (Nat.eqb_spec (v_hid p) h); simpl; split; intro K.
        * destruct K as [_ K]; discriminate.
        * destruct K as [[K1 [K2|K2]]|[K2 _]]; congruence.
        * destruct K as [K _]; auto.
        * destruct K as [[K1 _]|[K2 _]]; auto; congruence.
    - rewrite EN1. destruct (Nat.eqb_spec j t) as [->|Hjt].
      + unfold tn1; cbn [virt with_virt]. rewrite in_app_one. fold tn. split; intro K.
        * destruct K as [K| ->]; auto.
        * destruct K as [[K1 _]|[_ K2]]; auto.
      + split; intro K; auto. destruct K as [[K1 _]|[K2 _]]; auto; congruence. }
  assert (SEQ : forall j, sims (nth_node s2 j) = sims (nth_node s j) /\ regs (nth_node s2 j) = regs (nth_node s j) /\
                          numRegs (nth_node s2 j) = numRegs (nth_node s j) /\ nextReg (nth_node s2 j) = nextReg (nth_node s j)).
  { intro j. rewrite EN2. destruct (Nat.eqb_spec j vi) as [->|Hj].
    - cbn [sims regs numRegs nextReg with_virt]. unfold vn. rewrite EN1. destruct (Nat.eqb_spec vi t) as [->|]; auto.
    - rewrite EN1. destruct (Nat.eqb_spec j t) as [->|]; auto. }
  pose proof (inv_nodes s H) as inv_nodes0. pose proof (inv_backed s H) as inv_backed0.
  pose proof (inv_inj s H) as inv_inj0. pose proof (inv_onto s H) as inv_onto0.
  pose proof (inv_qid_inj s H) as inv_qid_inj0. pose proof (inv_qid_lt s H) as inv_qid_lt0.
  assert (NQH : v_hid nq = HH) by reflexivity.
  fold s2.
  constructor.
  - (* node_ok *)
    intro j. destruct (SEQ j) as (S1 & S2 & S3 & S4). pose proof (inv_nodes0 j) as OK.
    assert (VN : NoDup (map v_num (virt (nth_node s2 j)))).
    { rewrite EN2. destruct (Nat.eqb_spec j vi) as [->|Hj].
      - cbn [virt with_virt]. unfold remove_vq. apply NoDup_map_filter. unfold vn. rewrite EN1.
        destruct (Nat.eqb_spec vi t) as [->|].
        + unfold tn1; cbn [virt with_virt]. rewrite map_app. simpl. apply NoDup_app_one; [apply (ok_vnum _ (inv_nodes0 t))|apply fresh_id_notin].
        + apply (ok_vnum _ (inv_nodes0 vi)).
      - rewrite EN1. destruct (Nat.eqb_spec j t) as [->|].
        + unfold tn1; cbn [virt with_virt]. rewrite map_app. simpl. apply NoDup_app_one; [apply (ok_vnum _ (inv_nodes0 t))|apply fresh_id_notin].
        + apply (ok_vnum _ OK). }
    destruct OK. constructor; rewrite ?S1, ?S2, ?S3, ?S4; auto.
  - (* backed *)
    intros j p Hp. apply VIN in Hp. destruct (SEQ (v_simNode p)) as (S1 & S2 & _). rewrite S1, S2.
    destruct Hp as [[Hp _]|[_ ->]]; [eauto|]. simpl. apply (inv_backed0 vi q Hq).
  - (* injective *)
    intros i j p p' Hp Hp' E. apply VIN in Hp, Hp'.
    destruct Hp as [[Hp Cp]|[-> ->]], Hp' as [[Hp' Cp']|[-> ->]]; eauto.
    + exfalso. assert (E' : vref p = vref q) by exact E.
      pose proof (inv_inj0 i vi p q Hp Hq E') as E2.
      destruct (hid_unique s i vi p q HI Hp Hq E2) as [-> ->]. destruct Cp; congruence.
    + exfalso. assert (E' : vref q = vref p') by exact E.
      pose proof (inv_inj0 vi j q p' Hq Hp' E') as E2.
      destruct (hid_unique s vi j q p' HI Hq Hp' E2) as [<- <-]. destruct Cp'; congruence.
  - (* onto *)
    intros j x Hx. destruct (SEQ j) as (S1 & _). rewrite S1 in Hx.
    destruct (inv_onto0 j x Hx) as (i & p & Hp & E).
    destruct (Nat.eq_dec (v_hid p) h) as [Eh|Nh].
    + rewrite <- Ehq in Eh. destruct (hid_unique s i vi p q HI Hp Hq Eh) as [-> ->].
      exists t, nq. split; [apply VIN; auto|exact E].
    + exists i, p. split; [apply VIN; auto|exact E].
  - (* qid injective *)
    intros i j p p' Hp Hp' E. apply VIN in Hp, Hp'.
    destruct Hp as [[Hp Cp]|[-> ->]], Hp' as [[Hp' Cp']|[-> ->]]; eauto.
    + exfalso. assert (E' : v_qid p = v_qid q) by exact E.
      pose proof (inv_qid_inj0 i vi p q Hp Hq E') as E2.
      destruct (hid_unique s i vi p q HI Hp Hq E2) as [-> ->]. destruct Cp; congruence.
    + exfalso. assert (E' : v_qid q = v_qid p') by exact E.
      pose proof (inv_qid_inj0 vi j q p' Hq Hp' E') as E2.
      destruct (hid_unique s vi j q p' HI Hq Hp' E2) as [<- <-]. destruct Cp'; congruence.
  - intros j p Hp. apply VIN in Hp. unfold s2, set_node, s1; simpl.
    destruct Hp as [[Hp _]|[_ ->]].
    + pose proof (inv_qid_lt0 j p Hp). unfold HH. lia.
    + simpl. pose proof (inv_qid_lt0 vi q Hq). unfold HH. lia.
Qed.
