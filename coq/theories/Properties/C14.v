(* C14 — stabilizer measurement.  Only statements, each closed by `exact`, each followed by Print Assumptions.
   Proofs: Stab/MeasureProof.v (frame with the measured qubit first), PermProof.v (perm_row / unperm_row are a relabelling
   of positions; transport of the generated group), MeasureOrig.v (original qubit order), DestructiveProof.v /
   DestructiveDet.v (destructive branches), EqProof.v (`contains` decides membership, from the uniqueness of the reduced
   row echelon form), Isotropic.v (n commuting independent generators on n qubits are a maximal commuting set),
   MeasureFull.v (outcome of the deterministic branch, repeatability).

   Notation.  zp n p = the Pauli string Z on qubit p;  zel s n p = i^s Z_p  (s = P0: +Z_p, s = P2: -Z_p);
   valid n t = rows well-formed, pairwise commuting, independent;  remove_at p l = l with position p deleted.
   The first block (frame with the measured qubit first: framed / eliminated / core_inplace / zrow) is kept because the
   later theorems are derived from it; the statements of the property are the ones in the original frame:
     C14_meas_random, C14_meas_determined, C14_meas_determined_outcome(_true), C14_meas_determined_pm,
     C14_meas_random_destructive, C14_meas_determined_destructive, C14_meas_repeat.
   What is still NOT formalised: the link stabilizer group <-> Hilbert-space state and the Born rule (probability 1/2
   in the random branch is represented by "both coins are accepted and returned"); these are evaluated numerically by
   the oracle of the check on every case. *)
From Coq Require Import List Bool Arith.
From SQ Require Import Base.ListUtil Stab.Pauli Stab.Kernels Stab.Gates Stab.Tableau Stab.Group Stab.GroupGates
  Stab.GaussProof Stab.MeasureProof Stab.F2 Stab.TensorProof Stab.PermProof Stab.MeasureOrig Stab.Bridge Stab.DestructiveProof
  Stab.EqProof Stab.Isotropic Stab.MeasureFull Stab.DestructiveDet Stab.Examples.
Import ListNotations.

(* random branch: the outcome is the coin, for both coins (hence both outcomes occur), in place and destructive *)
Theorem C14_meas_random_outcome : forall n p ip coin t,
  random_branch n p t = true -> fst (fst (measure n p ip coin t)) = coin.
Proof. exact meas_random_outcome. Qed.
Print Assumptions C14_meas_random_outcome.

(* random branch, in place: elimination keeps the group; exactly row 0 carries X/Y on the measured qubit; the result
   generates < (-1)^coin Z_0 > together with the remaining (Z_0-commuting) generators *)
Theorem C14_meas_random_framed : forall n p coin t, 1 <= n ->
  wf_tab n (framed n p t) -> commuting n (framed n p t) -> random_branch n p t = true ->
  let tmp := eliminated n p t in
  measure n p true coin t = (coin, n, map (unperm_row n p) (core_inplace n coin tmp)) /\
  same_group n tmp (framed n p t) /\
  get (nth 0 tmp []) 0 = true /\ (forall j, 1 <= j < length tmp -> get (nth j tmp []) 0 = false) /\
  same_group n (core_inplace n coin tmp) (zrow n coin :: skipn 1 tmp).
Proof. exact meas_random_framed. Qed.
Print Assumptions C14_meas_random_framed.

(* the new generator really is (-1)^coin Z on the measured qubit, identity elsewhere *)
Theorem C14_new_generator : forall n b, 1 <= n ->
  decode_ph n (zrow n b) = (ph_of_sign b, PZ :: repeat PI (n - 1)).
Proof. exact decode_zrow. Qed.
Print Assumptions C14_new_generator.

(* deterministic branch, in place: nothing carries X/Y on the measured qubit and the group is unchanged *)
Theorem C14_meas_determined_framed : forall n p coin t, 1 <= n ->
  commuting n (framed n p t) -> random_branch n p t = false ->
  let tmp := eliminated n p t in
  measure n p true coin t = (negb (contains n tmp (z_first n)), n, map (unperm_row n p) tmp) /\
  same_group n tmp (framed n p t) /\
  (forall r, In r tmp -> get r 0 = false).
Proof. exact meas_determined_framed. Qed.
Print Assumptions C14_meas_determined_framed.

(* towards repeatability: after an in-place random-branch measurement no generator carries X/Y on the measured qubit,
   and such a tableau is sent to the deterministic branch (whose result has the same group, see above) *)
Theorem C14_after_random_col0_clear : forall n coin tmp, 1 <= n -> wf_tab n tmp ->
  (forall j, 1 <= j < length tmp -> get (nth j tmp []) 0 = false) ->
  col0_clear (core_inplace n coin tmp).
Proof. exact core_inplace_col0. Qed.
Print Assumptions C14_after_random_col0_clear.
Theorem C14_col0_clear_goes_deterministic : forall n u, 1 <= n -> col0_clear u -> get (nth 0 (gauss n u) []) 0 = false.
Proof. exact col0_clear_deterministic. Qed.
Print Assumptions C14_col0_clear_goes_deterministic.

(* random branch: the generators that are kept (rows 1.. after elimination) generate exactly the elements of the
   pre-measurement group that commute with Z on the measured qubit; with C14_meas_random_framed the in-place result is
   therefore  < (-1)^coin Z_0 > . { g in G : g commutes with Z_0 }  in the measured-qubit-first frame *)
Theorem C14_meas_random_kept_part : forall n p t, 1 <= n ->
  commuting n (framed n p t) -> random_branch n p t = true ->
  forall h, gen n (skipn 1 (eliminated n p t)) h <->
            (gen n (framed n p t) h /\ anti_l (snd h) (z0 n) = false).
Proof. exact meas_random_kept_part. Qed.
Print Assumptions C14_meas_random_kept_part.

(* non-vacuity: the Bell pair is in the random branch (both outcomes computed), |00> in the deterministic one *)
Theorem C14_nonvacuous_random :
  1 <= 2 /\ wf_tab 2 (framed 2 1 bell) /\ commuting 2 (framed 2 1 bell) /\ random_branch 2 1 bell = true.
Proof. exact bell_random_branch. Qed.
Print Assumptions C14_nonvacuous_random.
Theorem C14_nonvacuous_determined :
  commuting 2 (framed 2 1 (zero_state 2)) /\ random_branch 2 1 (zero_state 2) = false.
Proof. exact zero_determined_branch. Qed.
Print Assumptions C14_nonvacuous_determined.
Theorem C14_bell_both_outcomes :
  fst (fst (measure 2 1 true false bell)) = false /\ fst (fst (measure 2 1 true true bell)) = true /\
  snd (measure 2 1 true true bell) = [[false; false; false; true; true]; [false; false; true; false; true]].
Proof. exact bell_measured_both_outcomes. Qed.
Print Assumptions C14_bell_both_outcomes.

(* ================= the column permutation is a relabelling of qubit positions (Stab/PermProof.v) =============== *)
Theorem C14_perm_row_decode : forall n p r, p < n ->
  decode n (perm_row n p r) = (fst (decode n r), move_front p (snd (decode n r))).
Proof. exact perm_row_decode. Qed.
Print Assumptions C14_perm_row_decode.
Theorem C14_unperm_row_decode : forall n p r, p < n ->
  decode n (unperm_row n p r) = (fst (decode n r), move_back p (snd (decode n r))).
Proof. exact unperm_row_decode. Qed.
Print Assumptions C14_unperm_row_decode.
Theorem C14_move_back_front : forall p l, p < length l -> move_back p (move_front p l) = l.
Proof. exact move_back_front. Qed.
Print Assumptions C14_move_back_front.
Theorem C14_perm_group : forall n p t, p < n -> wf_tab n t ->
  forall h, gen n (map (perm_row n p) t) h <-> exists h0, gen n t h0 /\ h = pframe p h0.
Proof. exact perm_group. Qed.
Print Assumptions C14_perm_group.
Theorem C14_unperm_group : forall n p t, p < n -> wf_tab n t ->
  forall h, gen n (map (unperm_row n p) t) h <-> exists h0, gen n t h0 /\ h = punframe p h0.
Proof. exact unperm_group. Qed.
Print Assumptions C14_unperm_group.

(* ================= original qubit order ========================================================================= *)
(* random branch, in place: outcome = coin (both coins), the result has as many commuting well-formed generators, and
   generates exactly  { h, (-1)^coin Z_p h : h in G, h commutes with Z_p } *)
Theorem C14_meas_random : forall n p coin t, p < n -> wf_tab n t -> commuting n t -> random_branch n p t = true ->
  exists res, measure n p true coin t = (coin, n, res) /\
    wf_tab n res /\ commuting n res /\ length res = length t /\
    forall g, gen n res g <->
      exists h, gen n t h /\ anti_l (snd h) (zp n p) = false /\ (g = h \/ g = pmul (ph_of_sign coin, zp n p) h).
Proof. exact meas_random. Qed.
Print Assumptions C14_meas_random.

(* deterministic branch, in place: group unchanged, every element of the group commutes with Z_p *)
Theorem C14_meas_determined : forall n p coin t, p < n -> wf_tab n t -> commuting n t -> random_branch n p t = false ->
  exists res, measure n p true coin t = (negb (contains n (eliminated n p t) (z_first n)), n, res) /\
    wf_tab n res /\ commuting n res /\ length res = length t /\
    same_group n res t /\
    (forall h, gen n t h -> anti_l (snd h) (zp n p) = false).
Proof. exact meas_determined. Qed.
Print Assumptions C14_meas_determined.

(* the branch taken is the deterministic one as soon as the whole group commutes with Z_p *)
Theorem C14_commuting_group_goes_deterministic : forall n p t, p < n -> wf_tab n t -> commuting n t ->
  (forall h, gen n t h -> anti_l (snd h) (zp n p) = false) -> random_branch n p t = false.
Proof. exact random_branch_false_of_commute. Qed.
Print Assumptions C14_commuting_group_goes_deterministic.

(* deterministic branch: outcome 0 iff +Z_p is in the group (in place and destructive); for a full stabilizer state
   (n generators) one of +Z_p, -Z_p is in the group and outcome 1 iff -Z_p is *)
Theorem C14_meas_determined_outcome : forall n p ip coin t, p < n -> valid n t -> random_branch n p t = false ->
  (fst (fst (measure n p ip coin t)) = false <-> gen n t (zel P0 n p)).
Proof. exact meas_determined_outcome. Qed.
Print Assumptions C14_meas_determined_outcome.
Theorem C14_meas_determined_pm : forall n p t, p < n -> valid n t -> length t = n -> random_branch n p t = false ->
  gen n t (zel P0 n p) \/ gen n t (zel P2 n p).
Proof. exact meas_determined_pm. Qed.
Print Assumptions C14_meas_determined_pm.
Theorem C14_meas_determined_outcome_true : forall n p ip coin t, p < n -> valid n t -> length t = n ->
  random_branch n p t = false ->
  (fst (fst (measure n p ip coin t)) = true <-> gen n t (zel P2 n p)).
Proof. exact meas_determined_outcome_true. Qed.
Print Assumptions C14_meas_determined_outcome_true.
(* the linear-algebra fact behind it: n independent pairwise commuting vectors of F_2^2n span a maximal isotropic space *)
Theorem C14_isotropic_maximal : forall n A v, length A = n ->
  (forall a b, In a A -> In b A -> symp n a b = false) -> lindep (2 * n) A ->
  (forall a, In a A -> symp n a v = false) -> inspan (2 * n) A (get v).
Proof. exact isotropic_maximal. Qed.
Print Assumptions C14_isotropic_maximal.

(* destructive measurement: the (n-1)-qubit result generates exactly the elements of the in-place group that act as I
   on qubit p, with position p deleted and the other positions in their original order; commuting, independent *)
Theorem C14_meas_random_destructive : forall n p coin t, p < n -> wf_tab n t -> commuting n t ->
  random_branch n p t = true ->
  exists res resd,
    measure n p true coin t = (coin, n, res) /\ measure n p false coin t = (coin, n - 1, resd) /\
    wf_tab (n - 1) resd /\ commuting (n - 1) resd /\ length resd = length t - 1 /\
    (forall g, gen (n - 1) resd g <->
       exists g', gen n res g' /\ nth p (snd g') PI = PI /\ g = (fst g', remove_at p (snd g'))) /\
    (independent n t -> independent n res /\ independent (n - 1) resd).
Proof. exact meas_random_destructive. Qed.
Print Assumptions C14_meas_random_destructive.
Theorem C14_meas_determined_destructive : forall n p coin t, p < n -> valid n t -> length t = n ->
  random_branch n p t = false ->
  exists res resd,
    measure n p true coin t = (fst (fst (measure n p true coin t)), n, res) /\
    measure n p false coin t = (fst (fst (measure n p true coin t)), n - 1, resd) /\
    same_group n res t /\
    wf_tab (n - 1) resd /\ commuting (n - 1) resd /\ independent (n - 1) resd /\ length resd = n - 1 /\
    (forall g, gen (n - 1) resd g <->
       exists g', gen n res g' /\ nth p (snd g') PI = PI /\ g = (fst g', remove_at p (snd g'))).
Proof. exact meas_determined_destructive. Qed.
Print Assumptions C14_meas_determined_destructive.

(* repeatability: measuring the same qubit of the in-place result again (any coin) returns the same outcome, takes the
   deterministic branch and leaves the group unchanged; the in-place result of a valid tableau is valid *)
Theorem C14_meas_inplace_valid : forall n p coin t, p < n -> valid n t -> valid n (snd (measure n p true coin t)).
Proof. exact meas_inplace_valid. Qed.
Print Assumptions C14_meas_inplace_valid.
Theorem C14_meas_repeat : forall n p c1 c2 t, p < n -> valid n t ->
  let m1 := measure n p true c1 t in
  let m2 := measure n p true c2 (snd m1) in
  fst (fst m2) = fst (fst m1) /\ snd (fst m2) = n /\ same_group n (snd m2) (snd m1) /\
  random_branch n p (snd m1) = false.
Proof. exact meas_repeat. Qed.
Print Assumptions C14_meas_repeat.

(* a full stabilizer state (n valid generators on n qubits) stays one: in place on n qubits, destructively on n-1 *)
Theorem C14_meas_inplace_full : forall n p coin t, p < n -> valid n t -> length t = n ->
  let m := measure n p true coin t in snd (fst m) = n /\ valid n (snd m) /\ length (snd m) = n.
Proof. exact meas_inplace_full. Qed.
Print Assumptions C14_meas_inplace_full.
Theorem C14_meas_destructive_full : forall n p coin t, p < n -> valid n t -> length t = n ->
  let m := measure n p false coin t in snd (fst m) = n - 1 /\ valid (n - 1) (snd m) /\ length (snd m) = n - 1.
Proof. exact meas_destructive_full. Qed.
Print Assumptions C14_meas_destructive_full.

(* non-vacuity: GHZ (random branch, destructive result computed), |0>|1> (deterministic, outcome 1), repeat *)
Theorem C14_nonvacuous_ghz :
  1 < 3 /\ valid 3 ghz3 /\ length ghz3 = 3 /\ random_branch 3 1 ghz3 = true /\
  measure 3 1 false true ghz3 = (true, 2, [[false; false; false; true; true]; [false; false; true; true; false]]) /\
  fst (fst (measure 3 1 false false ghz3)) = false.
Proof. exact ghz3_random. Qed.
Print Assumptions C14_nonvacuous_ghz.
Theorem C14_nonvacuous_zero_one :
  1 < 2 /\ valid 2 zero_one /\ length zero_one = 2 /\ random_branch 2 1 zero_one = false /\
  measure 2 1 false false zero_one = (true, 1, [[false; true; false]]) /\
  measure 2 1 true false zero_one = (true, 2, [[false; false; false; true; true]; [false; false; true; false; false]]).
Proof. exact zero_one_determined. Qed.
Print Assumptions C14_nonvacuous_zero_one.
Theorem C14_nonvacuous_repeat :
  fst (fst (measure 3 1 true false (snd (measure 3 1 true true ghz3)))) = true /\
  fst (fst (measure 3 1 true true (snd (measure 3 1 true false ghz3)))) = false.
Proof. exact ghz3_repeat. Qed.
Print Assumptions C14_nonvacuous_repeat.
