"""C07 — per-node qubit capacity is enforced exactly."""
from props import netprop, scen


def run(ctx):
    t = ctx.tier == "thorough"
    ctx.rule = ("random create/send/measure/gate histories against capacities 1..5 qubits and 1..8 registers per node; oracle: a node never holds more "
                "than its maximum, create/receive succeed iff held < max (and a register is available for create), freed capacity is reusable, "
                "two-qubit gates are never refused for capacity; distinct = distinct (capacities, operation, dump)")
    netprop.run_property(ctx, "C07", ["capacity", "capacity", "merge"], 1500 if t else 150, 30 if t else 24,
                         scenarios=scen.capacity() + scen.register_limit() + scen.big_merge(), own_props=["C07"])
