(* Hand-written model of the eight gate kernels of StabilizerState (stabilizer_states.py:531-701),
   one row at a time.  numpy applies every kernel statement to all rows independently
   (boolean masks are per-row), so  apply_G(tableau) = map (apply_G_row) tableau.
   A row has length 2n+1:  X part | Z part | sign.  `self._group[:, c]` is a *view*: it is re-read
   at use time, which is what the let-chains below do. *)
From Coq Require Import List Bool Arith Lia.
From SQ Require Import Base.ListUtil.
Import ListNotations.

Definition row := list bool.

Definition apply_X_row (n p : nat) (r : row) : row :=
  flip_if (get r (p + n)) r (2 * n).

Definition apply_Y_row (n p : nat) (r : row) : row :=
  flip_if (xorb (get r p) (get r (p + n))) r (2 * n).

Definition apply_Z_row (n p : nat) (r : row) : row :=
  flip_if (get r p) r (2 * n).

Definition apply_H_row (n p : nat) (r : row) : row :=
  let r1 := swap_cols r p (p + n) in
  flip_if (get r1 p && get r1 (p + n)) r1 (2 * n).

Definition apply_K_row (n p : nat) (r : row) : row :=
  let r1 := flip_if (get r (p + n)) r p in
  flip_if (get r1 p && negb (get r1 (p + n))) r1 (2 * n).

Definition apply_S_row (n p : nat) (r : row) : row :=
  let r1 := flip_if (get r p) r (p + n) in
  flip_if (get r1 p && negb (get r1 (p + n))) r1 (2 * n).

Definition apply_CNOT_row (n c t : nat) (r : row) : row :=
  let r1 := flip_if (get r c) r t in
  let r2 := flip_if (get r1 (t + n)) r1 (c + n) in
  let a := get r2 c && get r2 (t + n) in
  let b := get r2 (c + n) && get r2 t in
  let d := negb (get r2 (c + n)) && negb (get r2 t) in
  flip_if (a && (b || d)) r2 (2 * n).

Definition apply_CZ_row (n c t : nat) (r : row) : row :=
  let xy := get r c && get r t in
  let zr := xorb (get r (c + n)) (get r (t + n)) in
  let r1 := flip_if (xy && zr) r (2 * n) in
  let r2 := flip_if (get r1 c) r1 (t + n) in
  flip_if (get r2 t) r2 (c + n).
