(* C01 — location transparency.

   FULL statement (what the property says): for every program of native operations the joint quantum state of all held
   qubits equals the state of an ideal single register, and every reported outcome has non-zero probability there.

   What is PROVED here (placement layer, hence the suffix _partial): over Model V, in every reachable state, for every
   placement history and all seven merge cases, each native operation issues its engine call on exactly the register
   position whose recorded identity is the physical qubit the handle denotes — control and target in that order —
   after merges under which the bookkeeping invariant (Properties/C02.v) and the identity records are preserved;
   sending hands over the same physical qubit; physical-qubit identities are never duplicated.
   What is MISSING for the full statement: (i) the engine contract "absorb = tensor product with the absorbed
   positions offset, remove = deletion with shift" (Properties/C15.v, stabilizer backend) and the group-level
   gate/measurement theorems (C13/C14) are not yet composed with this layer into a single equation
   "joint stabilizer group = ideal group"; (ii) Hilbert space is not formalised.  The composition is exercised on every
   run by the state-vector oracle of harness/net_run.py (joint state compared after EVERY operation). *)
From Coq Require Import List Bool Arith.
From SQ Require Import Base.ListUtil Stab.Tableau Net.Model Net.Refusal Net.Handles Net.Inv Net.InvStep Net.Bookkeeping Net.Placement.
Import ListNotations.

Theorem C01_single_qubit_gate_hits_denoted_qubit_partial : forall s h g gg vi q,
  reachable s -> find_handle s h = Some (vi, q) -> gate1_of g = Some gg ->
  exists x r, In r (regs (nth_node s (v_simNode q))) /\ s_pos x < r_n r /\
              nth (s_pos x) (r_ids r) 0 = v_qid q /\
              step s (OGate1 h g) =
              (update_reg_at s (v_simNode q) (reg_with_tab r (r_n r) (tab_gate1 gg (r_n r) (s_pos x) (r_tab r))), OkNone).
Proof. exact gate1_hits_denoted_qubit. Qed.
Print Assumptions C01_single_qubit_gate_hits_denoted_qubit_partial.

Theorem C01_measurement_hits_denoted_qubit_partial : forall s h ip c vi q,
  reachable s -> find_handle s h = Some (vi, q) ->
  exists x r, In r (regs (nth_node s (v_simNode q))) /\ s_pos x < r_n r /\
              nth (s_pos x) (r_ids r) 0 = v_qid q /\
              snd (step s (OMeas h ip c)) =
              Ok (if fst (fst (measure (r_n r) (s_pos x) true c (r_tab r))) then 1 else 0).
Proof. exact measure_hits_denoted_qubit. Qed.
Print Assumptions C01_measurement_hits_denoted_qubit_partial.

(* all seven placement cases: after the merges (state sm, invariant intact) the gate is applied in ONE register at the
   positions carrying the control's and the target's identities, in that order *)
Theorem C01_two_qubit_gate_hits_denoted_qubits_partial : forall s h1 h2 g vi q1 q2,
  reachable s -> find_handle s h1 = Some (vi, q1) -> find_handle s h2 = Some (vi, q2) -> h1 <> h2 ->
  exists sm ni k p1 p2 r,
    ginv sm /\
    step s (OGate2 h1 h2 g) = (apply_gate2_at sm ni k g p1 p2, OkNone) /\
    In r (regs (nth_node sm ni)) /\ r_num r = k /\ p1 < r_n r /\ p2 < r_n r /\ p1 <> p2 /\
    nth p1 (r_ids r) 0 = v_qid q1 /\ nth p2 (r_ids r) 0 = v_qid q2.
Proof. exact gate2_hits_denoted_qubits. Qed.
Print Assumptions C01_two_qubit_gate_hits_denoted_qubits_partial.

Theorem C01_send_moves_same_physical_qubit_partial : forall s h t v vi q,
  reachable s -> find_handle s h = Some (vi, q) -> snd (step s (OSend h t)) = Ok v ->
  exists q', In q' (virt (nth_node (fst (step s (OSend h t))) t)) /\ v_num q' = v /\
             v_qid q' = v_qid q /\ v_simNode q' = v_simNode q /\ v_simNum q' = v_simNum q /\ v_hid q' = next_hid s.
Proof. exact send_moves_same_qubit. Qed.
Print Assumptions C01_send_moves_same_physical_qubit_partial.

Theorem C01_physical_qubit_held_once_partial : forall s i j q q',
  reachable s -> In q (virt (nth_node s i)) -> In q' (virt (nth_node s j)) -> v_qid q = v_qid q' -> i = j /\ q = q'.
Proof. exact qid_identifies_held_qubit. Qed.
Print Assumptions C01_physical_qubit_held_once_partial.
