(* Measurement theorems in the ORIGINAL qubit order (the frame change of `measure` removed with PermProof.v). *)
From Coq Require Import List Bool Arith Lia.
From SQ Require Import Base.ListUtil Stab.Pauli Stab.Kernels Stab.Gates Stab.Tableau Stab.Group Stab.GroupGates
  Stab.MulProof Stab.GaussProof Stab.MeasureProof Stab.TensorProof Stab.PermProof.
Import ListNotations.

(* ---------- generic group facts ---------------------------------------------------------------------------- *)
Lemma anti_l_self a : anti_l a a = false.
Proof. induction a as [|x a IH]; simpl; auto. rewrite IH. destruct x; reflexivity. Qed.

Lemma commuting_of_gen n U T : commuting n U -> (forall r, In r T -> gen n U (decode_ph n r)) -> commuting n T.
Proof.
  intros CU H a b Ha Hb. rewrite symp_decode.
  change (snd (decode n a)) with (snd (decode_ph n a)). change (snd (decode n b)) with (snd (decode_ph n b)).
  apply (gen_commute n U); auto.
Qed.

Lemma commuting_cons n z R : commuting n R -> (forall r, In r R -> symp n z r = false) -> commuting n (z :: R).
Proof.
  intros CR Hz a b [<-|Ha] [<-|Hb]; auto.
  - rewrite symp_decode. apply anti_l_self.
  - rewrite symp_sym. auto.
Qed.

(* adjoining one generator that commutes with everything: G' = G u zG *)
Lemma gen_cons_central n z R :
  (forall h, gen n R h -> anti_l (snd h) (snd (decode_ph n z)) = false) ->
  forall g, gen n (z :: R) g <-> exists h, gen n R h /\ (g = h \/ g = pmul (decode_ph n z) h).
Proof.
  intros Hc g.
  set (Z := decode_ph n z) in *.
  assert (LZ : length (snd Z) = n) by apply decode_ph_length.
  assert (RZ : ph_odd (fst Z) = false) by apply decode_ph_real.
  assert (ZZ : pmul Z Z = pone n) by (rewrite pmul_self by auto; rewrite LZ; reflexivity).
  assert (Comm : forall h, gen n R h -> pmul h Z = pmul Z h) by (intros h Gh; apply pmul_comm; auto).
  split.
  - induction 1 as [|r Hr|a b Ga IHa Gb IHb].
    + exists (pone n). split; [apply gen_one|left; reflexivity].
    + destruct Hr as [<-|Hr].
      * exists (pone n). split; [apply gen_one|right]. fold Z. symmetry. apply pmul_one_r; auto.
      * exists (decode_ph n r). split; [apply gen_row; auto|left; reflexivity].
    + destruct IHa as (h1 & G1 & E1), IHb as (h2 & G2 & E2).
      assert (L1 : length (snd h1) = n) by (eapply gen_length; eauto).
      assert (L2 : length (snd h2) = n) by (eapply gen_length; eauto).
      exists (pmul h1 h2). split; [apply gen_mul; auto|].
      destruct E1 as [->| ->], E2 as [->| ->].
      * left; reflexivity.
      * right. rewrite <- pmul_assoc by congruence. rewrite (Comm h1 G1). apply pmul_assoc; congruence.
      * right. apply pmul_assoc; congruence.
      * left. rewrite (pmul_assoc Z h1) by (rewrite ?(pmul_length n); congruence).
        rewrite <- (pmul_assoc h1 Z h2) by congruence. rewrite (Comm h1 G1).
        rewrite (pmul_assoc Z h1 h2) by congruence.
        rewrite <- (pmul_assoc Z Z) by (rewrite ?(pmul_length n); congruence).
        rewrite ZZ. apply pmul_one_l. apply pmul_length; auto.
  - intros (h & Gh & E).
    assert (Incl : forall x, gen n R x -> gen n (z :: R) x).
    { apply gen_incl. intros r Hr. apply gen_row. right; auto. }
    assert (Gh' : gen n (z :: R) h) by (apply Incl; auto).
    destruct E as [->| ->]; auto. apply gen_mul; auto. apply gen_row. left; auto.
Qed.

Lemma gen_col0_clear n T : 1 <= n -> (forall r, In r T -> get r 0 = false) ->
  forall g, gen n T g -> anti_l (snd g) (z0 n) = false.
Proof.
  intros Hn H g G. induction G as [|r Hr|a b Ga IHa Gb IHb].
  - apply anti_l_repeat_PI_l.
  - rewrite anti_row_z0 by auto. apply H; auto.
  - unfold pmul; cbn [snd]. rewrite anti_l_pmul_l.
    + rewrite IHa, IHb. reflexivity.
    + rewrite (gen_length _ _ _ Ga), (gen_length _ _ _ Gb). reflexivity.
    + rewrite (gen_length _ _ _ Gb), z0_length; auto.
Qed.

Lemma decode_zrow' n b : 1 <= n -> decode_ph n (zrow n b) = (ph_of_sign b, z0 n).
Proof. apply decode_zrow. Qed.

Lemma anti_frame_z n p h : p < n -> length (snd h) = n ->
  anti_l (snd (pframe p h)) (z0 n) = anti_l (snd h) (zp n p).
Proof.
  intros Hp HL. rewrite <- (move_front_zp n p Hp). unfold pframe; cbn [snd].
  apply pframe_anti; rewrite ?zp_length; lia.
Qed.

Lemma punframe_z n p s : p < n -> punframe p (s, z0 n) = (s, zp n p).
Proof. intro H. unfold punframe. cbn [fst snd]. rewrite move_back_z0; auto. Qed.

Lemma core_inplace_wf n coin tmp : wf_tab n tmp -> wf_tab n (core_inplace n coin tmp).
Proof.
  intro Hw. unfold core_inplace, wf_tab in *. constructor; [apply zrow_wf|].
  rewrite Forall_forall in *. intros r Hr. apply in_map_iff in Hr. destruct Hr as (r0 & <- & Hr0).
  apply core_row_wf. apply Hw. destruct tmp; simpl in Hr0; [tauto|right; auto].
Qed.

(* ---------- random branch, in place, original frame -------------------------------------------------------- *)
Theorem meas_random n p coin t : p < n -> wf_tab n t -> commuting n t -> random_branch n p t = true ->
  exists res, measure n p true coin t = (coin, n, res) /\
    wf_tab n res /\ commuting n res /\ length res = length t /\
    forall g, gen n res g <->
      exists h, gen n t h /\ anti_l (snd h) (zp n p) = false /\ (g = h \/ g = pmul (ph_of_sign coin, zp n p) h).
Proof.
  intros Hp Hw Hc Hr.
  assert (Hn : 1 <= n) by lia.
  assert (Wf : wf_tab n (framed n p t)) by (apply perm_wf; auto).
  assert (Cf : commuting n (framed n p t)) by (apply perm_commuting; auto).
  destruct (meas_random_framed n p coin t Hn Wf Cf Hr) as (Em & Gt & R0 & Rrest & Gci).
  set (tmp := eliminated n p t) in *.
  assert (Wt : wf_tab n tmp) by (apply gauss_wf; auto).
  assert (Ct : commuting n tmp) by (apply gauss_commuting; auto).
  assert (Lt : length tmp = length t).
  { unfold tmp, eliminated. rewrite gauss_length by auto. unfold framed. apply map_length. }
  set (R := skipn 1 tmp) in *.
  assert (HR : forall r, In r R -> get r 0 = false).
  { intros r Hin. apply (@In_nth row _ _ []) in Hin. destruct Hin as (j & Hj & <-). unfold R in *.
    rewrite skipn_length in Hj. rewrite nth_skipn. apply Rrest. lia. }
  assert (CR : commuting n R).
  { apply (commuting_of_in n tmp); auto. intros r Hin. unfold R in Hin. destruct tmp; simpl in Hin; [tauto|right; auto]. }
  assert (CU : commuting n (zrow n coin :: R)).
  { apply commuting_cons; auto. intros r Hin. rewrite symp_decode.
    change (snd (decode n (zrow n coin))) with (snd (decode_ph n (zrow n coin))). rewrite decode_zrow' by auto. cbn [snd].
    rewrite anti_l_sym. change (snd (decode n r)) with (snd (decode_ph n r)). rewrite anti_row_z0 by auto. auto. }
  set (CI := core_inplace n coin tmp) in *.
  assert (Wci : wf_tab n CI) by (apply core_inplace_wf; auto).
  assert (Cci : commuting n CI).
  { apply (commuting_of_gen n (zrow n coin :: R)); auto. intros r Hin. apply Gci. apply gen_row; auto. }
  assert (Kept : forall h, gen n R h <-> gen n (framed n p t) h /\ anti_l (snd h) (z0 n) = false).
  { apply meas_random_kept_part; auto. }
  assert (Cent : forall h, gen n R h -> anti_l (snd h) (snd (decode_ph n (zrow n coin))) = false).
  { intros h Gh. rewrite decode_zrow' by auto. cbn [snd]. apply Kept; auto. }
  exists (map (unperm_row n p) CI). split; [exact Em|]. split; [apply unperm_wf|].
  split; [apply unperm_commuting; auto|]. split.
  { rewrite map_length. unfold CI, core_inplace. cbn [length]. rewrite map_length, skipn_length.
    assert (0 < length tmp); [|lia].
    destruct tmp; simpl in *; [unfold get in R0; simpl in R0; discriminate|lia]. }
  intro g. rewrite (unperm_group n p CI Hp Wci). split.
  - intros (g1 & G1 & ->). apply Gci in G1. apply (gen_cons_central n _ R Cent) in G1.
    destruct G1 as (h1 & Gh1 & E). apply Kept in Gh1. destruct Gh1 as [Gf A1].
    apply (perm_group n p t Hp Hw) in Gf. destruct Gf as (h & Gh & ->).
    assert (Lh : length (snd h) = n) by (eapply gen_length; eauto).
    exists h. split; auto. split; [rewrite <- anti_frame_z; auto|].
    destruct E as [->| ->].
    + left. apply punframe_pframe. lia.
    + right. rewrite punframe_hom.
      * rewrite punframe_pframe by lia. rewrite decode_zrow' by auto. rewrite punframe_z by auto. reflexivity.
      * rewrite decode_ph_length, pframe_length; lia.
      * rewrite decode_ph_length. auto.
  - intros (h & Gh & A & E).
    assert (Lh : length (snd h) = n) by (eapply gen_length; eauto).
    assert (G1 : gen n R (pframe p h)).
    { apply Kept. split; [apply (perm_group n p t Hp Hw); eauto|]. rewrite anti_frame_z; auto. }
    destruct E as [->| ->].
    + exists (pframe p h). split; [|symmetry; apply punframe_pframe; lia].
      apply Gci. apply (gen_cons_central n _ R Cent). exists (pframe p h). auto.
    + exists (pmul (decode_ph n (zrow n coin)) (pframe p h)). split.
      * apply Gci. apply (gen_cons_central n _ R Cent). exists (pframe p h). auto.
      * rewrite punframe_hom.
        -- rewrite punframe_pframe by lia. rewrite decode_zrow' by auto. rewrite punframe_z by auto. reflexivity.
        -- rewrite decode_ph_length, pframe_length; lia.
        -- rewrite decode_ph_length. auto.
Qed.

(* ---------- deterministic branch, in place, original frame ------------------------------------------------ *)
Theorem meas_determined n p coin t : p < n -> wf_tab n t -> commuting n t -> random_branch n p t = false ->
  exists res, measure n p true coin t = (negb (contains n (eliminated n p t) (z_first n)), n, res) /\
    wf_tab n res /\ commuting n res /\ length res = length t /\
    same_group n res t /\
    (forall h, gen n t h -> anti_l (snd h) (zp n p) = false).
Proof.
  intros Hp Hw Hc Hr.
  assert (Hn : 1 <= n) by lia.
  assert (Wf : wf_tab n (framed n p t)) by (apply perm_wf; auto).
  assert (Cf : commuting n (framed n p t)) by (apply perm_commuting; auto).
  destruct (meas_determined_framed n p coin t Hn Cf Hr) as (Em & Gt & C0).
  set (tmp := eliminated n p t) in *.
  assert (Wt : wf_tab n tmp) by (apply gauss_wf; auto).
  assert (Ct : commuting n tmp) by (apply gauss_commuting; auto).
  exists (map (unperm_row n p) tmp). split; [exact Em|]. split; [apply unperm_wf|].
  split; [apply unperm_commuting; auto|]. split.
  { rewrite map_length. unfold tmp, eliminated. rewrite gauss_length by auto. apply map_length. }
  split.
  - intro g. rewrite (unperm_group n p tmp Hp Wt). split.
    + intros (g1 & G1 & ->). apply Gt in G1. apply (perm_group n p t Hp Hw) in G1. destruct G1 as (h & Gh & ->).
      rewrite punframe_pframe; auto. rewrite (gen_length _ _ _ Gh). auto.
    + intro Gg. exists (pframe p g). split.
      * apply Gt. apply (perm_group n p t Hp Hw). eauto.
      * symmetry. apply punframe_pframe. rewrite (gen_length _ _ _ Gg). auto.
  - intros h Gh. rewrite <- anti_frame_z by (auto; eapply gen_length; eauto).
    apply (gen_col0_clear n tmp Hn C0). apply Gt. apply (perm_group n p t Hp Hw). eauto.
Qed.
