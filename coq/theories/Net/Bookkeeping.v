(* C02 in user-facing form, for every reachable state of every network and every history. *)
From Coq Require Import List Bool Arith Lia Permutation.
From SQ Require Import Base.ListUtil Stab.Tableau Net.Model Net.Refusal Net.Capacity Net.Handles Net.Fresh
     Net.Inv Net.InvNew Net.InvMeas Net.InvMerge Net.InvPull Net.InvStep.
Import ListNotations.

Definition reachable (s : net) : Prop := exists caps ops, s = run (init_net caps) ops.

Lemma reachable_ginv s : reachable s -> ginv s.
Proof. intros (caps & ops & ->). apply reachable_inv. Qed.

(* positions of the simulated qubits of one register *)
Definition positions (nd : node) (k : nat) : list nat :=
  map s_pos (filter (fun x => Nat.eqb (s_reg x) k) (sims nd)).

Theorem positions_exact s i r :
  reachable s -> In r (regs (nth_node s i)) ->
  Permutation (positions (nth_node s i) (r_num r)) (seq 0 (r_n r)).
Proof.
  intros R Hr. destruct (reachable_ginv s R) as [_ H].
  pose proof (inv_nodes s H i) as OK. set (nd := nth_node s i) in *.
  unfold positions.
  apply NoDup_Permutation_bis.
  - apply NoDup_map_of_inj.
    + apply NoDup_filter. apply (NoDup_of_map s_simNum). apply (ok_snum nd OK).
    + intros a b Ha Hb E. apply filter_In in Ha as [Ha Ea]. apply filter_In in Hb as [Hb Eb].
      apply Nat.eqb_eq in Ea, Eb.
      apply (NoDup_map_inj s_simNum (sims nd)); auto; [apply (ok_snum nd OK)|].
      apply (ok_pos_inj nd OK); auto. congruence.
  - rewrite seq_length, map_length. rewrite (ok_count nd OK r Hr). lia.
  - intros a Ha. apply in_map_iff in Ha as [y [<- Hy]]. apply filter_In in Hy as [Hy Ey]. apply Nat.eqb_eq in Ey.
    destruct (ok_sreg nd OK y Hy) as [r2 [H2 [E2 L2]]].
    assert (r2 = r) by (apply (NoDup_map_inj r_num (regs nd)); auto; [apply (ok_rnum nd OK)|congruence]). subst.
    apply in_seq. lia.
Qed.

Theorem ids_unique_per_node s i :
  reachable s -> NoDup (map v_num (virt (nth_node s i))) /\ NoDup (map s_simNum (sims (nth_node s i))) /\
                 NoDup (map r_num (regs (nth_node s i))).
Proof.
  intros R. destruct (reachable_ginv s R) as [_ H]. pose proof (inv_nodes s H i) as OK.
  repeat split; [apply (ok_vnum _ OK) | apply (ok_snum _ OK) | apply (ok_rnum _ OK)].
Qed.

(* every held qubit is backed by exactly one simulated qubit that exists at the node it names as simulator *)
Theorem held_is_backed s i q :
  reachable s -> In q (virt (nth_node s i)) ->
  v_simNode q < length (nodes s) /\
  exists x, In x (sims (nth_node s (v_simNode q))) /\ s_simNum x = v_simNum q /\
            (forall x', In x' (sims (nth_node s (v_simNode q))) -> s_simNum x' = v_simNum q -> x' = x).
Proof.
  intros R Hq. destruct (reachable_ginv s R) as [_ H].
  destruct (inv_backed s H i q Hq) as (x & r & B1 & B2 & _).
  split; [apply (in_sims_lt s _ x B1)|]. exists x. repeat split; auto.
  intros x' Hx' E. apply (NoDup_map_inj s_simNum (sims (nth_node s (v_simNode q)))); auto; [|congruence].
  apply (ok_snum _ (inv_nodes s H (v_simNode q))).
Qed.

(* no simulated qubit backs two held qubits ... *)
Theorem backing_injective s i j q q' :
  reachable s -> In q (virt (nth_node s i)) -> In q' (virt (nth_node s j)) ->
  v_simNode q = v_simNode q' -> v_simNum q = v_simNum q' -> i = j /\ q = q'.
Proof.
  intros R Hq Hq' E1 E2. destruct (reachable_ginv s R) as [HI H].
  apply (hid_unique s i j q q' HI Hq Hq'). apply (inv_inj s H i j q q' Hq Hq'). unfold vref. congruence.
Qed.

(* ... or none *)
Theorem backing_onto s j x :
  reachable s -> In x (sims (nth_node s j)) ->
  exists i q, In q (virt (nth_node s i)) /\ v_simNode q = j /\ v_simNum q = s_simNum x.
Proof.
  intros R Hx. destruct (reachable_ginv s R) as [_ H].
  destruct (inv_onto s H j x Hx) as (i & q & Hq & E). unfold vref in E. injection E as E1 E2. eauto.
Qed.

(* register table consistency *)
Theorem registers_consistent s i :
  reachable s -> numRegs (nth_node s i) = length (regs (nth_node s i)) /\
  (forall x, In x (sims (nth_node s i)) -> exists r, In r (regs (nth_node s i)) /\ r_num r = s_reg x /\ s_pos x < r_n r).
Proof.
  intros R. destruct (reachable_ginv s R) as [_ H]. pose proof (inv_nodes s H i) as OK.
  split; [apply (ok_nregs _ OK) | apply (ok_sreg _ OK)].
Qed.
