#!/usr/bin/env python3
"""Regenerates MANIFEST.json from the table below (single source of truth for what is claimed)."""
import json
import os

VERIF = os.path.dirname(os.path.dirname(os.path.abspath(__file__)))
ALL = ["C%02d" % i for i in range(1, 21)]

CLAIMED = {
    "C13": dict(
        text="Coq theorems for all tableau sizes: each of the 8 gate kernels is the Clifford conjugation (sign included) of the Pauli string a row denotes; "
             "conjugation tables proved against Gaussian-integer matrices; the kernels are regenerated from stabilizer_states.py on every run and proved equal to the model; "
             "exact model/implementation correspondence for gates, tensor, add_qubit, Gaussian elimination, ==, contains.",
        design="4/C13",
        note="Trusted: Coq kernel+vm_compute; ast translator for the gate kernels; numpy semantics of masks/views; group<->state link checked numerically (oracle), not proved.",
        technique="Coq proof (per-row conjugation theorems, all n) + source-to-Coq translator with generated equality lemmas + vm_compute correspondence"),
}

PENDING_REASON = "machinery for this property is not built yet in this revision (no claim made); see DESIGN.md section 4"


def main():
    checks = []
    for pid in ALL:
        if pid not in CLAIMED:
            continue
        c = CLAIMED[pid]
        checks.append({
            "property_id": pid,
            "quick_cmd": "./check %s --tier quick" % pid,
            "thorough_cmd": "./check %s --tier thorough" % pid,
            "evidence_file": "/verif/evidence/%s.json" % pid,
            "replay_cmd_template": "./check %s --replay {path}" % pid,
            "engine": "coq-sq",
            "level_claimed": {"category": "proof", "text": c["text"], "design_ref": "DESIGN.md section " + c["design"]},
            "level_note": c["note"],
            "technique": c["technique"],
        })
    m = {
        "version": 1,
        "setup_cmd": "./check build",
        "hooks": {
            "guard": "SIMULAQRON_VERIF",
            "enable": "no hook commits exist: the harness drives the unmodified code from outside (scratch copy of /repo, monkey-patched reactor/random/clock); SIMULAQRON_VERIF=1 is exported by the harness but nothing in /repo reads it",
            "baseline_off_cmd": "cd /repo && /venv/bin/python -m pytest -ra -q -p no:cacheprovider --timeout=900 --continue-on-collection-errors",
            "source_commits": [],
            "add_only": True,
        },
        "engines": [{"name": "coq-sq", "path": "/verif/coq", "serves_properties": sorted(CLAIMED),
                     "kind_free_text": "Coq 8.16.1 development (models + theorems), Python ast translators, vm_compute correspondence driven by /verif/harness"}],
        "checks": checks,
        "notes": "Every check copies /repo's working tree to a scratch directory, regenerates the translated Coq files, rebuilds the Coq development, re-checks the property theorems (Print Assumptions) and runs the model/implementation correspondence. known_findings.json lists genuine defects recorded rather than repaired.",
        "not_applicable": [{"property_id": p, "reason": PENDING_REASON} for p in ALL if p not in CLAIMED],
    }
    json.dump(m, open(os.path.join(VERIF, "MANIFEST.json"), "w"), indent=1)
    print("claimed:", sorted(CLAIMED))


if __name__ == "__main__":
    main()
