#!/bin/sh
# run every claimed check once (quick tier by default) against /repo, four at a time; prints one line per check
cd "$(dirname "$0")/.." || exit 2
tier=${1:-quick}
./check build > /dev/null 2>&1
python3 -c "
import json; print(' '.join(c['property_id'] for c in json.load(open('MANIFEST.json'))['checks']))" | tr ' ' '\n' | \
  xargs -P 4 -I{} sh -c "start=\$(date +%s); ./check {} --tier $tier > /tmp/runall-{}.log 2>&1; rc=\$?; echo {} exit=\$rc \$(( \$(date +%s) - start ))s \$(grep -c '^VIOLATION' /tmp/runall-{}.log) violations \$(grep -c '^KNOWN-FINDING' /tmp/runall-{}.log) known"
