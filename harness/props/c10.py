"""C10 — message streams are framed correctly and answered on the right connection.
   obligations    : Properties/C10.v (server reassembly for all message lists x all chunkings, chunking invariance for
                    every byte stream, one Done per message, client reassembly for any prefix-free codec + the netqasm
                    layouts are one, socket stream integrity; `_refuted` witnesses for the code as found)
   correspondence : the REAL NetQASMProtocol/NetQASMFactory/SubroutineHandler, SimulaQronConnection._handle_reply /
                    _commit_serialized_message (scripted socket), sdk Socket over socketpair(), netqasm deserialisers
                    -- per-call observations compared with model F inside Coq
   oracle         : `handled == sent` (per connection), Done ids per connection == ids sent on it, calls of
                    _handle_reply == reply stream cut after every Done, recv values == sent values, one for one"""
import pickle

import common
import frame_common as F

K_D8A = "D8:message-left-unhandled-in-buffer-after-read"
K_D8B = "D8:payload-not-cut-at-header-length"
K_D9 = "D9:reply-written-to-last-opened-connection"
K_D10A = "D10:sends-coalesced-into-one-recv"
K_D10B = "D10:message-longer-than-maxsize-truncated"


class Worst:
    """keeps, per key, the smallest failing input seen"""

    def __init__(self):
        self.d = {}

    def add(self, key, size, desc, replay):
        if key not in self.d or size < self.d[key][0]:
            self.d[key] = (size, desc, replay)


def hexl(chunks):
    return [bytes(c).hex() for c in chunks]


def show_frames(fs):
    return [[i, [m[0]] + [x.hex() if isinstance(x, bytes) else x for x in m[1:]]] for i, m in fs]


# ------------------------------------------------------------------------------------------------------------------
# A. server, one connection
# ------------------------------------------------------------------------------------------------------------------
def judge_server(frames, chunks, obs):
    """oracle: handled == sent, nothing left, nothing raised.  Returns None or (key, what)"""
    handled = [f for hs, _, _ in obs for f in hs]
    if any(r for _, _, r in obs):
        return ("server:exception-on-well-formed-stream", "dataReceived raised on a well-formed stream")
    if handled == frames and obs[-1][1] == b"":
        return None
    if len(handled) < len(frames) and handled == frames[:len(handled)] and obs[-1][1] != b"":
        return (K_D8A, "complete message(s) stay unhandled in the buffer: handled %d of %d, %d bytes left"
                % (len(handled), len(frames), len(obs[-1][1])))
    for h, f in zip(handled, frames):
        if h != f:
            if h[0] == f[0] and h[1][0] == "HSub" and f[1][0] == "HSub" and h[1][1].startswith(f[1][1]):
                return (K_D8B, "subroutine payload contains %d byte(s) of the following message(s)"
                        % (len(h[1][1]) - len(f[1][1])))
            return ("server:handled-message-differs", "handled %r but %r was sent" % (h, f))
    return ("server:handled-count-differs", "handled %d messages, %d were sent" % (len(handled), len(frames)))


def server_part(ctx, rng, cases, worst, thorough):
    seqs = []
    # the witnesses of the _refuted theorems first
    seqs.append(([(1, ("HSignal", 0)), (2, ("HStop", 5))], "witness"))
    seqs.append(([(1, ("HSub", bytes([7, 7, 7]))), (2, ("HStop", 5))], "witness"))
    # single short messages: every chunking
    seqs.append(([(3, ("HSignal", 0))], "exh"))
    seqs.append(([(0xFFFFFFFF, ("HSub", b""))], "exh"))
    seqs.append(([(258, ("HSub", bytes([2, 0, 9, 0, 0, 0])))], "exh"))
    for n in (1, 2, 2, 3, 3, 4, 4):
        for _ in range(6 if thorough else 2):
            seqs.append((F.rand_frames(rng, n), "rand"))
    for n in (2, 3, 4):
        seqs.append((F.rand_frames(rng, n, small=True), "rand"))
    if thorough:
        seqs.append(([(1, ("HSub", b"")), (2, ("HSub", b""))], "exh17"))
    for frames, kind in seqs:
        stream = b"".join(F.enc_frame(f) for f in frames)
        L = len(stream)
        cutsets = list(F.all_cutsets(L, 17 if kind == "exh17" else 14))
        exhaustive = (L - 1) <= (17 if kind == "exh17" else 14)
        bounds = []
        acc = 0
        for f in frames[:-1]:
            acc += len(F.enc_frame(f))
            bounds.append(acc)
        special = [(), tuple(range(1, L)), tuple(bounds), tuple(b + 3 for b in bounds if b + 3 < L),
                   tuple(sorted(set([3] + [b - 1 for b in bounds])))]
        extra = [F.rand_cutset(rng, L) for _ in range(60 if thorough else 20)]
        if len(frames) >= 2 and not exhaustive and len(cutsets) > (4000 if thorough else 700):
            cutsets = rng.sample(cutsets, 4000 if thorough else 700)
        todo = [(c, False) for c in cutsets] + [(c, True) for c in special + extra]
        ncoq = 0
        quota = 48 if exhaustive else 14
        pick = set(rng.sample(range(len(cutsets)), min(len(cutsets), quota)))
        for idx, (cs, forced) in enumerate(todo):
            chunks = F.cut(stream, [c for c in cs if 0 < c < L])
            nd, obs = F.run_server(chunks)
            ctx.count("server_runs")
            ctx.count("server_exhaustive_runs" if (exhaustive and not forced) else "server_other_runs")
            sig = ("srv", stream.hex(), tuple(len(c) for c in chunks))
            ctx.case(sig, nontrivial=len(chunks) > 1 or len(frames) > 1)
            v = judge_server(frames, chunks, obs)
            if nd.crashes:
                v = ("server:unexpected-exception", "dataReceived raised %s" % nd.crashes[0])
            d = {"part": "server", "sent": show_frames(frames), "chunks": hexl(chunks),
                 "handled_per_read": [show_frames(hs) for hs, _, _ in obs], "buf_after": [b.hex() for _, b, _ in obs]}
            if v:
                worst.add(v[0], (0, len(frames), L, len(chunks)), v[1], d)
                ctx.count("server_oracle_failures")
            if forced or idx in pick or (v and ncoq < 40):
                cases.append((F.server_case(chunks, obs), d))
                ncoq += 1
        if exhaustive:
            ctx.count("server_streams_all_chunkings")
    ctx.coverage["exhaustive"] = True
    ctx.coverage["exhaustive_scope"] = ("server: every one of the 2^(L-1) chunkings of each stream of <= 15 bytes%s; every chunking "
                                        "with <= 2 cuts of each longer stream (sampled above 700/4000)"
                                        % (" and of one two-message stream of 18 bytes" if thorough else ""))
    # malformed streams: correspondence only (which bytes form "a complete message" is the model's business there)
    for _ in range(120 if thorough else 40):
        kind = rng.randrange(5)
        good = b"".join(F.enc_frame(f) for f in F.rand_frames(rng, rng.randrange(0, 3), small=True))
        if kind == 0:
            bad = bytes(rng.randrange(256) for _ in range(rng.randrange(1, 24)))
        elif kind == 1:      # header whose length is below the header size
            bad = bytes([1, 0, 0, 0, rng.randrange(0, 9), 0, 0, 0]) + bytes([rng.choice([2, 4, 0])] * rng.randrange(0, 4))
        elif kind == 2:      # unknown type byte
            bad = bytes([1, 0, 0, 0, 10, 0, 0, 0, rng.choice([5, 9, 255]), 0])
        elif kind == 3:      # body shorter than the structure it announces
            bad = bytes([1, 0, 0, 0, 9 + rng.randrange(0, 3), 0, 0, 0, rng.choice([0, 1, 3, 4])]) + bytes(rng.randrange(0, 3))
        else:                # truncated good message
            g = F.enc_frame(F.rand_frames(rng, 1)[0])
            bad = g[:rng.randrange(1, len(g))]
        tail = b"".join(F.enc_frame(f) for f in F.rand_frames(rng, rng.randrange(0, 2), small=True))
        stream = good + bad + tail
        chunks = F.cut(stream, F.rand_cutset(rng, len(stream)))
        _, obs = F.run_server(chunks)
        ctx.count("server_malformed_runs")
        ctx.case(("srvbad", stream.hex(), tuple(len(c) for c in chunks)))
        cases.append((F.server_case(chunks, obs), {"part": "server-malformed", "chunks": hexl(chunks)}))


# ------------------------------------------------------------------------------------------------------------------
# B. node with several connections
# ------------------------------------------------------------------------------------------------------------------
def node_part(ctx, rng, cases, worst, thorough):
    plans = [([[(5, ("HSignal", 0))], []], "witness")]          # C10_reply_connection_refuted
    for _ in range(160 if thorough else 50):
        k = rng.choice([1, 2, 2, 2, 3] if thorough else [1, 2, 2])
        plans.append(([F.rand_frames(rng, rng.randrange(1, 4), small=rng.random() < 0.5) for _ in range(k)], "rand"))
    for per_conn, kind in plans:
        k = len(per_conn)
        pend = []
        for c in range(k):
            s = b"".join(F.enc_frame(f) for f in per_conn[c])
            pend.append(F.cut(s, F.rand_cutset(rng, len(s))) if s else [])
        ops = []
        closed = set()
        if kind == "witness":
            ops = [("open",), ("open",), ("data", 0, pend[0][0])] if len(pend[0]) == 1 else None
            if ops is None:
                ops = [("open",), ("open",)] + [("data", 0, ch) for ch in pend[0]]
        else:
            opened = 1
            ops.append(("open",))
            while any(pend) or opened < k:
                choices = [c for c in range(opened) if pend[c]]
                if opened < k and (not choices or rng.random() < 0.3):
                    ops.append(("open",))
                    opened += 1
                    continue
                c = rng.choice(choices)
                ops.append(("data", c, pend[c].pop(0)))
                # a host that has sent everything may hang up while other connections are still busy
                if not pend[c] and opened > 1 and rng.random() < 0.5 and c not in closed:
                    ops.append(("close", c))
                    closed.add(c)
        node = F.ServerNode()
        for o in ops:
            if o[0] == "open":
                node.open()
            elif o[0] == "close":
                node.close(o[1])
                ctx.count("node_close_events")
            else:
                node.data(o[1], o[2])
        ctx.count("node_runs")
        ctx.count("node_runs_%d_connections" % k)
        ctx.case(("node", repr(ops)), nontrivial=k > 1)
        d = {"part": "node", "ops": [list(o[:2]) + [o[2].hex()] if o[0] == "data" else list(o) for o in ops],
             "sent_per_connection": [show_frames(fs) for fs in per_conn],
             "writes": [[c, w.hex() if isinstance(w, bytes) else repr(w)] for c, w in node.writes]}
        cases.append((F.node_case(ops, node), d))
        # oracle
        framing_ok = True
        for c in range(k):
            handled_c = [(i, m) for cc, i, m in node.log if cc == c]
            if handled_c != per_conn[c]:
                framing_ok = False
                v = judge_server(per_conn[c], [b"x"], [(handled_c, node.bufs()[c], False)])
                worst.add(v[0] if v else "node:handled-differs", (1, k, len(ops)),
                          "connection %d: %s" % (c, v[1] if v else "handled != sent"), d)
        if not framing_ok:
            continue                       # Done ids cannot be judged when messages were not handled
        all_ids = sorted(i for fs in per_conn for i, _ in fs)
        written = sorted(i for c in range(k) for i in F.parse_done_ids(node.writes, c))
        bad_conn = [c for c in range(k) if F.parse_done_ids(node.writes, c) != [i for i, _ in per_conn[c]]]
        if bad_conn:
            ctx.count("node_routing_oracle_failures")
            # D9 class: every Done exists exactly once, but some sit on a connection opened later than the one
            # their message came from
            if written == all_ids and k > 1:
                worst.add(K_D9, (k, sum(len(x) for x in per_conn), len(ops)),
                          "Done replies of connection(s) %s were written to another (later opened) connection" % bad_conn, d)
            else:
                worst.add("node:done-ids-differ", (k, len(ops), 0),
                          "Done ids written %r, ids handled %r" % (written, all_ids), d)


# ------------------------------------------------------------------------------------------------------------------
# C/D. host side
# ------------------------------------------------------------------------------------------------------------------
def spec_calls(msgs):
    """the property, in plain Python: the reply stream cut after every Done"""
    out, cur = [], []
    for m in msgs:
        if m[0] == "RDone":
            out.append((("HRDone", m[1]), cur))
            cur = []
        elif m[0] == "RErr":
            out.append((("HRError", m), cur))
            return out
        else:
            cur.append(m)
    out.append((("HRStarved",), cur))
    return out


def async_part(ctx, rng, worst, thorough):
    """an asynchronous backend (every subroutine completes only when the harness fires it): several messages of a connection are in flight at
    once, arriving in one read or split over reads, completing in any order.  Every message must be handled exactly once, in arrival order,
    and get exactly one completion reply carrying its own id, whatever the completion order."""
    for _ in range(300 if thorough else 80):
        k = rng.randrange(2, 6)
        frames = [(i if rng.random() < 0.7 else 100 + 7 * i, ("HSub", bytes(rng.randrange(256) for _ in range(rng.choice([0, 1, 3, 8])))))
                  for i in range(k)]
        stream = b"".join(F.enc_frame(f) for f in frames)
        L = len(stream)
        cs = rng.choice([(), F.rand_cutset(rng, L), tuple(sorted(rng.sample(range(1, L), min(L - 1, rng.randrange(1, 3)))))])
        chunks = F.cut(stream, [c for c in cs if 0 < c < L])
        nd = F.ServerNode(slow=True)
        c = nd.open()
        fired = []
        for ch in chunks:
            nd.data(c, ch)
            # some of the subroutines in flight complete between reads, in any order
            while nd.pending and rng.random() < 0.4:
                d = nd.pending.pop(rng.randrange(len(nd.pending)))
                d.callback(None)
                fired.append(1)
        while nd.pending:
            nd.pending.pop(rng.randrange(len(nd.pending))).callback(None)
        ctx.count("async_backend_runs")
        ctx.case(("async", stream.hex(), tuple(len(x) for x in chunks)), nontrivial=True)
        handled = [(i, m) for (_, i, m) in nd.log]
        dones = F.parse_done_ids(nd.writes, c)
        want = [(f[0], f[1]) for f in frames]
        d = {"part": "server-async", "sent": show_frames(frames), "chunks": hexl(chunks), "handled_ids": [i for i, _ in handled], "done_ids": dones}
        if nd.crashes:
            worst.add("server:unexpected-exception", (k, L, len(chunks)), "dataReceived raised %s with an asynchronous backend" % nd.crashes[0], d)
        elif handled != want:
            ctx.count("async_oracle_failures")
            worst.add("server:async-messages-not-handled-once-in-order", (k, L, len(chunks)),
                      "with %d subroutines in flight the backend was handed the messages with ids %r, the host sent %r" % (k, [i for i, _ in handled], [f[0] for f in frames]), d)
        elif sorted(dones) != sorted(f[0] for f in frames):
            ctx.count("async_oracle_failures")
            worst.add("server:async-done-replies", (k, L, len(chunks)),
                      "completion replies carry ids %r, the messages had ids %r" % (dones, [f[0] for f in frames]), d)


def client_part(ctx, rng, cases, worst, thorough):
    streams = [[("RDone", 0)],
               [("RReg", 3, 1), ("RDone", 0), ("RArr", 5, [1, 2]), ("RDone", 1)],      # the Example of ReplyProofs.v
               [("RErr", 0)], [("RArr", 7, []), ("RDone", 4)]]
    for _ in range(60 if thorough else 18):
        n = rng.randrange(1, 6)
        ms = [F.rand_ret(rng) for _ in range(n)]
        if rng.random() < 0.8:
            ms.append(("RDone", 0))
        if rng.random() < 0.12:
            ms.insert(rng.randrange(len(ms) + 1), ("RErr", rng.randrange(3)))
        seen = 0
        fixed = []
        for m in ms:                       # distinct Done ids (the client removes each from a set)
            if m[0] == "RDone":
                fixed.append(("RDone", seen if rng.random() < 0.7 else 1000 + seen * 7919))
                seen += 1
            else:
                fixed.append(m)
        streams.append(fixed)
    for ms in streams:
        stream = b"".join(bytes(F.ret_obj(m)) for m in ms)
        L = len(stream)
        cutsets = list(F.all_cutsets(L))
        exhaustive = (L - 1) <= 14
        if len(cutsets) > (3000 if thorough else 500):
            cutsets = rng.sample(cutsets, 3000 if thorough else 500)
        extra = [(), tuple(range(1, L))] + [F.rand_cutset(rng, L) for _ in range(30 if thorough else 10)]
        pick = set(rng.sample(range(len(cutsets)), min(len(cutsets), 32 if exhaustive else 10)))
        want = spec_calls(ms)
        nbad = 0
        ids = [m[1] for m in ms if m[0] == "RDone"]
        for idx, cs in enumerate(cutsets + extra):
            chunks = F.cut(stream, [c for c in cs if 0 < c < L])
            pre = b""
            if rng.random() < 0.1 and len(chunks) > 1:     # part of the stream already sits in self.buf
                pre, chunks = chunks[0], chunks[1:]
            c = F.make_client(chunks, buf=pre, waiting=ids)
            calls = F.client_session(c, len(ms) + 2)
            ctx.count("client_runs")
            ctx.case(("cli", stream.hex(), len(pre), tuple(len(x) for x in chunks)), nontrivial=L > 8 or len(chunks) > 1)
            d = {"part": "client", "reply_stream": [list(m) for m in ms], "prebuffered": pre.hex(), "chunks": hexl(chunks),
                 "calls": repr(calls), "buf_after": bytes(c.buf).hex()}
            ok = calls == want and (bytes(c.buf) == b"" or any(m[0] == "RErr" for m in ms))
            if not ok:
                ctx.count("client_oracle_failures")
                worst.add("client:replies-not-reassembled", (len(ms), L, len(chunks)),
                          "_handle_reply calls returned %r, the reply stream was %r" % (calls, ms), d)
            if idx in pick or idx >= len(cutsets) or (not ok and nbad < 30):
                nbad += 0 if ok else 1
                cases.append((F.client_case(len(ms) + 2, pre, chunks, calls, bytes(c.buf)), d))
    # long reply streams (many pipelined messages, large arrays): reads that fill the 1024-byte request exactly, streams whose length is a
    # multiple of the read size, bursts that end on / one byte around a read boundary
    longs = []
    for k in (1, 2):
        ms, i = [], 0
        while True:
            ms += [("RReg", 3, i & 1), ("RDone", i)]
            i += 1
            L = sum(len(bytes(F.ret_obj(m))) for m in ms)
            if L >= 1024 * k:
                break
        longs.append(ms)
        longs.append(ms[:-2])
    for n_arr in (120, 126, 127, 128, 250):
        longs.append([("RArr", 5, [j & 7 for j in range(n_arr)]), ("RDone", 0)])
        longs.append([("RReg", 1, 1), ("RArr", 5, [j & 7 for j in range(n_arr)]), ("RDone", 0), ("RReg", 2, 0), ("RDone", 1)])
    # a subroutine that returns very many values before its completion reply (one library call has to consume them all)
    longs.append([("RReg", j & 3, j & 1) for j in range(1200)] + [("RDone", 0)])
    for ms in longs:
        stream = b"".join(bytes(F.ret_obj(m)) for m in ms)
        L = len(stream)
        want = spec_calls(ms)
        ids = [m[1] for m in ms if m[0] == "RDone"]
        cuts = [(), (9,), (1024,), (1023,), (1025,), (9, 1033), (L - 1,), (L - 1024,) if L > 1024 else (5,), (512, 1536)]
        cuts += [F.rand_cutset(rng, L) for _ in range(8 if thorough else 3)]
        cuts.append(tuple(range(1, min(L, 1300))))          # one message over very many reads: a byte at a time
        for cs in cuts:
            bursts = F.cut(stream, sorted(set(c for c in cs if 0 < c < L)))
            c = F.make_client(bursts, waiting=ids)
            calls = F.client_session(c, len(ms) + 2)
            served = list(c._socket.served)
            ctx.count("client_runs_long_streams")
            if any(len(x) == 1024 for x in served):
                ctx.count("client_reads_filling_the_request_exactly")
            ctx.case(("cli-long", L, tuple(len(x) for x in bursts)), nontrivial=True)
            d = {"part": "client", "reply_stream_summary": "%d messages, %d bytes" % (len(ms), L), "bursts": [len(x) for x in bursts],
                 "reads": [len(x) for x in served], "calls": repr(calls)[:600], "buf_after": bytes(c.buf).hex()[:80]}
            ok = calls == want and bytes(c.buf) == b""
            if not ok:
                ctx.count("client_oracle_failures")
                worst.add("client:replies-not-reassembled", (len(ms), L, len(bursts)),
                          "%d replies (%d bytes) arriving in bursts of %r bytes: _handle_reply returned %s where every reply had been delivered"
                          % (len(ms), L, [len(x) for x in bursts], repr([o for o, _ in calls][-2:])), d)
            cases.append((F.client_case(len(ms) + 2, b"", served, calls, bytes(c.buf)), d))
    # malformed reply streams: unknown type byte, truncated message, negative array length -- model only
    for _ in range(60 if thorough else 20):
        ms = [F.rand_ret(rng, ("RReg", "RArr")) for _ in range(rng.randrange(0, 3))] + [("RDone", 0)]
        good = b"".join(bytes(F.ret_obj(m)) for m in ms)
        kind = rng.randrange(3)
        if kind == 0:
            bad = bytes([rng.choice([4, 9, 255])]) + bytes(rng.randrange(256) for _ in range(rng.randrange(0, 10)))
        elif kind == 1:
            g = bytes(F.ret_obj(F.rand_ret(rng)))
            bad = g[:rng.randrange(1, len(g))]
        else:
            bad = bytes([2, 5, 0, 0, 0]) + (0xFFFFFFFF - rng.randrange(0, 3)).to_bytes(4, "little") + bytes(rng.randrange(0, 12))
        stream = good + bad
        chunks = F.cut(stream, F.rand_cutset(rng, len(stream)))
        c = F.make_client(chunks, waiting=[0])
        calls = F.client_session(c, len(ms) + 3)
        ctx.count("client_malformed_runs")
        ctx.case(("clibad", stream.hex(), tuple(len(x) for x in chunks)))
        cases.append((F.client_case(len(ms) + 3, b"", chunks, calls, bytes(c.buf)), {"part": "client-malformed", "chunks": hexl(chunks)}))


def end_to_end_part(ctx, rng, cases, worst, thorough):
    """real client -> real server -> real client, one connection, both directions chunked"""
    for _ in range(80 if thorough else 25):
        msgs = [F.rand_host(rng, small=rng.random() < 0.5) for _ in range(rng.randrange(1, 5))]
        cl = F.make_client()
        for m in msgs:
            cl._commit_serialized_message(bytes(F.host_obj(m)), block=False)
        up = b"".join(cl._socket.sent)
        frames = list(enumerate(msgs))
        if up != b"".join(F.enc_frame(f) for f in frames):
            worst.add("client:wire-format-of-committed-message", (len(msgs), len(up), 0),
                      "_commit_serialized_message wrote %s" % up.hex(), {"part": "e2e", "sent": show_frames(frames)})
        chunks_up = F.cut(up, F.rand_cutset(rng, len(up)))
        node, obs = F.run_server(chunks_up)
        down = b"".join(w for _, w in node.writes if isinstance(w, bytes))
        chunks_down = F.cut(down, F.rand_cutset(rng, len(down))) if down else []
        cl._socket.chunks = list(chunks_down)
        calls = F.client_session(cl, len(msgs) + 2)
        ctx.count("end_to_end_runs")
        ctx.case(("e2e", up.hex(), tuple(len(c) for c in chunks_up), tuple(len(c) for c in chunks_down)))
        d = {"part": "end-to-end", "sent": show_frames(frames), "chunks_to_node": hexl(chunks_up),
             "chunks_to_host": hexl(chunks_down), "calls": repr(calls)}
        cases.append((F.server_case(chunks_up, obs), d))
        cases.append((F.client_case(len(msgs) + 2, b"", chunks_down, calls, bytes(cl.buf)), d))
        v = judge_server(frames, chunks_up, obs)
        if v:
            worst.add(v[0], (0, len(frames), len(up), len(chunks_up)), v[1], d)
            continue
        want = []
        for i, m in frames:
            want.append((("HRDone", i), [("RReg", 23, len(m[1]))] if m[0] == "HSub" else []))
        want.append((("HRStarved",), []))
        if calls != want or cl._waiting_msg_ids or cl._done_msg_ids != set(range(len(msgs))):
            worst.add("e2e:host-did-not-see-one-done-per-message", (len(msgs), len(up), len(chunks_down)),
                      "host saw %r" % (calls,), d)


# ------------------------------------------------------------------------------------------------------------------
# E. classical socket
# ------------------------------------------------------------------------------------------------------------------
def socket_schedule(rng, kind, thorough):
    """-> list of ('send', mode, value) / ('recv', mode, maxsize)"""
    ops = []
    if kind == "lockstep":                       # the regime of C10_socket_lockstep_ok
        for _ in range(rng.randrange(1, 6)):
            mode = rng.choice(["plain", "struct"])
            if mode == "plain":
                ops.append(("send", mode, F.rand_plain(rng, rng.choice([1, 2, 17, 300, 1000, 1024]))))
            else:
                v = F.rand_struct(rng)
                while len(pickle.dumps(v)) > 1024:
                    v = F.rand_struct(rng)
                ops.append(("send", mode, v))
            ops.append(("recv", mode, 1024))
    elif kind == "burst":                        # several sends before the first receive
        mode = rng.choice(["plain", "struct"])
        k = rng.randrange(2, 5)
        for _ in range(k):
            ops.append(("send", mode, F.rand_plain(rng, rng.choice([1, 2, 5, 40])) if mode == "plain" else F.rand_struct(rng)))
        for _ in range(k):
            ops.append(("recv", mode, 1024))
    elif kind == "big":                          # one message above the read size
        mode = rng.choice(["plain", "plain", "struct"])
        n = rng.choice([1025, 2000, 4096, 10000, 40000])
        ops.append(("send", mode, F.rand_plain(rng, n) if mode == "plain" else F.big_struct(n)))
        ops.append(("recv", mode, rng.choice([1024, 1024, 4096])))
        ops.append(("recv", mode, 65536))
    elif kind == "witness-a":
        ops = [("send", "plain", "h"), ("send", "plain", "i"), ("recv", "plain", 1024)]
    elif kind == "witness-b":
        ops = [("send", "plain", "a" * 1025), ("recv", "plain", 1024)]
    else:                                        # free mix
        pending = 0
        for _ in range(rng.randrange(2, 9)):
            if pending and rng.random() < 0.5:
                ops.append(("recv", "plain", rng.choice([1, 4, 1024, 1024, 40000])))
                pending -= 1
            else:
                ops.append(("send", "plain", F.rand_plain(rng, rng.choice([1, 3, 10, 1024, 1500, 20000]))))
                pending += 1
    return ops


def socket_part(ctx, rng, cases, worst, thorough):
    kinds = ["witness-a", "witness-b"] + [rng.choice(["lockstep", "lockstep", "burst", "big", "mix"]) for _ in range(90 if thorough else 30)]
    for kind in kinds:
        sched = socket_schedule(rng, kind, thorough)
        tx, rx = F.socket_pair()
        if rng.random() < 0.5 and not kind.startswith("witness"):
            tx, rx = rx, tx
        sent_vals, got_vals, mops, inflight, events = [], [], [], 0, []
        try:
            for o in sched:
                if o[0] == "send":
                    raw = o[2].encode("utf-8") if o[1] == "plain" else pickle.dumps(o[2])
                    if inflight + len(raw) > 150000:
                        continue
                    try:
                        (tx.send if o[1] == "plain" else tx.send_structured)(o[2])
                    except Exception as e:            # noqa: BLE001   a picklable message that cannot be sent is not delivered "intact" either
                        ctx.count("socket_oracle_failures")
                        worst.add("socket:send-raised", (len(sched), len(raw), 0), "sending %r raised %s: %s" % (repr(o[2])[:80], type(e).__name__, str(e)[:100]),
                                  {"part": "socket", "schedule": repr(sched)[:2000]})
                        break
                    if tx._app_socket.sent[-1] != raw:
                        # the bytes on the wire are not the documented encoding (utf-8 / pickle): the tie of the codec is broken; the
                        # model is run on the bytes actually sent and the oracle below still compares values
                        ctx.count("socket_sends_with_unexpected_encoding")
                        worst.add("socket:wire-encoding-differs", (len(sched), len(raw), 0),
                                  "send of %r put %d bytes on the wire that are not its utf-8 / pickle encoding" % (repr(o[2])[:60], len(tx._app_socket.sent[-1])),
                                  {"part": "socket", "schedule": repr(sched)[:2000]})
                        raw = tx._app_socket.sent[-1]
                    sent_vals.append((o[1], o[2], len(raw)))
                    mops.append(("send", raw))
                    events.append(("send", len(raw), o[2]))
                    inflight += len(raw)
                else:
                    if inflight == 0:
                        continue                      # a blocking recv on an empty stream is not an event
                    try:
                        fn = rx.recv if o[1] == "plain" else rx.recv_structured
                        v = fn() if o[2] == 1024 else fn(maxsize=o[2])      # 1024 is the documented default
                    except Exception as e:            # noqa: BLE001  (UnpicklingError, UnicodeDecodeError, EOFError ...)
                        v = ("EXC", type(e).__name__)
                    raw = rx._app_socket.got[-1]
                    # tie of the (de)serialisers: the value is the decoding of exactly the bytes the OS handed over
                    try:
                        exp = raw.decode("utf-8") if o[1] == "plain" else pickle.loads(raw)
                    except Exception as e:            # noqa: BLE001
                        exp = ("EXC", type(e).__name__)
                    if v != exp:
                        worst.add("socket:value-is-not-the-decoded-read", (len(sched), len(raw), 0),
                                  "recv returned %r for raw bytes %s" % (v, raw[:40].hex()), {"part": "socket", "schedule": repr(sched)[:2000]})
                    got_vals.append(v)
                    # the model is asked what a local stream socket does: everything that has arrived, up to maxsize
                    mops.append(("recv", o[2], o[2]))
                    events.append((o[2], len(raw), v))
                    inflight -= len(raw)
            ctx.count("socket_runs")
            ctx.count("socket_runs_" + kind)
            ctx.case(("sock", repr([(m[0], len(m[1]) if m[0] == "send" else m[1:]) for m in mops])), nontrivial=len(mops) > 2)
            d = {"part": "socket", "kind": kind,
                 "schedule": [[o[0], o[1], (repr(o[2])[:60] + ("..." if len(repr(o[2])) > 60 else "")) if o[0] == "send" else o[2]] for o in sched],
                 "sent_sizes": [n for _, _, n in sent_vals], "received": [repr(v)[:60] for v in got_vals],
                 "raw_read_sizes": [len(g) for g in rx._app_socket.got]}
            cases.append((F.sock_case(mops, rx), d))
            # oracle: the i-th received value is the i-th sent value
            want = [v for _, v, _ in sent_vals][:len(got_vals)]
            if got_vals != want:
                ctx.count("socket_oracle_failures")
                sizes = [n for _, _, n in sent_vals]
                # classify the FIRST deviation (later ones are its consequences): replay the events over a FIFO of
                # outstanding message sizes
                fifo, key, what = [], None, ""
                for ev in events:
                    if ev[0] == "send":
                        fifo.append((ev[1], ev[2]))
                        continue
                    maxsize, r, v = ev
                    size, val = fifo[0]
                    if v == val and r == size:
                        fifo.pop(0)
                        continue
                    if len(fifo) == 1 and size <= maxsize:
                        key, what = ("socket:single-message-within-maxsize-not-received-intact",
                                     "one message of %d bytes was in flight, recv(maxsize=%d) returned %d bytes: %r" % (size, maxsize, r, repr(v)[:60]))
                    elif size > maxsize:
                        key, what = K_D10B, ("a message of %d bytes was returned by recv(maxsize=%d) as %d bytes" % (size, maxsize, r))
                    elif r > size:
                        key, what = K_D10A, ("%d sends were outstanding when recv(maxsize=%d) was called: it returned %r, the first message sent was %r"
                                             % (len(fifo), maxsize, repr(v)[:40], repr(val)[:40]))
                    elif r == size and len(fifo) > 1:
                        key, what = K_D10A, "structured message decoded from a coalesced read differs"
                    else:
                        key, what = ("socket:message-within-maxsize-truncated",
                                     "first of %d outstanding messages has %d bytes, recv(maxsize=%d) returned %d bytes" % (len(fifo), size, maxsize, r))
                    break
                intact = b"".join(rx._app_socket.got) == b"".join(tx._app_socket.sent)[:sum(len(g) for g in rx._app_socket.got)]
                if not intact:
                    key, what = "socket:byte-stream-corrupted", "bytes read differ from bytes sent"
                worst.add(key or "socket:values-differ", (len(mops), sum(sizes), 0), what or "received %r" % (got_vals[:3],), d)
        finally:
            for s in (tx, rx):
                s._app_socket.close()
                s._app_socket = None


# ------------------------------------------------------------------------------------------------------------------
# F. the library codecs (hypotheses of C10_client_reassembly / layout tables of Msg.v)
# ------------------------------------------------------------------------------------------------------------------
def codec_part(ctx, rng, cases, worst, thorough):
    from netqasm.backend import messages as Mg
    rets = [("RDone", 0), ("RDone", F.M32), ("RErr", 0), ("RErr", 2), ("RReg", 0, 0), ("RReg", 63, F.M32),
            ("RArr", 0, []), ("RArr", F.M32, [0]), ("RArr", 5, [1, 2, F.M32])]
    rets += [F.rand_ret(rng, ("RReg", "RArr", "RDone", "RErr")) for _ in range(40 if thorough else 12)]
    for m in rets:
        b = bytes(F.ret_obj(m))
        for k in range(len(b) + 1):
            raw = b[:k]
            try:
                o = Mg.deserialize_return_msg(raw)
                res, n = F.ret_tuple(o), len(o)
            except ValueError:
                res, n = None, 0
            ctx.count("codec_return_prefix_checks")
            ctx.case(("pre", raw.hex()), nontrivial=k > 0)
            if k < len(b) and res is not None:
                worst.add("codec:proper-prefix-of-return-message-accepted", (len(b), k, 0),
                          "deserialize_return_msg accepted the %d-byte prefix of %r" % (k, m), {"part": "codec", "raw": raw.hex()})
            if k == len(b) and (res != m or n != len(b)):
                worst.add("codec:return-message-does-not-round-trip", (len(b), 0, 0), "%r -> %r" % (m, res), {"part": "codec", "raw": raw.hex()})
            cases.append(("CParseRet %s %s %s" % (F.cbytes(raw), F.copt(res, F.cret), F.cnat(n)), {"part": "codec", "raw": raw.hex()}))
        tail = bytes(rng.randrange(256) for _ in range(rng.randrange(1, 9)))
        o = Mg.deserialize_return_msg(b + tail)
        if F.ret_tuple(o) != m or len(o) != len(b):
            worst.add("codec:return-message-followed-by-data-misparsed", (len(b), 0, 0), "%r" % (m,), {"part": "codec", "raw": (b + tail).hex()})
        cases.append(("CParseRet %s %s %s" % (F.cbytes(b + tail), F.copt(F.ret_tuple(o), F.cret), F.cnat(len(o))), {"part": "codec"}))
    for _ in range(200 if thorough else 60):
        m = F.rand_host(rng)
        b = bytes(F.host_obj(m))
        mode = rng.randrange(4)
        raw = b if mode == 0 else b + bytes(rng.randrange(256) for _ in range(rng.randrange(1, 6))) if mode == 1 else \
            b[:rng.randrange(0, len(b))] if mode == 2 else bytes(rng.randrange(256) for _ in range(rng.randrange(0, 30)))
        try:
            res = F.host_tuple(Mg.deserialize_host_msg(raw))
        except ValueError:
            res = None
        ctx.count("codec_host_checks")
        ctx.case(("deser", raw.hex()))
        if mode == 0 and res != m:
            worst.add("codec:host-message-does-not-round-trip", (len(b), 0, 0), "%r -> %r" % (m, res), {"part": "codec", "raw": raw.hex()})
        cases.append(("CDeser %s %s" % (F.cbytes(raw), F.copt(res, F.chost)), {"part": "codec", "raw": raw.hex()}))


# ------------------------------------------------------------------------------------------------------------------
def run_cases(ctx, cases, shard=300):
    shards = [cases[i:i + shard] for i in range(0, len(cases), shard)]
    res = common.coq_eval_many([F.cases_text([c[0] for c in sh]) for sh in shards])
    failing, failing_cur, okall = [], [], True
    for sh, (ok, out) in zip(shards, res):
        lists = common.parse_nat_lists(out) if ok else []
        if not ok or len(lists) != 2:
            ctx.obligation("correspondence evaluates in Coq", False, out[-1500:])
            okall = False
            continue
        failing += [sh[i][1] for i in lists[0]]
        failing_cur += [sh[i][1] for i in lists[1]]
    return okall, failing, failing_cur


def run(ctx):
    rng = ctx.rng
    thorough = ctx.tier == "thorough"
    ctx.trusted += [
        "harness/frame_common.py drivers: fake transport, scripted socket, recording proxy around the OS socket, stub per-type "
        "handlers (the real SubroutineHandler._handle_message/_mark_message_finished/_return_msg path is kept), time.sleep in "
        "sdk/connection.py replaced by a no-op",
        "netqasm 2.3.0 ctypes message classes, Twisted Protocol.makeConnection, pickle, the OS stream socket (socketpair): "
        "modelled by hand (Frame/Msg.v layout table, Frame/Sock.v), exercised by the correspondence",
        "handlers complete synchronously in model and harness; asynchronous handlers (EPR waits) interleave replies and are not modelled",
    ]
    ctx.rule = ("server: message sequences of length 1..4 (all five message types, bodies that look like headers), every chunking of "
                "streams <= 15 bytes, every chunking with <= 2 cuts of longer ones, random cut sets, malformed streams; node: 1..3 connections "
                "with interleaved chunked reads; host: reply streams of 1..6 messages under the same chunking regime, end-to-end loops; "
                "socket: lockstep / burst / oversize / mixed schedules, 1 B..40 kB, plain and structured; a case is non-trivial when the "
                "stream is cut at least once or holds more than one message; distinct = distinct (stream, chunk sizes)")
    common.check_properties_file(ctx)
    if thorough:
        import subprocess
        p = subprocess.run(["timeout", "900", "coqchk", "-silent", "-o", "-Q", "theories", "SQ", "SQ.Properties.C10"],
                           cwd=common.COQ, stdout=subprocess.PIPE, stderr=subprocess.STDOUT, text=True)
        ctx.obligation("coqchk re-checks Properties/C10.vo and everything it depends on", p.returncode == 0, p.stdout[-800:])

    cases, worst = [], Worst()
    server_part(ctx, rng, cases, worst, thorough)
    node_part(ctx, rng, cases, worst, thorough)
    end_to_end_part(ctx, rng, cases, worst, thorough)
    client_part(ctx, rng, cases, worst, thorough)
    async_part(ctx, rng, worst, thorough)
    socket_part(ctx, rng, cases, worst, thorough)
    codec_part(ctx, rng, cases, worst, thorough)
    for c in cases[:1] + cases[len(cases) // 2:len(cases) // 2 + 1] + cases[-1:]:
        ctx.sample(c[1])
    ctx.count("coq_cases", len(cases))

    okall, failing, failing_cur = run_cases(ctx, cases)
    detail = ""
    if failing:
        srv = [f for f in failing if f.get("part", "").startswith(("server", "end-to-end", "node"))]
        same_as_old = not [f for f in failing_cur]
        detail = "%d disagreements (%d in server/node parts); first: %r" % (len(failing), len(srv), failing[0])
        if same_as_old:
            detail = "the tree behaves like the parser BEFORE fixes/D08-frame-loop.diff (model `feed_cur` agrees on every case); " + detail
    ctx.obligation("correspondence model F = implementation on %d cases (server calls, node writes, _handle_reply calls, socket reads, codecs)"
                   % len(cases), okall and not failing, detail)
    ctx.obligation("oracle: no unexpected failure of the property on %d runs of the real code" % ctx.evaluations,
                   all(ctx.known_match(k) is not None for k in worst.d),
                   "; ".join("%s: %s" % (k, v[1]) for k, v in worst.d.items()))

    # verdicts: smallest failing input per class; listed classes print KNOWN-FINDING, everything else VIOLATION
    for key, (size, desc, replay) in sorted(worst.d.items()):
        ctx.report(key, desc, replay, found_input=True)
