"""Helpers shared by the stabilizer-layer checks (C13, C14, C15): running the real StabilizerState,
printing correspondence cases for Stab/Cases.v, and oracle judgements."""
import numpy as np

import common
import oracle_np as O

G1 = ["X", "Y", "Z", "H", "K", "S"]
G2 = ["CNOT", "CZ"]
G2C = {"CNOT": "GCNOT", "CZ": "GCZ"}


def mk_state(arr):
    from simulaqron.toolbox.stabilizer_states import StabilizerState
    arr = np.array(arr, dtype=bool)
    if arr.size == 0:
        return StabilizerState()
    return StabilizerState(arr, check_symplectic=False)


def arr_of(s):
    a = s.to_array()
    return [[bool(x) for x in r] for r in a]


def tabl(a):
    return [[bool(x) for x in r] for r in np.array(a, dtype=bool)]


def coq_cases_text(cases):
    body = ";\n".join(cases)
    return (common.CASE_HEADER + "From SQ Require Import Base.ListUtil Stab.Pauli Stab.Kernels Stab.Tableau Stab.Cases.\n"
            "Definition cases : list scase := [\n" + body + "\n].\n"
            "Eval vm_compute in failing_cases cases.\n")


def run_cases(ctx, cases, name, shard=400):
    """cases: list of (coq_text, python_description). Returns list of failing descriptions."""
    shards = [cases[i:i + shard] for i in range(0, len(cases), shard)]
    texts = [coq_cases_text([c[0] for c in sh]) for sh in shards]
    res = common.coq_eval_many(texts)
    failing = []
    okall = True
    for sh, (ok, out) in zip(shards, res):
        lists = common.parse_nat_lists(out) if ok else []
        if not ok or len(lists) != 1:
            ctx.obligation("correspondence %s evaluates in Coq" % name, False, out)
            okall = False
            continue
        for i in lists[0]:
            failing.append(sh[i][1])
    ctx.obligation("correspondence %s: model = implementation on %d cases" % (name, len(cases)),
                   okall and not failing, "first disagreement: %r" % (failing[:1],))
    return failing


# ---- oracle judgements (independent of model and implementation) -------------------------------------------
def oracle_gate(tin, n, g, pos, tout):
    """is tout the conjugated group of tin (signs included) and still a pure stabilizer state?"""
    pin = O.projector(tin, n)
    u = O.op1(n, pos[0], O.G1[g]) if g in O.G1 else O.op2(n, pos[0], pos[1], g)
    want = u @ pin @ u.conj().T
    if len(tout) != n or any(len(r) != 2 * n + 1 for r in tout):
        return False
    pout = O.projector(tout, n)
    return O.close(pout, want) and O.is_pure_state(pout)
