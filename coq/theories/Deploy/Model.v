(* Model D — start-up of the virtual-node network (C20).  Executable definitions only.

   Source (simulaqron/virtual_node/virtual.py):
     virtualNode.__init__ / connectNet      203-215   conn[self] = self ; connect_to_node(peer) for every other configured node
     remote_check_connections               217-222   len(self.conn) == len(self.config.hostDict)
     connect_to_node                        244-253   reactor.connectTCP + getRootObject, callback / errback
     handle_connection                      255-264   self.conn[node.name] = node          (dict assignment: a key is present at most once)
     handle_connection_error                266-280   ConnectionRefusedError -> reactor.callLater(conn_retry_time, connect_to_node, node)
                                                       any other exception    -> reactor.stop()
     Backend.start                          116-137   virtualNode(...) ; reactor.listenTCP ; reactor.run()

   The network state is kept as sets of directed links (i, j) "node i ... peer j"; the per-node fields of the code are
   the projections [listening], [conn_of], [attempts_of], [retries_of] below.
     up       nodes whose server socket is listening
     started  nodes whose process has been started (a process is started once)
     conn     (i, j): j is a key of node i's dict [conn]           (i, i) is put there by connectNet
     att      (i, j): a connection attempt of i to j is in flight (connectTCP issued, neither callback nor errback ran yet)
     ret      (i, j): a retry of i to j is scheduled (callLater pending)                                                        *)
From Coq Require Import List Bool Arith.
Import ListNotations.

Definition link := (nat * nat)%type.

Definition leqb (a b : link) : bool := (fst a =? fst b) && (snd a =? snd b).
Definition lmem (p : link) (l : list link) : bool := existsb (leqb p) l.
Definition ldel (p : link) (l : list link) : list link := filter (fun q => negb (leqb p q)) l.
Definition lins (p : link) (l : list link) : list link := if lmem p l then l else p :: l.
Definition nmem (i : nat) (l : list nat) : bool := existsb (Nat.eqb i) l.
Definition ndel (i : nat) (l : list nat) : list nat := filter (fun x => negb (i =? x)) l.
Definition from (i : nat) (l : list link) : list link := filter (fun p => fst p =? i) l.
Definition notfrom (i : nat) (l : list link) : list link := filter (fun p => negb (fst p =? i)) l.

Record state := mkState {
  up : list nat;
  started : list nat;
  conn : list link;
  att : list link;
  ret : list link
}.

Definition init : state := mkState [] [] [] [] [].

Inductive event :=
| Up (i : nat)          (* the process of node i runs virtualNode.__init__ (connectNet) and starts listening *)
| Try (i j : nat)       (* the in-flight attempt of i to j completes: callback if j listens, ConnectionRefused errback otherwise *)
| Retry (i j : nat)     (* the scheduled callLater(conn_retry_time, connect_to_node, j) of node i fires *)
| Crash (i j : nat).    (* the in-flight attempt of i to j fails with any other error: reactor.stop() at node i *)

(* the peers node i tries: every configured node except itself, in configuration order *)
Definition others (n i : nat) : list nat := filter (fun j => negb (j =? i)) (seq 0 n).

Definition step (n : nat) (s : state) (e : event) : state :=
  match e with
  | Up i =>
      if (i <? n) && negb (nmem i (started s)) then
        mkState (i :: up s) (i :: started s) ((i, i) :: conn s) (map (pair i) (others n i) ++ att s) (ret s)
      else s
  | Try i j =>
      if lmem (i, j) (att s) then
        if nmem j (up s)
        then mkState (up s) (started s) (lins (i, j) (conn s)) (ldel (i, j) (att s)) (ret s)
        else mkState (up s) (started s) (conn s) (ldel (i, j) (att s)) (lins (i, j) (ret s))
      else s
  | Retry i j =>
      if lmem (i, j) (ret s)
      then mkState (up s) (started s) (conn s) (lins (i, j) (att s)) (ldel (i, j) (ret s))
      else s
  | Crash i j =>
      if lmem (i, j) (att s)
      then mkState (ndel i (up s)) (started s) (conn s) (notfrom i (att s)) (notfrom i (ret s))
      else s
  end.

Definition run_events (n : nat) (s : state) (es : list event) : state := fold_left (step n) es s.

(* ---- what one node sees ---------------------------------------------------------------------------------- *)
Definition listening (s : state) (i : nat) : bool := nmem i (up s).
Definition conn_of (s : state) (i : nat) : list nat := map snd (from i (conn s)).
Definition attempts_of (s : state) (i : nat) : list nat := map snd (from i (att s)).
Definition retries_of (s : state) (i : nat) : list nat := map snd (from i (ret s)).

(* remote_check_connections, as coded: the dict [conn] (which also holds the node itself) has as many keys as the configuration *)
Definition check_connections (n : nat) (s : state) (i : nat) : bool := length (conn_of s i) =? n.

Definition all_connected (n : nat) (s : state) : bool := forallb (check_connections n s) (seq 0 n).

(* ---- infinite runs ------------------------------------------------------------------------------------------ *)
Definition run := nat -> event.

Fixpoint state_at (n : nat) (r : run) (t : nat) : state :=
  match t with
  | 0 => init
  | S t' => step n (state_at n r t') (r t')
  end.

Definition is_crash (e : event) : bool := match e with Crash _ _ => true | _ => false end.

(* fairness: every configured node is eventually started, every attempt in flight eventually completes, every scheduled
   retry eventually fires; and (environment assumption) connection attempts fail with ConnectionRefused only *)
Definition fair (n : nat) (r : run) : Prop :=
  (forall i, i < n -> exists t, r t = Up i) /\
  (forall t i j, In (i, j) (att (state_at n r t)) -> exists t', t <= t' /\ r t' = Try i j) /\
  (forall t i j, In (i, j) (ret (state_at n r t)) -> exists t', t <= t' /\ r t' = Retry i j) /\
  (forall t, is_crash (r t) = false).

(* ---- the eager schedule (used by the correspondence): after every Up all attempts complete and all retries fire at once ---- *)
Definition settle_once (n : nat) (s : state) : state :=
  let s1 := fold_left (fun s p => step n s (Try (fst p) (snd p))) (att s) s in
  fold_left (fun s p => step n s (Retry (fst p) (snd p))) (ret s1) s1.

Definition eager_up (n : nat) (s : state) (i : nat) : state :=
  settle_once n (step n s (Up i)).
