(* boolean_gaussian_elimination keeps the generated group (signs included), for commuting generators:
   every step of the loop is a row swap or the multiplication of rows by the pivot row. *)
From Coq Require Import List Bool Arith Lia.
From SQ Require Import Base.ListUtil Stab.Pauli Stab.Kernels Stab.Gates Stab.Tableau Stab.Group Stab.GroupGates Stab.MulProof.
Import ListNotations.

(* ---------- list plumbing ---------------------------------------------------------------------------- *)
Lemma map_idx_from_length {A B} (f : nat -> A -> B) l : forall i, length (map_idx_from i f l) = length l.
Proof. induction l as [|x l IH]; intro i; simpl; auto. Qed.

Lemma nth_map_idx_from {A B} (f : nat -> A -> B) l d d' : forall i j, j < length l ->
  nth j (map_idx_from i f l) d' = f (i + j) (nth j l d).
Proof.
  induction l as [|x l IH]; intros i j Hj; simpl in *; [lia|].
  destruct j as [|j]; [rewrite Nat.add_0_r; auto|].
  rewrite IH by lia. f_equal. lia.
Qed.

Lemma eliminate_length n h k t : length (eliminate n h k t) = length t.
Proof. unfold eliminate, map_idx. apply map_idx_from_length. Qed.

Lemma nth_eliminate n h k t j : j < length t ->
  nth j (eliminate n h k t) [] =
  if negb (Nat.eqb j h) && get (nth j t []) k then mul_rows n (nth j t []) (nth h t []) else nth j t [].
Proof. intro Hj. unfold eliminate, map_idx. rewrite (nth_map_idx_from _ _ []) by auto. reflexivity. Qed.

Lemma swap_rows_length t a b : length (swap_rows t a b) = length t.
Proof. unfold swap_rows. rewrite !upd_length. reflexivity. Qed.

Lemma nth_upd_gen {A} (l : list A) i j v d : i < length l ->
  nth j (upd l i v) d = if Nat.eqb i j then v else nth j l d.
Proof.
  intro Hi. destruct (Nat.eqb_spec i j) as [->|Hne].
  - apply nth_upd_eq; auto.
  - apply nth_upd_neq; auto.
Qed.

Lemma nth_swap_rows t a b j : a < length t -> b < length t ->
  nth j (swap_rows t a b) [] =
  if Nat.eqb b j then nth a t [] else if Nat.eqb a j then nth b t [] else nth j t [].
Proof.
  intros Ha Hb. unfold swap_rows. rewrite nth_upd_gen by (rewrite upd_length; auto).
  destruct (Nat.eqb b j); auto. apply nth_upd_gen; auto.
Qed.

Lemma in_swap_rows t a b r : a < length t -> b < length t -> (In r (swap_rows t a b) <-> In r t).
Proof.
  intros Ha Hb. split; intro H.
  - apply (@In_nth row _ _ []) in H. destruct H as (j & Hj & <-). rewrite swap_rows_length in Hj.
    rewrite nth_swap_rows by auto.
    destruct (Nat.eqb b j); [apply nth_In; auto|]. destruct (Nat.eqb a j); apply nth_In; auto.
  - apply (@In_nth row _ _ []) in H. destruct H as (j & Hj & <-).
    assert (X : forall m, m < length t -> In (nth m (swap_rows t a b) []) (swap_rows t a b)).
    { intros m Hm. apply nth_In. rewrite swap_rows_length. auto. }
    destruct (Nat.eq_dec j a) as [->|Hja].
    + (* the old row a now sits at b *)
      specialize (X b Hb). rewrite nth_swap_rows in X by auto. rewrite Nat.eqb_refl in X. exact X.
    + destruct (Nat.eq_dec j b) as [->|Hjb].
      * specialize (X a Ha). rewrite nth_swap_rows in X by auto.
        destruct (Nat.eqb_spec b a); [subst; auto|]. rewrite Nat.eqb_refl in X. exact X.
      * specialize (X j Hj). rewrite nth_swap_rows in X by auto.
        destruct (Nat.eqb_spec b j); [congruence|]. destruct (Nat.eqb_spec a j); [congruence|]. exact X.
Qed.

Lemma find_pivot_from_bound k t : forall i j, find_pivot_from i k t = Some j -> i <= j < i + length t.
Proof.
  induction t as [|r t IH]; intros i j H; simpl in *; [discriminate|].
  destruct (get r k).
  - injection H as <-. lia.
  - apply IH in H. lia.
Qed.

Lemma find_pivot_bound h k t i : h < length t -> find_pivot h k t = Some i -> h <= i < length t.
Proof.
  intros Hh H. unfold find_pivot in H. apply find_pivot_from_bound in H. rewrite skipn_length in H. lia.
Qed.

(* ---------- group facts ---------------------------------------------------------------------------------- *)
Lemma decode_ph_real n r : ph_odd (fst (decode_ph n r)) = false.
Proof. unfold decode_ph, lift, decode; cbn [fst snd]. destruct (get r (2 * n)); reflexivity. Qed.

Lemma decode_ph_length n r : length (snd (decode_ph n r)) = n.
Proof. apply decode_length. Qed.

Lemma pmul_mul_cancel n a b : length (snd a) = n -> length (snd b) = n -> ph_odd (fst b) = false ->
  pmul (pmul a b) b = a.
Proof.
  intros La Lb Hb. rewrite pmul_assoc by congruence. rewrite pmul_self by auto. rewrite Lb.
  apply pmul_one_r; auto.
Qed.

Lemma same_group_of_in n t u : (forall r, In r t <-> In r u) -> same_group n t u.
Proof.
  intros H g; split; apply gen_incl; intros r Hr; apply gen_row; apply H; auto.
Qed.

Lemma commuting_of_in n t u : (forall r, In r u -> In r t) -> commuting n t -> commuting n u.
Proof. intros H Hc a b Ha Hb. apply Hc; auto. Qed.

(* ---------- one elimination step ---------------------------------------------------------------------------- *)
Lemma in_eliminate n h k t r : In r (eliminate n h k t) ->
  In r t \/ exists r0, In r0 t /\ r = mul_rows n r0 (nth h t []).
Proof.
  intro H. apply (@In_nth row _ _ []) in H. destruct H as (j & Hj & <-). rewrite eliminate_length in Hj.
  rewrite nth_eliminate by auto.
  destruct (negb (Nat.eqb j h) && get (nth j t []) k).
  - right. exists (nth j t []). split; auto. apply nth_In; auto.
  - left. apply nth_In; auto.
Qed.

Lemma eliminate_commuting n h k t : h < length t -> commuting n t -> commuting n (eliminate n h k t).
Proof.
  intros Hh Hc a b Ha Hb.
  assert (Hp : In (nth h t []) t) by (apply nth_In; auto).
  apply in_eliminate in Ha, Hb.
  destruct Ha as [Ha|(a0 & Ha & ->)], Hb as [Hb|(b0 & Hb & ->)];
    rewrite ?symp_mul_rows_l, ?symp_mul_rows_r, ?symp_mul_rows_l; rewrite ?Hc; auto.
Qed.

Lemma eliminate_same_group n h k t : h < length t -> commuting n t -> same_group n (eliminate n h k t) t.
Proof.
  intros Hh Hc.
  assert (Hp : In (nth h t []) t) by (apply nth_In; auto).
  intro g; split; apply gen_incl; intros r Hr.
  - (* new rows are old rows or products of two old rows *)
    apply in_eliminate in Hr. destruct Hr as [Hr|(r0 & Hr & ->)]; [apply gen_row; auto|].
    rewrite mul_rows_spec by (apply Hc; auto). apply gen_mul; apply gen_row; auto.
  - (* an old row is the new row at the same index, times the (unchanged) pivot row if it was modified *)
    apply (@In_nth row _ _ []) in Hr. destruct Hr as (j & Hj & <-).
    assert (Hpiv : nth h (eliminate n h k t) [] = nth h t []).
    { rewrite nth_eliminate by auto. rewrite Nat.eqb_refl. reflexivity. }
    pose proof (nth_eliminate n h k t j Hj) as Ej.
    destruct (negb (Nat.eqb j h) && get (nth j t []) k).
    + assert (E : pmul (decode_ph n (nth j (eliminate n h k t) [])) (decode_ph n (nth h (eliminate n h k t) []))
                  = decode_ph n (nth j t [])).
      { rewrite Ej, Hpiv. rewrite mul_rows_spec by (apply Hc; auto; apply nth_In; auto).
        apply (pmul_mul_cancel n); auto using decode_ph_length, decode_ph_real. }
      rewrite <- E. apply gen_mul; apply gen_row; apply nth_In; rewrite eliminate_length; auto.
    + rewrite <- Ej. apply gen_row. apply nth_In. rewrite eliminate_length; auto.
Qed.

Lemma eliminate_wf n h k t : wf_tab n t -> wf_tab n (eliminate n h k t).
Proof.
  unfold wf_tab. rewrite !Forall_forall. intros H r Hr. apply in_eliminate in Hr.
  destruct Hr as [Hr|(r0 & _ & ->)]; auto. apply mul_rows_wf.
Qed.

(* ---------- the loop ------------------------------------------------------------------------------------------ *)
Lemma gauss_aux_inv n : forall fuel k h t, commuting n t ->
  same_group n (gauss_aux fuel n k h t) t /\ commuting n (gauss_aux fuel n k h t) /\
  length (gauss_aux fuel n k h t) = length t /\ (wf_tab n t -> wf_tab n (gauss_aux fuel n k h t)).
Proof.
  induction fuel as [|f IH]; intros k h t Hc; simpl.
  - repeat split; auto; intro; auto.
  - destruct (Nat.ltb_spec h (length t)) as [Hh|Hh]; [|repeat split; auto; intro; auto].
    destruct (find_pivot h k t) as [i|] eqn:Ep; [|apply IH; auto].
    apply find_pivot_bound in Ep; auto.
    set (t1 := if Nat.eqb i h then t else swap_rows t h i).
    assert (Hin : forall r, In r t1 <-> In r t).
    { intro r. unfold t1. destruct (Nat.eqb i h); [tauto|]. apply in_swap_rows; lia. }
    assert (L1 : length t1 = length t).
    { unfold t1. destruct (Nat.eqb i h); auto. apply swap_rows_length. }
    assert (C1 : commuting n t1) by (apply (commuting_of_in n t); auto; intros r Hr; apply Hin; auto).
    assert (Hh1 : h < length t1) by lia.
    destruct (IH (S k) (S h) (eliminate n h k t1) (eliminate_commuting n h k t1 Hh1 C1)) as (G & C & L & W).
    split; [|split; [|split]]; auto.
    + eapply same_group_trans; [exact G|]. eapply same_group_trans; [apply eliminate_same_group; auto|].
      apply same_group_of_in; auto.
    + rewrite L, eliminate_length. auto.
    + intro Hw. apply W. apply eliminate_wf. unfold wf_tab in *. rewrite Forall_forall in *.
      intros r Hr. apply Hw. apply Hin; auto.
Qed.

Theorem gauss_group n t : commuting n t -> same_group n (gauss n t) t.
Proof. intro H. apply (gauss_aux_inv n (2 * n + 1) 0 0 t H). Qed.

Theorem gauss_commuting n t : commuting n t -> commuting n (gauss n t).
Proof. intro H. apply (gauss_aux_inv n (2 * n + 1) 0 0 t H). Qed.

Lemma gauss_length n t : commuting n t -> length (gauss n t) = length t.
Proof. intro H. apply (gauss_aux_inv n (2 * n + 1) 0 0 t H). Qed.

Lemma gauss_wf n t : commuting n t -> wf_tab n t -> wf_tab n (gauss n t).
Proof. intro H. apply (gauss_aux_inv n (2 * n + 1) 0 0 t H). Qed.

(* ---------- equality of states: the proved direction ---------------------------------------------------------- *)
Lemma bool_eqb_spec a b : Bool.eqb a b = true <-> a = b.
Proof. destruct a, b; simpl; split; intro; try discriminate; auto. Qed.

Lemma tab_eqb_eq a b : tab_eqb a b = true -> a = b.
Proof.
  unfold tab_eqb. apply list_eqb_spec. intros x y. unfold row_eqb. apply list_eqb_spec. apply bool_eqb_spec.
Qed.

Theorem teq_same_group n1 t1 n2 t2 : commuting n1 t1 -> commuting n2 t2 ->
  teq n1 t1 n2 t2 = true -> n1 = n2 /\ same_group n1 t1 t2.
Proof.
  intros C1 C2 H. unfold teq in H. apply andb_true_iff in H. destruct H as [Hn He].
  apply Nat.eqb_eq in Hn. subst n2. split; auto. apply tab_eqb_eq in He.
  eapply same_group_trans; [apply same_group_sym, gauss_group; auto|]. rewrite He. apply gauss_group; auto.
Qed.
