(* Theorems about the measurement model (Tableau.measure). *)
From Coq Require Import List Bool Arith Lia.
From SQ Require Import Base.ListUtil Stab.Pauli Stab.Kernels Stab.Tableau.
Import ListNotations.

(* "some generator has X or Y at p after elimination" = the test `tmp_matrix[0, 0]` of the code *)
Definition random_branch (n p : nat) (t : tab) : bool :=
  get (nth 0 (gauss n (map (perm_row n p) t)) []) 0.

Lemma meas_random_outcome n p ip coin t :
  random_branch n p t = true -> fst (fst (measure n p ip coin t)) = coin.
Proof.
  unfold random_branch, measure. intros ->. destruct ip; reflexivity.
Qed.

(* ====================================================================================================
   Group-level statements.  `measure` works in the frame where the measured qubit is moved to position 0
   (perm_row), eliminates there, edits the rows, and moves the columns back (unperm_row).  The theorems
   below are about the eliminated tableau  tmp = gauss n (map (perm_row n p) t)  and the edited rows, i.e.
   they are stated in the measured-qubit-first frame.
   ==================================================================================================== *)
From SQ Require Import Stab.Gates Stab.Group Stab.GroupGates Stab.MulProof Stab.GaussProof.

Definition zrow (n : nat) (b : bool) : row := if b then upd (z_first n) (2 * n) true else z_first n.

Definition core_row (n : nat) (coin : bool) (r : row) : row :=
  upd (if coin then flip_if (get r n) r (2 * n) else r) n false.

(* the in-place result of the random branch, before the columns are moved back *)
Definition core_inplace (n : nat) (coin : bool) (tmp : tab) : tab :=
  zrow n coin :: map (core_row n coin) (skipn 1 tmp).

Definition eliminated (n p : nat) (t : tab) : tab := gauss n (map (perm_row n p) t).

Lemma measure_random_inplace n p coin t : random_branch n p t = true ->
  measure n p true coin t = (coin, n, map (unperm_row n p) (core_inplace n coin (eliminated n p t))).
Proof.
  unfold random_branch, measure, core_inplace, eliminated, zrow, core_row. intros ->.
  generalize (gauss n (map (perm_row n p) t)). intros [|r0 tmp]; destruct coin; cbn [negb skipn map];
    rewrite ?map_map; reflexivity.
Qed.

Lemma measure_determined_inplace n p coin t : random_branch n p t = false ->
  measure n p true coin t =
  (negb (contains n (eliminated n p t) (z_first n)), n, map (unperm_row n p) (eliminated n p t)).
Proof. unfold random_branch, measure, eliminated. intros ->. reflexivity. Qed.

(* ---------- column 0 of the eliminated tableau -------------------------------------------------------- *)
Definition col0_clear (t : tab) : Prop := forall r, In r t -> get r 0 = false.
Definition col0_pivot (t : tab) : Prop :=
  get (nth 0 t []) 0 = true /\ forall j, 1 <= j < length t -> get (nth j t []) 0 = false.

Lemma find_pivot_from_none k t : forall i, find_pivot_from i k t = None -> forall r, In r t -> get r k = false.
Proof.
  induction t as [|x t IH]; intros i H r Hr; simpl in *; [tauto|].
  destruct (get x k) eqn:E; [discriminate|]. destruct Hr as [<-|Hr]; eauto.
Qed.

Lemma find_pivot_from_some k t : forall i j, find_pivot_from i k t = Some j -> get (nth (j - i) t []) k = true.
Proof.
  induction t as [|x t IH]; intros i j H; simpl in *; [discriminate|].
  destruct (get x k) eqn:E.
  - injection H as <-. rewrite Nat.sub_diag. exact E.
  - pose proof (find_pivot_from_bound _ _ _ _ H) as B. apply IH in H.
    replace (j - i) with (S (j - S i)) by lia. exact H.
Qed.

Lemma nth_skipn {A} (l : list A) h j d : nth j (skipn h l) d = nth (h + j) l d.
Proof. revert l; induction h as [|h IH]; intros [|x l]; simpl; auto. destruct j; reflexivity. Qed.

Lemma find_pivot_some h k t i : find_pivot h k t = Some i -> get (nth i t []) k = true.
Proof.
  intro H. unfold find_pivot in H. pose proof (find_pivot_from_bound _ _ _ _ H) as B.
  apply find_pivot_from_some in H. rewrite nth_skipn in H. replace (h + (i - h)) with i in H by lia. exact H.
Qed.

Section Col0.
  Variable n : nat.
  Hypothesis Hn : 1 <= n.

  Lemma col0_clear_step t h k : h < length t -> col0_clear t -> col0_clear (eliminate n h k t).
  Proof.
    intros Hh H r Hr. apply in_eliminate in Hr. destruct Hr as [Hr|(r0 & Hr & ->)]; auto.
    rewrite get_mul_rows_lt by lia. rewrite (H r0 Hr), (H (nth h t [])); auto. apply nth_In; auto.
  Qed.

  Lemma col0_clear_gauss : forall fuel k h t, col0_clear t -> col0_clear (gauss_aux fuel n k h t).
  Proof.
    induction fuel as [|f IH]; intros k h t H; simpl; auto.
    destruct (Nat.ltb_spec h (length t)) as [Hh|Hh]; auto.
    destruct (find_pivot h k t) as [i|] eqn:Ep; auto.
    apply find_pivot_bound in Ep; auto. apply IH.
    set (t1 := if Nat.eqb i h then t else swap_rows t h i).
    assert (L1 : length t1 = length t) by (unfold t1; destruct (Nat.eqb i h); auto using swap_rows_length).
    apply col0_clear_step; [lia|]. intros r Hr. apply H. unfold t1 in Hr.
    destruct (Nat.eqb i h); auto. apply in_swap_rows in Hr; auto; lia.
  Qed.

  Lemma col0_pivot_step t h k : 1 <= h < length t -> col0_pivot t -> col0_pivot (eliminate n h k t).
  Proof.
    intros Hh [H0 Hr]. assert (Hp : get (nth h t []) 0 = false) by (apply Hr; lia).
    split.
    - rewrite nth_eliminate by lia.
      destruct (negb (Nat.eqb 0 h) && get (nth 0 t []) k); auto.
      rewrite get_mul_rows_lt by lia. rewrite H0, Hp. reflexivity.
    - intros j Hj. rewrite eliminate_length in Hj. rewrite nth_eliminate by lia.
      destruct (negb (Nat.eqb j h) && get (nth j t []) k); [|apply Hr; auto].
      rewrite get_mul_rows_lt by lia. rewrite Hp, Hr by auto. reflexivity.
  Qed.

  Lemma col0_pivot_swap t a b : 1 <= a < length t -> 1 <= b < length t -> col0_pivot t -> col0_pivot (swap_rows t a b).
  Proof.
    intros Ha Hb [H0 Hr]. split.
    - rewrite nth_swap_rows by lia.
      destruct (Nat.eqb_spec b 0); [lia|]. destruct (Nat.eqb_spec a 0); [lia|]. auto.
    - intros j Hj. rewrite swap_rows_length in Hj. rewrite nth_swap_rows by lia.
      destruct (Nat.eqb b j); [apply Hr; lia|]. destruct (Nat.eqb a j); apply Hr; lia.
  Qed.

  Lemma col0_pivot_gauss : forall fuel k h t, 1 <= h -> col0_pivot t -> col0_pivot (gauss_aux fuel n k h t).
  Proof.
    induction fuel as [|f IH]; intros k h t H1 H; simpl; auto.
    destruct (Nat.ltb_spec h (length t)) as [Hh|Hh]; auto.
    destruct (find_pivot h k t) as [i|] eqn:Ep; auto.
    apply find_pivot_bound in Ep; auto. apply IH; [lia|].
    set (t1 := if Nat.eqb i h then t else swap_rows t h i).
    assert (L1 : length t1 = length t) by (unfold t1; destruct (Nat.eqb i h); auto using swap_rows_length).
    apply col0_pivot_step; [lia|]. unfold t1. destruct (Nat.eqb i h); auto. apply col0_pivot_swap; auto; lia.
  Qed.

  (* after the full elimination: either column 0 is clear, or row 0 is the only row with a 1 in it *)
  Lemma gauss_col0 t : col0_clear (gauss n t) \/ col0_pivot (gauss n t).
  Proof.
    unfold gauss. replace (2 * n + 1) with (S (2 * n)) by lia. simpl.
    destruct (Nat.ltb_spec 0 (length t)) as [Hh|Hh].
    2:{ left. destruct t; simpl in Hh; [|lia]. intros r []. }
    destruct (find_pivot 0 0 t) as [i|] eqn:Ep.
    - right. pose proof (find_pivot_some _ _ _ _ Ep) as Hi. apply find_pivot_bound in Ep; auto.
      apply col0_pivot_gauss; auto.
      set (t1 := if Nat.eqb i 0 then t else swap_rows t 0 i).
      assert (L1 : length t1 = length t) by (unfold t1; destruct (Nat.eqb i 0); auto using swap_rows_length).
      assert (P1 : get (nth 0 t1 []) 0 = true).
      { unfold t1. destruct (Nat.eqb_spec i 0) as [->|Hne]; auto.
        rewrite nth_swap_rows by lia. destruct (Nat.eqb_spec i 0); [lia|]. rewrite Nat.eqb_refl. auto. }
      split.
      + rewrite nth_eliminate by lia. rewrite Nat.eqb_refl. simpl. exact P1.
      + intros j Hj. rewrite eliminate_length in Hj. rewrite nth_eliminate by lia.
        destruct (Nat.eqb_spec j 0); [lia|]. simpl.
        destruct (get (nth j t1 []) 0) eqn:E; auto.
        rewrite get_mul_rows_lt by lia. rewrite E, P1. reflexivity.
    - left. apply col0_clear_gauss. unfold find_pivot in Ep. simpl in Ep.
      intros r Hr. eapply find_pivot_from_none; eauto.
  Qed.

  Lemma random_branch_col0 t : get (nth 0 (gauss n t) []) 0 = true ->
    forall j, 1 <= j < length (gauss n t) -> get (nth j (gauss n t) []) 0 = false.
  Proof.
    intros H. destruct (gauss_col0 t) as [C|[_ P]]; auto.
    assert (L : 0 < length (gauss n t)).
    { destruct (gauss n t); simpl in *; [unfold get in H; simpl in H; discriminate|lia]. }
    rewrite (C (nth 0 (gauss n t) [])) in H; [discriminate|]. apply nth_In; auto.
  Qed.
End Col0.

(* ---------- the edited rows are the old rows, possibly times the new generator (-1)^b Z_0 ------------------ *)
Lemma map_const {A B} (f : A -> B) c l : (forall x, In x l -> f x = c) -> map f l = repeat c (length l).
Proof. induction l as [|x l IH]; intro H; simpl; auto. rewrite H, IH; simpl; auto. intros; apply H; simpl; auto. Qed.

Lemma get_z_first n j : j < 2 * n + 1 -> get (z_first n) j = Nat.eqb j n.
Proof. intro H. unfold z_first, get. apply (nth_map_seq (fun j => Nat.eqb j n)); auto. Qed.

Lemma z_first_length n : length (z_first n) = 2 * n + 1.
Proof. unfold z_first. rewrite map_length, seq_length. reflexivity. Qed.

Lemma zrow_wf n b : wf_row n (zrow n b).
Proof. unfold wf_row, zrow. destruct b; rewrite ?upd_length; apply z_first_length. Qed.

Lemma get_zrow n b j : 1 <= n -> j < 2 * n + 1 -> get (zrow n b) j = if Nat.eqb j (2 * n) then b else Nat.eqb j n.
Proof.
  intros Hn Hj. unfold zrow. destruct b.
  - rewrite get_upd, z_first_length.
    destruct (Nat.eqb_spec (2 * n) j) as [E|E]; destruct (Nat.ltb_spec (2 * n) (2 * n + 1)); try lia; cbn [andb].
    + rewrite <- E, Nat.eqb_refl. reflexivity.
    + destruct (Nat.eqb_spec j (2 * n)); [lia|]. apply get_z_first; auto.
  - rewrite get_z_first by auto. destruct (Nat.eqb_spec j (2 * n)) as [E|E]; auto.
    rewrite E. destruct (Nat.eqb_spec (2 * n) n); auto; lia.
Qed.

Lemma seq_0_S n : 1 <= n -> seq 0 n = 0 :: seq 1 (n - 1).
Proof. intro H. destruct n as [|m]; [lia|]. simpl. rewrite Nat.sub_0_r. reflexivity. Qed.

Lemma decode_zrow n b : 1 <= n -> decode_ph n (zrow n b) = (ph_of_sign b, PZ :: repeat PI (n - 1)).
Proof.
  intro Hn. unfold decode_ph, lift, decode. cbn [fst snd]. f_equal.
  - rewrite get_zrow by lia. rewrite Nat.eqb_refl. reflexivity.
  - rewrite seq_0_S by auto. cbn [map]. f_equal.
    + unfold pauli_at. rewrite !get_zrow by lia. rewrite Nat.add_0_l.
      destruct (Nat.eqb_spec 0 (2 * n)); [lia|]. destruct (Nat.eqb_spec 0 n); [lia|].
      destruct (Nat.eqb_spec n (2 * n)); [lia|]. rewrite Nat.eqb_refl. reflexivity.
    + transitivity (repeat PI (length (seq 1 (n - 1)))); [|rewrite seq_length; reflexivity].
      apply map_const. intros i Hi. apply in_seq in Hi.
      unfold pauli_at. rewrite !get_zrow by lia.
      destruct (Nat.eqb_spec i (2 * n)); [lia|]. destruct (Nat.eqb_spec i n); [lia|].
      destruct (Nat.eqb_spec (i + n) (2 * n)); [lia|]. destruct (Nat.eqb_spec (i + n) n); [lia|].
      reflexivity.
Qed.

Lemma get_core_row n coin r j : 1 <= n -> wf_row n r ->
  get (core_row n coin r) j =
  if Nat.eqb j n then false
  else if Nat.eqb j (2 * n) then (if coin then xorb (get r n) (get r (2 * n)) else get r (2 * n))
  else get r j.
Proof.
  intros Hn Hw. unfold wf_row in Hw. unfold core_row.
  rewrite get_upd. destruct coin.
  - rewrite flip_if_length, Hw, get_flip_if, Hw.
    destruct (Nat.eqb_spec n j) as [E|E]; destruct (Nat.ltb_spec n (2 * n + 1)); try lia; cbn [andb].
    + rewrite <- E, Nat.eqb_refl. reflexivity.
    + destruct (Nat.eqb_spec j n); [lia|].
      destruct (Nat.eqb_spec (2 * n) j) as [E2|E2]; destruct (Nat.ltb_spec (2 * n) (2 * n + 1)); try lia; cbn [andb].
      * rewrite <- E2, Nat.eqb_refl. reflexivity.
      * destruct (Nat.eqb_spec j (2 * n)); [lia|]. reflexivity.
  - rewrite Hw.
    destruct (Nat.eqb_spec n j) as [E|E]; destruct (Nat.ltb_spec n (2 * n + 1)); try lia; cbn [andb].
    + rewrite <- E, Nat.eqb_refl. reflexivity.
    + destruct (Nat.eqb_spec j n); [lia|]. destruct (Nat.eqb_spec j (2 * n)) as [->|]; reflexivity.
Qed.

Lemma core_row_wf n coin r : wf_row n r -> wf_row n (core_row n coin r).
Proof. unfold wf_row, core_row. intro H. destruct coin; rewrite ?upd_length, ?flip_if_length; auto. Qed.

Lemma core_row_spec n coin r : 1 <= n -> wf_row n r -> get r 0 = false ->
  decode_ph n (core_row n coin r) =
  if get r n then pmul (decode_ph n r) (decode_ph n (zrow n coin)) else decode_ph n r.
Proof.
  intros Hn Hw H0.
  (* Pauli part of the edited row *)
  assert (Hps : snd (decode_ph n (core_row n coin r)) = PI :: map (pauli_at n r) (seq 1 (n - 1))).
  { unfold decode_ph, lift, decode. cbn [snd]. rewrite seq_0_S by auto. cbn [map]. f_equal.
    - unfold pauli_at. rewrite !get_core_row by auto. rewrite Nat.add_0_l.
      destruct (Nat.eqb_spec 0 n); [lia|]. destruct (Nat.eqb_spec 0 (2 * n)); [lia|].
      rewrite Nat.eqb_refl, H0. reflexivity.
    - apply map_ext_in. intros i Hi. apply in_seq in Hi. unfold pauli_at. rewrite !get_core_row by auto.
      destruct (Nat.eqb_spec i n); [lia|]. destruct (Nat.eqb_spec i (2 * n)); [lia|].
      destruct (Nat.eqb_spec (i + n) n); [lia|]. destruct (Nat.eqb_spec (i + n) (2 * n)); [lia|]. reflexivity. }
  assert (Hsg : fst (decode_ph n (core_row n coin r)) =
                ph_of_sign (if coin then xorb (get r n) (get r (2 * n)) else get r (2 * n))).
  { unfold decode_ph, lift, decode. cbn [fst]. rewrite get_core_row by auto.
    destruct (Nat.eqb_spec (2 * n) n); [lia|]. rewrite Nat.eqb_refl. reflexivity. }
  assert (Hr : decode_ph n r = (ph_of_sign (get r (2 * n)), pauli_of false (get r n) :: map (pauli_at n r) (seq 1 (n - 1)))).
  { unfold decode_ph, lift, decode. cbn [fst snd]. f_equal. rewrite seq_0_S by auto. cbn [map]. f_equal.
    unfold pauli_at. rewrite H0, Nat.add_0_l. reflexivity. }
  rewrite (surjective_pairing (decode_ph n (core_row n coin r))), Hps, Hsg.
  destruct (get r n) eqn:Ez.
  - rewrite Hr, decode_zrow by auto. unfold pmul. cbn [fst snd pmul_l pauli_of pmul1].
    rewrite pmul_l_one_r by (rewrite map_length, seq_length; reflexivity). cbn [fst snd].
    f_equal. destruct coin, (get r (2 * n)); reflexivity.
  - rewrite Hr. cbn [pauli_of]. f_equal. destruct coin, (get r (2 * n)); reflexivity.
Qed.

(* group generated by the in-place result (measured-qubit-first frame) = < (-1)^b Z_0 , rows 1.. of tmp > *)
Theorem core_inplace_group n coin tmp : 1 <= n ->
  wf_tab n tmp -> (forall j, 1 <= j < length tmp -> get (nth j tmp []) 0 = false) ->
  same_group n (core_inplace n coin tmp) (zrow n coin :: skipn 1 tmp).
Proof.
  intros Hn Hw H0.
  assert (Hrest : forall r, In r (skipn 1 tmp) -> wf_row n r /\ get r 0 = false).
  { intros r Hr. apply (@In_nth row _ _ []) in Hr. destruct Hr as (j & Hj & <-).
    rewrite skipn_length in Hj. rewrite nth_skipn. split.
    - unfold wf_tab in Hw. rewrite Forall_forall in Hw. apply Hw. apply nth_In. lia.
    - apply H0. lia. }
  assert (Zreal : ph_odd (fst (decode_ph n (zrow n coin))) = false) by apply decode_ph_real.
  unfold core_inplace. intro g; split; apply gen_incl; intros r Hr.
  - (* every new row is generated by the old ones *)
    destruct Hr as [<-|Hr]; [apply gen_row; left; auto|].
    apply in_map_iff in Hr. destruct Hr as (r0 & <- & Hr0). destruct (Hrest r0 Hr0) as [W Z].
    rewrite core_row_spec by auto.
    destruct (get r0 n).
    + apply gen_mul; apply gen_row; [right; auto|left; auto].
    + apply gen_row; right; auto.
  - (* every old row is generated by the new ones *)
    destruct Hr as [<-|Hr]; [apply gen_row; left; auto|].
    destruct (Hrest r Hr) as [W Z].
    assert (Hin : In (core_row n coin r) (zrow n coin :: map (core_row n coin) (skipn 1 tmp))) by (right; apply in_map; auto).
    pose proof (core_row_spec n coin r Hn W Z) as E.
    destruct (get r n).
    + assert (E2 : pmul (decode_ph n (core_row n coin r)) (decode_ph n (zrow n coin)) = decode_ph n r).
      { rewrite E. apply (pmul_mul_cancel n); auto using decode_ph_length. }
      rewrite <- E2. apply gen_mul; apply gen_row; [auto|left; auto].
    + rewrite <- E. apply gen_row; auto.
Qed.


(* ---------- assembled statements ---------------------------------------------------------------------------- *)
(* the frame with the measured qubit first *)
Definition framed (n p : nat) (t : tab) : tab := map (perm_row n p) t.

(* random branch, in place (measured-qubit-first frame):
   - the outcome is the coin, for both coins;
   - elimination keeps the group of the framed tableau; its row 0 is the only row with X/Y on the measured qubit;
   - the result generates  < (-1)^coin Z_0 , rows 1.. of the eliminated tableau >, i.e. the new generator together
     with the generators that commute with Z_0. *)
Theorem meas_random_framed n p coin t : 1 <= n ->
  wf_tab n (framed n p t) -> commuting n (framed n p t) -> random_branch n p t = true ->
  let tmp := eliminated n p t in
  measure n p true coin t = (coin, n, map (unperm_row n p) (core_inplace n coin tmp)) /\
  same_group n tmp (framed n p t) /\
  get (nth 0 tmp []) 0 = true /\ (forall j, 1 <= j < length tmp -> get (nth j tmp []) 0 = false) /\
  same_group n (core_inplace n coin tmp) (zrow n coin :: skipn 1 tmp).
Proof.
  intros Hn Hw Hc Hr tmp.
  assert (H0 : get (nth 0 tmp []) 0 = true) by exact Hr.
  assert (Hrest : forall j, 1 <= j < length tmp -> get (nth j tmp []) 0 = false).
  { apply random_branch_col0; auto. }
  repeat split; auto.
  - apply measure_random_inplace; auto.
  - apply gauss_group; auto.
  - apply gauss_group; auto.
  - apply core_inplace_group; auto. apply gauss_wf; auto.
  - apply core_inplace_group; auto. apply gauss_wf; auto.
Qed.

(* deterministic branch, in place: no generator has X/Y on the measured qubit after elimination and the state
   (group of the eliminated tableau = group of the framed tableau) is unchanged *)
Theorem meas_determined_framed n p coin t : 1 <= n ->
  commuting n (framed n p t) -> random_branch n p t = false ->
  let tmp := eliminated n p t in
  measure n p true coin t = (negb (contains n tmp (z_first n)), n, map (unperm_row n p) tmp) /\
  same_group n tmp (framed n p t) /\
  (forall r, In r tmp -> get r 0 = false).
Proof.
  intros Hn Hc Hr tmp. split; [apply measure_determined_inplace; auto|]. split; [apply gauss_group; auto|].
  destruct (gauss_col0 n Hn (framed n p t)) as [C|[P _]]; auto.
  unfold random_branch in Hr. unfold framed in P. rewrite P in Hr. discriminate.
Qed.

(* towards repeatability: after an in-place measurement in the random branch no generator has X/Y on the measured
   qubit (frame with the measured qubit first), and a tableau with that property is sent to the deterministic branch *)
Lemma core_inplace_col0 n coin tmp : 1 <= n -> wf_tab n tmp ->
  (forall j, 1 <= j < length tmp -> get (nth j tmp []) 0 = false) ->
  col0_clear (core_inplace n coin tmp).
Proof.
  intros Hn Hw H0 r [<-|Hr].
  - rewrite get_zrow by lia. destruct (Nat.eqb_spec 0 (2 * n)); [lia|]. destruct (Nat.eqb_spec 0 n); [lia|]. reflexivity.
  - apply in_map_iff in Hr. destruct Hr as (r0 & <- & Hr0).
    apply (@In_nth row _ _ []) in Hr0. destruct Hr0 as (j & Hj & <-). rewrite skipn_length in Hj. rewrite nth_skipn.
    rewrite get_core_row; auto.
    + destruct (Nat.eqb_spec 0 n); [lia|]. destruct (Nat.eqb_spec 0 (2 * n)); [lia|]. apply H0. lia.
    + unfold wf_tab in Hw. rewrite Forall_forall in Hw. apply Hw. apply nth_In. lia.
Qed.

Lemma col0_clear_deterministic n u : 1 <= n -> col0_clear u -> get (nth 0 (gauss n u) []) 0 = false.
Proof.
  intros Hn H. pose proof (col0_clear_gauss n Hn (2 * n + 1) 0 0 u H) as C. fold (gauss n u) in C.
  destruct (gauss n u) as [|r0 l]; [reflexivity|]. apply C. left. reflexivity.
Qed.

(* ---------- "rows 1.." = the part of the group that commutes with Z on the measured qubit -------------------- *)
Definition z0 (n : nat) : list pauli := PZ :: repeat PI (n - 1).

Lemma anti_l_repeat_PI_r a : forall k, anti_l a (repeat PI k) = false.
Proof. induction a as [|x a IH]; intros [|k]; simpl; auto. rewrite IH. destruct x; reflexivity. Qed.
Lemma anti_l_repeat_PI_l b : forall k, anti_l (repeat PI k) b = false.
Proof. intro k. rewrite anti_l_sym. apply anti_l_repeat_PI_r. Qed.

Lemma z0_length n : 1 <= n -> length (z0 n) = n.
Proof. intro H. unfold z0. simpl. rewrite repeat_length. lia. Qed.

Lemma anti_row_z0 n r : 1 <= n -> anti_l (snd (decode_ph n r)) (z0 n) = get r 0.
Proof.
  intro Hn. unfold decode_ph, lift, decode, z0. cbn [snd]. rewrite seq_0_S by auto. cbn [map anti_l].
  rewrite anti_l_repeat_PI_r. unfold pauli_at, anticomm1. rewrite xbit_pauli_of, zbit_pauli_of. rewrite Nat.add_0_l.
  destruct (get r 0), (get r n); reflexivity.
Qed.

Lemma pmul_length n x y : length (snd x) = n -> length (snd y) = n -> length (snd (pmul x y)) = n.
Proof. intros Hx Hy. unfold pmul; cbn [snd]. rewrite pmul_l_length; congruence. Qed.

Lemma gen_commute_row n t r : commuting n t -> In r t ->
  forall a, gen n t a -> anti_l (snd a) (snd (decode_ph n r)) = false.
Proof.
  intros Hc Hr a G. induction G.
  - apply anti_l_repeat_PI_l.
  - unfold decode_ph, lift; cbn [snd]. rewrite <- symp_decode. apply Hc; auto.
  - unfold pmul; cbn [snd]. rewrite anti_l_pmul_l.
    + rewrite IHG1, IHG2. reflexivity.
    + rewrite (gen_length _ _ _ G1), (gen_length _ _ _ G2). reflexivity.
    + rewrite (gen_length _ _ _ G2), decode_ph_length. reflexivity.
Qed.

Lemma gen_commute n t : commuting n t -> forall a b, gen n t a -> gen n t b -> anti_l (snd a) (snd b) = false.
Proof.
  intros Hc a b Ga Gb. induction Gb.
  - apply anti_l_repeat_PI_r.
  - apply (gen_commute_row n t); auto.
  - rewrite anti_l_sym. unfold pmul; cbn [snd]. rewrite anti_l_pmul_l.
    + rewrite (anti_l_sym (snd a0)), (anti_l_sym (snd b)), IHGb1, IHGb2. reflexivity.
    + rewrite (gen_length _ _ _ Gb1), (gen_length _ _ _ Gb2). reflexivity.
    + rewrite (gen_length _ _ _ Gb2), (gen_length _ _ _ Ga). reflexivity.
Qed.

Section CommutingPart.
  Variable n : nat.
  Variable r0 : row.
  Variable R : tab.
  Hypothesis Hn : 1 <= n.
  Hypothesis Hc : commuting n (r0 :: R).
  Hypothesis H0 : get r0 0 = true.
  Hypothesis HR : forall r, In r R -> get r 0 = false.

  Let D := decode_ph n r0.

  Lemma split_claim : forall g, gen n (r0 :: R) g ->
    if anti_l (snd g) (z0 n) then gen n R (pmul g D) else gen n R g.
  Proof.
    assert (LD : length (snd D) = n) by apply decode_ph_length.
    assert (RD : ph_odd (fst D) = false) by apply decode_ph_real.
    assert (GD : gen n (r0 :: R) D) by (apply gen_row; left; auto).
    intros g G. induction G.
    - unfold pone; cbn [snd]. rewrite anti_l_repeat_PI_l. apply gen_one.
    - rewrite anti_row_z0 by auto. destruct H as [<-|Hr].
      + rewrite H0. fold D. rewrite pmul_self by auto. rewrite LD. apply gen_one.
      + rewrite (HR r Hr). apply gen_row; auto.
    - assert (La : length (snd a) = n) by (eapply gen_length; eauto).
      assert (Lb : length (snd b) = n) by (eapply gen_length; eauto).
      assert (Cb : pmul b D = pmul D b).
      { apply pmul_comm. apply (gen_commute n (r0 :: R)); auto. }
      unfold pmul at 1; cbn [snd]. rewrite anti_l_pmul_l by (rewrite ?z0_length; congruence).
      destruct (anti_l (snd a) (z0 n)), (anti_l (snd b) (z0 n)); cbn [xorb].
      + (* (a D)(b D) = a b *)
        assert (E : pmul (pmul a D) (pmul b D) = pmul a b).
        { rewrite pmul_assoc by (rewrite ?(pmul_length n); congruence).
          rewrite <- (pmul_assoc D b D) by congruence. rewrite <- Cb.
          rewrite (pmul_mul_cancel n) by auto. reflexivity. }
        rewrite <- E. apply gen_mul; auto.
      + (* (a D) b = (a b) D *)
        assert (E : pmul (pmul a D) b = pmul (pmul a b) D).
        { rewrite pmul_assoc by congruence. rewrite <- Cb. rewrite <- pmul_assoc by congruence. reflexivity. }
        rewrite <- E. apply gen_mul; auto.
      + rewrite pmul_assoc by congruence. apply gen_mul; auto.
      + apply gen_mul; auto.
  Qed.

  (* the elements generated by the rows without X/Y on the measured qubit are exactly the elements of the whole group
     that commute with Z on the measured qubit *)
  Theorem commuting_part : forall g, gen n R g <-> (gen n (r0 :: R) g /\ anti_l (snd g) (z0 n) = false).
  Proof.
    intro g; split.
    - intro G. split.
      + revert g G. apply gen_incl. intros r Hr. apply gen_row. right; auto.
      + induction G.
        * apply anti_l_repeat_PI_l.
        * rewrite anti_row_z0 by auto. apply HR; auto.
        * unfold pmul; cbn [snd]. rewrite anti_l_pmul_l.
          -- rewrite IHG1, IHG2. reflexivity.
          -- rewrite (gen_length _ _ _ G1), (gen_length _ _ _ G2). reflexivity.
          -- rewrite (gen_length _ _ _ G2), z0_length; auto.
    - intros [G A]. pose proof (split_claim g G) as S. rewrite A in S. exact S.
  Qed.
End CommutingPart.

(* random branch: the generators kept (rows 1.. of the eliminated tableau) generate exactly the elements of the
   pre-measurement group that commute with Z on the measured qubit (frame with the measured qubit first) *)
Theorem meas_random_kept_part n p t : 1 <= n ->
  commuting n (framed n p t) -> random_branch n p t = true ->
  forall h, gen n (skipn 1 (eliminated n p t)) h <->
            (gen n (framed n p t) h /\ anti_l (snd h) (z0 n) = false).
Proof.
  intros Hn Hc Hr h.
  pose proof (random_branch_col0 n Hn (framed n p t) Hr) as Hrest.
  pose proof (gauss_commuting n _ Hc) as Ct. pose proof (gauss_group n _ Hc) as Gt.
  unfold random_branch in Hr. fold (framed n p t) in Hr. fold (eliminated n p t) in *.
  unfold eliminated in *. fold (framed n p t) in *.
  destruct (gauss n (framed n p t)) as [|r0 R] eqn:E; [unfold get in Hr; simpl in Hr; discriminate|].
  cbn [skipn]. simpl in Hr.
  assert (HR : forall r, In r R -> get r 0 = false).
  { intros r Hin. apply (@In_nth row _ _ []) in Hin. destruct Hin as (j & Hj & <-).
    apply (Hrest (S j)). simpl. lia. }
  rewrite (commuting_part n r0 R Hn Ct Hr HR h). split; intros [G A]; split; auto; apply Gt; auto.
Qed.
