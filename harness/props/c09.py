"""C09 — NetQASM subroutines execute with reference semantics on the right qubits."""
import contextlib
import io
import logging

import common
import net_sync as N
import qasm_gen as G
import qasm_run as QR
import qasm_sync as Q

TRUST = [
    "harness/qasm_sync.py: per node the real NetQASMFactory + SubroutineHandler (own executioner subclass per node) wired to the in-process "
    "virtualNode; messages go to the real handle_netqasm_message as serialized subroutines; module-global reactor of executioner.py/factory.py "
    "replaced by the harness clock; module-global call_method of executioner.py wrapped by a recording tap (observation only); a quarter of the "
    "sessions run with the host as a real Perspective-Broker client of its virtual node (in-memory transports), as in production",
    "netqasm 2.3.0 (text parser, (de)serialisation, classical instruction interpreter, unit-module bookkeeping of Executor) is library code: "
    "its quantum bookkeeping is modelled as it is and exercised by the correspondence, its classical semantics is compared with the reference interpreter",
    "harness/qasm_ref.py: reference interpreter (plain Python + numpy state vector), independent of SimulaQron, netqasm's Executor and the Coq model; "
    "it also resolves the classical control flow that turns a subroutine into the quantum-instruction list given to the Coq model",
    "translate/optable.py (fail-closed ast translator of SIMULAQRON_OPS / ROTATION_AXIS / operand order of the two-qubit path)",
    "measurement coins: the k-th native measure call of a message uses the k-th scripted coin (StabilizerState's randint replaced)",
]


def quiet():
    return contextlib.redirect_stderr(io.StringIO())


def scenarios():
    """fixed sessions: (name, caps, script)"""
    pre = [("set", "Q0", 0), ("set", "Q1", 1), ("set", "Q2", 2), ("set", "C2", 1)]
    out = []
    # every supported single-qubit gate incl. S, both two-qubit gates, measurement-dependent correction, returns
    out.append(("all-gates", [(4, 10)], [
        (("init", 0, 3), []),
        (("sub", 0, pre + [("qalloc", "Q0"), ("init", "Q0"), ("qalloc", "Q1"), ("init", "Q1"),
                           ("g1", "h", "Q0"), ("g1", "s", "Q0"), ("g1", "k", "Q1"), ("g1", "x", "Q1"), ("g1", "y", "Q0"),
                           ("g1", "z", "Q1"), ("g2", "cnot", "Q0", "Q1"), ("g2", "cphase", "Q1", "Q0"), ("g1", "s", "Q1"),
                           ("meas", "Q0", "M0"), ("bz", "bez", "M0", 2), ("g1", "x", "Q1"), ("meas", "Q1", "M1"),
                           ("ret_reg", "M0"), ("ret_reg", "M1")]), [1, 0, 1]),
        (("stop", 0), [0, 1, 0])]))
    # S on |+> then H S S H ... : the state distinguishes S from Z, identity and S^dagger
    out.append(("s-gate", [(2, 10)], [
        (("init", 1, 2), []),
        (("sub", 1, pre + [("qalloc", "Q1"), ("init", "Q1"), ("g1", "h", "Q1"), ("g1", "s", "Q1")]), [0]),
        (("sub", 1, pre + [("g1", "s", "Q1"), ("g1", "h", "Q1"), ("meas", "Q1", "M0"), ("ret_reg", "M0")]), [0]),
        (("stop", 1), [0, 0])]))
    # an allocation refused by the REGISTER limit (qubit limit not reached): the address must be free again afterwards, a later allocation of it
    # (after a free made room) must give a fresh working qubit, and the qubits at higher addresses stay usable
    out.append(("register-limit-refusal-then-reuse", [(4, 2)], [
        (("init", 0, 4), []),
        (("sub", 0, pre + [("qalloc", "Q1"), ("init", "Q1"), ("qalloc", "Q2"), ("init", "Q2"), ("g1", "x", "Q2"), ("qalloc", "Q0")]), [0, 0]),
        (("sub", 0, pre + [("g1", "h", "Q1"), ("qfree", "Q1")]), [1]),
        (("sub", 0, pre + [("qalloc", "Q0"), ("init", "Q0"), ("g1", "x", "Q0"), ("g2", "cnot", "Q0", "Q2"), ("meas", "Q0", "M0"), ("meas", "Q2", "M1"),
                           ("ret_reg", "M0"), ("ret_reg", "M1")]), [0, 1, 0]),
        (("stop", 0), [0, 0, 0])]))
    # re-allocation of a freed address, control/target order, two applications one after the other
    out.append(("realloc", [(3, 10)], [
        (("init", 0, 3), []),
        (("sub", 0, pre + [("qalloc", "Q2"), ("init", "Q2"), ("g1", "x", "Q2"), ("qalloc", "Q0"), ("init", "Q0"),
                           ("qfree", "Q2"), ("qalloc", "Q2"), ("init", "Q2"), ("g2", "cnot", "Q2", "Q0"),
                           ("meas", "Q0", "M0"), ("meas", "Q2", "M1"), ("ret_reg", "M0"), ("ret_reg", "M1")]), [0, 0, 1, 0, 0, 0]),
        (("stop", 0), [0, 0, 0]),
        (("init", 1, 2), []),
        (("sub", 1, pre + [("qalloc", "Q1"), ("init", "Q1"), ("g1", "h", "Q1"), ("meas", "Q1", "M3"), ("ret_reg", "M3")]), [1, 1]),
        (("stop", 1), [1, 1])]))
    # refusals: T, rotation, unallocated address, control = target
    out.append(("refusals", [(3, 10)], [
        (("init", 0, 3), []),
        (("sub", 0, pre + [("qalloc", "Q0"), ("init", "Q0"), ("g1", "h", "Q0"), ("g1", "t", "Q0"), ("ret_reg", "C2")]), [0]),
        (("sub", 0, pre + [("rot", "x", "Q0", 1, 2), ("ret_reg", "C2")]), [0]),
        (("sub", 0, pre + [("g1", "x", "Q1"), ("ret_reg", "C2")]), [0]),
        (("sub", 0, pre + [("g2", "cnot", "Q0", "Q0"), ("ret_reg", "C2")]), [0]),
        (("sub", 0, pre + [("meas", "Q0", "M0"), ("ret_reg", "M0")]), [1]),
        (("stop", 0), [0, 0])]))
    return out


def run(ctx):
    t = ctx.tier == "thorough"
    ctx.trusted += TRUST
    ctx.rule = ("random applications (1-3 generations per session, sometimes two applications at once, 1-4 subroutines each, <= ~35 instructions, "
                "<= 4 virtual addresses with re-allocation, measurement-dependent branches, bounded loops, arrays, returns; ~8% malformed instructions) "
                "sent as serialized subroutines to the real SubroutineHandler; per message: replies = reference interpreter's, node state = reference "
                "state vector, and Coq decides model = implementation on ending, native call trace, node dump and host bookkeeping; "
                "distinct = distinct (capacities, message, coins)")
    common.run_translator(ctx, "optable.py", "simulaqron/netqasm_backend/executioner.py", "OpTableGen")
    common.check_properties_file(ctx)
    logging.disable(logging.CRITICAL)
    env = N.setup()
    Q.setup_qasm(env)
    rng = ctx.rng
    sessions = []
    with quiet():
        for name, caps, script in scenarios():
            for pb in (False, True):
                s = QR.replay(env, caps, script, pb=pb)
                s.scenario = name + ("@pb" if pb else "")
                sessions.append(s)
        nsess = 1500 if t else 130
        for i in range(nsess):
            # every fifth session on a node with 1..3 qubits and 1..3 (or 10) registers: allocations refused by the qubit limit AND by the register limit
            sessions.append(G.random_session(QR, env, rng, pb=(i % 4 == 3), bad=0.08 if i % 3 else 0.2, tight=(i % 5 == 4)))
    logging.disable(logging.NOTSET)
    # ---- coverage ------------------------------------------------------------------------------------------------------------
    for s in sessions:
        ctx.count("sessions")
        if s.pb:
            ctx.count("sessions_host_over_real_PB")
        for r in s.records:
            ctx.case((str(s.caps), str(r["msg"]), str(r["coins"][:6])), nontrivial=True)
            ctx.count("msg_" + r["msg"][0])
            ctx.count("ending_%d" % r["fin"])
            for q in r["qinstrs"]:
                ctx.count("instr_" + q[0])
                if q[0] == "QG1":
                    ctx.count("gate_" + q[3])
            for c in r["calls"]:
                if c["status"] == "err":
                    ctx.count("native_refused_" + str(c["value"]))
            if r["msg"][0] == "sub":
                for ins in r["msg"][2]:
                    ctx.count("text_" + ins[0])
    ctx.sample({"caps": sessions[0].caps, "script": QR.script_of(sessions[0])})
    ctx.sample({"caps": sessions[-1].caps, "script": QR.script_of(sessions[-1])[:3]})
    need = ["instr_QAlloc", "instr_QFree", "instr_QInit", "instr_QMeas", "instr_QG2", "instr_QRot", "gate_s", "gate_t", "gate_k",
            "text_br", "text_bz", "text_array", "text_store", "text_load", "text_ret_arr", "ending_1"]
    missing = [k for k in need if not ctx.coverage.get(k)]
    ctx.obligation("every instruction kind of the vanilla subset exercised", not missing, "never hit: %r" % missing)
    # ---- correspondence ------------------------------------------------------------------------------------------------------------
    bad = QR.correspond(ctx, sessions, "Model N vs SubroutineHandler")
    # ---- oracle verdicts ------------------------------------------------------------------------------------------------------------
    seen = set()
    found = False
    logging.disable(logging.CRITICAL)
    for s in sessions:
        if not s.problems:
            continue
        p = s.problems[0]
        key = "C09:" + p["kind"]
        if key in seen:
            continue
        seen.add(key)
        kind = p["kind"]

        def pred(ss, kind=kind):
            return any(q["kind"] == kind for q in ss.problems)
        with quiet():
            small = QR.shrink(env, s.caps, QR.script_of(s, p["step"]), pred, pb=s.pb, budget=150 if t else 80)
            ss = QR.replay(env, s.caps, small, pb=s.pb)
        pp = [q for q in ss.problems if q["kind"] == kind]
        what = pp[0]["what"] if pp else p["what"]
        ctx.obligation("oracle %s" % key, False, what)
        if ctx.report(key, what, {"caps": s.caps, "host_over_real_PB": s.pb,
                                  "script": [[list(m[:2]) + ([[list(i) for i in m[2]]] if m[0] == "sub" else list(m[2:])), c] for m, c in small],
                                  "impl_replies": [r["impl_replies"] for r in ss.records],
                                  "reference_replies": [r["ref_replies"] for r in ss.records]}, found_input=True):
            found = True
        else:
            ctx.broken_explained_by_known = True
    logging.disable(logging.NOTSET)
    if not seen:
        ctx.obligation("oracle: replies = reference interpreter and node state = reference state after every message", True)
    if bad and not found and not seen:
        s, i = bad[0]
        ctx.report("correspondence:C09", "Model N and the implementation disagree (the reference interpreter is satisfied on the explored sessions)",
                   {"caps": s.caps, "script": QR.script_of(s, i), "broken": ctx.broken()}, found_input=False)
