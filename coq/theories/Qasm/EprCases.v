(* Correspondence cases for pair creation (EprGate.cmd_epr_keep / cmd_epr_measure inside the N-host model TeardownNet.nstep_r):
   sessions of messages sent to several in-process NetQASM hosts over one network.  Per message: the host-level actions it
   amounts to (instructions of the application, create-and-keep or measure-directly requests of one pair, receipts), and what
   the implementation showed: how the message ended, every native call that crossed the executioner -> virtual node boundary
   with its result (the basis rotations and destructive measurements of a measure-directly pair with their coins, and the
   destructive measurements of cmd_epr's except-branch included), the complete dump of all virtual nodes, the bookkeeping of
   the handling host (unit modules, used physical ids, qubitList), the receive deques of all nodes (numbers of delivered halves
   and the outcome records of measure-directly pairs, in arrival order) and the measure-directly records the message returned
   in its ReturnArray (outcome, basis, sequence number, directionality, remote node id, purpose id).
   The sequence number is not an input of a session: it is read from the creator's counter (Epr.ctr_get / ctr_set, the counters
   of the keyed model Epr.kstep: one per creating host and (local socket, remote node, remote socket)), which every request
   advances that gets as far as new_ent_id, i.e. whose two temporaries exist (its trace contains the CNOT). *)
From Coq Require Import List Bool Arith.
From SQ Require Import Base.ListUtil Stab.Tableau Net.Model Net.Cases Qasm.Exec Qasm.Cases Qasm.Epr Qasm.EprGate Qasm.PerNodeNum
  Qasm.TeardownX Qasm.TeardownNet.
Import ListNotations.

(* the native calls an action issues (nstep_r drops them) *)
Definition act_trace (s : nst) (x : nact) : ntrace :=
  match x with
  | AInstr i q => if Nat.ltb i (length (n_hosts s)) then snd (exec i (mkQ (n_net s) (host_at s i)) q) else []
  | ACreate i app a known r adj rsock coins =>
      if Nat.ltb i (length (n_hosts s))
      then snd (cmd_epr_keep i (mkQ (n_net s) (host_at s i)) known r adj (fresh_id (h_used (host_at s i))) coins) else []
  | ARecv _ _ _ _ => []
  | ACreateM i known r adj lsock rsock seq bl br c1 c2 coins =>
      if Nat.ltb i (length (n_hosts s)) then snd (fst (create_m s i known r adj lsock rsock seq bl br c1 c2 coins)) else []
  end.

(* session-level actions: a pair request names its local socket (the key of the sequence counter), a measure-directly
   request does not carry its sequence number *)
Inductive eact :=
| EA (x : nact)                                  (* instruction / poll *)
| EK (lsock : nat) (x : nact)                    (* create-and-keep request (x = ACreate ..) on the local socket lsock *)
| EM (i : nat) (known : list nat) (r : nat) (adj : bool) (lsock rsock : nat) (bl br : mbasis) (c1 c2 : bool) (coins : list bool).
Definition ctrs := list (ckey * nat).
Definition resolve (c : ctrs) (e : eact) : nact * option ckey :=
  match e with
  | EA x => (x, None)
  | EK ls x => (x, match x with ACreate i _ _ _ r _ rs _ => Some (i, ls, r, rs) | _ => None end)
  | EM i known r adj ls rs bl br c1 c2 coins =>
      (ACreateM i known r adj ls rs (ctr_get (i, ls, r, rs) c) bl br c1 c2 coins, Some (i, ls, r, rs))
  end.
(* new_ent_id is called after the CNOT, before the request type is looked at *)
Definition reached_ent_id (tr : ntrace) : bool :=
  existsb (fun e => match fst e with OGate2 _ _ _ => true | _ => false end) tr.

(* a message = the actions it executed; execution stops at the first exception *)
Fixpoint run_acts (s : nst) (c : ctrs) (es : list eact) : nst * ctrs * list qres * ntrace * list (nat * mrec) :=
  match es with
  | [] => (s, c, [], [], [])
  | e :: t =>
      let '(x, key) := resolve c e in
      let '(s1, r) := nstep_r s x in
      let tr := act_trace s x in
      let recs := act_records s x in
      let c1 := match key with
                | Some k => if reached_ent_id tr then ctr_set k (S (ctr_get k c)) c else c
                | None => c
                end in
      match r with
      | RDone _ => let '(s2, c2, rs, tr2, recs2) := run_acts s1 c1 t in (s2, c2, r :: rs, tr ++ tr2, recs ++ recs2)
      | _ => (s1, c1, [r], tr, recs)
      end
  end.

(* netqasm_send_epr_half returns nothing to the executioner: an accepted hand-over is recorded as OkNone; the number the
   receiving node gave the half is compared through the node dump and the deque dump *)
Definition call_eqb_epr (m i : op * out) : bool :=
  op_eqb (fst m) (fst i) &&
  match fst m, snd m, snd i with
  | OSend _ _, Ok _, OkNone => true
  | _, a, b => out_eqb a b
  end.

Definition mbasis_eqb (a b : mbasis) : bool := match a, b with BZ, BZ | BX, BX | BY, BY => true | _, _ => false end.
Definition mrec_eqb (a b : mrec) : bool :=
  Nat.eqb (m_outcome a) (m_outcome b) && mbasis_eqb (m_basis a) (m_basis b) && Nat.eqb (m_seq a) (m_seq b) &&
  Nat.eqb (m_dir a) (m_dir b) && Nat.eqb (m_remote a) (m_remote b) && Nat.eqb (m_purpose a) (m_purpose b).

(* receive deques: (node, socket, entries in arrival order) for every non-empty deque of the implementation -- an entry is the
   virtual number of a delivered half or the outcome record of a measure-directly pair; the model must hold exactly these *)
Inductive dqe := QK (num : nat) | QM (rec : mrec).
Definition dqe_eqb (a b : dqe) : bool :=
  match a, b with QK x, QK y => Nat.eqb x y | QM x, QM y => mrec_eqb x y | _, _ => false end.
Definition dqe_of (d : dentry) : dqe := match d with DK e => QK (p_num e) | DM _ _ rec => QM rec end.
Definition dpend := list (nat * nat * list dqe).
Definition pend_matches (pd : list dentry) (d : dpend) : bool :=
  forallb (fun e => let '(nd, sk, es) := e in
             list_eqb dqe_eqb (map dqe_of (filter (fun p => Nat.eqb (d_node p) nd && Nat.eqb (d_sock p) sk) pd)) es) d
  && Nat.eqb (length pd) (fold_right (fun e acc => length (snd e) + acc) 0 d).

(* the measure-directly records a message returned: all written by the handling host, in order *)
Definition recs_match (hi : nat) (m : list (nat * mrec)) (obs : list mrec) : bool :=
  forallb (fun e => Nat.eqb (fst e) hi) m && list_eqb mrec_eqb (map snd m) obs.

Definition demsg := (nat * list eact * nat * list (op * out) * list dnode * dhost * dpend * list mrec)%type.

(* 0 = agreement on every message, otherwise 1 + index of the first disagreeing message *)
Fixpoint check_emsgs (k : nat) (s : nst) (c : ctrs) (ms : list demsg) : nat :=
  match ms with
  | [] => 0
  | (hi, xs, fin, calls, dn, dh, dp, mr) :: t =>
      let '(s', c', rs, tr, recs) := run_acts s c xs in
      if Nat.eqb (length rs) (length xs) && Nat.eqb (ending rs false) fin
         && list_eqb call_eqb_epr tr calls
         && list_eqb dnode_eqb (dump (n_net s')) dn && host_matches (host_at s' hi) dh && pend_matches (n_pend s') dp
         && recs_match hi recs mr
      then check_emsgs (S k) s' c' t else S k
  end.

Definition check_esession (c : list (nat * nat) * list demsg) : nat := check_emsgs 0 (ninit (fst c)) [] (snd c).

(* the composition with the keyed model is the identity on everything but the sequence number: a session without pair
   requests, or a single action, is nstep_r *)
Lemma run_acts_single s c x :
  fst (fst (fst (fst (run_acts s c [EA x])))) = nstep s x /\ snd (fst (fst (run_acts s c [EA x]))) = [snd (nstep_r s x)].
Proof.
  cbn [run_acts resolve]. unfold nstep. destruct (nstep_r s x) as [s1 r]. destruct r; cbn [fst snd]; auto.
Qed.
