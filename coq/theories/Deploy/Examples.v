(* Model D — non-vacuity: fair runs exist for every n (round robin over all events), and concrete staggered runs in which
   a node tries a peer that is not yet listening (the retry path) do end fully connected. *)
From Coq Require Import List Bool Arith Lia.
From SQ Require Import Deploy.Model Deploy.Invariant Deploy.Connect.
Import ListNotations.

Definition all_events (n : nat) : list event :=
  map Up (seq 0 n)
  ++ flat_map (fun i => map (Try i) (seq 0 n)) (seq 0 n)
  ++ flat_map (fun i => map (Retry i) (seq 0 n)) (seq 0 n).

(* the round-robin schedule: all events, in a fixed order, again and again *)
Definition round_robin (n : nat) : run := fun t => nth (t mod length (all_events n)) (all_events n) (Up 0).

Lemma all_events_no_crash n : Forall (fun e => is_crash e = false) (all_events n).
Proof.
  apply Forall_forall. intros e H. unfold all_events in H.
  rewrite !in_app_iff in H. destruct H as [H|[H|H]].
  - apply in_map_iff in H. destruct H as [x [<- _]]. reflexivity.
  - apply in_flat_map in H. destruct H as [i [_ H]]. apply in_map_iff in H. destruct H as [x [<- _]]. reflexivity.
  - apply in_flat_map in H. destruct H as [i [_ H]]. apply in_map_iff in H. destruct H as [x [<- _]]. reflexivity.
Qed.

Lemma round_robin_no_crash n t : is_crash (round_robin n t) = false.
Proof.
  unfold round_robin.
  destruct (Nat.lt_ge_cases (t mod length (all_events n)) (length (all_events n))) as [H|H].
  - pose proof (all_events_no_crash n) as F. rewrite Forall_forall in F. apply F. apply nth_In; auto.
  - rewrite nth_overflow; auto.
Qed.

Lemma round_robin_recurs n e t : In e (all_events n) -> exists t', t <= t' /\ round_robin n t' = e.
Proof.
  intros H. destruct (In_nth _ _ (Up 0) H) as [k [Hk E]].
  set (L := length (all_events n)) in *.
  exists (k + t * L). split.
  - assert (t * 1 <= t * L) by (apply Nat.mul_le_mono_l; lia). lia.
  - unfold round_robin. fold L. rewrite Nat.mod_add by lia. rewrite Nat.mod_small by lia. exact E.
Qed.

Lemma In_up_event n i : i < n -> In (Up i) (all_events n).
Proof.
  intros H. unfold all_events. apply in_app_iff. left. apply in_map. apply in_seq. lia.
Qed.

Lemma In_try_event n i j : i < n -> j < n -> In (Try i j) (all_events n).
Proof.
  intros Hi Hj. unfold all_events. apply in_app_iff. right. apply in_app_iff. left.
  apply in_flat_map. exists i. split; [apply in_seq; lia|]. apply in_map. apply in_seq. lia.
Qed.

Lemma In_retry_event n i j : i < n -> j < n -> In (Retry i j) (all_events n).
Proof.
  intros Hi Hj. unfold all_events. apply in_app_iff. right. apply in_app_iff. right.
  apply in_flat_map. exists i. split; [apply in_seq; lia|]. apply in_map. apply in_seq. lia.
Qed.

Theorem round_robin_fair n : fair n (round_robin n).
Proof.
  split; [|split; [|split]].
  - intros i Hi. destruct (round_robin_recurs n (Up i) 0 (In_up_event n i Hi)) as [t [_ E]]. eauto.
  - intros t i j H. apply round_robin_recurs.
    pose proof (Inv_state_at n (round_robin n) t) as I.
    destruct (inv_att_rng _ _ I _ _ H) as [U [Hj _]]. apply (inv_up_started _ _ I) in U.
    apply In_try_event; tauto.
  - intros t i j H. apply round_robin_recurs.
    pose proof (Inv_state_at n (round_robin n) t) as I.
    destruct (inv_ret_rng _ _ I _ _ H) as [U [Hj _]]. apply (inv_up_started _ _ I) in U.
    apply In_retry_event; tauto.
  - apply round_robin_no_crash.
Qed.

Corollary round_robin_connects n :
  exists T, forall t, T <= t -> forall i, i < n -> check_connections n (state_at n (round_robin n) t) i = true.
Proof. apply eventually_connected. apply round_robin_fair. Qed.

(* ---- a staggered start of three nodes: 0 comes up alone and is refused twice, 1 comes up, 0's retry towards 2 is refused
        again, 2 comes up last ------------------------------------------------------------------------------------------ *)
Definition staggered3 : list event :=
  [Up 0; Try 0 1; Try 0 2; Up 1; Try 1 0; Retry 0 1; Try 1 2; Retry 0 2; Try 0 2; Try 0 1;
   Up 2; Try 2 0; Try 2 1; Retry 0 2; Retry 1 2; Try 1 2; Try 0 2].

Example staggered3_refused_then_connected :
  ret (run_events 3 init (firstn 3 staggered3)) = [(0, 2); (0, 1)] /\
  all_connected 3 (run_events 3 init (firstn 10 staggered3)) = false /\
  check_connections 3 (run_events 3 init (firstn 13 staggered3)) 2 = true /\
  check_connections 3 (run_events 3 init (firstn 13 staggered3)) 0 = false /\
  all_connected 3 (run_events 3 init staggered3) = true.
Proof. vm_compute. repeat split; reflexivity. Qed.

(* the eager schedule used by the correspondence connects everybody exactly when the last node has come up *)
Example eager_three :
  let s2 := eager_up 3 (eager_up 3 init 2) 0 in
  all_connected 3 s2 = false /\ all_connected 3 (eager_up 3 s2 1) = true.
Proof. vm_compute. split; reflexivity. Qed.

(* a crash (an error other than ConnectionRefused) takes the node down for good: its peers keep retrying for ever *)
Example crash_is_fatal :
  let s := run_events 2 init [Up 0; Crash 0 1; Up 0; Up 1; Try 1 0; Retry 1 0; Try 1 0] in
  listening s 0 = false /\ check_connections 2 s 1 = false /\ ret s = [(1, 0)].
Proof. vm_compute. repeat split; reflexivity. Qed.

(* the eager schedule on EVERY launch order of 1..5 nodes: nobody reports True before the last node is up, everybody does after it *)
Fixpoint insert_all (x : nat) (l : list nat) : list (list nat) :=
  match l with
  | [] => [[x]]
  | h :: t => (x :: h :: t) :: map (cons h) (insert_all x t)
  end.
Fixpoint perms (l : list nat) : list (list nat) :=
  match l with
  | [] => [[]]
  | h :: t => flat_map (insert_all h) (perms t)
  end.
Fixpoint eager_run (n : nat) (s : state) (order : list nat) : list state :=
  match order with
  | [] => []
  | i :: t => let s' := eager_up n s i in s' :: eager_run n s' t
  end.
Definition eager_order_ok (n : nat) (order : list nat) : bool :=
  let sts := eager_run n init order in
  forallb (fun s => negb (existsb (check_connections n s) (seq 0 n))) (removelast sts)
  && all_connected n (last sts init).

Example eager_all_orders :
  forallb (fun n => forallb (eager_order_ok n) (perms (seq 0 n))) [1; 2; 3; 4; 5] = true.
Proof. vm_compute. reflexivity. Qed.
