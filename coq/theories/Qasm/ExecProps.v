(* Model N, lemmas: which native operation an instruction issues and on which handle (instr_targets),
   refusals leave everything unchanged (unsupported_refused), and the chain of partial injections
   virtual address -> physical id -> handle (addr_inv) with freshness of re-allocated qubits. *)
From Coq Require Import List Bool Arith Lia.
From SQ Require Import Base.ListUtil Stab.Tableau Net.Model Net.Refusal Net.Handles Qasm.Exec.
Import ListNotations.

(* ---- association lists ------------------------------------------------------------------------------------------ *)
Lemma alookup_aremove_eq {B} k (l : list (nat * B)) : alookup k (aremove k l) = None.
Proof. induction l as [|[k' v] t IH]; simpl; auto. destruct (Nat.eqb_spec k' k); simpl; auto. destruct (Nat.eqb_spec k' k); congruence. Qed.
Lemma alookup_aremove_neq {B} k k' (l : list (nat * B)) : k <> k' -> alookup k' (aremove k l) = alookup k' l.
Proof.
  intro H. induction l as [|[k0 v] t IH]; simpl; auto.
  destruct (Nat.eqb_spec k0 k); simpl.
  - subst. destruct (Nat.eqb_spec k k'); [contradiction|auto].
  - destruct (Nat.eqb_spec k0 k'); auto.
Qed.
Lemma alookup_app {B} k (l1 l2 : list (nat * B)) :
  alookup k (l1 ++ l2) = match alookup k l1 with Some v => Some v | None => alookup k l2 end.
Proof. induction l1 as [|[k0 v] t IH]; simpl; auto. destruct (Nat.eqb k0 k); auto. Qed.
Lemma alookup_aset_eq {B} k (v : B) l : alookup k (aset k v l) = Some v.
Proof. unfold aset. rewrite alookup_app, alookup_aremove_eq. simpl. rewrite Nat.eqb_refl. reflexivity. Qed.
Lemma alookup_aset_neq {B} k k' (v : B) l : k <> k' -> alookup k' (aset k v l) = alookup k' l.
Proof.
  intro H. unfold aset. rewrite alookup_app, alookup_aremove_neq by auto.
  destruct (alookup k' l); auto. simpl. destruct (Nat.eqb_spec k k'); [contradiction|auto].
Qed.

Lemma plookup_premove_eq k l : plookup k (premove k l) = None.
Proof. induction l as [|[k' v] t IH]; simpl; auto. destruct (pid_eqb_spec k' k); simpl; auto. destruct (pid_eqb_spec k' k); congruence. Qed.
Lemma plookup_premove_neq k k' l : k <> k' -> plookup k' (premove k l) = plookup k' l.
Proof.
  intro H. induction l as [|[k0 v] t IH]; simpl; auto.
  destruct (pid_eqb_spec k0 k); simpl.
  - subst. destruct (pid_eqb_spec k k'); [contradiction|auto].
  - destruct (pid_eqb_spec k0 k'); auto.
Qed.
Lemma plookup_app k l1 l2 :
  plookup k (l1 ++ l2) = match plookup k l1 with Some v => Some v | None => plookup k l2 end.
Proof. induction l1 as [|[k0 v] t IH]; simpl; auto. destruct (pid_eqb k0 k); auto. Qed.
Lemma plookup_pset_eq k v l : plookup k (pset k v l) = Some v.
Proof. unfold pset. rewrite plookup_app, plookup_premove_eq. simpl. destruct (pid_eqb_spec k k); congruence. Qed.
Lemma plookup_pset_neq k k' v l : k <> k' -> plookup k' (pset k v l) = plookup k' l.
Proof.
  intro H. unfold pset. rewrite plookup_app, plookup_premove_neq by auto.
  destruct (plookup k' l); auto. simpl. destruct (pid_eqb_spec k k'); [contradiction|auto].
Qed.
Lemma plookup_premove_some k k' l v : plookup k' (premove k l) = Some v -> plookup k' l = Some v /\ k <> k'.
Proof.
  intro H. destruct (pid_eqb_spec k k') as [->|N].
  - rewrite plookup_premove_eq in H. discriminate.
  - rewrite plookup_premove_neq in H by auto. auto.
Qed.

(* ---- the used set ------------------------------------------------------------------------------------------------ *)
Lemma insert_sorted_in x y l : In x (insert_sorted y l) <-> x = y \/ In x l.
Proof.
  induction l as [|z t IH]; simpl; [intuition|].
  destruct (Nat.ltb y z); simpl; [intuition|].
  destruct (Nat.eqb_spec y z); simpl; [subst; intuition|]. rewrite IH. intuition.
Qed.
Lemma remove_nat_in x y l : In x (remove_nat y l) <-> In x l /\ x <> y.
Proof.
  unfold remove_nat. rewrite filter_In. destruct (Nat.eqb_spec x y); simpl; intuition; discriminate.
Qed.
Lemma mem_nat_in x l : mem_nat x l = true <-> In x l.
Proof.
  unfold mem_nat. rewrite existsb_exists. split.
  - intros (y & Hy & E). apply Nat.eqb_eq in E. subst; auto.
  - intro H. exists x. split; auto. apply Nat.eqb_refl.
Qed.

(* _get_unused_physical_qubit returns an id that is not in use *)
Lemma first_free_spec fuel : forall j used,
  let r := first_free_from fuel j used in
  (~ In r used /\ j <= r) \/ (r = j + fuel /\ forall x, j <= x < j + fuel -> In x used).
Proof.
  induction fuel as [|f IH]; intros j used; simpl.
  - right. split; [lia|]. intros; lia.
  - destruct (mem_nat j used) eqn:E.
    + destruct (IH (S j) used) as [[A B]|[A B]].
      * left. split; auto. lia.
      * right. split; [lia|]. intros x Hx. destruct (Nat.eq_dec x j) as [EQ|N]; [subst j|].
        -- apply mem_nat_in; auto.
        -- apply B. lia.
    + left. split; [|lia]. intro H. apply mem_nat_in in H. congruence.
Qed.
Lemma fresh_id_not_in used : ~ In (fresh_id used) used.
Proof.
  unfold fresh_id. destruct (first_free_spec (length used) 0 used) as [[A _]|[A B]]; auto.
  simpl in A. rewrite A. intro H.
  assert (I : incl (seq 0 (S (length used))) used).
  { intros x Hx. apply in_seq in Hx. destruct (Nat.eq_dec x (length used)) as [->|N]; auto. apply B. lia. }
  pose proof (NoDup_incl_length (seq_NoDup (S (length used)) 0) I) as L. rewrite seq_length in L. lia.
Qed.

(* ---- instr_targets: the native operation issued is the table entry, on the handles the addresses denote ------------ *)
Theorem g1_targets i s app a g hd :
  handle_of (q_host s) app a = Some hd ->
  let o := OGate1 hd (native1 g) in
  exec i s (QG1 app a g) =
    (mkQ (fst (step (q_net s) o)) (q_host s), if is_err (snd (step (q_net s) o)) then RErr else RDone None,
     [(o, snd (step (q_net s) o))]).
Proof. intros H o. unfold exec, native. rewrite H. fold o. destruct (step (q_net s) o); reflexivity. Qed.

Theorem rot_targets i s app a ax hd :
  handle_of (q_host s) app a = Some hd ->
  let o := OGate1 hd NRot in
  exec i s (QRot app a ax) =
    (mkQ (fst (step (q_net s) o)) (q_host s), if is_err (snd (step (q_net s) o)) then RErr else RDone None,
     [(o, snd (step (q_net s) o))]).
Proof. intros H o. unfold exec, native. rewrite H. fold o. destruct (step (q_net s) o); reflexivity. Qed.

Theorem g2_targets i s app a1 a2 g h1 h2 :
  handle_of (q_host s) app a1 = Some h1 -> handle_of (q_host s) app a2 = Some h2 -> h1 <> h2 ->
  let o := OGate2 h1 h2 (native2 g) in       (* control = the qubit of a1, target = the qubit of a2 *)
  exec i s (QG2 app a1 a2 g) =
    (mkQ (fst (step (q_net s) o)) (q_host s), if is_err (snd (step (q_net s) o)) then RErr else RDone None,
     [(o, snd (step (q_net s) o))]).
Proof.
  intros H1 H2 N o. unfold handle_of in H1, H2. unfold exec, native.
  destruct (position (q_host s) app a1) as [p1|]; [|discriminate].
  destruct (position (q_host s) app a2) as [p2|]; [|discriminate].
  rewrite H1, H2. destruct (Nat.eqb_spec h1 h2); [contradiction|]. fold o.
  destruct (step (q_net s) o); reflexivity.
Qed.

Theorem meas_targets i s app a c hd :
  handle_of (q_host s) app a = Some hd ->
  let o := OMeas hd true c in
  exec i s (QMeas app a c) =
    (mkQ (fst (step (q_net s) o)) (q_host s),
     match snd (step (q_net s) o) with Ok v => RDone (Some v) | _ => RErr end, [(o, snd (step (q_net s) o))]).
Proof. intros H o. unfold exec, native. rewrite H. fold o. destruct (step (q_net s) o); reflexivity. Qed.

(* an address that denotes no qubit: error, no native call, nothing changes *)
Definition addr_instr (q : qinstr) : option (nat * nat) :=
  match q with
  | QG1 app a _ | QRot app a _ | QMeas app a _ | QInit app a _ => Some (app, a)
  | _ => None
  end.
Theorem no_qubit_refused i s q app a :
  addr_instr q = Some (app, a) -> handle_of (q_host s) app a = None -> exec i s q = (s, RErr, []).
Proof. destruct q; simpl; intros E H; inversion E; subst; rewrite H; reflexivity. Qed.

Theorem g2_no_qubit_refused i s app a1 a2 g :
  handle_of (q_host s) app a1 = None \/ handle_of (q_host s) app a2 = None -> exec i s (QG2 app a1 a2 g) = (s, RErr, []).
Proof.
  unfold handle_of, exec. intros [H|H].
  - destruct (position (q_host s) app a1) as [p1|]; auto.
    destruct (position (q_host s) app a2) as [p2|]; auto. rewrite H. reflexivity.
  - destruct (position (q_host s) app a1) as [p1|]; auto.
    destruct (position (q_host s) app a2) as [p2|]; auto. rewrite H.
    destruct (virt_of (q_host s) (PP p1)); reflexivity.
Qed.

Theorem g2_same_refused i s app a1 a2 g hd :
  handle_of (q_host s) app a1 = Some hd -> handle_of (q_host s) app a2 = Some hd -> exec i s (QG2 app a1 a2 g) = (s, RErr, []).
Proof.
  unfold handle_of, exec. intros H1 H2.
  destruct (position (q_host s) app a1) as [p1|]; [|discriminate].
  destruct (position (q_host s) app a2) as [p2|]; [|discriminate].
  rewrite H1, H2, Nat.eqb_refl. reflexivity.
Qed.

(* ---- unsupported_refused: a gate the backend rejects yields an error and changes nothing -------------------------- *)
Definition gate_instr (q : qinstr) : bool :=
  match q with QG1 _ _ _ | QRot _ _ _ | QG2 _ _ _ _ => true | _ => false end.

Lemma native_err s o s1 k tr : native s o = (s1, Err k, tr) -> s1 = s.
Proof.
  unfold native. destruct (step (q_net s) o) as [n' r] eqn:E. intro H. inversion H; subst.
  apply refusal_atomic in E. subst. destruct s; reflexivity.
Qed.

Theorem unsupported_refused i s q s' r tr o k :
  gate_instr q = true -> exec i s q = (s', r, tr) -> In (o, Err k) tr -> s' = s /\ r = RErr.
Proof.
  destruct q; simpl; try discriminate; intros _.
  - destruct (handle_of (q_host s) app a) as [hd|]; [|intro H; inversion H; subst; contradiction].
    destruct (native s (OGate1 hd (native1 g))) as [[s1 r1] tr1] eqn:E. intros H Hin. inversion H; subst.
    unfold native in E. destruct (step (q_net s) (OGate1 hd (native1 g))) as [n' r'] eqn:ES. inversion E; subst.
    destruct Hin as [Hin|[]]. inversion Hin; subst. apply refusal_atomic in ES. subst. destruct s; auto.
  - destruct (handle_of (q_host s) app a) as [hd|]; [|intro H; inversion H; subst; contradiction].
    destruct (native s (OGate1 hd NRot)) as [[s1 r1] tr1] eqn:E. intros H Hin. inversion H; subst.
    unfold native in E. destruct (step (q_net s) (OGate1 hd NRot)) as [n' r'] eqn:ES. inversion E; subst.
    destruct Hin as [Hin|[]]. inversion Hin; subst. apply refusal_atomic in ES. subst. destruct s; auto.
  - destruct (position (q_host s) app a1) as [p1|]; [|intro H; inversion H; subst; contradiction].
    destruct (position (q_host s) app a2) as [p2|]; [|intro H; inversion H; subst; contradiction].
    destruct (virt_of (q_host s) (PP p1)) as [h1|]; [|intro H; inversion H; subst; contradiction].
    destruct (virt_of (q_host s) (PP p2)) as [h2|]; [|intro H; inversion H; subst; contradiction].
    destruct (Nat.eqb h1 h2); [intro H; inversion H; subst; contradiction|].
    destruct (native s (OGate2 h1 h2 (native2 g))) as [[s1 r1] tr1] eqn:E. intros H Hin. inversion H; subst.
    unfold native in E. destruct (step (q_net s) (OGate2 h1 h2 (native2 g))) as [n' r'] eqn:ES. inversion E; subst.
    destruct Hin as [Hin|[]]. inversion Hin; subst. apply refusal_atomic in ES. subst. destruct s; auto.
Qed.

(* T and rotations on a live qubit are always refused by the stabilizer backend *)
Theorem t_and_rotations_refused i s app a hd vi vq x rg :
  handle_of (q_host s) app a = Some hd -> find_handle (q_net s) hd = Some (vi, vq) -> locate (q_net s) vq = Some (x, rg) ->
  (exec i s (QG1 app a VT) = (s, RErr, [(OGate1 hd NT, Err KUnsupported)])) /\
  (forall ax, exec i s (QRot app a ax) = (s, RErr, [(OGate1 hd NRot, Err KUnsupported)])).
Proof.
  intros H F L. split; [|intro ax]; unfold exec, native; rewrite H; simpl; unfold op_gate1; rewrite F, L; simpl;
  destruct s; reflexivity.
Qed.

(* ---- addr_inv ------------------------------------------------------------------------------------------------------- *)
Record hinv (s : qst) : Prop := mkHinv {
  inv_net : hid_inv (q_net s);
  (* every mapped physical id is marked used *)
  inv_used : forall app um a p, alookup app (h_units (q_host s)) = Some um -> nth_error um a = Some (Some p) ->
             In p (h_used (q_host s));
  (* (application, virtual address) -> physical id is injective *)
  inv_uinj : forall app um a app' um' a' p,
             alookup app (h_units (q_host s)) = Some um -> nth_error um a = Some (Some p) ->
             alookup app' (h_units (q_host s)) = Some um' -> nth_error um' a' = Some (Some p) -> app = app' /\ a = a';
  (* physical id -> handle: only handles that were really issued, and injective *)
  inv_qlt : forall p hd, plookup p (h_qlist (q_host s)) = Some hd -> hd < next_hid (q_net s);
  inv_qinj : forall p p' hd, plookup p (h_qlist (q_host s)) = Some hd -> plookup p' (h_qlist (q_host s)) = Some hd -> p = p'
}.

Lemma nth_error_upd_eq {A} (l : list A) i v : i < length l -> nth_error (upd l i v) i = Some v.
Proof. revert i; induction l as [|x t IH]; intros [|i] H; simpl in *; try lia; auto. apply IH; lia. Qed.
Lemma nth_error_upd_neq {A} (l : list A) i j v : i <> j -> nth_error (upd l i v) j = nth_error l j.
Proof. revert i j; induction l as [|x t IH]; intros [|i] [|j] H; simpl; auto; try lia. Qed.
Lemma nth_error_repeat_none {A} (n a : nat) (v : A) : nth_error (repeat (@None A) n) a = Some (Some v) -> False.
Proof. revert a; induction n; intros [|a]; simpl; try discriminate. apply IHn. Qed.

Lemma step_next_mono n o : hid_inv n -> next_hid n <= next_hid (fst (step n o)) /\ hid_inv (fst (step n o)).
Proof. intro H. destruct (step_hid_inv n o H) as (A & B & _). auto. Qed.

Lemma new_ok_next n i n' v : step n (ONew i) = (n', Ok v) -> next_hid n' = S (next_hid n).
Proof.
  simpl. destruct (Nat.ltb _ _); [|discriminate]. unfold op_new.
  destruct (Nat.leb _ _); [discriminate|]. destruct (add_register _) as [[nd1 r]|]; [|discriminate].
  intro H; inversion H; reflexivity.
Qed.

(* host-only updates that shrink the maps keep the invariant *)
Lemma hinv_native s o : hinv s -> hinv (fst (fst (native s o))).
Proof.
  intros [N U J L Q]. unfold native. destruct (step (q_net s) o) as [n' r] eqn:E. simpl.
  destruct (step_next_mono (q_net s) o N) as [M N']. rewrite E in M, N'. simpl in M, N'.
  constructor; simpl; auto. intros p hd H. apply L in H. lia.
Qed.

Lemma hinv_premove s p : hinv s -> hinv (mkQ (q_net s) (with_qlist (q_host s) (premove p (h_qlist (q_host s))))).
Proof.
  intros [N U J L Q]. constructor; simpl; auto.
  - intros p0 hd H. apply plookup_premove_some in H as [H _]. eauto.
  - intros p0 p' hd H1 H2. apply plookup_premove_some in H1 as [H1 _]. apply plookup_premove_some in H2 as [H2 _]. eauto.
Qed.

Lemma hinv_clear_phys s p c : hinv s -> hinv (fst (fst (clear_phys s p c))).
Proof.
  intro H. unfold clear_phys. destruct (virt_of (q_host s) (PP p)) as [hd|]; [|exact H].
  pose proof (hinv_native s (OMeas hd false c) H) as H1.
  destruct (native s (OMeas hd false c)) as [[s1 r] tr]. simpl in H1.
  destruct r; simpl; auto. apply hinv_premove; auto.
Qed.

Lemma hinv_cmd_new i s p : hinv s -> hinv (fst (fst (cmd_new i s p))).
Proof.
  intros [N U J L Q]. unfold cmd_new. destruct (step (q_net s) (ONew i)) as [n' o] eqn:E.
  destruct (step_next_mono (q_net s) (ONew i) N) as [M N']. rewrite E in M, N'. simpl in M, N'.
  destruct o; simpl.
  - apply new_ok_next in E. constructor; simpl; auto.
    + intros p0 hd H. destruct (pid_eqb_spec p p0) as [->|Ne].
      * rewrite plookup_pset_eq in H. inversion H. lia.
      * rewrite plookup_pset_neq in H by auto. apply L in H. lia.
    + intros p0 p' hd H1 H2.
      destruct (pid_eqb_spec p p0) as [E1|Ne]; destruct (pid_eqb_spec p p') as [E2|Ne']; try congruence.
      * subst p0. rewrite plookup_pset_eq in H1. rewrite plookup_pset_neq in H2 by auto. inversion H1; subst. apply L in H2. lia.
      * subst p'. rewrite plookup_pset_eq in H2. rewrite plookup_pset_neq in H1 by auto. inversion H2; subst. apply L in H1. lia.
      * rewrite plookup_pset_neq in H1, H2 by auto. eauto.
  - constructor; simpl; auto. intros p0 hd H. apply L in H. lia.
  - constructor; simpl; auto. intros p0 hd H. apply L in H. lia.
  - constructor; simpl; auto. intros p0 hd H. apply L in H. lia.
Qed.

Lemma cmd_new_mono i s p : hid_inv (q_net s) -> next_hid (q_net s) <= next_hid (q_net (fst (fst (cmd_new i s p)))).
Proof.
  intro N. unfold cmd_new. destruct (step (q_net s) (ONew i)) as [n' o] eqn:E.
  destruct (step_next_mono (q_net s) (ONew i) N) as [M _]. rewrite E in M. simpl in M.
  destruct o; simpl; auto.
Qed.

(* removing a physical id that no remaining unit module maps *)
Lemma hinv_unuse s p :
  hinv s -> (forall app um a, alookup app (h_units (q_host s)) = Some um -> nth_error um a <> Some (Some p)) ->
  hinv (mkQ (q_net s) (with_used (q_host s) (remove_nat p (h_used (q_host s))))).
Proof.
  intros [N U J L Q] F. constructor; simpl; auto.
  intros app um a p0 H1 H2. apply remove_nat_in. split; [eauto|]. intro; subst. eapply F; eauto.
Qed.

Lemma hinv_clear_all um : forall s coins,
  hinv s -> (forall a p app um' a', nth_error um a = Some (Some p) -> alookup app (h_units (q_host s)) = Some um' ->
                                    nth_error um' a' <> Some (Some p)) ->
  hinv (fst (fst (clear_all s um coins))).
Proof.
  induction um as [|[p|] t IH]; intros s coins H F; simpl; auto.
  - destruct (negb (mem_nat p (h_used (q_host s)))); [exact H|].
    set (s0 := mkQ (q_net s) (with_used (q_host s) (remove_nat p (h_used (q_host s))))).
    assert (H0 : hinv s0).
    { apply hinv_unuse; auto. intros app um' a' E. apply (F 0 p app um' a'); auto. }
    pose proof (hinv_clear_phys s0 p (hd false coins) H0) as H1.
    assert (EU : h_units (q_host (fst (fst (clear_phys s0 p (hd false coins))))) = h_units (q_host s)).
    { unfold clear_phys. destruct (virt_of (q_host s0) (PP p)); [|reflexivity].
      unfold native. destruct (step _ _) as [n' r]. destruct r; reflexivity. }
    destruct (clear_phys s0 p (hd false coins)) as [[s1 ok] tr]. simpl in H1, EU.
    destruct ok; simpl; auto.
    specialize (IH s1 (tl coins) H1).
    destruct (clear_all s1 t (tl coins)) as [[s2 ok2] tr2]. simpl in *. apply IH.
    intros a p0 app um' a' E1 E2. rewrite EU in E2. apply (F (S a) p0 app um' a'); auto.
  - apply IH; auto. intros a p0 app um' a' E1 E2. apply (F (S a) p0 app um' a'); auto.
Qed.

Theorem addr_inv i s q : hinv s -> hinv (fst (fst (exec i s q))).
Proof.
  intros H. destruct q; simpl.
  - (* init app: a fresh, empty unit module (an existing one is overwritten) *)
    destruct H as [N U J L Q]. constructor; simpl; auto.
    + intros app0 um a p H1 H2. destruct (Nat.eq_dec app app0) as [EQ|Ne]; [subst app0|].
      * rewrite alookup_aset_eq in H1. inversion H1; subst. exfalso. eapply nth_error_repeat_none; eauto.
      * rewrite alookup_aset_neq in H1 by auto. eauto.
    + intros app0 um a app' um' a' p H1 H2 H3 H4.
      destruct (Nat.eq_dec app app0) as [EQ|Ne]; [subst app0|].
      { rewrite alookup_aset_eq in H1. inversion H1; subst. exfalso. eapply nth_error_repeat_none; eauto. }
      destruct (Nat.eq_dec app app') as [EQ|Ne']; [subst app'|].
      { rewrite alookup_aset_eq in H3. inversion H3; subst. exfalso. eapply nth_error_repeat_none; eauto. }
      rewrite alookup_aset_neq in H1, H3 by auto. eauto.
  - (* stop app *)
    destruct (negb (mem_nat app (h_active (q_host s)))); [exact H|].
    destruct (alookup app (h_units (q_host s))) as [um|] eqn:EU; simpl.
    + set (s1 := mkQ (q_net s) _).
      assert (H1 : hinv s1).
      { destruct H as [N U J L Q]. constructor; simpl; auto.
        - intros app0 um0 a p H1 H2. destruct (Nat.eq_dec app app0) as [EQ|Ne]; [subst app0|].
          + rewrite alookup_aremove_eq in H1. discriminate.
          + rewrite alookup_aremove_neq in H1 by auto. eauto.
        - intros app0 um0 a app' um' a' p H1 H2 H3 H4.
          destruct (Nat.eq_dec app app0) as [EQ|Ne]; [subst app0|]; [rewrite alookup_aremove_eq in H1; discriminate|].
          destruct (Nat.eq_dec app app') as [EQ|Ne']; [subst app'|]; [rewrite alookup_aremove_eq in H3; discriminate|].
          rewrite alookup_aremove_neq in H1, H3 by auto. eauto. }
      pose proof (hinv_clear_all um s1 coins H1) as HC.
      destruct (clear_all s1 um coins) as [[s2 ok] tr]. simpl in *. apply HC.
      intros a p app0 um' a' E1 E2 E3.
      destruct (Nat.eq_dec app app0) as [EQ|Ne]; [subst app0|]; [rewrite alookup_aremove_eq in E2; discriminate|].
      rewrite alookup_aremove_neq in E2 by auto.
      destruct H as [N U J L Q]. destruct (J _ _ _ _ _ _ _ EU E1 E2 E3). contradiction.
    + destruct H as [N U J L Q]. constructor; simpl; auto.
  - (* qalloc *)
    destruct (alookup app (h_units (q_host s))) as [um|] eqn:EU; [|exact H].
    destruct (nth_error um a) as [[p0|]|] eqn:EA; try exact H.
    set (p := fresh_id (h_used (q_host s))).
    set (h1 := with_units _ _).
    assert (H1 : hinv (mkQ (q_net s) h1)).
    { pose proof (fresh_id_not_in (h_used (q_host s))) as FR. fold p in FR.
      assert (La : a < length um) by (apply nth_error_Some; congruence).
      destruct H as [N U J L Q]. constructor; simpl; auto.
      - intros app0 um0 a0 p1 H1 H2. apply insert_sorted_in.
        destruct (Nat.eq_dec app app0) as [EQ|Ne]; [subst app0|].
        + rewrite alookup_aset_eq in H1. inversion H1; subst.
          destruct (Nat.eq_dec a a0) as [EQ|Na]; [subst a0|].
          * rewrite nth_error_upd_eq in H2 by auto. inversion H2; auto.
          * rewrite nth_error_upd_neq in H2 by auto. right; eauto.
        + rewrite alookup_aset_neq in H1 by auto. right; eauto.
      - intros app0 um0 a0 app' um' a' p1 H1 H2 H3 H4.
        assert (OLD : forall appx umx ax, alookup appx (h_units (q_host s)) = Some umx -> nth_error umx ax = Some (Some p) -> False).
        { intros appx umx ax X1 X2. apply FR. eauto. }
        destruct (Nat.eq_dec app app0) as [EQ|Ne]; [subst app0|]; (destruct (Nat.eq_dec app app') as [EQ|Ne']; [subst app'|]).
        + rewrite alookup_aset_eq in H1, H3. inversion H1; inversion H3; subst. split; auto.
          destruct (Nat.eq_dec a a0) as [EQ|Na]; [subst a0|]; (destruct (Nat.eq_dec a a') as [EQ|Na']; [subst a'|]); auto.
          * rewrite nth_error_upd_eq in H2 by auto. rewrite nth_error_upd_neq in H4 by auto. inversion H2; subst.
            exfalso. eapply OLD; eauto.
          * rewrite nth_error_upd_eq in H4 by auto. rewrite nth_error_upd_neq in H2 by auto. inversion H4; subst.
            exfalso. eapply OLD; eauto.
          * rewrite nth_error_upd_neq in H2, H4 by auto. destruct (J _ _ _ _ _ _ _ EU H2 EU H4); auto.
        + rewrite alookup_aset_eq in H1. rewrite alookup_aset_neq in H3 by auto. inversion H1; subst.
          destruct (Nat.eq_dec a a0) as [EQ|Na]; [subst a0|].
          * rewrite nth_error_upd_eq in H2 by auto. inversion H2; subst. exfalso. eapply OLD; eauto.
          * rewrite nth_error_upd_neq in H2 by auto. destruct (J _ _ _ _ _ _ _ EU H2 H3 H4); auto.
        + rewrite alookup_aset_eq in H3. rewrite alookup_aset_neq in H1 by auto. inversion H3; subst.
          destruct (Nat.eq_dec a a') as [EQ|Na]; [subst a'|].
          * rewrite nth_error_upd_eq in H4 by auto. inversion H4; subst. exfalso. eapply OLD; eauto.
          * rewrite nth_error_upd_neq in H4 by auto. destruct (J _ _ _ _ _ _ _ H1 H2 EU H4); auto.
        + rewrite alookup_aset_neq in H1, H3 by auto. eauto. }
    pose proof (hinv_cmd_new i _ (PP p) H1) as H2.
    pose proof (cmd_new_mono i (mkQ (q_net s) h1) (PP p) (inv_net _ H1)) as M.
    destruct (cmd_new i (mkQ (q_net s) h1) (PP p)) as [[s2 ok] tr]. simpl in H2, M.
    destruct ok; [exact H2|]. simpl.
    destruct H as [N U J L Q]. constructor; simpl; auto; [apply (inv_net _ H2)|].
    intros p1 hd Hp. apply L in Hp. lia.
  - (* init *)
    destruct (handle_of (q_host s) app a) as [hd|]; [|exact H].
    pose proof (hinv_native s (OMeas hd true coin) H) as H1.
    destruct (native s (OMeas hd true coin)) as [[s1 r] tr]. simpl in H1.
    destruct r as [v| | |k]; simpl; auto.
    destruct v as [|[|v]]; simpl; auto.
    pose proof (hinv_native s1 (OGate1 hd NX) H1) as H2.
    destruct (native s1 (OGate1 hd NX)) as [[s2 r2] tr2]. exact H2.
  - (* g1 *)
    destruct (handle_of (q_host s) app a) as [hd|]; [|exact H].
    pose proof (hinv_native s (OGate1 hd (native1 g)) H) as H1.
    destruct (native s (OGate1 hd (native1 g))) as [[s1 r] tr]. exact H1.
  - (* rot *)
    destruct (handle_of (q_host s) app a) as [hd|]; [|exact H].
    pose proof (hinv_native s (OGate1 hd NRot) H) as H1.
    destruct (native s (OGate1 hd NRot)) as [[s1 r] tr]. exact H1.
  - (* g2 *)
    destruct (position (q_host s) app a1) as [p1|]; [|exact H].
    destruct (position (q_host s) app a2) as [p2|]; [|exact H].
    destruct (virt_of (q_host s) (PP p1)) as [h1|]; [|exact H].
    destruct (virt_of (q_host s) (PP p2)) as [h2|]; [|exact H].
    destruct (Nat.eqb h1 h2); [exact H|].
    pose proof (hinv_native s (OGate2 h1 h2 (native2 g)) H) as H1.
    destruct (native s (OGate2 h1 h2 (native2 g))) as [[s1 r] tr]. exact H1.
  - (* meas *)
    destruct (handle_of (q_host s) app a) as [hd|]; [|exact H].
    pose proof (hinv_native s (OMeas hd true coin) H) as H1.
    destruct (native s (OMeas hd true coin)) as [[s1 r] tr]. exact H1.
  - (* qfree *)
    destruct (alookup app (h_units (q_host s))) as [um|] eqn:EU; [|exact H].
    destruct (nth_error um a) as [[p|]|] eqn:EA; try exact H.
    assert (La : a < length um) by (apply nth_error_Some; congruence).
    set (h1 := with_units _ _).
    assert (H1 : hinv (mkQ (q_net s) h1) /\
                 (forall app0 um0 a0, alookup app0 (h_units h1) = Some um0 -> nth_error um0 a0 <> Some (Some p))).
    { destruct H as [N U J L Q]. split; [constructor; simpl; auto|].
      - intros app0 um0 a0 p1 H1 H2. destruct (Nat.eq_dec app app0) as [EQ|Ne]; [subst app0|].
        + rewrite alookup_aset_eq in H1. inversion H1; subst.
          destruct (Nat.eq_dec a a0) as [EQ|Na]; [subst a0|]; [rewrite nth_error_upd_eq in H2 by auto; discriminate|].
          rewrite nth_error_upd_neq in H2 by auto. eauto.
        + rewrite alookup_aset_neq in H1 by auto. eauto.
      - intros app0 um0 a0 app' um' a' p1 H1 H2 H3 H4.
        assert (X : forall appx umx ax, alookup appx (aset app (upd um a None) (h_units (q_host s))) = Some umx ->
                     nth_error umx ax = Some (Some p1) ->
                     exists umy, alookup appx (h_units (q_host s)) = Some umy /\ nth_error umy ax = Some (Some p1)).
        { intros appx umx ax X1 X2. destruct (Nat.eq_dec app appx) as [EQ|Ne]; [subst appx|].
          - rewrite alookup_aset_eq in X1. inversion X1; subst. exists um. split; auto.
            destruct (Nat.eq_dec a ax) as [EQ|Na]; [subst ax|]; [rewrite nth_error_upd_eq in X2 by auto; discriminate|].
            rewrite nth_error_upd_neq in X2 by auto. auto.
          - rewrite alookup_aset_neq in X1 by auto. eauto. }
        destruct (X _ _ _ H1 H2) as (y1 & Y1 & Y2). destruct (X _ _ _ H3 H4) as (y2 & Y3 & Y4). eauto.
      - simpl. intros app0 um0 a0 H1 H2. destruct (Nat.eq_dec app app0) as [EQ|Ne]; [subst app0|].
        + rewrite alookup_aset_eq in H1. inversion H1; subst.
          destruct (Nat.eq_dec a a0) as [EQ|Na]; [subst a0|]; [rewrite nth_error_upd_eq in H2 by auto; discriminate|].
          rewrite nth_error_upd_neq in H2 by auto. destruct (J _ _ _ _ _ _ _ EU EA EU H2). contradiction.
        + rewrite alookup_aset_neq in H1 by auto. destruct (J _ _ _ _ _ _ _ EU EA H1 H2). contradiction. }
    destruct H1 as [H1 F].
    destruct (negb (mem_nat p (h_used (q_host s)))); [exact H1|].
    pose proof (hinv_unuse _ p H1 F) as H2. simpl in H2.
    pose proof (hinv_clear_phys _ p coin H2) as H3.
    destruct (clear_phys _ p coin) as [[s2 ok] tr]. exact H3.
Qed.

Definition init_q (caps : list (nat * nat)) : qst := mkQ (init_net caps) empty_host.

Lemma init_hinv caps : hinv (init_q caps).
Proof.
  constructor; simpl; try (intros; discriminate). apply init_hid_inv.
Qed.

Theorem addr_inv_run i qs : forall s, hinv s -> hinv (run_q i s qs).
Proof. induction qs as [|q t IH]; intros s H; simpl; auto. apply IH. apply addr_inv; auto. Qed.

Corollary addr_inv_reachable caps i qs : hinv (run_q i (init_q caps) qs).
Proof. apply addr_inv_run. apply init_hinv. Qed.

(* ---- re-allocation yields a fresh qubit ------------------------------------------------------------------------------- *)
(* a successful qalloc binds the address to the handle next_hid, which no earlier qubit ever had: every handle
   that exists or existed is < next_hid (hid_inv, inv_qlt), in particular the handle the address denoted before a qfree *)
Local Arguments step : simpl never.
Theorem alloc_fresh i s app a s' tr :
  hinv s -> exec i s (QAlloc app a) = (s', RDone None, tr) ->
  handle_of (q_host s') app a = Some (next_hid (q_net s)) /\
  next_hid (q_net s') = S (next_hid (q_net s)) /\
  (forall p hd, plookup p (h_qlist (q_host s)) = Some hd -> hd <> next_hid (q_net s)) /\
  stale (q_net s) (next_hid (q_net s)).
Proof.
  intros H. simpl.
  destruct (alookup app (h_units (q_host s))) as [um|] eqn:EU; [|discriminate].
  destruct (nth_error um a) as [[p0|]|] eqn:EA; try discriminate.
  assert (La : a < length um) by (apply nth_error_Some; congruence).
  unfold cmd_new. simpl. destruct (step (q_net s) (ONew i)) as [n' o] eqn:ES.
  destruct o; simpl; try discriminate. intro E. inversion E; subst. simpl.
  split; [|split; [|split]].
  - unfold handle_of, position; simpl. rewrite alookup_aset_eq, nth_error_upd_eq by auto.
    unfold virt_of; simpl. apply plookup_pset_eq.
  - eapply new_ok_next; eauto.
  - intros p hd Hp. apply (inv_qlt s H) in Hp. lia.
  - apply stale_iff. intro Hin. destruct (inv_net s H) as [_ B]. rewrite Forall_forall in B. apply B in Hin. lia.
Qed.
