#!/venv/bin/python
"""./check <id> [--tier quick|thorough] [--replay file]   (see DESIGN.md section 2.3)"""
import argparse
import faulthandler
import signal
import importlib
import os
import shutil
import sys
import traceback

sys.path.insert(0, os.path.dirname(os.path.abspath(__file__)))
import common  # noqa: E402


def main():
    faulthandler.register(signal.SIGUSR1)      # kill -USR1 <pid> dumps the Python stack (diagnosing a stuck run)
    ap = argparse.ArgumentParser()
    ap.add_argument("pid")
    ap.add_argument("--tier", default=os.environ.get("VERIF_TIER", "quick"))
    ap.add_argument("--replay", default=None)
    a = ap.parse_args()
    if a.pid == "build":
        print(common.coq_build()[-2000:])
        return 0
    seed = int(os.environ.get("VERIF_SEED", "0") or 0)
    tier = a.tier if a.tier in ("quick", "thorough") else "quick"
    ctx = common.Ctx(a.pid, tier, seed, a.replay)
    base, dst, home = common.make_scratch()
    ctx.scratch = dst
    ctx.scratch_base = base
    ctx.home = home
    try:
        common.activate_scratch(dst, home)
        common.coq_build()
        bad = common.grep_forbidden()
        ctx.obligation("no Admitted/admit/Axiom/Parameter/disabled checks in coq/theories", not bad, "\n".join(bad))
        mod = importlib.import_module("props.%s" % a.pid.lower())
        mod.run(ctx)
        # a broken obligation / correspondence with no concrete failing input is still a violation
        if ctx.broken() and not ctx.violations and not getattr(ctx, "broken_explained_by_known", False):
            ctx.report("broken:" + ";".join(ctx.broken()),
                       "no longer shown to hold: " + "; ".join(ctx.broken()),
                       {"broken": ctx.broken()}, found_input=False)
        ctx.write_evidence("cd /verif && ./check %s --tier %s" % (a.pid, tier))
        return 1 if ctx.violations else 0
    except common.Broken as e:
        print("CHECK-ERROR %s: %s" % (a.pid, e))
        return 2
    except Exception:
        traceback.print_exc()
        print("CHECK-ERROR %s: internal error" % a.pid)
        return 2
    finally:
        shutil.rmtree(base, ignore_errors=True)


if __name__ == "__main__":
    sys.exit(main())
