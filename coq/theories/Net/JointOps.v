(* C01, layer 2: how the joint group of a list of factors changes when ONE factor is transformed by an engine call.
   Every lemma is stated for an arbitrary factor list in which the transformed factor has been brought to the front by a
   permutation (`jgroup_perm`), so the same lemma serves the network (many registers) and the ideal machine (one). *)
From Coq Require Import List Bool Arith Lia Permutation.
From SQ Require Import Base.ListUtil Stab.Pauli Stab.Kernels Stab.Gates Stab.Tableau Stab.Group Stab.GroupGates
     Stab.TensorProof Stab.PermProof Stab.EqProof Stab.MeasureProof Stab.MeasureFull Stab.LocalZ Net.Model Net.Joint.
Import ListNotations.

(* a well-formed factor: as many identities as qubits, a full stabilizer state *)
Definition fok (f : factor) : Prop := length (f_ids f) = f_n f /\ full (f_n f) (f_tab f).
Definition fsok (fs : list factor) : Prop := NoDup (all_ids fs) /\ Forall fok fs.

Lemma fsok_perm fs fs' : Permutation fs fs' -> fsok fs -> fsok fs'.
Proof.
  intros HP [ND FA]. split.
  - apply Permutation_NoDup with (all_ids fs); auto. apply Permutation_flat_map'; auto.
  - eapply Permutation_Forall; eauto.
Qed.

Lemma all_ids_perm fs fs' y : Permutation fs fs' -> (In y (all_ids fs) <-> In y (all_ids fs')).
Proof.
  intro HP. pose proof (Permutation_flat_map' f_ids _ _ HP) as HQ.
  split; intro H; [apply (Permutation_in _ HQ H) | apply (Permutation_in _ (Permutation_sym HQ) H)].
Qed.

Lemma fok_wf f : fok f -> wf_tab (f_n f) (f_tab f). Proof. intros [_ [[W _] _]]; exact W. Qed.
Lemma fok_nil f : fok f -> f_n f = 0 -> f_tab f = [].
Proof. intros [_ [_ L]] E. rewrite E in L. destruct (f_tab f); [auto|discriminate]. Qed.

Lemma fsok_head f rest : fsok (f :: rest) ->
  NoDup (f_ids f) /\ length (f_ids f) = f_n f /\ full (f_n f) (f_tab f) /\ fsok rest /\
  (forall y, In y (f_ids f) -> In y (all_ids rest) -> False).
Proof.
  intros [ND FA]. simpl in ND. inversion FA as [|? ? [L F] FR]; subst.
  split; [apply NoDup_app_l in ND; auto|]. split; [auto|]. split; [auto|].
  split; [split; auto; apply NoDup_app_r in ND; auto | apply NoDup_app_disj; auto].
Qed.

Lemma fsok_head_replace f f' rest : fsok (f :: rest) -> fok f' -> NoDup (f_ids f') ->
  (forall y, In y (f_ids f') -> In y (f_ids f)) -> fsok (f' :: rest).
Proof.
  intros OK F' ND' SUB. destruct (fsok_head _ _ OK) as (ND & L & F & [NDR FR] & D).
  split; [|constructor; auto]. simpl.
  clear - ND' NDR SUB D. induction (f_ids f') as [|a l IH]; simpl; auto.
  inversion ND'; subst. constructor.
  - intro H. apply in_app_or in H as [H|H]; [contradiction|]. apply (D a); auto. apply SUB; simpl; auto.
  - apply IH; auto. intros y Hy; apply SUB; simpl; auto.
Qed.

Lemma jgroup_cons_congr f a b P : (forall Q, jgroup a Q <-> jgroup b Q) -> (jgroup (f :: a) P <-> jgroup (f :: b) P).
Proof.
  intro E. simpl. split; intros (g & P' & G & J & E'); exists g, P'; (split; [auto|split; [apply E; auto|auto]]).
Qed.

(* ---- one-qubit gate ------------------------------------------------------------------------------------------------ *)
Theorem head_gate1 g ids n t p rest P : NoDup ids -> length ids = n -> wf_tab n t -> p < n ->
  (jgroup (mkF ids n (tab_gate1 g n p t) :: rest) P <->
   exists P0, jgroup (mkF ids n t :: rest) P0 /\ geq P (gconj1 g (nth p ids 0) P0)).
Proof.
  intros ND LN W Hp. simpl. split.
  - intros (h & P' & G & J & E). apply (gate1_group_image g n p t W Hp) in G. destruct G as (h0 & G0 & ->).
    exists (gover ids h0 P'). split; [exists h0, P'; split; [auto|split; [auto|apply geq_refl]]|].
    eapply geq_trans; [exact E|]. apply (head_conj1 ids n); auto; try apply (gen_length _ _ _ G0).
  - intros (P0 & (h0 & P' & G0 & J & E0) & E). exists (conj1p g p h0), P'.
    split; [apply (gate1_group_image g n p t W Hp); eauto|]. split; auto.
    eapply geq_trans; [exact E|]. eapply geq_trans; [apply gconj1_geq; exact E0|].
    apply geq_sym. apply (head_conj1 ids n); auto; try apply (gen_length _ _ _ G0).
Qed.

Theorem head_gate2 g ids n t c t' rest P : NoDup ids -> length ids = n -> wf_tab n t -> c < n -> t' < n -> c <> t' ->
  (jgroup (mkF ids n (tab_gate2 g n c t' t) :: rest) P <->
   exists P0, jgroup (mkF ids n t :: rest) P0 /\ geq P (gconj2 g (nth c ids 0) (nth t' ids 0) P0)).
Proof.
  intros ND LN W Hc Ht Hne. simpl. split.
  - intros (h & P' & G & J & E). apply (gate2_group_image g n c t' t W Hc Ht Hne) in G. destruct G as (h0 & G0 & ->).
    exists (gover ids h0 P'). split; [exists h0, P'; split; [auto|split; [auto|apply geq_refl]]|].
    eapply geq_trans; [exact E|]. apply (head_conj2 ids n); auto; try apply (gen_length _ _ _ G0).
  - intros (P0 & (h0 & P' & G0 & J & E0) & E). exists (conj2p g c t' h0), P'.
    split; [apply (gate2_group_image g n c t' t W Hc Ht Hne); eauto|]. split; auto.
    eapply geq_trans; [exact E|]. eapply geq_trans; [apply gconj2_geq; exact E0|].
    apply geq_sym. apply (head_conj2 ids n); auto; try apply (gen_length _ _ _ G0).
Qed.

(* ---- measurement, random branch --------------------------------------------------------------------------------------- *)
Lemma head_zmul ids n coin p h P : NoDup ids -> length ids = n -> length (snd h) = n -> p < n ->
  geq (gover ids (zmul coin p h) P) (gmulz coin (nth p ids 0) (gover ids h P)).
Proof.
  intros ND LN Lh Hp. unfold gmulz, gover, zmul. cbn [fst snd].
  rewrite (over_nth ids (snd h) (snd P) p) by (auto; lia).
  split; cbn [fst snd].
  - set (k := fst (pmul1 _ _)). destruct (ph_of_sign coin), (fst h), (fst P), k; reflexivity.
  - intro y. apply over_upd; auto; lia.
Qed.

Theorem head_meas_random ids n t t1 coin p rest P : NoDup ids -> length ids = n -> p < n ->
  (forall g, gen n t1 g <-> exists h, gen n t h /\ xbit (nth p (snd h) PI) = false /\ (g = h \/ g = zmul coin p h)) ->
  (jgroup (mkF ids n t1 :: rest) P <->
   exists P0, jgroup (mkF ids n t :: rest) P0 /\ xbit (snd P0 (nth p ids 0)) = false /\
              (geq P P0 \/ geq P (gmulz coin (nth p ids 0) P0))).
Proof.
  intros ND LN Hp SP. simpl. split.
  - intros (g & P' & G & J & E). apply SP in G. destruct G as (h & Gh & Xh & Hg).
    pose proof (gen_length _ _ _ Gh) as Lh.
    exists (gover ids h P'). split; [exists h, P'; split; [auto|split; [auto|apply geq_refl]]|].
    split; [simpl; rewrite over_nth by (auto; lia); auto|].
    destruct Hg as [->| ->]; [left; auto|right].
    eapply geq_trans; [exact E|]. apply (head_zmul ids n); auto; try apply (gen_length _ _ _ Gh).
  - intros (P0 & (h & P' & Gh & J & E0) & X0 & HP).
    assert (Xh : xbit (nth p (snd h) PI) = false).
    { pose proof (gen_length _ _ _ Gh) as Lh. destruct E0 as [_ E0]. rewrite E0 in X0. simpl in X0.
      rewrite over_nth in X0 by (auto; lia). auto. }
    destruct HP as [E|E].
    + exists h, P'. split; [apply SP; eauto|]. split; auto. eapply geq_trans; eauto.
    + exists (zmul coin p h), P'. split; [apply SP; eauto|]. split; auto.
      eapply geq_trans; [exact E|]. eapply geq_trans; [apply gmulz_geq; exact E0|].
      apply geq_sym. apply (head_zmul ids n); auto; try apply (gen_length _ _ _ Gh).
Qed.

(* which branch: the factor's group commutes with Z_p iff the joint group commutes with Z_q *)
Theorem head_det ids n t p rest : NoDup ids -> length ids = n -> p < n ->
  ((forall h, gen n t h -> xbit (nth p (snd h) PI) = false) <->
   (forall P, jgroup (mkF ids n t :: rest) P -> xbit (snd P (nth p ids 0)) = false)).
Proof.
  intros ND LN Hp. split.
  - intros H P (h & P' & G & J & [_ E]). pose proof (gen_length _ _ _ G) as Lg. simpl in Lg.
    rewrite E. simpl. rewrite over_nth by (auto; lia). auto.
  - intros H h G. pose proof (gen_length _ _ _ G) as Lg.
    specialize (H (gover ids h gone)). simpl in H. rewrite over_nth in H by (auto; lia).
    apply H. exists h, gone. split; auto. split; [apply jgroup_one|apply geq_refl].
Qed.

(* ---- deterministic branch: +-Z_q in the joint group iff +-Z_p in the factor's group ------------------------------- *)
Lemma over_all_PI ids : forall l f, NoDup ids -> length ids = length l ->
  (forall y, In y ids -> over ids l f y = PI) -> l = repeat PI (length l).
Proof.
  induction ids as [|a ids IH]; intros [|x l] f ND HL H; simpl in *; try discriminate; auto.
  inversion ND; subst. f_equal.
  - specialize (H a (or_introl eq_refl)). rewrite Nat.eqb_refl in H. exact H.
  - apply (IH l f); auto. intros y Hy. specialize (H y (or_intror Hy)).
    destruct (Nat.eqb_spec a y) as [->|Hne]; auto. contradiction.
Qed.

Lemma jgroup_identity_phase fs : fsok fs -> forall P, jgroup fs P -> (forall y, snd P y = PI) -> fst P = P0.
Proof.
  induction fs as [|f fs IH]; intros OK P J HP.
  - destruct J as [E _]. exact E.
  - destruct (fsok_head _ _ OK) as (ND & L & F & OKR & D).
    destruct J as (g & P' & G & J & [E1 E2]). simpl in E1, E2.
    assert (HP' : forall y, snd P' y = PI).
    { intro y. destruct (in_dec Nat.eq_dec y (f_ids f)) as [Hy|Hy].
      - apply (jgroup_support fs P' y J). intro; eapply D; eauto.
      - rewrite <- (over_notin (f_ids f) (snd g) (snd P') y Hy). rewrite <- E2. apply HP. }
    pose proof (gen_length _ _ _ G) as Lg.
    assert (Eg : snd g = repeat PI (f_n f)).
    { rewrite <- Lg. apply (over_all_PI (f_ids f) (snd g) (snd P')); auto; [lia|].
      intros y _. rewrite <- E2. apply HP. }
    assert (fst g = P0).
    { apply (gen_identity_phase (f_n f) (f_tab f)); [apply F|]. rewrite <- Eg. destruct g; exact G. }
    rewrite E1, H, (IH OKR P' J HP'). reflexivity.
Qed.

Lemma list_pauli_ext (a b : list pauli) : length a = length b -> (forall k, k < length a -> nth k a PI = nth k b PI) -> a = b.
Proof.
  revert b; induction a as [|x a IH]; intros [|y b] HL H; simpl in *; try discriminate; auto.
  f_equal; [apply (H 0); lia|]. apply IH; [lia|]. intros k Hk. apply (H (S k)); lia.
Qed.

Theorem head_zel ids n t p s rest : fsok (mkF ids n t :: rest) -> p < n ->
  (gen n t (zel s n p) <-> jgroup (mkF ids n t :: rest) (gz s (nth p ids 0))).
Proof.
  intros OK Hp. destruct (fsok_head _ _ OK) as (ND & L & F & OKR & D). simpl in ND, L, F, D.
  split.
  - intro G. exists (zel s n p), gone. split; auto. split; [apply jgroup_one|].
    split; simpl; [symmetry; apply padd_0_r|]. intro y. unfold zp.
    rewrite over_upd by (auto; rewrite ?repeat_length; lia).
    unfold gupd. destruct (Nat.eqb y (nth p ids 0)); auto. symmetry. apply over_repeat_PI.
  - intros (g & P' & G & J & [E1 E2]). simpl in E1, E2.
    pose proof (gen_length _ _ _ G) as Lg. simpl in Lg.
    assert (HP' : forall y, snd P' y = PI).
    { intro y. destruct (in_dec Nat.eq_dec y ids) as [Hy|Hy].
      - apply (jgroup_support rest P' y J). intro; eapply D; eauto.
      - rewrite <- (over_notin ids (snd g) (snd P') y Hy). rewrite <- E2. unfold gupd.
        destruct (Nat.eqb_spec y (nth p ids 0)) as [->|]; auto. exfalso. apply Hy. apply nth_In. lia. }
    rewrite (jgroup_identity_phase rest OKR P' J HP'), padd_0_r in E1.
    assert (Eg : snd g = zp n p).
    { apply list_pauli_ext; [rewrite zp_length; auto|]. intros k Hk.
      rewrite <- (over_nth ids (snd g) (snd P') k) by (auto; lia). rewrite <- E2.
      rewrite nth_zp by auto. unfold gupd.
      destruct (Nat.eqb_spec k p) as [->|Hne]; [rewrite Nat.eqb_refl; auto|].
      destruct (Nat.eqb_spec (nth k ids 0) (nth p ids 0)) as [E|]; auto.
      exfalso. apply Hne. apply (proj1 (NoDup_nth ids 0) ND); auto; lia. }
    unfold zel. rewrite E1, <- Eg. destruct g; exact G.
Qed.

(* ---- removal of a measured position ---------------------------------------------------------------------------------- *)
Theorem head_remove ids n t1 t2 p rest P : NoDup ids -> length ids = n -> p < n ->
  ~ In (nth p ids 0) (all_ids rest) ->
  (forall g, gen (n - 1) t2 g <->
     exists g', gen n t1 g' /\ nth p (snd g') PI = PI /\ g = (fst g', remove_nth p (snd g'))) ->
  (jgroup (mkF (remove_nth p ids) (n - 1) t2 :: rest) P <->
   (jgroup (mkF ids n t1 :: rest) P /\ snd P (nth p ids 0) = PI)).
Proof.
  intros ND LN Hp NI SP. simpl. split.
  - intros (g & P' & G & J & [E1 E2]). apply SP in G. destruct G as (g' & G' & X & ->). simpl in E1, E2.
    pose proof (gen_length _ _ _ G') as Lg.
    assert (EO : forall y, snd P y = over ids (snd g') (snd P') y).
    { intro y. rewrite E2. apply over_remove; auto; try lia. apply (jgroup_support rest P' _ J NI). }
    split; [exists g', P'; split; [auto|split; [auto|split; auto]]|].
    rewrite EO, over_nth; auto; lia.
  - intros ((g' & P' & G' & J & [E1 E2]) & X). simpl in E1, E2.
    pose proof (gen_length _ _ _ G') as Lg.
    assert (X' : nth p (snd g') PI = PI) by (rewrite E2, over_nth in X; auto; lia).
    exists (fst g', remove_nth p (snd g')), P'. split; [apply SP; eauto|]. split; auto.
    split; simpl; auto. intro y. rewrite E2. symmetry. apply over_remove; auto; try lia.
    apply (jgroup_support rest P' _ J NI).
Qed.

Lemma remove_nth_length {A} p : forall (l : list A), p < length l -> length (remove_nth p l) = length l - 1.
Proof. induction p as [|p IH]; intros [|x l] H; simpl in *; try lia. rewrite IH by lia. lia. Qed.

Lemma remove_nth_in {A} p : forall (l : list A) y, In y (remove_nth p l) -> In y l.
Proof. induction p as [|p IH]; intros [|x l] y H; simpl in *; auto. destruct H; auto. Qed.

Lemma remove_nth_NoDup {A} p : forall (l : list A), NoDup l -> NoDup (remove_nth p l).
Proof.
  induction p as [|p IH]; intros [|x l] H; simpl; auto; inversion H; subst; auto.
  constructor; auto. intro Hx; apply H2. eapply remove_nth_in; eauto.
Qed.

Lemma remove_nth_in_iff p : forall (l : list nat) y, NoDup l -> p < length l ->
  (In y (remove_nth p l) <-> In y l /\ y <> nth p l 0).
Proof.
  induction p as [|p IH]; intros [|x l] y ND Hp; simpl in *; try lia; inversion ND; subst.
  - split; [intro H; split; auto; intro; subst; contradiction | intros [[->|H] N]; [contradiction|auto]].
  - rewrite IH by (auto; lia). split.
    + intros [->|[H N]]; [split; auto; intro E; apply H1; rewrite E; apply nth_In; lia | split; auto].
    + intros [[->|H] N]; auto.
Qed.
