"""C20 — a started network comes up completely and stop tears it down completely.   (PARTIAL BY NATURE, see notes/C20.md)

   obligations   : Properties/C20.v (Model D: connect/retry state machine, process list of Network)
   correspondence: H-real — the unmodified Network class / start_vnode / start_qnodeos of the scratch copy, real processes, real
                   TCP on localhost; one child interpreter per scenario (harness/deploy_child.py) in its own session, killed as a
                   process group on timeout; Coq judges the observations (Deploy/Cases.v): CLife (liveness of the 2n processes
                   after every start/stop) and CStagger (check_connections answers against Model D on the recorded launch order)
   oracle        : the property statement, directly, on the recorded observations (plain Python below)
   NOT proved, only observed here: that processes die, that ports are released, how long a spawn takes."""
import hashlib
import json
import os
import random
import signal
import socket
import subprocess
import time
from concurrent.futures import ThreadPoolExecutor

import common

CHILD = os.path.join(common.VERIF, "harness", "deploy_child.py")
NAMES = ["Ada", "Bo", "Cy", "Di", "Ed"]

ASSUMPTIONS = [
    "PARTIAL: process death, release of TCP ports by the kernel (TIME_WAIT), spawn latency and the 10 s budget of "
    "start(wait_until_running=True) are operating-system behaviour that Model D cannot exhibit; they are OBSERVED by the H-real "
    "correspondence run on this machine (1..3 nodes quick, ..5 thorough), not proved",
    "C20_stop_empties / C20_restartable hold under the explicit hypotheses `terminate Alive = Ended` (the SIGTERM loop of stop() kills) and "
    "`spawn Fresh = Alive` (Process.start brings the child to life); they are hypotheses of the theorems, not axioms",
    "C20_eventually_connected holds for fair runs: every node is eventually started, every attempt in flight eventually completes, every "
    "scheduled retry eventually fires (Twisted reactor, not modelled), and connection attempts fail with ConnectionRefused only (any other "
    "error stops the node's reactor: event Crash, example crash_is_fatal)",
    "connection attempts and retries inside a virtual node are not observable from outside: the staggered-start correspondence compares only "
    "the monotone predicate check_connections (never True before every node was launched, never False again after True, always True after "
    "settling) with Model D run on the recorded launch order",
    "ports are judged free when a server can listen on them again the way Twisted does (SO_REUSEADDR); a strict bind may still fail while "
    "sockets are in TIME_WAIT and is recorded as information only",
    "the only scaffolding inside the child interpreters: NetworksConfigConstructor._get_unused_port draws from a private port pool instead "
    "of 8000..9000 (other checks run in parallel on this machine); the availability test and all other code are the implementation's own",
]


# ---------------------------------------------------------------------------------------------------------------------
# environment
# ---------------------------------------------------------------------------------------------------------------------
def strict_free(port):
    s = socket.socket(socket.AF_INET, socket.SOCK_STREAM)
    try:
        s.bind(("127.0.0.1", port))
        return True
    except OSError:
        return False
    finally:
        s.close()


class Ports:
    """private pools of currently free ports, below the ephemeral range and away from 8000..9000"""
    def __init__(self, seed):
        self.rng = random.Random(seed * 7919 + os.getpid())      # environment, not a test input: differs per invocation
        self.taken = set()

    def pool(self, k):
        out = []
        while len(out) < k:
            base = self.rng.randrange(10000, 30000 - 64)
            for port in range(base, base + 64):
                if len(out) >= k:
                    break
                if port not in self.taken and strict_free(port):
                    self.taken.add(port)
                    out.append(port)
        return out


def group_members(pgid):
    out = []
    for d in os.listdir("/proc"):
        if not d.isdigit():
            continue
        try:
            rest = open("/proc/%s/stat" % d).read().rsplit(")", 1)[1].split()
            if int(rest[2]) == pgid and rest[0] not in ("Z", "X"):
                cmd = open("/proc/%s/cmdline" % d).read().replace("\0", " ")
                out.append((int(d), cmd[:160]))
        except (OSError, IndexError, ValueError):
            pass
    return out


def repo_config_fingerprint():
    """the check must never write into the repository it reads (the implementation writes config files next to its sources)"""
    d = os.path.join(common.REPO, "simulaqron", "config")
    out = []
    for f in sorted(os.listdir(d)) if os.path.isdir(d) else []:
        p = os.path.join(d, f)
        st = os.stat(p)
        out.append((f, st.st_size, st.st_mtime_ns, hashlib.sha1(open(p, "rb").read()).hexdigest()))
    return out


def prepare_scratch(ctx):
    """simulaqron/config/settings.json and network.json are git-ignored artefacts of earlier test runs; the copies that came along with the
    scratch copy may name files of the repository itself (absolute path in `network_config_file`), so they are removed and settings.json is
    regenerated once, by the implementation, before any node process can race for it."""
    cfgdir = os.path.join(ctx.scratch, "simulaqron", "config")
    for f in ("settings.json", "network.json"):
        try:
            os.remove(os.path.join(cfgdir, f))
        except OSError:
            pass
    env = child_env(ctx, ctx.home)
    p = subprocess.run([common.PY, "-B", "-c", "from simulaqron.settings import simulaqron_settings as s; print(s.network_config_file)"],
                       env=env, stdout=subprocess.PIPE, stderr=subprocess.PIPE, text=True, timeout=120)
    path = p.stdout.strip().splitlines()[-1] if p.stdout.strip() else ""
    ok = p.returncode == 0 and path.startswith(ctx.scratch)
    ctx.obligation("scratch copy: regenerated settings keep the network configuration inside the scratch area", ok, p.stdout + p.stderr)
    return ok


def child_env(ctx, home):
    env = dict(os.environ)
    env.update({"HOME": home, "PYTHONPATH": ctx.scratch, "PYTHONHASHSEED": "0", "PYTHONWARNINGS": "ignore", common.GUARD: "1"})
    return env


def run_scenario(ctx, sid, spec, timeout):
    d = os.path.join(ctx.scratch_base, "c20", sid)
    home = os.path.join(d, "home")
    os.makedirs(home)
    user = {"network_config_file": os.path.join(d, "network.json")}
    user.update(spec.get("user_settings", {}))          # per-scenario settings through the documented user override file
    json.dump(user, open(os.path.join(home, ".simulaqron.json"), "w"))
    json.dump(spec, open(os.path.join(d, "spec.json"), "w"))
    outp = os.path.join(d, "out.json")
    errf = open(os.path.join(d, "stderr.txt"), "w")
    t0 = time.time()
    p = subprocess.Popen([common.PY, "-B", CHILD, os.path.join(d, "spec.json"), outp], env=child_env(ctx, home), cwd=d,
                         stdout=subprocess.DEVNULL, stderr=errf, start_new_session=True)
    hung = False
    try:
        p.wait(timeout=timeout)
    except subprocess.TimeoutExpired:
        hung = True
    survivors = []
    if not hung:
        t_end = time.time() + 3.0                # multiprocessing's resource tracker leaves by itself once its pipe is closed
        while time.time() < t_end:
            survivors = [m for m in group_members(p.pid) if "resource_tracker" not in m[1]]
            if not survivors:
                break
            time.sleep(0.2)
    # whatever happened: nothing of this scenario may stay behind
    for _ in range(3):
        try:
            os.killpg(p.pid, signal.SIGKILL)
        except (ProcessLookupError, PermissionError):
            break
        time.sleep(0.2)
        if not group_members(p.pid):
            break
    try:
        p.wait(timeout=10)
    except subprocess.TimeoutExpired:
        pass
    errf.close()
    res = {"sid": sid, "spec": spec, "hung": hung, "survivors": survivors, "wall": round(time.time() - t0, 2),
           "still_there_after_kill": group_members(p.pid)}
    try:
        out = json.load(open(outp))
    except (OSError, ValueError):
        out = {"events": [], "config": None, "error": None, "complete": False}
    if not out.get("complete") and not out.get("error"):
        out["error"] = "driver %s before finishing" % ("had to be killed" if hung else "died")
    res.update(out)
    res["stderr_tail"] = open(os.path.join(d, "stderr.txt")).read()[-1500:]
    return res


# ---------------------------------------------------------------------------------------------------------------------
# scenarios
# ---------------------------------------------------------------------------------------------------------------------
LIMITS = {"ready": 60, "program": 30, "epr": 60, "dead": 15}


def net_spec(ports, n, steps):
    return {"kind": "network", "name": "default", "nodes": NAMES[:n], "ports": ports.pool(3 * n + 6), "topology": None,
            "steps": steps, "limits": LIMITS}


def cycle(rng, n, wait, program=True, epr=True):
    st = [{"op": "start", "wait": wait}, {"op": "ready"}]
    if program:
        st.append({"op": "program"})
    if epr and n >= 2:
        a, b = rng.sample(NAMES[:n], 2)
        st.append({"op": "epr", "pair": [a, b], "number": rng.choice([1, 2])})
    st.append({"op": "stop"})
    return st


def stagger_spec(ports, rng, n, with_qnodeos, long_wait=False):
    nodes = NAMES[:n]
    order = [("vnode", x) for x in nodes]
    rng.shuffle(order)
    if with_qnodeos:
        # a qnodeos may be launched before its own virtual node (it retries the local connection the same way)
        for x in nodes:
            order.insert(rng.randrange(len(order) + 1), ("qnodeos", x))
    steps = []
    for kind, x in order:
        # gaps longer than two retry intervals (2 x 0.5 s) after a virtual node: earlier nodes are refused and retry in between
        gap = round(rng.uniform(1.3, 2.0), 2) if kind == "vnode" else round(rng.uniform(0.2, 0.6), 2)
        if long_wait and kind == "vnode" and not any(s_["kind"] == "vnode" for s_ in steps):
            gap = round(rng.uniform(3.5, 4.5), 2)     # the first virtual node is refused for a long time (>= 70 retry rounds at 0.05 s)
        steps.append({"op": "launch", "kind": kind, "node": x, "gap": gap})
    if n >= 2:
        # a native program that does not wait for readiness: right after the FIRST virtual node came up it asks it to send a qubit to the
        # virtual node launched LAST (not started yet, several retry intervals away); the request must wait and then complete
        vn = [k for k, s_ in enumerate(steps) if s_["kind"] == "vnode"]
        steps.insert(vn[0] + 1, {"op": "early_send", "from": steps[vn[0]]["node"], "to": steps[vn[-1]]["node"]})
    steps.append({"op": "settle"})
    steps.append({"op": "program"})
    if with_qnodeos and n >= 2:
        a, b = rng.sample(nodes, 2)
        steps.append({"op": "epr", "pair": [a, b], "number": 1})
    steps.append({"op": "terminate"})
    spec = {"kind": "stagger", "name": "default", "nodes": nodes, "ports": ports.pool(3 * n + 6), "steps": steps, "limits": LIMITS}
    if long_wait:
        spec["user_settings"] = {"conn_retry_time": 0.05}
    return spec


def random_history(rng, n):
    """a random start/stop history: double starts, double stops, stops racing a start that did not wait, programs in between"""
    steps, up = [], False
    for _ in range(rng.randrange(4, 8)):
        r = rng.random()
        if not up or r < 0.2:
            steps.append({"op": "start", "wait": rng.random() < 0.5})
            up = True
            if rng.random() < 0.7:
                steps.append({"op": "ready"})
                if rng.random() < 0.6:
                    steps.append({"op": "program"})
                if n >= 2 and rng.random() < 0.4:
                    a, b = rng.sample(NAMES[:n], 2)
                    steps.append({"op": "epr", "pair": [a, b], "number": rng.choice([1, 2, 3])})
                    # an SDK application that exits signals its backend to stop (netqasm: _stop_backend_on_exit = True ->
                    # Signal.STOP -> QNodeController.finished -> qnodeos process ends), by design; a network that has served an
                    # application is therefore stopped before anything else is asked of it (as `cycle` does)
                    steps.append({"op": "stop"})
                    up = False
            elif rng.random() < 0.5:
                steps.append({"op": "sleep", "s": round(rng.uniform(0.0, 1.5), 2)})
        else:
            steps.append({"op": "stop"})
            up = False
            if rng.random() < 0.2:
                steps.append({"op": "stop"})
    if up:
        steps.append({"op": "stop"})
    return steps + cycle(rng, n, rng.random() < 0.5, epr=False)


def build_scenarios(ctx, ports):
    rng = ctx.rng
    sc = []
    # 1 node: wait, then restart without waiting
    sc.append(("net1", net_spec(ports, 1, cycle(rng, 1, True) + cycle(rng, 1, False))))
    # 2 nodes: no waiting first; programs and pairs on both incarnations
    # (the first start() is issued twice: the second call must leave the processes that are already up alone)
    sc.append(("net2", net_spec(ports, 2, [{"op": "start", "wait": False}] + cycle(rng, 2, False) + cycle(rng, 2, True))))
    # 3 nodes: wait; stop; a racing stop right after a start that does not wait; start again; then a second Network object (new=False)
    sc.append(("net3", net_spec(ports, 3, cycle(rng, 3, True) + [{"op": "start", "wait": False}, {"op": "stop"}]
                                + cycle(rng, 3, rng.choice([True, False]), program=False)
                                + [{"op": "reopen"}] + cycle(rng, 3, True, epr=False))))
    # a node process that is slow to go down: its qnodeos port is taken by something else, so the process sits in its listen-retry loop (it
    # acts on SIGTERM only when that loop ends); stop() must still not return before every process it started is gone
    sc.append(("slowstop2", net_spec(ports, 2, [{"op": "occupy", "node": NAMES[1], "kind": "qnodeos"}, {"op": "start", "wait": False},
                                                 {"op": "sleep", "s": 1.0}, {"op": "stop"}, {"op": "release"}] + cycle(rng, 2, True, epr=False))))
    # the stop loop itself over stand-in processes that need several signals / several (virtual) seconds to go down: the real Network.stop()
    # must not return while any of them is alive
    for k in range(3 if ctx.tier == "thorough" else 2):
        n = rng.choice([2, 3])
        beh = [[rng.choice([1, 1, 2, 4]), rng.choice([0.0, 0.3, 2.5, 7.0])] for _ in range(2 * n)]
        beh[rng.randrange(2 * n)] = [rng.choice([1, 3]), rng.choice([2.5, 6.0])]
        sc.append(("fakestop%d_%d" % (n, k), {"kind": "fakestop", "name": "default", "nodes": NAMES[:n], "ports": ports.pool(3 * n + 6),
                                               "behaviour": beh, "steps": [], "limits": LIMITS}))
    # staggered start of 3 nodes, all six processes in random order
    sc.append(("stag3", stagger_spec(ports, rng, 3, True)))
    # a node that is up long before its peers: many refused attempts (fast retry interval through the user settings file) before the first success
    sc.append(("stagwait3", stagger_spec(ports, rng, 3, False, long_wait=True)))
    if ctx.tier == "thorough":
        sc.append(("net4", net_spec(ports, 4, cycle(rng, 4, False) + cycle(rng, 4, True) + cycle(rng, 4, False, program=False))))
        sc.append(("net5", net_spec(ports, 5, cycle(rng, 5, True) + [{"op": "start", "wait": False}, {"op": "sleep", "s": 0.4}, {"op": "stop"}]
                                    + cycle(rng, 5, False))))
        # start twice (second call must leave the live processes alone), stop twice
        sc.append(("net2b", net_spec(ports, 2, [{"op": "start", "wait": True}, {"op": "start", "wait": False}, {"op": "ready"},
                                                {"op": "program"}, {"op": "stop"}, {"op": "stop"}] + cycle(rng, 2, True))))
        for k, n in enumerate([1, 2, 2, 3, 4, 5, 3, 4, 5, 2]):
            sc.append(("stag%d_%d" % (n, k), stagger_spec(ports, rng, n, k % 2 == 0)))
        for k in range(8):
            n = rng.randrange(1, 6)
            sc.append(("hist%d_%d" % (n, k), net_spec(ports, n, random_history(rng, n))))
    return sc


# ---------------------------------------------------------------------------------------------------------------------
# the property, stated directly on the observations (oracle, independent of Model D)
# ---------------------------------------------------------------------------------------------------------------------
def program_ok(e):
    o = e.get("outcomes")
    return bool(e.get("ok")) and o is not None and o[0] == 1 and o[1] == 0 and o[2] == o[3] == o[4] and o[2] in (0, 1)


def epr_ok(e):
    r = e["results"]
    return (all(x["rc"] == 0 and x["outcomes"] is not None and len(x["outcomes"]) == e["number"] for x in r)
            and r[0]["outcomes"] == r[1]["outcomes"])


def judge_network(res):
    """returns list of (key, description) — each a way in which the recorded run contradicts the property statement"""
    bad = []
    n = len(res["spec"]["nodes"])
    stops = 0
    if res["hung"]:
        bad.append(("hang", "the scenario did not finish within its time limit (start/stop/program blocked)"))
    if res["error"] and not res["hung"]:
        bad.append(("driver-error", "driver failed: " + res["error"][-300:]))
    last = None
    held_by_harness = set()
    for e in res["events"]:
        k = e["ev"]
        if k == "configured" and e["processes"] != 2 * n:
            bad.append(("process-count", "%d processes configured for %d nodes" % (e["processes"], n)))
        elif k == "start":
            if e["error"]:
                bad.append(("restart-after-stop" if stops else "start-error",
                            "start() %s raised %s" % ("after stop()" if stops else "of a new network", e["error"])))
            elif not all(e["alive"]) or len(e["alive"]) != 2 * n:
                bad.append(("start-not-all-alive", "after start(): alive = %r" % e["alive"]))
        elif k == "ready":
            if not e["ok"]:
                bad.append(("not-ready", "network not completely up within %d s: ports=%r check_connections=%r"
                            % (LIMITS["ready"], e["last"]["ports"], e["last"]["answers"])))
            elif not all(e["alive"]):
                bad.append(("ready-but-dead", "a process died while the network came up: %r" % e["alive"]))
        elif k == "program" and not program_ok(e):
            bad.append(("program", "native program on %s misbehaved: %r" % (e["node"], {x: e.get(x) for x in ("ok", "outcomes", "error")})))
        elif k == "epr" and not epr_ok(e):
            bad.append(("epr", "create_keep/recv_keep %r: %r" % (e["pair"], e["results"])))
        elif k == "stop":
            stops += 1
            if e["error"]:
                bad.append(("stop-error", "stop() raised " + e["error"]))
            if any(e["alive"]) or not e["all_dead"]:
                bad.append(("stop-leaves-process", "after stop(): is_alive=%r, OS says alive=%r" % (e["alive"], e["os_alive"])))
            busy = [x for x, v in e["ports"].items() if (v["connectable"] or not v["listen_again"]) and x not in held_by_harness]
            if busy:
                bad.append(("port-not-freed", "after stop() these ports cannot be listened on again: %r" % busy))
            if e["running_property"]:
                bad.append(("running-after-stop", "Network.running is still True after stop() although every process is gone"))
        elif k == "occupy":
            held_by_harness.add("%s/%s" % (e["node"], e["kind"]))
        elif k == "release":
            held_by_harness.clear()
        elif k == "reopen" and (e["processes"] != 2 * n or not e["same_config"]):
            bad.append(("reopen", "Network(new=False) on the written configuration: %r" % e))
        elif k == "cleanup" and e["leftover"] and last == "stop":
            bad.append(("stop-leaves-process", "processes left after the final stop(): %r" % e["leftover"]))
        last = k
    return bad


def stagger_obs(res):
    """the Model-D view of a staggered run: launches of virtual nodes, check_connections answers, the settled marker"""
    idx = {x: i for i, x in enumerate(res["spec"]["nodes"])}
    obs = []
    for e in res["events"]:
        if e["ev"] == "launch" and e["kind"] == "vnode":
            obs.append(("L", idx[e["node"]]))
        elif e["ev"] == "check":
            obs.append(("C", idx[e["node"]], bool(e["answer"])))
        elif e["ev"] == "settled":
            obs.append(("S",))
    return obs


def judge_stagger(res):
    bad = []
    nodes = res["spec"]["nodes"]
    n = len(nodes)
    if res["hung"]:
        bad.append(("hang", "the staggered scenario did not finish within its time limit"))
    if res["error"] and not res["hung"]:
        bad.append(("driver-error", "driver failed: " + res["error"][-300:]))
    launched, seen_true, settled, finals = set(), set(), False, {}
    for e in res["events"]:
        k = e["ev"]
        if k == "launch" and e["kind"] == "vnode":
            launched.add(e["node"])
        elif k == "check":
            if e["answer"]:
                if len(launched) < n:
                    bad.append(("premature-true", "%s reported all connections up while only %r had been launched" % (e["node"], sorted(launched))))
                seen_true.add(e["node"])
            else:
                if e["node"] in seen_true:
                    bad.append(("not-stable", "%s reported False after having reported True" % e["node"]))
                if n == 1:
                    bad.append(("single-node-false", "the only node of a one-node network reported False"))
                if settled:
                    bad.append(("never-connected", "%s still reports False after every node is up and %s" % (e["node"], "4 retry intervals passed")))
            if settled:
                finals[e["node"]] = finals.get(e["node"], True) and bool(e["answer"])
        elif k == "settled":
            settled = True
            if not e["ports"]:
                bad.append(("not-ready", "a launched process never accepted connections: %r" % e["alive"]))
            if not all(e["alive"].values()):
                bad.append(("ready-but-dead", "a launched process died: %r" % e["alive"]))
        elif k == "program" and not program_ok(e):
            bad.append(("program", "native program on %s misbehaved: %r" % (e["node"], {x: e.get(x) for x in ("ok", "outcomes", "error")})))
        elif k == "epr" and not epr_ok(e):
            bad.append(("epr", "create_keep/recv_keep %r: %r" % (e["pair"], e["results"])))
        elif k == "early_send":
            r_, g_ = e["result"], e["received"]
            if not r_.get("ok"):
                bad.append(("early-program", "a send from %s to %s issued before %s's virtual node was launched did not wait for the connection: %s (after %s s)"
                            % (e["src"], e["dst"], e["dst"], r_.get("error"), r_.get("took"))))
            elif not (g_ and g_.get("ok") and g_.get("outcome") == 1):
                bad.append(("early-program", "the qubit sent from %s to %s before %s was up did not arrive as |1>: %r" % (e["src"], e["dst"], e["dst"], g_)))
        elif k == "terminated":
            if any(v is None for v in e["exit"].values()):
                bad.append(("stop-leaves-process", "SIGTERM did not end: %r" % [x for x, v in e["exit"].items() if v is None]))
            busy = [x for x, v in e["ports"].items() if v["connectable"] or not v["listen_again"]]
            if busy:
                bad.append(("port-not-freed", "after termination these ports cannot be listened on again: %r" % busy))
    if settled and set(finals) != set(nodes):
        bad.append(("never-connected", "no final answer from %r" % sorted(set(nodes) - set(finals))))
    if not settled and not res["hung"] and not res["error"]:
        bad.append(("not-ready", "the run never settled"))
    return bad


# ---------------------------------------------------------------------------------------------------------------------
# Coq cases
# ---------------------------------------------------------------------------------------------------------------------
def life_case(res):
    n = len(res["spec"]["nodes"])
    steps = []
    for e in res["events"]:
        if e["ev"] == "start":
            steps.append("(Start, %s, %s)" % (common.cblist(e["alive"]), common.cbool(e["running_flag"])))
        elif e["ev"] == "stop":
            flags = list(e["alive"])
            if len(e["os_alive"]) == len(flags):          # what the OS says about the same processes counts as well
                flags = [a or o for a, o in zip(flags, e["os_alive"])]
            steps.append("(Stop, %s, %s)" % (common.cblist(flags), common.cbool(e["running_flag"])))
    return "CLife %d %s" % (n, common.clist(steps)), len(steps)


def stagger_case(res):
    items = []
    for o in stagger_obs(res):
        if o[0] == "L":
            items.append("OLaunch %d" % o[1])
        elif o[0] == "C":
            items.append("OCheck %d %s" % (o[1], common.cbool(o[2])))
        else:
            items.append("OSettled")
    return "CStagger %d %s" % (len(res["spec"]["nodes"]), common.clist(items)), len(items)


def cases_text(cases):
    return (common.CASE_HEADER + "From SQ Require Import Base.ListUtil Deploy.Model Deploy.Procs Deploy.Cases.\n"
            "Definition cases : list dcase := [\n" + ";\n".join(cases) + "\n].\nEval vm_compute in failing_cases cases.\n")


# ---------------------------------------------------------------------------------------------------------------------
def summarize(res):
    """compact replay / sample object"""
    keep = []
    for e in res["events"]:
        e = dict(e)
        for k in ("polls", "first", "stderr"):
            e.pop(k, None)
        keep.append(e)
    return {"scenario": res["sid"], "spec": {k: res["spec"][k] for k in ("kind", "nodes", "steps")}, "hung": res["hung"],
            "error": res["error"], "events": keep, "stderr_tail": res.get("stderr_tail", "")[-400:]}


def run(ctx):
    thorough = ctx.tier == "thorough"
    ctx.assumptions += ASSUMPTIONS
    ctx.trusted += [
        "harness/deploy_child.py + harness/props/c20.py: the H-real driver (records process liveness from multiprocessing and /proc, TCP "
        "connectability, bind/listen probes, Perspective-Broker answers of the virtual nodes, outcomes of SDK applications)",
        "the operating system (process creation and death, signal delivery, TCP on localhost), Twisted, multiprocessing, netqasm: not modelled",
        "Deploy/Cases.v: the judge that maps observations to Model D (self-tested by judge_accepts / judge_rejects)",
    ]
    ctx.rule = ("one evaluation = one observed step of a real deployment (start, readiness poll, native program on a node, create_keep/recv_keep, "
                "stop, launch of a node process, check_connections answer); non-trivial = the step involves at least one live process; distinct = "
                "distinct (scenario, step index); scenarios: Network start/stop/start histories on %s nodes with and without waiting, a stop racing "
                "a start, a second Network object on the written configuration, and staggered manual launches of vnode/qnodeos processes in random order"
                % ("1..5" if thorough else "1..3"))
    common.check_properties_file(ctx)
    before = repo_config_fingerprint()
    if not prepare_scratch(ctx):
        return
    ports = Ports(ctx.seed)
    if ctx.replay:
        # re-run exactly the recorded scenario (fresh ports, same nodes and steps)
        rp = json.load(open(ctx.replay))["replay"]
        sp = rp.get("spec") if isinstance(rp, dict) else None
        if sp is None:
            # a witness of one of the fixed in-process parts (late connection): they are re-run in full together with the standard scenarios
            scen = build_scenarios(ctx, ports)
        else:
            n = len(sp["nodes"])
            spec = {"kind": sp["kind"], "name": "default", "nodes": sp["nodes"], "topology": None,
                    "ports": ports.pool(3 * n + 6), "steps": sp.get("steps", []), "limits": LIMITS}
            for k in ("behaviour", "user_settings"):
                if k in sp:
                    spec[k] = sp[k]
            if sp["kind"] == "fakestop" and "behaviour" not in spec:
                spec["behaviour"] = next(e["behaviour"] for e in rp.get("events", []) if e.get("ev") == "fakestop")
            scen = [(rp.get("scenario", "replay"), spec)]
    else:
        scen = build_scenarios(ctx, ports)
    per_timeout = 420 if thorough else 150
    t0 = time.time()
    with ThreadPoolExecutor(max_workers=4 if thorough else 4) as ex:
        results = list(ex.map(lambda s: run_scenario(ctx, s[0], s[1], per_timeout), scen))
    ctx.coverage["scenario_wall_s"] = {r["sid"]: r["wall"] for r in results}
    ctx.coverage["deployment_wall_s"] = round(time.time() - t0, 1)

    # ---- hygiene of the check itself --------------------------------------------------------------------------------
    stay = [(r["sid"], r["still_there_after_kill"]) for r in results if r["still_there_after_kill"]]
    ctx.obligation("no process of any scenario is left on the machine", not stay, repr(stay))
    after = repo_config_fingerprint()
    # informational only: other jobs on this machine (the repository's own test-suite) rewrite these git-ignored files at any time, so a
    # change during the run cannot be attributed; what IS guaranteed is the obligation above (every path the children use is in the scratch area)
    ctx.coverage["repo_config_dir_changed_during_run(informational)"] = before != after

    # ---- coverage, Coq cases -----------------------------------------------------------------------------------------
    cases, descr = [], []
    problems = []
    strict_busy = 0
    for r in results:
        steps = [e for e in r["events"] if e["ev"] in ("start", "ready", "program", "epr", "stop", "reopen", "launch", "check", "terminated", "early_send")]
        for i, e in enumerate(steps):
            ctx.case((r["sid"], i), nontrivial=True)
            ctx.count("step_" + e["ev"])
            if e["ev"] == "early_send" and e["result"].get("ok"):
                ctx.count("early_send_waited_s_x100", int(100 * e["result"]["took"]))
            if e["ev"] in ("stop", "terminated"):
                strict_busy += sum(1 for v in e["ports"].values() if not v["strict_bind"])
        ctx.count("nodes_%d" % len(r["spec"]["nodes"]))
        if r["spec"]["kind"] == "fakestop":
            bad = []
            if r["hung"] or r["error"]:
                bad.append(("driver-error", "fakestop scenario: hung=%r error=%s" % (r["hung"], (r["error"] or "")[-300:])))
            for e in r["events"]:
                if e["ev"] == "fakestop":
                    ctx.count("fakestop_runs")
                    ctx.count("fakestop_virtual_seconds_x100", int(100 * e["fake_seconds"]))
                    if e["alive_after_stop"]:
                        bad.append(("stop-leaves-process", "Network.stop() returned while %r were still alive (stand-in processes needing %r (signals, seconds) "
                                    "to go down; signals sent %r)" % (e["alive_after_stop"], e["behaviour"], e["signals"])))
            if not any(e["ev"] == "fakestop" for e in r["events"]) and not bad:
                bad.append(("driver-error", "fakestop scenario produced no observation"))
            cases.append("CLife %d []" % len(r["spec"]["nodes"]))          # keeps cases / descr / problems aligned (no start/stop events to compare)
            descr.append(r)
            problems.append(bad)
            continue
        if r["spec"]["kind"] == "network":
            txt, k = life_case(r)
            bad = judge_network(r)
        else:
            txt, k = stagger_case(r)
            bad = judge_stagger(r)
            obs = stagger_obs(r)
            ctx.count("stagger_answers_false", sum(1 for o in obs if o[0] == "C" and not o[2]))
            ctx.count("stagger_answers_true", sum(1 for o in obs if o[0] == "C" and o[2]))
        cases.append(txt)
        descr.append(r)
        if r["survivors"]:
            bad.append(("survivors", "processes of the scenario outlived its driver: %r" % r["survivors"]))
        problems.append(bad)
    ctx.coverage["ports_in_TIME_WAIT_after_stop(strict bind refused, informational)"] = strict_busy
    for r in results[:1] + results[-1:]:
        ctx.sample(summarize(r))

    # ---- in process: an operation that needs a connection which is not up yet (programs run without waiting for readiness) ----------------
    import logging
    import late_conn
    import net_sync
    logging.disable(logging.CRITICAL)
    env_l = net_sync.setup()
    late_bad = []
    for variant in (0, 1, 2):
        late_bad += ["variant %d: %s" % (variant, p_) for p_ in late_conn.run(env_l, variant)]
        ctx.count("late_connection_programs")
        ctx.case(("late-connection", variant), nontrivial=True)
    logging.disable(logging.NOTSET)
    ctx.obligation("a two-qubit gate whose register pull must inform a node that is not connected yet waits for the connection and leaves consistent bookkeeping "
                   "(in process, 3 variants)", not late_bad, "; ".join(late_bad)[:600])
    if late_bad:
        ctx.report("C20:late-connection", late_bad[0], {"scenario": "harness/late_conn.py", "problems": late_bad}, found_input=True)

    ok, out = common.coq_eval(cases_text(cases))
    lists = common.parse_nat_lists(out) if ok else []
    failing = lists[0] if ok and len(lists) == 1 else None
    ctx.obligation("correspondence evaluates in Coq", failing is not None, out)
    ctx.obligation("correspondence Model D = real deployment on %d scenarios (process liveness after every start/stop; "
                   "check_connections answers on the recorded launch order)" % len(cases),
                   failing == [], "disagreeing scenarios: %r" % [descr[i]["sid"] for i in (failing or [])])
    nbad = sum(1 for b in problems if b)
    ctx.obligation("oracle (property statement on the observations): every scenario behaves as C20 says", nbad == 0,
                   "; ".join("%s: %s" % (descr[i]["sid"], problems[i][0][1]) for i in range(len(descr)) if problems[i])[:900])

    # ---- verdicts ---------------------------------------------------------------------------------------------------------
    reported = set()
    for r, bad in sorted(zip(descr, problems), key=lambda x: len(x[0]["spec"]["nodes"])):   # smallest network first
        for key, what in bad:
            if key in reported:
                continue
            reported.add(key)
            ctx.report("C20:" + key, what, summarize(r), found_input=True)
    if failing and not reported:
        r = descr[failing[0]]
        ctx.report("C20:model-disagrees", "observations of scenario %s are impossible in Model D" % r["sid"], summarize(r), found_input=True)
