(* C18 — settings persist across processes with the documented precedence.
   Only statements, each closed by `exact`, each followed by Print Assumptions.  Model: Settings/Model.v
   (store file, user file, one cache per process; Spawn / SetK / Reset / Reload / Exit as settings.py does them);
   proofs: Settings/Facts.v, Settings/Theorems.v; satisfiability of the hypotheses and the two remarks:
   Settings/Examples.v.  `dflt` is Config._default_config (any dictionary without duplicate keys),
   `st0` / `u` are the initial store file and the user's file (absent = None). *)
From Coq Require Import List String ZArith Bool Arith.
From SQ Require Import Base.ListUtil Settings.Model Settings.Facts Settings.Theorems Settings.Examples.
Import ListNotations.
Local Open Scope string_scope.

(* Clause 1.  After ANY single-writer history h1, a live process p sets k := v; after ANY single-writer continuation
   h2 in which nobody sets k again or resets, every process started later reads v for k — unless the user's
   override file sets that key. *)
Theorem C18_set_then_spawn : forall dflt, wf dflt -> forall st0 u h1 p k v h2,
  optwf st0 -> optwf u ->
  let s0 := run dflt (init st0 u) h1 in
  disciplined dflt (init st0 u) (h1 ++ SetK p k v :: h2) = true ->
  cache_of (procs s0) p <> None ->
  forallb (fun o => negb (writes_key k o)) h2 = true ->
  user_has s0 k = false ->
  let s2 := run dflt s0 (SetK p k v :: h2) in
  fresh_read dflt s2 k = Some v /\
  forall q, exists c, cache_of (procs (step dflt s2 (Spawn q))) q = Some c /\ lookup c k = Some v.
Proof. exact set_then_spawn_lemma. Qed.
Print Assumptions C18_set_then_spawn.

(* Clause 2.  After ANY history (single-writer or not), a reset by a live process leaves every documented
   default in the store file ... *)
Theorem C18_reset_defaults : forall dflt, wf dflt -> forall st0 u h p,
  let s := run dflt (init st0 u) h in
  cache_of (procs s) p <> None ->
  exists sd, store (step dflt s (Reset p)) = Some sd /\
             forall k d, lookup dflt k = Some d -> lookup sd k = Some d.
Proof. exact reset_defaults_lemma. Qed.
Print Assumptions C18_reset_defaults.

(* ... and in single-writer histories every process started later reads that default until the key is written again *)
Theorem C18_reset_then_spawn : forall dflt, wf dflt -> forall st0 u h1 p k d h2,
  optwf st0 -> optwf u ->
  let s0 := run dflt (init st0 u) h1 in
  disciplined dflt (init st0 u) (h1 ++ Reset p :: h2) = true ->
  cache_of (procs s0) p <> None ->
  lookup dflt k = Some d ->
  forallb (fun o => negb (writes_key k o)) h2 = true ->
  user_has s0 k = false ->
  fresh_read dflt (run dflt s0 (Reset p :: h2)) k = Some d.
Proof. exact reset_then_spawn_lemma. Qed.
Print Assumptions C18_reset_then_spawn.

(* Clause 3.  After ANY history, whenever user overrides are enabled (the stored / default `_read_user` is truthy),
   a process started now reads the user's value for every key of the user's file. *)
Theorem C18_user_precedence : forall dflt, wf dflt -> forall st0 u h ud k v,
  optwf st0 -> optwf u ->
  let s := run dflt (init st0 u) h in
  overrides_enabled dflt s = true ->
  u = Some ud -> lookup ud k = Some v ->
  fresh_read dflt s k = Some v /\
  forall q, exists c, cache_of (procs (step dflt s (Spawn q))) q = Some c /\ lookup c k = Some v.
Proof. exact user_precedence_lemma. Qed.
Print Assumptions C18_user_precedence.

Theorem C18_user_ignored_when_disabled : forall dflt, wf dflt -> forall st0 u h k,
  optwf st0 -> optwf u ->
  let s := run dflt (init st0 u) h in
  overrides_enabled dflt s = false -> fresh_read dflt s k = eff_store dflt s k.
Proof. exact user_ignored_lemma. Qed.
Print Assumptions C18_user_ignored_when_disabled.

(* Remark (witness, not a finding): two long-lived writers lose an update; the history is not single-writer. *)
Theorem C18_remark_lost_update :
  disciplined dflt0 (init None None) lost_update_history = false /\
  fresh_read dflt0 (run dflt0 (init None None) [Spawn 1; Spawn 2; SetK 1 "max_qubits" (VInt 7)]) "max_qubits" = Some (VInt 7) /\
  fresh_read dflt0 (run dflt0 (init None None) lost_update_history) "max_qubits" = Some (VInt 20).
Proof. exact lost_update_witness. Qed.
Print Assumptions C18_remark_lost_update.
