(* Handle ids: unique, below next_hid, never reused.  Hence a handle whose qubit left its node is stale for ever. *)
From Coq Require Import List Bool Arith Lia Permutation.
From SQ Require Import Base.ListUtil Stab.Tableau Net.Model Net.Refusal.
Import ListNotations.

Definition hn (nd : node) : list nat := map v_hid (virt nd).
Definition hids (s : net) : list nat := flat_map hn (nodes s).

Definition hid_inv (s : net) : Prop := NoDup (hids s) /\ Forall (fun h => h < next_hid s) (hids s).

(* ---- find_handle vs membership ---------------------------------------------------------------------- *)
Lemma find_vq_none h l : find_vq h l = None <-> ~ In h (map v_hid l).
Proof.
  induction l as [|q t IH]; simpl; [tauto|].
  destruct (Nat.eqb_spec (v_hid q) h); split; intro H; try discriminate.
  - exfalso; apply H; auto.
  - intros [E|E]; [contradiction|]. apply IH in H. contradiction.
  - apply IH. intro E; apply H; auto.
Qed.

Lemma find_vq_some h l q : find_vq h l = Some q -> In q l /\ v_hid q = h.
Proof.
  induction l as [|a t IH]; simpl; [discriminate|].
  destruct (Nat.eqb_spec (v_hid a) h); intro H.
  - inversion H; subst; auto.
  - apply IH in H. tauto.
Qed.

Lemma find_handle_from_none i h l : find_handle_from i h l = None <-> ~ In h (flat_map hn l).
Proof.
  revert i; induction l as [|nd t IH]; intros i; simpl; [tauto|].
  destruct (find_vq h (virt nd)) eqn:E.
  - split; [discriminate|]. intro H; exfalso; apply H. apply in_or_app; left.
    apply find_vq_some in E as [E1 E2]. unfold hn. rewrite <- E2. apply in_map; auto.
  - apply find_vq_none in E. rewrite (IH (S i)). rewrite in_app_iff. unfold hn at 1. tauto.
Qed.

Lemma stale_iff s h : stale s h <-> ~ In h (hids s).
Proof. apply find_handle_from_none. Qed.

Lemma find_handle_from_some i h l vi q :
  find_handle_from i h l = Some (vi, q) ->
  i <= vi /\ vi - i < length l /\ In q (virt (nth (vi - i) l (empty_node 0 0))) /\ v_hid q = h.
Proof.
  revert i; induction l as [|nd t IH]; intros i; simpl; [discriminate|].
  destruct (find_vq h (virt nd)) eqn:E.
  - intro H; inversion H; subst. apply find_vq_some in E as [E1 E2].
    rewrite Nat.sub_diag. repeat split; auto; lia.
  - intro H. apply IH in H as (H1 & H2 & H3 & H4).
    replace (vi - i) with (S (vi - S i)) by lia. repeat split; auto; lia.
Qed.

Lemma find_handle_some s h vi q :
  find_handle s h = Some (vi, q) -> vi < length (nodes s) /\ In q (virt (nth_node s vi)) /\ v_hid q = h.
Proof.
  intro H. apply find_handle_from_some in H as (H1 & H2 & H3 & H4).
  rewrite Nat.sub_0_r in *. unfold nth_node. auto.
Qed.

(* ---- hids under node replacement ------------------------------------------------------------------------ *)
Lemma flat_map_upd {A B} (f : A -> list B) l i x d : i < length l ->
  flat_map f (upd l i x) = flat_map f (firstn i l) ++ f x ++ flat_map f (skipn (S i) l) /\
  flat_map f l = flat_map f (firstn i l) ++ f (nth i l d) ++ flat_map f (skipn (S i) l).
Proof.
  revert i; induction l as [|a t IH]; intros [|i] H; simpl in *; try lia.
  - split; reflexivity.
  - destruct (IH i) as [E1 E2]; [lia|]. rewrite E1. rewrite E2 at 1. rewrite <- !app_assoc. split; reflexivity.
Qed.

Lemma upd_overflow {A} (l : list A) i x : length l <= i -> upd l i x = l.
Proof. revert i; induction l as [|a t IH]; intros [|i] H; simpl in *; auto; try lia. f_equal; apply IH; lia. Qed.

Lemma hids_set_same s i nd : hn nd = hn (nth_node s i) -> hids (set_node s i nd) = hids s.
Proof.
  intro H. unfold hids, set_node; simpl.
  destruct (Nat.ltb_spec i (length (nodes s))).
  - destruct (flat_map_upd hn (nodes s) i nd (empty_node 0 0)) as [E1 E2]; auto.
    rewrite E1, E2. fold (nth_node s i). rewrite H. reflexivity.
  - rewrite upd_overflow; auto.
Qed.

Definition hkeeps (f : net -> net) : Prop := forall s, hids (f s) = hids s /\ next_hid (f s) = next_hid s.

Lemma update_reg_at_hkeeps ni r : hkeeps (fun s => update_reg_at s ni r).
Proof. intros s; unfold update_reg_at; split; [apply hids_set_same|]; reflexivity. Qed.

Lemma remove_sim_hkeeps ni x r c : hkeeps (fun s => remove_sim s ni x r c).
Proof.
  intros s; unfold remove_sim. destruct (measure _ _ _ _ _) as [[o n'] t'].
  split; [apply hids_set_same|]; destruct (Nat.eqb n' 0); reflexivity.
Qed.

Lemma local_merge_hkeeps ni k1 k2 : hkeeps (fun s => local_merge s ni k1 k2).
Proof.
  intros s; unfold local_merge.
  destruct (find_reg k1 _) as [r1|]; [|split; auto].
  destruct (find_reg k2 _) as [r2|]; [|split; auto].
  split; [apply hids_set_same|]; reflexivity.
Qed.

Lemma apply_gate2_at_hkeeps ni k g c t : hkeeps (fun s => apply_gate2_at s ni k g c t).
Proof.
  intros s; unfold apply_gate2_at. destruct (find_reg k _) as [r|]; [|split; auto].
  apply update_reg_at_hkeeps.
Qed.

Lemma merge_from_hkeeps li oi simNum lk : hkeeps (fun s => fst (merge_from s li oi simNum lk)).
Proof.
  intros s; unfold merge_from.
  destruct (find_sq simNum _) as [x|]; [|split; auto].
  destruct (find_reg (s_reg x) _) as [orr|]; [|split; auto].
  set (on1 := mkNode _ _ _ _ _ _ _).
  set (s1 := set_node s oi on1).
  destruct (find_reg lk (regs (nth_node s1 li))) as [lr|]; [|split; auto].
  destruct (alloc_sims _ _ _ _) as [sims' ids]. cbn [fst].
  set (ln1 := mkNode _ _ _ _ _ _ _).
  assert (E1 : hids s1 = hids s) by (apply hids_set_same; reflexivity).
  assert (E2 : hids (set_node s1 li ln1) = hids s1) by (apply hids_set_same; reflexivity).
  split; [|reflexivity].
  rewrite <- E1, <- E2. unfold hids; cbn [nodes].
  generalize (nodes (set_node s1 li ln1)) as l. induction l as [|nd t IH]; simpl; auto.
  rewrite IH. f_equal. unfold hn; simpl. rewrite map_map. apply map_ext.
  intros q. destruct (Nat.eqb _ _); auto. destruct (find_sq _ _); auto.
Qed.

Lemma hkeeps_compose f g : hkeeps f -> hkeeps g -> hkeeps (fun s => g (f s)).
Proof.
  intros Hf Hg s. destruct (Hf s) as [A B]. destruct (Hg (f s)) as [C D]. split; congruence.
Qed.

(* ---- adding / removing a handle ---------------------------------------------------------------------------- *)
Lemma hids_add s i nd q : i < length (nodes s) -> virt nd = virt (nth_node s i) ++ [q] ->
  Permutation (hids (set_node s i nd)) (v_hid q :: hids s).
Proof.
  intros Hi Hv. unfold hids, set_node; simpl.
  destruct (flat_map_upd hn (nodes s) i nd (empty_node 0 0)) as [E1 E2]; auto.
  rewrite E1, E2. fold (nth_node s i). unfold hn at 2. rewrite Hv, map_app. simpl.
  fold (hn (nth_node s i)).
  rewrite <- app_assoc. simpl.
  apply Permutation_sym. 
  rewrite app_assoc. rewrite (app_assoc (flat_map hn (firstn i (nodes s)))).
  apply Permutation_cons_app. rewrite <- app_assoc. apply Permutation_refl.
Qed.

Lemma NoDup_app_iff {A} (a b : list A) :
  NoDup (a ++ b) <-> NoDup a /\ NoDup b /\ (forall x, In x a -> In x b -> False).
Proof.
  induction a as [|x a IH]; simpl.
  - split; [intros H; repeat split; auto; constructor | tauto].
  - split.
    + intros H; inversion H; subst. apply IH in H3 as (H3 & H4 & H5).
      repeat split; auto.
      * constructor; auto. intro; apply H2; apply in_or_app; auto.
      * intros y [->|Hy] Hb; [apply H2; apply in_or_app; auto | eapply H5; eauto].
    + intros (H1 & H2 & H3). inversion H1; subst. constructor.
      * rewrite in_app_iff. intros [E|E]; [contradiction | eapply H3; eauto].
      * apply IH; repeat split; auto. intros; eapply H3; eauto.
Qed.

Lemma hids_remove s i h :
  hid_inv s -> hid_inv (set_node s i (with_virt (nth_node s i) (remove_vq h (virt (nth_node s i))))) /\
  (In h (hn (nth_node s i)) -> ~ In h (hids (set_node s i (with_virt (nth_node s i) (remove_vq h (virt (nth_node s i))))))) /\
  incl (hids (set_node s i (with_virt (nth_node s i) (remove_vq h (virt (nth_node s i)))))) (hids s).
Proof.
  intros [Hn Hb].
  set (nd := with_virt _ _).
  destruct (Nat.ltb_spec i (length (nodes s))) as [Hi|Hi].
  - assert (Ehn : hn nd = filter (fun x => negb (Nat.eqb x h)) (hn (nth_node s i))).
    { unfold nd, hn, remove_vq; simpl. generalize (virt (nth_node s i)) as l.
      induction l as [|q t IH]; simpl; auto. destruct (Nat.eqb (v_hid q) h); simpl; congruence. }
    destruct (flat_map_upd hn (nodes s) i nd (empty_node 0 0)) as [E1 E2]; auto.
    fold (nth_node s i) in E2.
    assert (E1' : hids (set_node s i nd) = flat_map hn (firstn i (nodes s)) ++ hn nd ++ flat_map hn (skipn (S i) (nodes s))) by exact E1.
    assert (E2' : hids s = flat_map hn (firstn i (nodes s)) ++ hn (nth_node s i) ++ flat_map hn (skipn (S i) (nodes s))) by exact E2.
    set (A := flat_map hn (firstn i (nodes s))) in *. set (C := flat_map hn (skipn (S i) (nodes s))) in *.
    set (B := hn (nth_node s i)) in *.
    assert (Hincl : incl (hn nd) B).
    { rewrite Ehn. intros z Hz. apply filter_In in Hz; tauto. }
    unfold hid_inv. rewrite E1'. rewrite E2' in Hn, Hb.
    apply NoDup_app_iff in Hn as (NA & NBC & DA). apply NoDup_app_iff in NBC as (NB & NC & DB).
    repeat split.
    + apply NoDup_app_iff; repeat split; auto.
      * apply NoDup_app_iff; repeat split; auto.
        -- rewrite Ehn. apply NoDup_filter; auto.
        -- intros x Hx Hc. apply (DB x); auto.
      * intros x Hx Hc. apply (DA x); auto. rewrite in_app_iff in *. destruct Hc; auto.
    + rewrite Forall_forall in *. intros z Hz. apply Hb. rewrite !in_app_iff in *.
      destruct Hz as [Hz|[Hz|Hz]]; auto.
    + intros Hin Hc. rewrite !in_app_iff in Hc. destruct Hc as [Hc|[Hc|Hc]].
      * apply (DA h); auto. apply in_or_app; auto.
      * rewrite Ehn in Hc. apply filter_In in Hc as [_ Hc]. rewrite Nat.eqb_refl in Hc. discriminate.
      * apply (DB h); auto.
    + rewrite E2'. intros z Hz. rewrite !in_app_iff in *. destruct Hz as [Hz|[Hz|Hz]]; auto.
  - assert (E : set_node s i nd = s).
    { unfold set_node. rewrite upd_overflow; auto. destruct s; reflexivity. }
    rewrite E. repeat split; auto; try apply incl_refl.
    all: try (intros Hin; unfold nth_node in Hin; rewrite nth_overflow in Hin; auto; simpl in Hin; contradiction).
Qed.

(* ---- the invariant over every step --------------------------------------------------------------------------- *)
Lemma hid_inv_hkeeps f s : hkeeps f -> hid_inv s -> hid_inv (f s).
Proof. intros H [A B]. destruct (H s) as [E1 E2]. unfold hid_inv. rewrite E1, E2. auto. Qed.

Lemma hid_inv_add s i nd q : i < length (nodes s) -> virt nd = virt (nth_node s i) ++ [q] -> v_hid q = next_hid s ->
  hid_inv s -> hid_inv (mkNet (upd (nodes s) i nd) (S (next_hid s))).
Proof.
  intros Hi Hv Hq [A B].
  pose proof (hids_add s i nd q Hi Hv) as P. unfold set_node in P.
  unfold hid_inv. 
  assert (EQ : hids (mkNet (upd (nodes s) i nd) (S (next_hid s))) = hids (mkNet (upd (nodes s) i nd) (next_hid s))) by reflexivity.
  rewrite EQ. split.
  - eapply Permutation_NoDup; [apply Permutation_sym; exact P|]. constructor; auto.
    rewrite Hq. intro Hin. rewrite Forall_forall in B. apply B in Hin. lia.
  - eapply Permutation_Forall; [apply Permutation_sym; exact P|]. simpl. constructor; [lia|].
    eapply Forall_impl; [|exact B]. simpl; intros; lia.
Qed.

Lemma step_hid_inv s o : hid_inv s ->
  hid_inv (fst (step s o)) /\ next_hid s <= next_hid (fst (step s o)) /\
  incl (hids (fst (step s o))) (hids s ++ seq (next_hid s) (next_hid (fst (step s o)) - next_hid s)).
Proof.
  intros HI.
  assert (TRIV : hid_inv s /\ next_hid s <= next_hid s /\ incl (hids s) (hids s ++ seq (next_hid s) (next_hid s - next_hid s))).
  { split; [exact HI|]. split; [lia|]. rewrite Nat.sub_diag; simpl. rewrite app_nil_r. apply incl_refl. }
  assert (HK : forall f, hkeeps f -> hid_inv (f s) /\ next_hid s <= next_hid (f s) /\
                                     incl (hids (f s)) (hids s ++ seq (next_hid s) (next_hid (f s) - next_hid s))).
  { intros f Hf. destruct (Hf s) as [E1 E2]. split; [|split].
    - apply hid_inv_hkeeps; auto.
    - lia.
    - rewrite E1, E2, Nat.sub_diag; simpl. rewrite app_nil_r. apply incl_refl. }
  destruct o; simpl.
  - (* new *)
    destruct (Nat.ltb_spec n (length (nodes s))); [|simpl; auto].
    unfold op_new. destruct (Nat.leb _ _); [simpl; auto|].
    unfold add_register. destruct (Nat.leb _ _); [simpl; auto|]. cbn [fst].
    match goal with |- hid_inv (mkNet (upd _ _ ?nd) _) /\ _ => set (nd4 := nd) end.
    set (q := mkVq (next_hid s) _ n _ _) in *.
    assert (Hv : virt nd4 = virt (nth_node s n) ++ [q]) by reflexivity.
    split; [|split].
    + apply hid_inv_add with (q := q); auto.
    + simpl; lia.
    + match goal with |- context [?a - next_hid s] => replace (a - next_hid s) with 1 by (unfold set_node; cbn [next_hid]; try unfold s1; cbn [next_hid]; lia) end. cbn [seq].
      pose proof (hids_add s n nd4 q H Hv) as P. unfold set_node in P.
      intros z Hz.
      assert (Hz' : In z (hids (mkNet (upd (nodes s) n nd4) (next_hid s)))) by exact Hz.
      eapply Permutation_in in Hz'; [|exact P]. rewrite in_app_iff. apply in_inv in Hz'. destruct Hz' as [E|E]; [right; simpl; left; exact E|left; exact E].
  - (* gate1 *)
    unfold op_gate1. destruct (find_handle s h) as [[vi q]|]; [|simpl; auto].
    destruct (locate s q) as [[x r]|]; [|simpl; auto].
    destruct (gate1_of g); simpl; auto. apply (HK _ (update_reg_at_hkeeps _ _)).
  - (* gate2 *)
    unfold op_gate2.
    destruct (find_handle s h1) as [[vi q1]|]; [|simpl; auto].
    destruct (find_handle s h2) as [[vi2 q2]|]; [|simpl; auto].
    destruct (negb _); [simpl; auto|].
    destruct (Nat.eqb (v_simNode q1) (v_simNode q2)).
    + destruct (pos_of s _ (v_simNum q1)) as [k1 p1]. destruct (pos_of s _ (v_simNum q2)) as [k2 p2].
      destruct (Nat.eqb k1 k2).
      * destruct (Nat.eqb p1 p2); simpl; auto. apply (HK _ (apply_gate2_at_hkeeps _ _ _ _ _)).
      * destruct (pos_of _ _ _) as [a b]. destruct (pos_of _ _ _) as [a' b']. cbn [fst].
        apply (HK _ (hkeeps_compose _ _ (local_merge_hkeeps (v_simNode q1) k1 k2) (apply_gate2_at_hkeeps (v_simNode q1) k1 g b b'))).
    + destruct (Nat.eqb (v_simNode q1) vi).
      * destruct (pos_of _ _ _) as [k1 x].
        pose proof (merge_from_hkeeps vi (v_simNode q2) (v_simNum q2) k1) as HM.
        destruct (merge_from _ _ _ _ _) as [s1 newT] eqn:EM.
        destruct (pos_of _ _ _) as [a b]. destruct (pos_of _ _ _) as [a' b']. cbn [fst].
        assert (HC : hkeeps (fun s0 => apply_gate2_at (fst (merge_from s0 vi (v_simNode q2) (v_simNum q2) k1)) vi k1 g b b')).
        { apply (hkeeps_compose _ _ HM (apply_gate2_at_hkeeps vi k1 g b b')). }
        specialize (HK _ HC). cbv beta in HK. rewrite EM in HK. exact HK.
      * destruct (Nat.eqb (v_simNode q2) vi).
        -- destruct (pos_of _ _ _) as [k2 x].
           pose proof (merge_from_hkeeps vi (v_simNode q1) (v_simNum q1) k2) as HM.
           destruct (merge_from _ _ _ _ _) as [s1 newC] eqn:EM.
           destruct (pos_of _ _ _) as [a b]. destruct (pos_of _ _ _) as [a' b']. cbn [fst].
           assert (HC : hkeeps (fun s0 => apply_gate2_at (fst (merge_from s0 vi (v_simNode q1) (v_simNum q1) k2)) vi k2 g b b')).
           { apply (hkeeps_compose _ _ HM (apply_gate2_at_hkeeps vi k2 g b b')). }
           specialize (HK _ HC). cbv beta in HK. rewrite EM in HK. exact HK.
        -- unfold add_register_force.
           set (nd1 := mkNode _ _ _ _ _ _ _). set (r := mkReg _ _ _ _ _).
           assert (H0 : hkeeps (fun s0 => set_node s0 vi (mkNode (virt (nth_node s0 vi)) (sims (nth_node s0 vi))
                      (regs (nth_node s0 vi) ++ [mkReg (nextReg (nth_node s0 vi)) 10 0 [] []]) (S (numRegs (nth_node s0 vi)))
                      (S (nextReg (nth_node s0 vi))) (maxQ (nth_node s0 vi)) (maxR (nth_node s0 vi))))).
           { intros s0. split; [apply hids_set_same|]; reflexivity. }
           destruct (merge_from (set_node s vi nd1) _ _ _ _) as [s1 newC] eqn:EM1.
           destruct (merge_from s1 _ _ _ _) as [s2 newT] eqn:EM2.
           destruct (pos_of _ _ _) as [a b]. destruct (pos_of _ _ _) as [a' b']. cbn [fst].
           pose proof (merge_from_hkeeps vi (v_simNode q1) (v_simNum q1) (r_num r)) as HM1.
           pose proof (merge_from_hkeeps vi (v_simNode q2) (v_simNum q2) (r_num r)) as HM2.
           pose proof (hkeeps_compose _ _ (hkeeps_compose _ _ (hkeeps_compose _ _ H0 HM1) HM2) (apply_gate2_at_hkeeps vi (r_num r) g b b')) as HC.
           specialize (HK _ HC). cbv beta in HK. fold nd1 in HK. rewrite EM1 in HK. cbn [fst] in HK. rewrite EM2 in HK. exact HK.
  - (* send *)
    unfold op_send. destruct (find_handle s h) as [[vi q]|] eqn:EF; [|simpl; auto].
    destruct (Nat.leb_spec (length (nodes s)) target); [simpl; auto|].
    destruct (Nat.leb _ _); [simpl; auto|].
    cbn [fst].
    set (tn1 := with_virt _ _). set (s1 := mkNet _ _).
    set (nq := mkVq (next_hid s) _ _ _ _) in *.
    assert (Hv : virt tn1 = virt (nth_node s target) ++ [nq]) by reflexivity.
    assert (I1 : hid_inv s1) by (apply hid_inv_add with (q := nq); auto).
    destruct (hids_remove s1 vi h I1) as (J1 & J2 & J3).
    split; [exact J1|split].
    + simpl; lia.
    + match goal with |- context [?a - next_hid s] => replace (a - next_hid s) with 1 by (unfold set_node; cbn [next_hid]; try unfold s1; cbn [next_hid]; lia) end. cbn [seq].
      intros z Hz. apply J3 in Hz.
      pose proof (hids_add s target tn1 nq H Hv) as P. unfold set_node in P.
      assert (Hz' : In z (hids (mkNet (upd (nodes s) target tn1) (next_hid s)))) by exact Hz.
      eapply Permutation_in in Hz'; [|exact P]. rewrite in_app_iff. apply in_inv in Hz'. destruct Hz' as [E|E]; [right; simpl; left; exact E|left; exact E].
  - (* meas *)
    unfold op_meas. destruct (find_handle s h) as [[vi q]|]; [|simpl; auto].
    destruct (locate s q) as [[x r]|]; [|simpl; auto].
    destruct (measure _ _ _ _ _) as [[o n1] t1].
    set (r1 := reg_with_tab r n1 t1).
    destruct inplace; cbn [fst].
    + apply (HK _ (update_reg_at_hkeeps _ _)).
    + pose proof (hkeeps_compose _ _ (update_reg_at_hkeeps (v_simNode q) r1) (remove_sim_hkeeps (v_simNode q) x r1 coin)) as HC.
      destruct (HK _ HC) as (K1 & K2 & K3). cbv beta in *.
      set (s2 := remove_sim (update_reg_at s (v_simNode q) r1) (v_simNode q) x r1 coin) in *.
      destruct (hids_remove s2 vi h K1) as (J1 & J2 & J3).
      destruct (HC s) as [E1 E2]. cbv beta in E1, E2. fold s2 in E1, E2.
      split; [exact J1|split].
      * simpl. lia.
      * simpl. rewrite E2, Nat.sub_diag; simpl. rewrite app_nil_r. rewrite <- E1. exact J3.
  - (* newreg *)
    destruct (Nat.ltb_spec n (length (nodes s))); [|simpl; auto].
    unfold op_newreg. destruct (Nat.leb _ _); [simpl; auto|]. cbn [fst].
    assert (H0 : hkeeps (fun s0 => set_node s0 n (mkNode (virt (nth_node s0 n)) (sims (nth_node s0 n))
               (regs (nth_node s0 n) ++ [mkReg (nextReg (nth_node s0 n)) maxq 0 [] []]) (S (numRegs (nth_node s0 n)))
               (S (nextReg (nth_node s0 n))) (maxQ (nth_node s0 n)) (maxR (nth_node s0 n))))).
    { intros s0. split; [apply hids_set_same|]; reflexivity. }
    apply (HK _ H0).
  - (* newinreg *)
    destruct (Nat.ltb_spec n (length (nodes s))); [|simpl; auto].
    unfold op_new_inreg. destruct (negb _); [simpl; auto|].
    destruct (Nat.leb _ _); [simpl; auto|].
    destruct (find_reg _ _) as [r|]; [|simpl; auto].
    destruct (Nat.leb _ _); [simpl; auto|]. cbn [fst].
    match goal with |- hid_inv (mkNet (upd _ _ ?nd) _) /\ _ => set (nd4 := nd) end.
    set (q := mkVq (next_hid s) _ n _ _) in *.
    assert (Hv : virt nd4 = virt (nth_node s n) ++ [q]) by reflexivity.
    split; [|split].
    + apply hid_inv_add with (q := q); auto.
    + simpl; lia.
    + match goal with |- context [?a - next_hid s] => replace (a - next_hid s) with 1 by (unfold set_node; cbn [next_hid]; lia) end. cbn [seq].
      pose proof (hids_add s n nd4 q H Hv) as P. unfold set_node in P.
      intros z Hz.
      assert (Hz' : In z (hids (mkNet (upd (nodes s) n nd4) (next_hid s)))) by exact Hz.
      eapply Permutation_in in Hz'; [|exact P]. rewrite in_app_iff. apply in_inv in Hz'. destruct Hz' as [E|E]; [right; simpl; left; exact E|left; exact E].
Qed.

(* after a successful send / destructive measurement the handle is stale *)
Lemma departed_stale s o h v :
  hid_inv s ->
  (exists t, o = OSend h t) \/ (exists c, o = OMeas h false c) ->
  snd (step s o) = Ok v -> stale (fst (step s o)) h.
Proof.
  intros HI [[t ->]|[c ->]] Hok; simpl in *.
  - unfold op_send in *. destruct (find_handle s h) as [[vi q]|] eqn:EF; [|discriminate].
    destruct (Nat.leb_spec (length (nodes s)) t); [discriminate|].
    destruct (Nat.leb _ _); [discriminate|]. cbn [fst].
    set (tn1 := with_virt _ _). set (s1 := mkNet _ _).
    set (nq := mkVq (next_hid s) _ _ _ _) in *.
    assert (Hv : virt tn1 = virt (nth_node s t) ++ [nq]) by reflexivity.
    assert (I1 : hid_inv s1) by (apply hid_inv_add with (q := nq); auto).
    destruct (hids_remove s1 vi h I1) as (J1 & J2 & J3).
    apply stale_iff. apply J2.
    apply find_handle_some in EF as (F1 & F2 & F3).
    (* q is still listed at vi in s1 *)
    unfold hn. rewrite <- F3. apply in_map.
    unfold s1, nth_node; simpl.
    destruct (Nat.eqb_spec t vi) as [->|Hne].
    + rewrite nth_upd_eq by auto. unfold tn1; simpl. apply in_or_app; left. exact F2.
    + rewrite nth_upd_neq by auto. exact F2.
  - unfold op_meas in *. destruct (find_handle s h) as [[vi q]|] eqn:EF; [|discriminate].
    destruct (locate s q) as [[x r]|]; [|discriminate].
    destruct (measure _ _ _ _ _) as [[o n1] t1]. cbn [fst].
    set (r1 := reg_with_tab r n1 t1).
    pose proof (hkeeps_compose _ _ (update_reg_at_hkeeps (v_simNode q) r1) (remove_sim_hkeeps (v_simNode q) x r1 c)) as HC.
    set (s2 := remove_sim (update_reg_at s (v_simNode q) r1) (v_simNode q) x r1 c) in *.
    assert (K1 : hid_inv s2) by (apply (hid_inv_hkeeps _ s HC HI)).
    destruct (hids_remove s2 vi h K1) as (J1 & J2 & J3).
    apply stale_iff. apply J2.
    apply find_handle_some in EF as (F1 & F2 & F3).
    (* virt lists are untouched by update_reg_at / remove_sim *)
    assert (EV : hn (nth_node s2 vi) = hn (nth_node s vi)).
    { unfold s2, remove_sim. destruct (measure _ _ _ _ _) as [[o' n'] t'].
      unfold update_reg_at, set_node, nth_node; simpl.
      destruct (Nat.eqb_spec (v_simNode q) vi) as [->|Hne].
      - rewrite !nth_upd_eq; [destruct (Nat.eqb n' 0); reflexivity| |]; rewrite ?upd_length; auto.
      - rewrite !nth_upd_neq by auto. reflexivity. }
    rewrite EV. unfold hn. rewrite <- F3. apply in_map. exact F2.
Qed.

Lemma stale_preserved s o h : hid_inv s -> h < next_hid s -> stale s h -> stale (fst (step s o)) h.
Proof.
  intros HI Hlt Hs. destruct (step_hid_inv s o HI) as (A & B & C).
  apply stale_iff. intro Hin. apply C in Hin. apply in_app_iff in Hin as [Hin|Hin].
  - apply stale_iff in Hs. contradiction.
  - apply in_seq in Hin. lia.
Qed.

Lemma init_hid_inv caps : hid_inv (init_net caps).
Proof.
  unfold hid_inv, hids, init_net; simpl. 
  assert (E : flat_map hn (map (fun c => empty_node (fst c) (snd c)) caps) = []).
  { induction caps; simpl; auto. }
  rewrite E. split; constructor.
Qed.

Lemma run_hid_inv ops : forall s, hid_inv s -> hid_inv (run s ops) /\ next_hid s <= next_hid (run s ops).
Proof.
  induction ops as [|o ops IH]; intros s HI; simpl; auto.
  destruct (step_hid_inv s o HI) as (A & B & C). destruct (IH _ A) as [D E]. split; auto. lia.
Qed.

Lemma run_stale ops : forall s h, hid_inv s -> h < next_hid s -> stale s h -> stale (run s ops) h.
Proof.
  induction ops as [|o ops IH]; intros s h HI Hlt Hs; simpl; auto.
  destruct (step_hid_inv s o HI) as (A & B & C).
  apply IH; auto; [lia|]. apply stale_preserved; auto.
Qed.

Theorem departed_stale_forever caps ops1 o ops2 h v :
  (exists t, o = OSend h t) \/ (exists c, o = OMeas h false c) ->
  snd (step (run (init_net caps) ops1) o) = Ok v ->
  stale (run (fst (step (run (init_net caps) ops1) o)) ops2) h.
Proof.
  intros Ho Hok.
  destruct (run_hid_inv ops1 _ (init_hid_inv caps)) as [HI _].
  set (s := run (init_net caps) ops1) in *.
  destruct (step_hid_inv s o HI) as (A & B & C).
  apply run_stale; auto.
  - (* h was a live handle of s, hence below next_hid *)
    assert (Hin : In h (hids s)).
    { destruct Ho as [[t ->]|[c ->]]; simpl in Hok.
      - unfold op_send in Hok. destruct (find_handle s h) as [[vi q]|] eqn:EF; [|discriminate].
        destruct (stale_iff s h) as [_ X]. destruct (in_dec Nat.eq_dec h (hids s)); auto.
        apply X in n. unfold stale in n. congruence.
      - unfold op_meas in Hok. destruct (find_handle s h) as [[vi q]|] eqn:EF; [|discriminate].
        destruct (stale_iff s h) as [_ X]. destruct (in_dec Nat.eq_dec h (hids s)); auto.
        apply X in n. unfold stale in n. congruence. }
    destruct HI as [_ HB]. rewrite Forall_forall in HB. apply HB in Hin. lia.
  - apply departed_stale with (v := v); auto.
Qed.

(* ---------- whole histories through stale handles ------------------------------------------------------------- *)
(* an operation that goes through (at least) one stale handle *)
Definition through_stale (s : net) (o : op) : Prop :=
  match o with
  | OGate1 h _ => stale s h
  | OGate2 h1 h2 _ => stale s h1 \/ stale s h2
  | OSend h _ => stale s h
  | OMeas h _ _ => stale s h
  | ONew _ | ONewReg _ _ | ONewInReg _ _ _ => False
  end.

Lemma through_stale_step s o : through_stale s o -> step s o = (s, Ignored).
Proof.
  destruct o as [n|h g|h1 h2 g|h t|h ip c|n mq|n ow k]; cbn [through_stale]; intro H; try contradiction.
  - apply stale_gate1; exact H.
  - destruct H as [H|H]; [apply stale_gate2_control | apply stale_gate2_target]; exact H.
  - apply stale_send; exact H.
  - apply stale_meas; exact H.
Qed.

(* any history made only of such operations is the identity on the whole network state, and every reply is Ignored *)
Theorem stale_history_inert ops : forall s,
  Forall (through_stale s) ops -> run s ops = s /\ run_outs s ops = map (fun _ => Ignored) ops.
Proof.
  induction ops as [|o ops IH]; intros s HF.
  - split; reflexivity.
  - inversion HF as [|o' ops' Ho Hops]; subst.
    pose proof (through_stale_step s o Ho) as E.
    destruct (IH s Hops) as [IR IO].
    split.
    + unfold run in *. cbn [fold_left]. rewrite E. cbn [fst]. exact IR.
    + cbn [run_outs map]. rewrite E. rewrite IO. reflexivity.
Qed.
