"""Independent numerical oracle for stabilizer measurement (C14, used by C15): Born rule and collapse with plain
2^n x 2^n matrices.  Imports neither simulaqron nor anything that mirrors the Coq model."""
import numpy as np

import oracle_np as O


def z_projector(n, p, b):
    """(I + (-1)^b Z_p) / 2"""
    z = O.op1(n, p, O.PZ)
    return (np.eye(2 ** n, dtype=complex) + (-1) ** b * z) / 2


def born(rho, n, p, b):
    return float(np.real(np.trace(z_projector(n, p, b) @ rho)))


def projected(rho, n, p, b):
    pb = z_projector(n, p, b)
    pr = born(rho, n, p, b)
    if pr < 1e-9:
        return None
    return (pb @ rho @ pb) / pr


def shape_ok(tab, n):
    return len(tab) == n and all(len(r) == 2 * n + 1 for r in tab)


def judge_measure(tin, n, p, inplace, outcome, nout, tout):
    """Is (outcome, tout) a legal result of measuring qubit p of the state `tin`?  Returns (ok, reason, prob)."""
    rho = O.projector(tin, n)
    if outcome not in (0, 1):
        return False, "outcome %r is not 0/1" % (outcome,), None
    pr = born(rho, n, p, outcome)
    if pr < 1e-9:
        return False, "outcome %d has Born probability 0" % outcome, pr
    post = projected(rho, n, p, outcome)
    if inplace:
        if nout != n or not shape_ok(tout, n):
            return False, "in-place result has wrong shape", pr
        got = O.projector(tout, n)
        if not O.is_pure_state(got):
            return False, "in-place result is not a pure stabilizer state (generators dependent or not commuting)", pr
        if not O.close(got, post):
            return False, "in-place result is not the projected state", pr
    else:
        if nout != n - 1 or not shape_ok(tout, n - 1):
            return False, "destructive result has wrong shape", pr
        got = O.projector(tout, n - 1)
        if not O.is_pure_state(got):
            return False, "destructive result is not a pure stabilizer state", pr
        want = O.partial_trace_out(post, n, p)
        if not O.close(got, want):
            return False, "destructive result is not the projected state restricted to the remaining qubits in order", pr
    return True, "", pr
