(* Theorems about the measurement model (Tableau.measure). *)
From Coq Require Import List Bool Arith Lia.
From SQ Require Import Base.ListUtil Stab.Pauli Stab.Kernels Stab.Tableau.
Import ListNotations.

(* "some generator has X or Y at p after elimination" = the test `tmp_matrix[0, 0]` of the code *)
Definition random_branch (n p : nat) (t : tab) : bool :=
  get (nth 0 (gauss n (map (perm_row n p) t)) []) 0.

Lemma meas_random_outcome n p ip coin t :
  random_branch n p t = true -> fst (fst (measure n p ip coin t)) = coin.
Proof.
  unfold random_branch, measure. intros ->. destruct ip; reflexivity.
Qed.
