(* Model D — the statements used by Properties/C20.v, assembled from Invariant / Connect / Procs. *)
From Coq Require Import List Bool Arith.
From SQ Require Import Deploy.Model Deploy.Invariant Deploy.Connect Deploy.Procs.
Import ListNotations.

Lemma connected_is_stable : forall n es es' i,
  check_connections n (run_events n init es) i = true ->
  check_connections n (run_events n (run_events n init es) es') i = true.
Proof.
  intros n es es' i. apply check_run_stable. apply Inv_run. apply Inv_init.
Qed.

Lemma retry_logic : forall n s i j,
  (In (i, j) (att s) -> ~ In j (up s) ->
     In (i, j) (ret (step n s (Try i j))) /\ conn (step n s (Try i j)) = conn s) /\
  (In (i, j) (ret s) -> In (i, j) (att (step n s (Retry i j)))) /\
  (In (i, j) (att s) -> In j (up s) -> In (i, j) (conn (step n s (Try i j)))).
Proof.
  intros n s i j. split; [|split].
  - apply try_refused_reschedules.
  - apply retry_attempts.
  - apply try_connects.
Qed.

Lemma no_duplicate_conn : forall n es i,
  let s := run_events n init es in
  NoDup (conn_of s i) /\ length (conn_of s i) <= n /\
  NoDup (att s) /\ NoDup (ret s) /\
  (forall p, In p (att s) -> ~ In p (conn s) /\ ~ In p (ret s)) /\
  (forall p, In p (ret s) -> ~ In p (conn s)).
Proof.
  intros n es i s.
  assert (I : Inv n s) by (apply Inv_run; apply Inv_init).
  split; [eapply conn_of_NoDup; eauto|].
  split; [eapply conn_of_bound; eauto|].
  destruct I; auto.
Qed.

Lemma restartable_full : forall (spawn terminate : pst -> pst), spawn Fresh = Alive -> terminate Alive = Ended ->
  forall nodes ops,
  let nw := lifecycle spawn terminate nodes ops in
  length (procs nw) = 2 * nodes /\
  (forall ops', ops = ops' ++ [Start] -> all_alive nw) /\
  (forall ops', ops = ops' ++ [Stop] -> none_alive nw /\ running_flag nw = false) /\
  map is_alive (procs (stop terminate nw)) = map is_alive (procs (new_network nodes)) /\
  running_flag (stop terminate nw) = running_flag (new_network nodes) /\
  procs (start spawn (stop terminate (start spawn nw))) = procs (start spawn nw).
Proof.
  intros spawn terminate Hs Ht nodes ops nw.
  destruct (lifecycle_spec spawn terminate Hs Ht nodes ops) as [A [B C]].
  destruct (stop_like_new spawn terminate Hs Ht nodes ops) as [D E].
  destruct (Procs.restartable spawn terminate Hs Ht nw) as [F _].
  split; [exact A|]. split; [exact B|]. split; [exact C|]. split; [exact D|]. split; [exact E|exact F].
Qed.

Lemma restart_unrepaired_refuted : forall (spawn terminate : pst -> pst), spawn Fresh = Alive -> terminate Alive = Ended ->
  exists nodes, snd (start_orig spawn (stop terminate (fst (start_orig spawn (new_network nodes))))) = false.
Proof. intros spawn terminate Hs Ht. exists 1. apply restart_orig_fails; auto. Qed.
