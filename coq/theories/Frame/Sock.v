(* Model F, part 6: the application-to-application classical socket, simulaqron/sdk/socket.py:42-78.

     send(msg) / send_structured(msg) : self._app_socket.send(serialise(msg))          -- no length, no delimiter
     recv(maxsize=1024) / recv_structured : deserialise(self._app_socket.recv(maxsize)) -- ONE recv per message

   The connection is a byte stream: `Send m` appends the bytes of m to what is in flight; `Recv maxsize k` hands
   over a non-empty prefix of what has arrived, at most maxsize bytes long; k >= 1 is the number of bytes the
   operating system chooses to deliver (k >= available models "everything that has arrived").  A blocking recv on
   an empty stream is not an event of the model. *)
From Coq Require Import List NArith Arith Lia Bool.
From SQ Require Import Frame.Bytes.
Import ListNotations.
Local Open Scope nat_scope.

Inductive sop :=
| Send (m : bytes)
| Recv (maxsize k : nat).

Record sock := mkSock { inflight : bytes; recvd : list bytes; sent : list bytes }.

Definition sock0 : sock := mkSock [] [] [].

Definition sstep (st : sock) (op : sop) : sock :=
  match op with
  | Send m => mkSock (inflight st ++ m) (recvd st) (sent st ++ [m])
  | Recv maxsize k =>
      let n := Nat.min (Nat.min k maxsize) (length (inflight st)) in
      mkSock (skipn n (inflight st)) (recvd st ++ [firstn n (inflight st)]) (sent st)
  end.

Definition srun (ops : list sop) : sock := fold_left sstep ops sock0.

(* the schedule under which the code works: every message is received before the next one is sent, it fits
   into one read, and the OS delivers everything that has arrived *)
Definition lockstep (maxsize : nat) (ms : list bytes) : list sop :=
  flat_map (fun m => [Send m; Recv maxsize maxsize]) ms.

Fixpoint msgs_eqb (a b : list bytes) : bool :=
  match a, b with
  | [], [] => true
  | x :: a', y :: b' => bytes_eqb x y && msgs_eqb a' b'
  | _, _ => false
  end.
