(* Lemmas about insertion-ordered dictionaries (aget / aset / adel) and small list facts used by Model C. *)
From Coq Require Import List Bool Arith NArith String Lia.
From SQ Require Import Conf.Model.
Import ListNotations.
Open Scope list_scope.

Definition disjoint {A} (l1 l2 : list A) : Prop := forall x, In x l1 -> ~ In x l2.

Lemma nodup_app {A} (l1 l2 : list A) :
  NoDup (l1 ++ l2) <-> NoDup l1 /\ NoDup l2 /\ disjoint l1 l2.
Proof.
  induction l1 as [|a l1 IH]; simpl.
  - split.
    + intros H; repeat split; auto. constructor. intros x [].
    + intros (_ & H & _); auto.
  - split.
    + intros H. inversion H as [|? ? Hn Hd]; subst. apply IH in Hd. destruct Hd as (H1 & H2 & H3).
      repeat split; auto.
      * constructor; auto. intro; apply Hn; apply in_or_app; auto.
      * intros x [->|Hx]; auto. intro; apply Hn; apply in_or_app; auto.
    + intros (H1 & H2 & H3). inversion H1 as [|? ? Hn Hd]; subst. constructor.
      * intro Hin. apply in_app_or in Hin. destruct Hin as [Hin|Hin]; auto. apply (H3 a); simpl; auto.
      * apply IH. repeat split; auto. intros x Hx. apply H3; simpl; auto.
Qed.

(* pairwise "equal or disjoint images" + NoDup of the list and of each image => NoDup of the concatenation *)
Lemma nodup_flat_map {A B} (f : A -> list B) (l : list A) :
  NoDup l ->
  (forall a, In a l -> NoDup (f a)) ->
  (forall a b, In a l -> In b l -> a = b \/ disjoint (f a) (f b)) ->
  NoDup (flat_map f l).
Proof.
  induction l as [|a l IH]; simpl; intros Hl Hn Hd.
  - constructor.
  - inversion Hl as [|? ? Hna Hl']; subst. apply nodup_app. repeat split.
    + apply Hn; auto.
    + apply IH; auto; intros; apply Hd; simpl; auto.
    + intros x Hx Hin. apply in_flat_map in Hin. destruct Hin as (b & Hb & Hxb).
      destruct (Hd a b) as [->|Hdis]; auto. apply (Hdis x); auto.
Qed.

Section AssocLemmas.
  Context {V : Type}.
  Implicit Types (l : list (string * V)) (k : string) (v : V).

  Lemma aget_In l k v : aget l k = Some v -> In (k, v) l.
  Proof.
    induction l as [|[k' v'] l IH]; simpl; intros H; try discriminate.
    destruct (String.eqb_spec k' k) as [->|Hne].
    - inversion H; subst; auto.
    - right; auto.
  Qed.

  Lemma aget_None l k : aget l k = None -> ~ In k (map fst l).
  Proof.
    induction l as [|[k' v'] l IH]; simpl; intros H; auto.
    destruct (String.eqb_spec k' k) as [->|Hne]; try discriminate.
    intros [Heq|Hin]; auto. apply IH; auto.
  Qed.

  Lemma In_aget l k v : NoDup (map fst l) -> In (k, v) l -> aget l k = Some v.
  Proof.
    induction l as [|[k' v'] l IH]; simpl; intros Hnd Hin; try contradiction.
    inversion Hnd as [|? ? Hn Hd]; subst.
    destruct Hin as [Heq|Hin].
    - inversion Heq; subst. rewrite String.eqb_refl; auto.
    - destruct (String.eqb_spec k' k) as [->|Hne]; auto.
      exfalso; apply Hn. apply (in_map fst) in Hin; auto.
  Qed.

  Lemma In_aset l k v k' v' : In (k', v') (aset l k v) -> (k' = k /\ v' = v) \/ In (k', v') l.
  Proof.
    induction l as [|[k0 v0] l IH]; simpl.
    - intros [H|[]]; inversion H; auto.
    - destruct (String.eqb_spec k0 k) as [->|Hne]; simpl.
      + intros [H|H]; [inversion H; auto|auto].
      + intros [H|H]; auto. destruct (IH H); auto.
  Qed.

  Lemma In_aset_other l k v k' v' : k' <> k -> In (k', v') (aset l k v) -> In (k', v') l.
  Proof. intros Hne H. apply In_aset in H. destruct H as [[H _]|H]; auto. contradiction. Qed.

  Lemma aset_In_new l k v : In (k, v) (aset l k v).
  Proof.
    induction l as [|[k0 v0] l IH]; simpl; auto.
    destruct (String.eqb_spec k0 k); simpl; auto.
  Qed.

  Lemma keys_aset l k v : forall x, In x (map fst (aset l k v)) <-> x = k \/ In x (map fst l).
  Proof.
    induction l as [|[k0 v0] l IH]; simpl; intros x.
    - intuition.
    - destruct (String.eqb_spec k0 k) as [->|Hne]; simpl.
      + intuition.
      + rewrite IH. intuition.
  Qed.

  Lemma nodup_keys_aset l k v : NoDup (map fst l) -> NoDup (map fst (aset l k v)).
  Proof.
    induction l as [|[k0 v0] l IH]; simpl; intros H.
    - constructor; [intros []|constructor].
    - inversion H as [|? ? Hn Hd]; subst.
      destruct (String.eqb_spec k0 k) as [->|Hne]; simpl.
      + constructor; auto.
      + constructor; auto. rewrite keys_aset. intros [Heq|Hin]; auto.
  Qed.

  (* with unique keys, the value found under k after  d[k] = v  is v *)
  Lemma In_aset_same l k v v' : NoDup (map fst l) -> In (k, v') (aset l k v) -> v' = v.
  Proof.
    induction l as [|[k0 v0] l IH]; simpl; intros Hnd.
    - intros [H|[]]; inversion H; auto.
    - inversion Hnd as [|? ? Hn Hd]; subst.
      destruct (String.eqb_spec k0 k) as [->|Hne]; simpl.
      + intros [H|H]; [inversion H; auto|]. exfalso; apply Hn. apply (in_map fst) in H; auto.
      + intros [H|H]; [inversion H; subst; contradiction|auto].
  Qed.

  Lemma aset_notin l k v : ~ In k (map fst l) -> aset l k v = l ++ [(k, v)].
  Proof.
    induction l as [|[k0 v0] l IH]; simpl; intros H; auto.
    destruct (String.eqb_spec k0 k) as [->|Hne].
    - exfalso; apply H; auto.
    - f_equal. apply IH. intro; apply H; auto.
  Qed.

  Lemma aset_same l k v : NoDup (map fst l) -> In (k, v) l -> aset l k v = l.
  Proof.
    induction l as [|[k0 v0] l IH]; simpl; intros Hnd Hin; try contradiction.
    inversion Hnd as [|? ? Hn Hd]; subst.
    destruct (String.eqb_spec k0 k) as [->|Hne].
    - destruct Hin as [H|H]; [inversion H; subst; auto|]. exfalso; apply Hn. apply (in_map fst) in H; auto.
    - destruct Hin as [H|H]; [inversion H; subst; contradiction|]. f_equal; auto.
  Qed.

  Lemma In_adel l k p : In p (adel l k) <-> In p l /\ fst p <> k.
  Proof.
    unfold adel. rewrite filter_In. split; intros [H1 H2]; split; auto.
    - destruct (String.eqb_spec (fst p) k); simpl in *; congruence.
    - destruct (String.eqb_spec (fst p) k); simpl in *; congruence.
  Qed.

  Lemma keys_adel l k x : In x (map fst (adel l k)) <-> In x (map fst l) /\ x <> k.
  Proof.
    rewrite !in_map_iff. split.
    - intros (p & <- & Hp). apply In_adel in Hp. destruct Hp; split; eauto.
    - intros ((p & <- & Hp) & Hne). exists p; split; auto. apply In_adel; auto.
  Qed.

  Lemma nodup_keys_adel l k : NoDup (map fst l) -> NoDup (map fst (adel l k)).
  Proof.
    induction l as [|[k0 v0] l IH]; simpl; intros H; auto.
    inversion H as [|? ? Hn Hd]; subst.
    destruct (String.eqb_spec k0 k) as [->|Hne]; simpl; auto.
    constructor; auto. fold (adel l k). rewrite keys_adel. intros [Hin _]; auto.
  Qed.
End AssocLemmas.

Lemma ep_eqb_eq (a b : endpoint) : ep_eqb a b = true <-> a = b.
Proof.
  destruct a as [h p], b as [h' p']; unfold ep_eqb; simpl.
  rewrite andb_true_iff, String.eqb_eq, N.eqb_eq. split.
  - intros [-> ->]; auto.
  - intros H; inversion H; auto.
Qed.

Lemma mem_ep_In e l : mem_ep e l = true <-> In e l.
Proof.
  unfold mem_ep. rewrite existsb_exists. split.
  - intros (x & Hx & He). apply ep_eqb_eq in He. subst; auto.
  - intros H. exists e; split; auto. apply ep_eqb_eq; auto.
Qed.

Lemma mem_ep_false e l : mem_ep e l = false <-> ~ In e l.
Proof.
  rewrite <- mem_ep_In. destruct (mem_ep e l); split; intros; try congruence; auto.
Qed.
