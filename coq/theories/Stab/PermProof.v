(* perm_row / unperm_row (the column permutation of `measure`) are a relabelling of qubit positions: on decoded rows
   they move position p to the front / back, and the generated group is transported along that relabelling. *)
From Coq Require Import List Bool Arith Lia.
From SQ Require Import Base.ListUtil Stab.Pauli Stab.Kernels Stab.Gates Stab.Tableau Stab.Group Stab.GroupGates
  Stab.MulProof Stab.GaussProof Stab.MeasureProof Stab.TensorProof.
Import ListNotations.

(* position p moved to the front, the other positions keep their order; and the inverse *)
Definition move_front (p : nat) (l : list pauli) : list pauli := nth p l PI :: (firstn p l ++ skipn (S p) l).
Definition move_back (p : nat) (l : list pauli) : list pauli := firstn p (tl l) ++ hd PI l :: skipn p (tl l).
Definition pframe (p : nat) (g : pstr) : pstr := (fst g, move_front p (snd g)).
Definition punframe (p : nat) (g : pstr) : pstr := (fst g, move_back p (snd g)).

(* ---------- list plumbing ------------------------------------------------------------------------------ *)
Lemma firstn_app_len {A} (a b : list A) : firstn (length a) (a ++ b) = a.
Proof. induction a as [|x a IH]; simpl; [destruct b; reflexivity|]. rewrite IH. reflexivity. Qed.
Lemma skipn_app_len {A} (a b : list A) : skipn (length a) (a ++ b) = b.
Proof. induction a as [|x a IH]; simpl; auto. Qed.
Lemma nth_app_len {A} (a b : list A) x d : nth (length a) (a ++ x :: b) d = x.
Proof. induction a as [|y a IH]; simpl; auto. Qed.

Lemma move_front_app A x C : move_front (length A) (A ++ x :: C) = x :: A ++ C.
Proof.
  unfold move_front. rewrite nth_app_len, firstn_app_len. f_equal. f_equal.
  change (S (length A)) with (length A + 1) || idtac.
  replace (A ++ x :: C) with ((A ++ [x]) ++ C) by (rewrite <- app_assoc; reflexivity).
  replace (S (length A)) with (length (A ++ [x])) by (rewrite app_length; simpl; lia).
  apply skipn_app_len.
Qed.

Lemma move_back_app A x C : move_back (length A) (x :: A ++ C) = A ++ x :: C.
Proof. unfold move_back. cbn [tl hd]. rewrite firstn_app_len, skipn_app_len. reflexivity. Qed.

Lemma split_at (l : list pauli) p : p < length l -> exists A x C, l = A ++ x :: C /\ length A = p.
Proof. intro H. destruct (nth_split l PI H) as (A & C & E & L). exists A, (nth p l PI), C. auto. Qed.

Lemma split_front (l : list pauli) p : p < length l -> exists A x C, l = x :: A ++ C /\ length A = p.
Proof.
  intro H. destruct l as [|x l]; simpl in H; [lia|].
  exists (firstn p l), x, (skipn p l). rewrite firstn_skipn. split; auto. rewrite firstn_length. lia.
Qed.

Lemma move_back_front p l : p < length l -> move_back p (move_front p l) = l.
Proof. intro H. destruct (split_at l p H) as (A & x & C & -> & <-). rewrite move_front_app. apply move_back_app. Qed.
Lemma move_front_back p l : p < length l -> move_front p (move_back p l) = l.
Proof. intro H. destruct (split_front l p H) as (A & x & C & -> & <-). rewrite move_back_app. apply move_front_app. Qed.

Lemma move_front_length p l : p < length l -> length (move_front p l) = length l.
Proof. intro H. destruct (split_at l p H) as (A & x & C & -> & <-). rewrite move_front_app. simpl. rewrite !app_length. simpl. lia. Qed.
Lemma move_back_length p l : p < length l -> length (move_back p l) = length l.
Proof. intro H. destruct (split_front l p H) as (A & x & C & -> & <-). rewrite move_back_app. simpl. rewrite !app_length. simpl. lia. Qed.

Lemma punframe_pframe p g : p < length (snd g) -> punframe p (pframe p g) = g.
Proof. intro H. destruct g as [k l]. unfold punframe, pframe. cbn [fst snd] in *. rewrite move_back_front; auto. Qed.
Lemma pframe_punframe p g : p < length (snd g) -> pframe p (punframe p g) = g.
Proof. intro H. destruct g as [k l]. unfold punframe, pframe. cbn [fst snd] in *. rewrite move_front_back; auto. Qed.

(* ---------- the relabelling is an automorphism ------------------------------------------------------------ *)
Lemma pmul_l_cons x a y b :
  pmul_l (x :: a) (y :: b) = (padd (fst (pmul1 x y)) (fst (pmul_l a b)), snd (pmul1 x y) :: snd (pmul_l a b)).
Proof. reflexivity. Qed.

Lemma pframe_hom p a b : length (snd a) = length (snd b) -> p < length (snd a) ->
  pframe p (pmul a b) = pmul (pframe p a) (pframe p b).
Proof.
  destruct a as [ka a], b as [kb b]. cbn [fst snd]. intros HL Hp.
  destruct (split_at a p Hp) as (A & x & C & -> & LA).
  assert (Hp' : p < length b) by lia.
  destruct (split_at b p Hp') as (B & y & D & -> & LB).
  unfold pframe, pmul. cbn [fst snd]. subst p.
  assert (EA : move_front (length A) (A ++ x :: C) = x :: A ++ C) by apply move_front_app.
  assert (EB : move_front (length A) (B ++ y :: D) = y :: B ++ D) by (rewrite <- LB; apply move_front_app).
  rewrite EA, EB. clear EA EB.
  rewrite (pmul_l_app A B (x :: C) (y :: D)) by lia. rewrite !pmul_l_cons. cbn [fst snd].
  rewrite (pmul_l_app A B C D) by lia. cbn [fst snd].
  replace (length A) with (length (snd (pmul_l A B))) by (apply pmul_l_length; lia).
  rewrite move_front_app. f_equal.
  destruct ka, kb, (fst (pmul_l A B)), (fst (pmul1 x y)), (fst (pmul_l C D)); reflexivity.
Qed.

Lemma anti_l_cons x a y b : anti_l (x :: a) (y :: b) = xorb (anticomm1 x y) (anti_l a b).
Proof. reflexivity. Qed.

Lemma pframe_anti p a b : length a = length b -> p < length a ->
  anti_l (move_front p a) (move_front p b) = anti_l a b.
Proof.
  intros HL Hp.
  destruct (split_at a p Hp) as (A & x & C & -> & LA).
  assert (Hp' : p < length b) by lia.
  destruct (split_at b p Hp') as (B & y & D & -> & LB).
  subst p.
  assert (EA : move_front (length A) (A ++ x :: C) = x :: A ++ C) by apply move_front_app.
  assert (EB : move_front (length A) (B ++ y :: D) = y :: B ++ D) by (rewrite <- LB; apply move_front_app).
  rewrite EA, EB. clear EA EB.
  rewrite (anti_l_app A B (x :: C) (y :: D)) by lia. rewrite !anti_l_cons. rewrite (anti_l_app A B C D) by lia.
  destruct (anticomm1 x y), (anti_l A B), (anti_l C D); reflexivity.
Qed.

Lemma repeat_split n p : p < n -> repeat PI n = repeat PI p ++ PI :: repeat PI (n - S p).
Proof. intro H. replace n with (p + S (n - S p)) at 1 by lia. rewrite repeat_app. reflexivity. Qed.

Lemma move_front_repeat p n : p < n -> move_front p (repeat PI n) = repeat PI n.
Proof.
  intro H.
  assert (E : move_front p (repeat PI p ++ PI :: repeat PI (n - S p)) = PI :: repeat PI p ++ repeat PI (n - S p)).
  { pose proof (move_front_app (repeat PI p) PI (repeat PI (n - S p))) as M. rewrite repeat_length in M. exact M. }
  rewrite <- (repeat_split n p H) in E. rewrite E.
  change (PI :: repeat PI p ++ repeat PI (n - S p)) with (repeat PI (S p) ++ repeat PI (n - S p)).
  rewrite <- repeat_app. f_equal. lia.
Qed.

Lemma pframe_one p n : p < n -> pframe p (pone n) = pone n.
Proof. intro H. unfold pframe, pone. cbn [fst snd]. rewrite move_front_repeat; auto. Qed.

Lemma punframe_one p n : p < n -> punframe p (pone n) = pone n.
Proof. intro H. rewrite <- (pframe_one p n H) at 1. apply punframe_pframe. unfold pone; cbn [snd]. rewrite repeat_length. auto. Qed.

Lemma pframe_length p g : p < length (snd g) -> length (snd (pframe p g)) = length (snd g).
Proof. intro H. unfold pframe; cbn [snd]. apply move_front_length; auto. Qed.
Lemma punframe_length p g : p < length (snd g) -> length (snd (punframe p g)) = length (snd g).
Proof. intro H. unfold punframe; cbn [snd]. apply move_back_length; auto. Qed.

Lemma punframe_hom p a b : length (snd a) = length (snd b) -> p < length (snd a) ->
  punframe p (pmul a b) = pmul (punframe p a) (punframe p b).
Proof.
  intros HL Hp.
  rewrite <- (punframe_pframe p (pmul (punframe p a) (punframe p b))).
  - rewrite pframe_hom by (rewrite !punframe_length; lia). rewrite !pframe_punframe by lia. reflexivity.
  - rewrite (pmul_length (length (snd a))); rewrite ?punframe_length; lia.
Qed.

Lemma punframe_anti p a b : length a = length b -> p < length a ->
  anti_l (move_back p a) (move_back p b) = anti_l a b.
Proof.
  intros HL Hp. rewrite <- (pframe_anti p (move_back p a) (move_back p b)) by (rewrite !move_back_length; lia).
  rewrite !move_front_back by lia. reflexivity.
Qed.

Lemma pframe_idpart p n a : p < n -> length (snd a) = n -> snd (pframe p a) = repeat PI n -> snd a = repeat PI n.
Proof.
  intros Hp HL H. unfold pframe in H. cbn [snd] in H.
  rewrite <- (move_back_front p (snd a)) by lia. rewrite H.
  change (move_back p (repeat PI n)) with (snd (punframe p (pone n))). rewrite punframe_one; auto.
Qed.

Lemma punframe_idpart p n a : p < n -> length (snd a) = n -> snd (punframe p a) = repeat PI n -> snd a = repeat PI n.
Proof.
  intros Hp HL H. unfold punframe in H. cbn [snd] in H.
  rewrite <- (move_front_back p (snd a)) by lia. rewrite H. apply move_front_repeat; auto.
Qed.

(* ---------- the rows ---------------------------------------------------------------------------------------- *)
Lemma filter_all {A} (f : A -> bool) l : (forall x, In x l -> f x = true) -> filter f l = l.
Proof. induction l as [|x l IH]; intro H; simpl; auto. rewrite H by (left; auto). f_equal. apply IH. intros; apply H; right; auto. Qed.

Lemma seq_split3 n p : p < n -> seq 0 n = seq 0 p ++ p :: seq (S p) (n - S p).
Proof. intro H. replace n with (p + S (n - S p)) at 1 by lia. rewrite seq_app. reflexivity. Qed.

Lemma others_split n p : p < n -> others n p = seq 0 p ++ seq (S p) (n - S p).
Proof.
  intro H. unfold others. rewrite (seq_split3 n p H), filter_app. cbn [filter]. rewrite Nat.eqb_refl. cbn [negb].
  rewrite !filter_all; auto; intros x Hx; apply in_seq in Hx; destruct (Nat.eqb_spec x p); auto; lia.
Qed.

Lemma others_length n p : p < n -> length (others n p) = n - 1.
Proof. intro H. rewrite others_split by auto. rewrite app_length, !seq_length. lia. Qed.

Lemma perm_row_wf n p r : p < n -> wf_row n (perm_row n p r).
Proof.
  intro H. unfold wf_row, perm_row. cbn [length]. rewrite !app_length. cbn [length]. rewrite !app_length, !map_length.
  rewrite others_length by auto. simpl. lia.
Qed.

Lemma unperm_row_wf n p r : wf_row n (unperm_row n p r).
Proof. unfold wf_row, unperm_row. rewrite map_length, seq_length. reflexivity. Qed.

Lemma get_cons_S (x : bool) l i : get (x :: l) (S i) = get l i.
Proof. reflexivity. Qed.

(* a row given by its blocks  x0 | xs | z0 | zs | s  *)
Lemma decode_blocks k x0 z0 xs zs s : length xs = k -> length zs = k ->
  decode (S k) (x0 :: xs ++ z0 :: zs ++ [s]) =
  (s, pauli_of x0 z0 :: map (fun i => pauli_of (get xs i) (get zs i)) (seq 0 k)).
Proof.
  intros Lx Lz. unfold decode. f_equal.
  - replace (2 * S k) with (S (k + S k)) by lia. rewrite get_cons_S, get_app, Lx.
    destruct (Nat.ltb_spec (k + S k) k); [lia|]. replace (k + S k - k) with (S k) by lia.
    rewrite get_cons_S, get_app, Lz. destruct (Nat.ltb_spec k k); [lia|]. rewrite Nat.sub_diag. reflexivity.
  - cbn [seq map]. f_equal.
    + unfold pauli_at. cbn [Nat.add]. f_equal. rewrite get_cons_S, get_app, Lx.
      destruct (Nat.ltb_spec k k); [lia|]. rewrite Nat.sub_diag. reflexivity.
    + rewrite map_seq_off. apply map_ext_in. intros i Hi. apply in_seq in Hi. unfold pauli_at. cbn [Nat.add].
      rewrite !get_cons_S. f_equal.
      * rewrite get_app, Lx. destruct (Nat.ltb_spec i k); [reflexivity|lia].
      * rewrite get_app, Lx. destruct (Nat.ltb_spec (i + S k) k); [lia|]. replace (i + S k - k) with (S i) by lia.
        rewrite get_cons_S, get_app, Lz. destruct (Nat.ltb_spec i k); [reflexivity|lia].
Qed.

Lemma map_get_map {A} (f g : A -> bool) : forall (O : list A) k, length O = k ->
  map (fun i => pauli_of (get (map f O) i) (get (map g O) i)) (seq 0 k) = map (fun o => pauli_of (f o) (g o)) O.
Proof.
  induction O as [|o O IH]; intros k HL; simpl in HL; subst k; [reflexivity|].
  cbn [seq map]. f_equal. rewrite map_seq_off. cbn [Nat.add]. rewrite <- (IH (length O) eq_refl).
  apply map_ext. intro i. reflexivity.
Qed.

Theorem perm_row_decode n p r : p < n ->
  decode n (perm_row n p r) = (fst (decode n r), move_front p (snd (decode n r))).
Proof.
  intro Hp. unfold perm_row. destruct n as [|k]; [lia|].
  rewrite decode_blocks by (rewrite map_length, others_length by auto; lia).
  unfold decode. cbn [fst snd]. f_equal.
  rewrite (map_get_map (get r) (fun i => get r (i + S k))) by (rewrite others_length by auto; lia).
  rewrite others_split by auto.
  assert (E : move_front p (map (pauli_at (S k) r) (seq 0 (S k))) =
              pauli_at (S k) r p :: map (pauli_at (S k) r) (seq 0 p) ++ map (pauli_at (S k) r) (seq (S p) (S k - S p))).
  { rewrite (seq_split3 (S k) p Hp), map_app. cbn [map].
    pose proof (move_front_app (map (pauli_at (S k) r) (seq 0 p)) (pauli_at (S k) r p)
                  (map (pauli_at (S k) r) (seq (S p) (S k - S p)))) as M.
    rewrite map_length, seq_length in M. exact M. }
  rewrite E, map_app. reflexivity.
Qed.

Lemma get_unperm_row n p r j : j < 2 * n + 1 -> get (unperm_row n p r) j = get r (unperm_col n p j).
Proof. intro H. unfold unperm_row, get. apply (nth_map_seq (fun j => nth (unperm_col n p j) r false)); auto. Qed.

Lemma nth_move_back p l i : p < length l -> i < length l ->
  nth i (move_back p l) PI = nth (if Nat.eqb i p then 0 else if Nat.ltb i p then i + 1 else i) l PI.
Proof.
  intros Hp Hi. destruct (split_front l p Hp) as (A & x & C & -> & <-). rewrite move_back_app.
  destruct (Nat.eqb_spec i (length A)) as [->|Hne].
  - rewrite nth_app_len. reflexivity.
  - destruct (Nat.ltb_spec i (length A)) as [Hlt|Hge].
    + rewrite app_nth1 by lia. replace (i + 1) with (S i) by lia. cbn [nth]. rewrite app_nth1 by lia. reflexivity.
    + rewrite app_nth2 by lia. destruct i as [|i]; [lia|]. cbn [nth]. rewrite app_nth2 by lia.
      replace (S i - length A) with (S (i - length A)) by lia. reflexivity.
Qed.

Theorem unperm_row_decode n p r : p < n ->
  decode n (unperm_row n p r) = (fst (decode n r), move_back p (snd (decode n r))).
Proof.
  intro Hp. unfold decode. cbn [fst snd]. f_equal.
  - rewrite get_unperm_row by lia. unfold unperm_col. rewrite Nat.eqb_refl. reflexivity.
  - apply (nth_ext _ _ PI PI).
    + rewrite move_back_length; rewrite !map_length, !seq_length; auto.
    + intros i Hi. rewrite map_length, seq_length in Hi.
      rewrite nth_move_back by (rewrite map_length, seq_length; auto).
      rewrite !nth_map_seq; auto.
      2:{ destruct (Nat.eqb_spec i p); [lia|]. destruct (Nat.ltb_spec i p); lia. }
      unfold pauli_at. rewrite !get_unperm_row by lia. unfold unperm_col.
      destruct (Nat.eqb_spec i (2 * n)); [lia|]. destruct (Nat.eqb_spec (i + n) (2 * n)); [lia|].
      destruct (Nat.ltb_spec i n); [|lia]. destruct (Nat.ltb_spec (i + n) n); [lia|].
      rewrite Nat.sub_0_r. replace (i + n - n) with i by lia.
      destruct (Nat.eqb_spec i p); [reflexivity|].
      destruct (Nat.ltb_spec i p); f_equal; f_equal; lia.
Qed.

Lemma perm_row_decode_ph n p r : p < n -> decode_ph n (perm_row n p r) = pframe p (decode_ph n r).
Proof. intro H. unfold decode_ph, lift, pframe. rewrite perm_row_decode by auto. reflexivity. Qed.
Lemma unperm_row_decode_ph n p r : p < n -> decode_ph n (unperm_row n p r) = punframe p (decode_ph n r).
Proof. intro H. unfold decode_ph, lift, punframe. rewrite unperm_row_decode by auto. reflexivity. Qed.

(* ---------- transport of the generated group along the relabelling ---------------------------------------- *)
Theorem perm_group n p t : p < n -> wf_tab n t ->
  forall h, gen n (map (perm_row n p) t) h <-> exists h0, gen n t h0 /\ h = pframe p h0.
Proof.
  intros Hp Hw h. split.
  - apply (gate_image_fwd n (perm_row n p) (pframe p)); auto.
    + intros r _. apply perm_row_decode_ph; auto.
    + intros a b La Lb. apply pframe_hom; lia.
    + apply pframe_one; auto.
  - intros (h0 & G & ->). apply (gate_image_bwd n (perm_row n p) (pframe p)); auto.
    + intros r _. apply perm_row_decode_ph; auto.
    + intros a b La Lb. apply pframe_hom; lia.
    + apply pframe_one; auto.
Qed.

Theorem unperm_group n p t : p < n -> wf_tab n t ->
  forall h, gen n (map (unperm_row n p) t) h <-> exists h0, gen n t h0 /\ h = punframe p h0.
Proof.
  intros Hp Hw h. split.
  - apply (gate_image_fwd n (unperm_row n p) (punframe p)); auto.
    + intros r _. apply unperm_row_decode_ph; auto.
    + intros a b La Lb. apply punframe_hom; lia.
    + apply punframe_one; auto.
  - intros (h0 & G & ->). apply (gate_image_bwd n (unperm_row n p) (punframe p)); auto.
    + intros r _. apply unperm_row_decode_ph; auto.
    + intros a b La Lb. apply punframe_hom; lia.
    + apply punframe_one; auto.
Qed.

Theorem perm_commuting n p t : p < n -> wf_tab n t -> commuting n t -> commuting n (map (perm_row n p) t).
Proof.
  intros Hp Hw. apply (gate_commuting n (perm_row n p) (pframe p)); auto.
  - intros r _. apply perm_row_decode_ph; auto.
  - intros a b La Lb. unfold pframe; cbn [snd]. apply pframe_anti; lia.
Qed.

Theorem unperm_commuting n p t : p < n -> wf_tab n t -> commuting n t -> commuting n (map (unperm_row n p) t).
Proof.
  intros Hp Hw. apply (gate_commuting n (unperm_row n p) (punframe p)); auto.
  - intros r _. apply unperm_row_decode_ph; auto.
  - intros a b La Lb. unfold punframe; cbn [snd]. apply punframe_anti; lia.
Qed.

Theorem perm_independent n p t : p < n -> wf_tab n t -> independent n t -> independent n (map (perm_row n p) t).
Proof.
  intros Hp Hw. apply (gate_independent n (perm_row n p) (pframe p)); auto.
  - intros r _. apply perm_row_decode_ph; auto.
  - intros a b La Lb. apply pframe_hom; lia.
  - apply pframe_one; auto.
  - intros a La. apply pframe_idpart; auto.
Qed.

Theorem unperm_independent n p t : p < n -> wf_tab n t -> independent n t -> independent n (map (unperm_row n p) t).
Proof.
  intros Hp Hw. apply (gate_independent n (unperm_row n p) (punframe p)); auto.
  - intros r _. apply unperm_row_decode_ph; auto.
  - intros a b La Lb. apply punframe_hom; lia.
  - apply punframe_one; auto.
  - intros a La. apply punframe_idpart; auto.
Qed.

Lemma perm_wf n p t : p < n -> wf_tab n (map (perm_row n p) t).
Proof. intro H. unfold wf_tab. rewrite Forall_forall. intros r Hr. apply in_map_iff in Hr. destruct Hr as (r0 & <- & _). apply perm_row_wf; auto. Qed.
Lemma unperm_wf n p t : wf_tab n (map (unperm_row n p) t).
Proof. unfold wf_tab. rewrite Forall_forall. intros r Hr. apply in_map_iff in Hr. destruct Hr as (r0 & <- & _). apply unperm_row_wf. Qed.

(* Z on qubit p *)
Definition zp (n p : nat) : list pauli := upd (repeat PI n) p PZ.

Lemma move_back_z0 : forall p n, p < n -> move_back p (z0 n) = zp n p.
Proof.
  unfold move_back, z0, zp. cbn [tl hd].
  induction p as [|p IH]; intros n H; destruct n as [|n]; try lia.
  - simpl. rewrite Nat.sub_0_r. reflexivity.
  - destruct n as [|n]; [lia|]. specialize (IH (S n) ltac:(lia)). simpl in *. rewrite Nat.sub_0_r in IH. rewrite IH. reflexivity.
Qed.

Lemma zp_length n p : length (zp n p) = n.
Proof. unfold zp. rewrite upd_length, repeat_length. reflexivity. Qed.

Lemma move_front_zp n p : p < n -> move_front p (zp n p) = z0 n.
Proof. intro H. rewrite <- move_back_z0 by auto. apply move_front_back. rewrite z0_length; lia. Qed.
