(* The register contract, proved for the model of stabilizerEngine. *)
From Coq Require Import List Bool Arith Lia.
From SQ Require Import Base.ListUtil Stab.Pauli Stab.Kernels Stab.Gates Stab.Tableau Stab.Engine.
Import ListNotations.

(* a register holds a state: n rows of length 2n+1 that commute pairwise *)
Definition valid_engine (e : engine) : Prop :=
  length (e_tab e) = e_n e /\ Forall (wf_row (e_n e)) (e_tab e) /\ all_commute (e_n e) (e_tab e) = true.

(* ---------- refusal exactly at the size limit, and refusals change nothing ------------------------- *)
Lemma add_fresh_refusal e :
  (e_max e <= e_n e -> step e KAddFresh = (e, RErr ENoQubit)) /\
  (e_n e < e_max e -> step e KAddFresh = (mkE (e_max e) (S (e_n e)) (add_qubit (e_n e) (e_tab e)), RNat (e_n e))).
Proof.
  unfold step; split; intro H.
  - destruct (Nat.leb_spec (e_max e) (e_n e)); auto; lia.
  - destruct (Nat.leb_spec (e_max e) (e_n e)); auto; lia.
Qed.

Lemma absorb_refusal a b :
  (e_max a < e_n a + e_n b -> step a (KAbsorb b) = (a, RErr EQuantum)) /\
  (e_n a + e_n b <= e_max a ->
   step a (KAbsorb b) = (mkE (e_max a) (e_n a + e_n b) (tensor (e_n a) (e_tab a) (e_n b) (e_tab b)), RUnit)).
Proof.
  unfold step; split; intro H;
    destruct (Nat.ltb_spec (e_max a) (e_n a + e_n b)); auto; lia.
Qed.

(* every refused call leaves the register exactly as it was *)
Lemma refusal_atomic e c err : snd (step e c) = RErr err -> fst (step e c) = e.
Proof.
  destruct c; simpl.
  - destruct (Nat.leb _ _); simpl; auto; discriminate.
  - destruct (mk_state data) as [[m t]|]; simpl; auto.
    destruct (Nat.ltb _ _); simpl; auto; discriminate.
  - destruct (Nat.ltb _ _); simpl; auto; discriminate.
  - destruct (Nat.ltb _ _); simpl; auto; discriminate.
  - destruct (_ && _); simpl; auto; discriminate.
  - auto.
  - destruct (Nat.ltb _ _); simpl; auto.
    unfold apply_measure. destruct (measure _ _ _ _ _) as [[o n'] t']. simpl. discriminate.
  - destruct (Nat.ltb _ _); simpl; auto.
    unfold apply_measure. destruct (measure _ _ _ _ _) as [[o n'] t']. simpl. discriminate.
  - destruct (Nat.ltb _ _); simpl; auto; discriminate.
  - destruct (Nat.ltb _ _); simpl; auto.
    destruct (mk_state R) as [[m t]|]; simpl; auto; discriminate.
Qed.

(* ---------- export / import ------------------------------------------------------------------------ *)
Lemma forallb_length_false (t : tab) n m :
  Forall (wf_row n) t -> t <> [] -> m <> 2 * n + 1 -> forallb (fun r => Nat.eqb (length r) m) t = false.
Proof.
  intros H Hne Hm. destruct t as [|r t]; [congruence|]. inversion H; subst. simpl.
  unfold wf_row in *. destruct (Nat.eqb_spec (length r) m); [lia|reflexivity].
Qed.

Lemma forallb_length_true (t : tab) n :
  Forall (wf_row n) t -> forallb (fun r => Nat.eqb (length r) (2 * n + 1)) t = true.
Proof.
  induction 1; simpl; auto. unfold wf_row in H. rewrite H, Nat.eqb_refl. auto.
Qed.

Lemma mk_state_export e : valid_engine e -> mk_state (e_tab e) = Some (e_n e, e_tab e).
Proof.
  intros (HL & HW & HC). unfold mk_state. rewrite HL.
  destruct (Nat.eqb_spec (e_n e) 0) as [E|E].
  - rewrite E in HL. destruct (e_tab e); simpl in HL; try discriminate. rewrite E. reflexivity.
  - assert (Hne : e_tab e <> []) by (intro X; rewrite X in HL; simpl in HL; lia).
    rewrite (forallb_length_false _ (e_n e) (2 * e_n e) HW Hne) by lia.
    rewrite (forallb_length_true _ _ HW). rewrite HC. reflexivity.
Qed.

Theorem absorb_parts_export a b :
  valid_engine b ->
  step a (KAbsorbParts (fst (export b)) (snd (export b))) = step a (KAbsorb b).
Proof.
  intros Hb. unfold export; simpl. rewrite (mk_state_export b Hb). reflexivity.
Qed.
