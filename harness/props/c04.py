"""C04 — every operation completes and no lock outlives it."""
from props import concprop


def run(ctx):
    ctx.rule = ("same exploration as C03; judged: every Deferred returned to a client fires within 300 s of virtual time (back-off draws 1..4 s, polls 1 s) "
                "and no node-level or qubit-level lock is held when the run ends; distinct = distinct (prefix, operations, first 60 scheduler choices)")
    concprop.run_property(ctx, "C04")
    # sequential histories with refusals (capacity, unknown target, unsupported gate, forwarding to a full node): no node or qubit lock
    # may outlive ANY operation, failed ones included (real PB for one program in five and for every scenario)
    from props import netprop, scen
    t = ctx.tier == "thorough"
    netprop.run_property(ctx, "C04", ["refuse", "capacity", "merge"], 600 if t else 60, 24,
                         scenarios=scen.refusals() + scen.forwarding() + scen.capacity() + scen.register_limit() + scen.big_merge(), own_props=["C04"], props_file=False)
