(* Per-node population facts of Model V: which handles a node holds after one native operation.
   (Handles.v speaks about the flattened list of all handles; the NetQASM layer needs the per-node view:
   liveness of the handles in qubitList and the held-qubit count for teardown.) *)
From Coq Require Import List Bool Arith Lia.
From SQ Require Import Base.ListUtil Stab.Tableau Net.Model Net.Refusal Net.Handles Net.Inv Net.InvNew Net.InvPull Net.Population.
Import ListNotations.

Lemma held_hn s j : held s j = length (hn (nth_node s j)).
Proof. unfold held, hn. rewrite map_length. reflexivity. Qed.

Lemma length_set_node s i nd : length (nodes (set_node s i nd)) = length (nodes s).
Proof. apply set_node_length. Qed.

Lemma hn_set_same s i nd j : hn nd = hn (nth_node s i) -> hn (nth_node (set_node s i nd) j) = hn (nth_node s j).
Proof.
  intro H. rewrite nth_node_set. destruct (Nat.eqb_spec j i) as [->|N]; simpl; auto.
  destruct (Nat.ltb i (length (nodes s))); auto.
Qed.

Definition nkeeps (f : net -> net) : Prop :=
  forall s j, hn (nth_node (f s) j) = hn (nth_node s j) /\ length (nodes (f s)) = length (nodes s).

Lemma nkeeps_compose f g : nkeeps f -> nkeeps g -> nkeeps (fun s => g (f s)).
Proof. intros Hf Hg s j. destruct (Hf s j) as [A B]. destruct (Hg (f s) j) as [C D]. split; congruence. Qed.

Lemma update_reg_at_nkeeps ni r : nkeeps (fun s => update_reg_at s ni r).
Proof. intros s j; unfold update_reg_at; split; [apply hn_set_same; reflexivity|apply length_set_node]. Qed.

Lemma remove_sim_nkeeps ni x r c : nkeeps (fun s => remove_sim s ni x r c).
Proof.
  intros s j; unfold remove_sim. destruct (measure _ _ _ _ _) as [[o n'] t'].
  split; [apply hn_set_same|apply length_set_node]; destruct (Nat.eqb n' 0); reflexivity.
Qed.

Lemma local_merge_nkeeps ni k1 k2 : nkeeps (fun s => local_merge s ni k1 k2).
Proof.
  intros s j; unfold local_merge.
  destruct (find_reg k1 _) as [r1|]; [|split; auto].
  destruct (find_reg k2 _) as [r2|]; [|split; auto].
  split; [apply hn_set_same; reflexivity|apply length_set_node].
Qed.

Lemma apply_gate2_at_nkeeps ni k g c t : nkeeps (fun s => apply_gate2_at s ni k g c t).
Proof.
  intros s j; unfold apply_gate2_at. destruct (find_reg k _) as [r|]; [|split; auto].
  apply update_reg_at_nkeeps.
Qed.

Lemma merge_from_nkeeps li oi simNum lk : nkeeps (fun s => fst (merge_from s li oi simNum lk)).
Proof.
  intros s j; unfold merge_from.
  destruct (find_sq simNum _) as [x|]; [|split; auto].
  destruct (find_reg (s_reg x) _) as [orr|]; [|split; auto].
  set (on1 := mkNode _ _ _ _ _ _ _).
  set (s1 := set_node s oi on1).
  destruct (find_reg lk (regs (nth_node s1 li))) as [lr|]; [|split; auto].
  destruct (alloc_sims _ _ _ _) as [sims' ids]. cbn [fst].
  set (ln1 := mkNode _ _ _ _ _ _ _).
  assert (E1 : hn (nth_node s1 j) = hn (nth_node s j)) by (apply hn_set_same; reflexivity).
  assert (E2 : hn (nth_node (set_node s1 li ln1) j) = hn (nth_node s1 j)) by (apply hn_set_same; reflexivity).
  split.
  - rewrite <- E1, <- E2. rewrite nth_node_map_virt. unfold hn; cbn [virt with_virt]. rewrite map_map. apply map_ext.
    intros q. destruct (Nat.eqb _ _); auto. destruct (find_sq _ _); auto.
  - cbn [nodes]. rewrite map_length. unfold s1. rewrite !length_set_node. reflexivity.
Qed.

(* gates, in-place measurements, refusals and ignored operations leave every node's handle list unchanged *)
Definition quiet_op (o : op) : bool :=
  match o with OGate1 _ _ | OGate2 _ _ _ | OMeas _ true _ => true | _ => false end.

Lemma step_quiet s o j : quiet_op o = true ->
  hn (nth_node (fst (step s o)) j) = hn (nth_node s j) /\ length (nodes (fst (step s o))) = length (nodes s).
Proof.
  assert (HK : forall f, nkeeps f -> hn (nth_node (f s) j) = hn (nth_node s j) /\ length (nodes (f s)) = length (nodes s)).
  { intros f Hf. apply Hf. }
  destruct o; simpl; try discriminate; try (destruct inplace; [|discriminate]); intros _.
  - unfold op_gate1. destruct (find_handle s h) as [[vi q]|]; [|simpl; auto].
    destruct (locate s q) as [[x r]|]; [|simpl; auto].
    destruct (gate1_of g); simpl; auto. apply (HK _ (update_reg_at_nkeeps _ _)).
  - unfold op_gate2.
    destruct (find_handle s h1) as [[vi q1]|]; [|simpl; auto].
    destruct (find_handle s h2) as [[vi2 q2]|]; [|simpl; auto].
    destruct (negb _); [simpl; auto|].
    destruct (Nat.eqb (v_simNode q1) (v_simNode q2)).
    + destruct (pos_of s _ (v_simNum q1)) as [k1 p1]. destruct (pos_of s _ (v_simNum q2)) as [k2 p2].
      destruct (Nat.eqb k1 k2).
      * destruct (Nat.eqb p1 p2); simpl; auto. apply (HK _ (apply_gate2_at_nkeeps _ _ _ _ _)).
      * destruct (pos_of _ _ _) as [a b]. destruct (pos_of _ _ _) as [a' b']. cbn [fst].
        apply (HK _ (nkeeps_compose _ _ (local_merge_nkeeps (v_simNode q1) k1 k2) (apply_gate2_at_nkeeps (v_simNode q1) k1 g b b'))).
    + destruct (Nat.eqb (v_simNode q1) vi).
      * destruct (pos_of _ _ _) as [k1 x].
        pose proof (merge_from_nkeeps vi (v_simNode q2) (v_simNum q2) k1) as HM.
        destruct (merge_from _ _ _ _ _) as [s1 newT] eqn:EM.
        destruct (pos_of _ _ _) as [a b]. destruct (pos_of _ _ _) as [a' b']. cbn [fst].
        assert (HC : nkeeps (fun s0 => apply_gate2_at (fst (merge_from s0 vi (v_simNode q2) (v_simNum q2) k1)) vi k1 g b b')).
        { apply (nkeeps_compose _ _ HM (apply_gate2_at_nkeeps vi k1 g b b')). }
        specialize (HK _ HC). cbv beta in HK. rewrite EM in HK. exact HK.
      * destruct (Nat.eqb (v_simNode q2) vi).
        -- destruct (pos_of _ _ _) as [k2 x].
           pose proof (merge_from_nkeeps vi (v_simNode q1) (v_simNum q1) k2) as HM.
           destruct (merge_from _ _ _ _ _) as [s1 newC] eqn:EM.
           destruct (pos_of _ _ _) as [a b]. destruct (pos_of _ _ _) as [a' b']. cbn [fst].
           assert (HC : nkeeps (fun s0 => apply_gate2_at (fst (merge_from s0 vi (v_simNode q1) (v_simNum q1) k2)) vi k2 g b b')).
           { apply (nkeeps_compose _ _ HM (apply_gate2_at_nkeeps vi k2 g b b')). }
           specialize (HK _ HC). cbv beta in HK. rewrite EM in HK. exact HK.
        -- destruct (add_register_force (nth_node s vi)) as [nd1 r] eqn:EA.
           assert (H0 : hn (nth_node (set_node s vi nd1) j) = hn (nth_node s j) /\ length (nodes (set_node s vi nd1)) = length (nodes s)).
           { split; [apply hn_set_same|apply length_set_node]. unfold add_register_force in EA. inversion EA. reflexivity. }
           pose proof (merge_from_nkeeps vi (v_simNode q1) (v_simNum q1) (r_num r) (set_node s vi nd1) j) as HM1. cbv beta in HM1.
           destruct (merge_from (set_node s vi nd1) _ _ _ _) as [s1 newC]. cbn [fst] in HM1.
           pose proof (merge_from_nkeeps vi (v_simNode q2) (v_simNum q2) (r_num r) s1 j) as HM2. cbv beta in HM2.
           destruct (merge_from s1 _ _ _ _) as [s2 newT]. cbn [fst] in HM2.
           destruct (pos_of _ _ _) as [a b]. destruct (pos_of _ _ _) as [a' b']. cbn [fst].
           destruct (apply_gate2_at_nkeeps vi (r_num r) g b b' s2 j) as [G1 G2].
           destruct H0 as [H0 H0']. destruct HM1 as [M1 M1']. destruct HM2 as [M2 M2']. split; congruence.
  - unfold op_meas. destruct (find_handle s h) as [[vi q]|]; [|simpl; auto].
    destruct (locate s q) as [[x r]|]; [|simpl; auto].
    destruct (measure _ _ _ _ _) as [[o n1] t1]. cbn [fst].
    apply (HK _ (update_reg_at_nkeeps _ _)).
Qed.

(* a refused or ignored operation changes nothing at all *)
Lemma step_not_ok_same s o : (forall v, snd (step s o) <> Ok v) -> quiet_op o = false -> fst (step s o) = s.
Proof.
  destruct o; simpl; try discriminate; try (destruct inplace; [discriminate|]); intros H _.
  - destruct (Nat.ltb _ _); auto. unfold op_new in *.
    destruct (Nat.leb _ _); auto. destruct (add_register _) as [[nd1 r]|]; auto. exfalso. eapply H. reflexivity.
  - unfold op_send in *. destruct (find_handle s h) as [[vi q]|]; auto.
    destruct (Nat.leb _ _); auto. destruct (Nat.leb _ _); auto. exfalso. eapply H. reflexivity.
  - unfold op_meas in *.
    destruct (find_handle s h) as [[vi q]|]; auto. destruct (locate s q) as [[x r]|]; auto.
    destruct (measure _ _ _ _ _) as [[o n1] t1]. exfalso. eapply H. reflexivity.
  - destruct (Nat.ltb _ _); auto. unfold op_newreg in *.
    destruct (Nat.leb _ _); auto. exfalso. eapply H. reflexivity.
  - destruct (Nat.ltb _ _); auto. unfold op_new_inreg in *.
    destruct (negb _); auto. destruct (Nat.leb _ _); auto. destruct (find_reg _ _) as [r|]; auto.
    destruct (Nat.leb _ _); auto. exfalso. eapply H. reflexivity.
Qed.

(* creation inside an existing register: the new handle next_hid is appended at node i, nothing else moves *)
Lemma step_new_inreg_hn s i ow k v j : snd (step s (ONewInReg i ow k)) = Ok v ->
  hn (nth_node (fst (step s (ONewInReg i ow k))) j) = (if Nat.eqb j i then hn (nth_node s i) ++ [next_hid s] else hn (nth_node s j))
  /\ length (nodes (fst (step s (ONewInReg i ow k)))) = length (nodes s) /\ i < length (nodes s).
Proof.
  simpl. destruct (Nat.ltb_spec i (length (nodes s))) as [Hi|Hi]; [|discriminate].
  unfold op_new_inreg. destruct (negb _); [discriminate|]. destruct (Nat.leb _ _); [discriminate|].
  destruct (find_reg _ _) as [r|]; [|discriminate]. destruct (Nat.leb _ _); [discriminate|]. cbn [fst snd]. intros _.
  split; [|split; [cbn [nodes]; apply upd_length|exact Hi]].
  unfold nth_node at 1. cbn [nodes].
  destruct (Nat.eqb_spec j i) as [E|N].
  - subst j. rewrite nth_upd_eq by auto. unfold hn; simpl. rewrite map_app. reflexivity.
  - rewrite nth_upd_neq by auto. reflexivity.
Qed.

(* creating a register: no handle list changes *)
Lemma step_newreg_hn s i mq j :
  hn (nth_node (fst (step s (ONewReg i mq))) j) = hn (nth_node s j) /\ length (nodes (fst (step s (ONewReg i mq)))) = length (nodes s).
Proof.
  simpl. destruct (Nat.ltb _ _); [|simpl; auto]. unfold op_newreg. destruct (Nat.leb _ _); [simpl; auto|]. cbn [fst].
  split; [apply hn_set_same; reflexivity|apply length_set_node].
Qed.

(* creation: the new handle next_hid is appended at node i, nothing else moves *)
Lemma step_new_hn s i v j : snd (step s (ONew i)) = Ok v ->
  hn (nth_node (fst (step s (ONew i))) j) = (if Nat.eqb j i then hn (nth_node s i) ++ [next_hid s] else hn (nth_node s j))
  /\ length (nodes (fst (step s (ONew i)))) = length (nodes s) /\ i < length (nodes s).
Proof.
  simpl. destruct (Nat.ltb_spec i (length (nodes s))) as [Hi|Hi]; [|discriminate].
  unfold op_new. destruct (Nat.leb _ _); [discriminate|].
  unfold add_register. destruct (Nat.leb _ _); [discriminate|]. cbn [fst snd]. intros _.
  split; [|split; [cbn [nodes]; apply upd_length|exact Hi]].
  unfold nth_node at 1. cbn [nodes].
  destruct (Nat.eqb_spec j i) as [E|N].
  - subst j. rewrite nth_upd_eq by auto. unfold hn; simpl. rewrite map_app. reflexivity.
  - rewrite nth_upd_neq by auto. reflexivity.
Qed.

(* destructive measurement: the handle leaves its holder, nothing else moves *)
Lemma step_meas_hn s h c v vi q j : snd (step s (OMeas h false c)) = Ok v -> find_handle s h = Some (vi, q) ->
  hn (nth_node (fst (step s (OMeas h false c))) j) =
    (if Nat.eqb j vi then filter (fun x => negb (Nat.eqb x h)) (hn (nth_node s vi)) else hn (nth_node s j))
  /\ length (nodes (fst (step s (OMeas h false c)))) = length (nodes s).
Proof.
  simpl. unfold op_meas. intros Hok F. rewrite F in *.
  destruct (locate s q) as [[x r]|]; [|discriminate].
  destruct (measure _ _ _ _ _) as [[o n1] t1]. cbn [fst].
  set (r1 := reg_with_tab r n1 t1).
  pose proof (nkeeps_compose _ _ (update_reg_at_nkeeps (v_simNode q) r1) (remove_sim_nkeeps (v_simNode q) x r1 c)) as HC.
  set (s2 := remove_sim (update_reg_at s (v_simNode q) r1) (v_simNode q) x r1 c) in *.
  assert (Hvi : vi < length (nodes s)) by (apply find_handle_some in F; tauto).
  split.
  - rewrite nth_node_set. destruct (HC s vi) as [A B]. cbv beta in A, B. fold s2 in A, B.
    destruct (Nat.eqb_spec j vi) as [E|N]; simpl.
    + subst j. rewrite B. destruct (Nat.ltb_spec vi (length (nodes s))); [|lia].
      rewrite <- A. unfold hn, remove_vq; simpl. generalize (virt (nth_node s2 vi)) as l.
      induction l as [|a0 t0 IH]; simpl; auto. destruct (Nat.eqb (v_hid a0) h); simpl; congruence.
    + destruct (HC s j) as [A' _]. exact A'.
  - rewrite length_set_node. destruct (HC s 0) as [_ B]. exact B.
Qed.
