(* C10 — message streams are framed correctly and answered on the right connection.
   Only statements, each closed by `exact`, each followed by Print Assumptions.  Models and proofs: Frame/*.v.
   `run_fix` is the parser of the repaired code (fixes/D08-frame-loop.diff), `run_cur` the parser as found. *)
From Coq Require Import List NArith Arith Bool.
From SQ Require Import Base.ListUtil Frame.Bytes Frame.Msg Frame.Stream Frame.StreamProofs
  Frame.Reply Frame.ReplyProofs Frame.Conn Frame.ConnProofs Frame.Sock Frame.SockProofs.
Import ListNotations.
Local Open Scope nat_scope.

(* ---- server: every complete message handled once, in order, payload intact, for every chunking ------------- *)
Theorem C10_server_reassembly : forall (ms : list frame) (cs : list bytes),
  Forall wf_frame ms -> concat cs = encode ms -> run_fix [] cs = (ms, []).
Proof. exact server_reassembly_fix. Qed.
Print Assumptions C10_server_reassembly.

(* for every byte stream, well formed or not: the outcome depends only on the concatenation of the reads *)
Theorem C10_server_chunking_invariant : forall cs1 cs2 : list bytes,
  concat cs1 = concat cs2 -> run_fix [] cs1 = run_fix [] cs2.
Proof. exact run_fix_chunking_invariant. Qed.
Print Assumptions C10_server_chunking_invariant.

(* the repaired loop always terminates within the fuel the model gives it *)
Theorem C10_server_loop_terminates : forall b d : bytes, snd (feed_fix b d) <> SFuel.
Proof. exact feed_fix_no_fuel. Qed.
Print Assumptions C10_server_loop_terminates.

(* the code as found: several messages in one read *)
Theorem C10_server_reassembly_refuted :
  exists ms cs, Forall wf_frame ms /\ concat cs = encode ms /\
                run_cur [] cs = ([(1, HSignal 0)], enc1 (2, HStop 5))%N /\ run_cur [] cs <> (ms, []).
Proof. exact cur_coalesced_refuted. Qed.
Print Assumptions C10_server_reassembly_refuted.

(* the code as found: payload not cut at `length` *)
Theorem C10_server_payload_refuted :
  exists ms cs, Forall wf_frame ms /\ concat cs = encode ms /\
                fst (run_cur [] cs) = [(1, HSub ([7; 7; 7] ++ enc1 (2, HStop 5)))]%N /\
                fst (run_cur [] cs) <> ms.
Proof. exact cur_payload_refuted. Qed.
Print Assumptions C10_server_payload_refuted.

Theorem C10_server_cur_depends_on_chunking :
  exists cs1 cs2, concat cs1 = concat cs2 /\ run_cur [] cs1 <> run_cur [] cs2.
Proof. exact cur_depends_on_chunking. Qed.
Print Assumptions C10_server_cur_depends_on_chunking.

(* ---- completion replies ------------------------------------------------------------------------------------ *)
(* any number of connections, any interleaving of opens and reads: the Done ids written are exactly the ids of
   the handled messages, each once, in handling order *)
Theorem C10_one_done_per_message : forall exec ops, no_done exec ->
  map snd (dones (outs (nrun exec ops))) = map snd (arrivals (log (nrun exec ops))).
Proof. exact one_done_per_message_lem. Qed.
Print Assumptions C10_one_done_per_message.

(* with a single connection every Done is written to the connection its message arrived on *)
Theorem C10_single_connection_routing : forall exec ds, no_done exec ->
  let st := nrun exec (Open :: map (Data 0) ds) in dones (outs st) = arrivals (log st).
Proof. exact single_connection_routing_lem. Qed.
Print Assumptions C10_single_connection_routing.

(* with two connections the reply to a message of connection 0 is written to connection 1 *)
Theorem C10_reply_connection_refuted :
  let st := nrun (fun _ => []) [Open; Open; Data 0 (enc1 (5%N, HSignal 0%N))] in
  arrivals (log st) = [(0, 5%N)] /\ dones (outs st) = [(1, 5%N)] /\
  wire 0 (outs st) = [] /\ wire 1 (outs st) = [enc_ret (RDone 5%N)].
Proof. exact reply_connection_refuted_lem. Qed.
Print Assumptions C10_reply_connection_refuted.

(* ---- host side: reply reassembly --------------------------------------------------------------------------- *)
(* for ANY prefix-free codec and ANY chunking of the reply stream: the successive _handle_reply calls return the
   stream cut after every Done, and (error-free stream) leave the buffer empty *)
Theorem C10_client_reassembly :
  forall (M : Type) (enc : M -> bytes) (parse : bytes -> option M) (kind_of : M -> kind) (wf : M -> Prop),
  (forall m tail, wf m -> parse (enc m ++ tail) = Some m) ->
  (forall m p, wf m -> sprefix p (enc m) -> parse p = None) ->
  parse [] = None ->
  forall ms cs, Forall wf ms -> concat cs = flat_map enc ms ->
  fst (session enc parse kind_of (S (length ms)) (S (length ms + length cs)) [] cs) = spec kind_of (S (length ms)) ms /\
  (no_err kind_of ms -> snd (session enc parse kind_of (S (length ms)) (S (length ms + length cs)) [] cs) = []).
Proof. exact (@client_reassembly_gen). Qed.
Print Assumptions C10_client_reassembly.

(* the four return-message layouts of netqasm 2.3.0 are such a codec *)
Theorem C10_return_layouts_prefix_free :
  (forall m tail, wf_ret m -> parse_ret (enc_ret m ++ tail) = Some m) /\
  (forall m p, wf_ret m -> sprefix p (enc_ret m) -> parse_ret p = None) /\
  parse_ret [] = None.
Proof. exact (conj parse_enc_ret (conj parse_ret_prefix parse_ret_nil)). Qed.
Print Assumptions C10_return_layouts_prefix_free.

Theorem C10_client_reassembly_netqasm : forall ms cs,
  Forall wf_ret ms -> concat cs = flat_map enc_ret ms ->
  fst (session_ret (S (length ms)) (S (length ms + length cs)) [] cs) = spec_ret (S (length ms)) ms /\
  (no_err ret_kind ms -> snd (session_ret (S (length ms)) (S (length ms + length cs)) [] cs) = []).
Proof. exact client_reassembly_netqasm. Qed.
Print Assumptions C10_client_reassembly_netqasm.

(* ---- classical application socket -------------------------------------------------------------------------- *)
(* what holds for every schedule: the byte stream is intact and in order *)
Theorem C10_socket_stream_integrity : forall ops,
  concat (recvd (srun ops)) ++ inflight (srun ops) = concat (sent (srun ops)).
Proof. exact socket_stream_integrity_lem. Qed.
Print Assumptions C10_socket_stream_integrity.

(* one message per send only when every message is received before the next is sent and fits into one read *)
Theorem C10_socket_lockstep_ok : forall maxsize ms,
  Forall (fun m => length m <= maxsize) ms ->
  recvd (srun (lockstep maxsize ms)) = ms /\ inflight (srun (lockstep maxsize ms)) = [].
Proof. exact socket_lockstep_ok_lem. Qed.
Print Assumptions C10_socket_lockstep_ok.

Theorem C10_socket_one_per_send_refuted_coalesce :
  let ops := [Send [104%N]; Send [105%N]; Recv 1024 1024] in
  sent (srun ops) = [[104%N]; [105%N]] /\ recvd (srun ops) = [[104%N; 105%N]] /\
  recvd (srun ops) <> sent (srun ops).
Proof. exact socket_coalesce_refuted_lem. Qed.
Print Assumptions C10_socket_one_per_send_refuted_coalesce.

Theorem C10_socket_one_per_send_refuted_truncate : forall k,
  let m := repeat 97%N 1025 in
  let ops := [Send m; Recv 1024 k] in
  forall r, recvd (srun ops) = [r] -> r <> m.
Proof. exact socket_truncate_refuted_lem. Qed.
Print Assumptions C10_socket_one_per_send_refuted_truncate.
