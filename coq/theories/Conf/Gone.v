(* Model C: a removed node stays absent until an edit names it again; and a concrete reachable example. *)
From Coq Require Import List Bool Arith NArith String Lia.
From SQ Require Import Conf.Model Conf.Assoc Conf.Invariant.
Import ListNotations.
Open Scope list_scope.

Lemma smem_false x l : smem x l = false <-> ~ In x l.
Proof.
  unfold smem. split.
  - intros H Hin. assert (existsb (String.eqb x) l = true); [|congruence].
    apply existsb_exists. exists x; split; auto. apply String.eqb_refl.
  - intros H. destruct (existsb (String.eqb x) l) eqn:E; auto.
    apply existsb_exists in E. destruct E as (y & Hy & He). apply String.eqb_eq in He. subst. contradiction.
Qed.

Lemma absent_nil nn x : absent [] nn x.
Proof. intros nw []. Qed.

Lemma absent_empty x : absent_net empty_net x.
Proof. split; simpl; auto. Qed.

Lemma absent_adel c k nn x : absent c nn x -> absent (adel c k) nn x.
Proof. intros H nw Hin. apply In_adel in Hin. destruct Hin; auto. Qed.

Lemma full_topo_keys ks : map fst (full_topo ks) = ks.
Proof. unfold full_topo. rewrite map_map. simpl. apply map_id. Qed.

Lemma absent_net_add nw x y nd nb :
  absent_net nw x -> y <> x -> (forall l, nb = Some l -> ~ In x l) -> absent_net (net_add nw y nd nb) x.
Proof.
  intros [A1 A2] Hy Hnb. split; simpl.
  - rewrite keys_aset. intros [H|H]; auto.
  - destruct nb as [l|]; auto. split.
    + rewrite keys_aset. intros [H|H]; auto.
      destruct (topology nw) as [t|]; [destruct A2; auto|]. rewrite full_topo_keys in H; auto.
    + intros z l' Hin. apply In_aset in Hin. destruct Hin as [[-> ->]|Hin]; [apply Hnb; auto|].
      destruct (topology nw) as [t|]; [destruct A2 as [_ A2]; eauto|].
      unfold full_topo in Hin. apply in_map_iff in Hin. destruct Hin as (w & Heq & _). inversion Heq; subst.
      rewrite filter_In. intros [H _]; auto.
Qed.

Lemma absent_cfg_add c nn x nn' y nd nb :
  absent c nn x -> (nn' <> nn \/ (y <> x /\ forall l, nb = Some l -> ~ In x l)) ->
  absent (cfg_add c nn' y nd nb) nn x.
Proof.
  intros A Hc nw Hin. unfold cfg_add in Hin. apply In_aset in Hin. destruct Hin as [[E1 E2]|Hin]; auto. subst nn' nw.
  destruct Hc as [Hc|[Hy Hnb]]; [contradiction|]. apply absent_net_add; auto.
  destruct (aget c nn) as [nw0|] eqn:Ea; [apply A; apply aget_In; auto|apply absent_empty].
Qed.

Lemma absent_net_remove nw x y : absent_net nw x -> absent_net (net_remove nw y) x.
Proof.
  intros [A1 A2]. split; simpl.
  - rewrite keys_adel. intros [H _]; auto.
  - destruct (topology nw) as [t|]; simpl; auto. destruct A2 as [A2 A3]. split.
    + rewrite map_map. simpl. fold (map (@fst name (list name)) (adel t y)). rewrite keys_adel. intros [H _]; auto.
    + intros z l Hin. apply in_map_iff in Hin. destruct Hin as ([z' l'] & Heq & Hp). inversion Heq; subst.
      apply In_adel in Hp. destruct Hp as [Hp _]. rewrite filter_In. intros [H _]. eapply A3; eauto.
Qed.

Section Gone.
  Variable os : nat -> N -> bool.

  Lemma absent_add_node s net y ha hq hv pa pq pv nb nn x :
    absent (cfg s) nn x -> (defnet net <> nn \/ (y <> x /\ forall l, nb = Some l -> ~ In x l)) ->
    absent (cfg (fst (add_node os s net y ha hq hv pa pq pv nb))) nn x.
  Proof.
    intros A Hc. unfold add_node.
    destruct (resolve os (used s) (calls s) [(ha, pa); (hq, pq); (hv, pv)]) as [[r u] k].
    destruct r as [[|a [|q [|v [|w l]]]]|]; simpl; auto. apply absent_cfg_add; auto.
  Qed.

  Lemma absent_remove_node s net y nn x : absent (cfg s) nn x -> absent (cfg (remove_node s net y)) nn x.
  Proof.
    intros A. unfold remove_node. destruct (aget (cfg s) (defnet net)) as [nw0|] eqn:Ea; simpl; auto.
    intros nw Hin. apply In_aset in Hin. destruct Hin as [[E1 E2]|Hin]; auto. subst nn nw.
    apply absent_net_remove. apply A. apply aget_In; auto.
  Qed.

  Lemma absent_add_nodes xs : forall s net tp nn x,
    absent (cfg s) nn x ->
    (defnet net <> nn \/ (~ In x xs /\ forall t, tp = Some t -> forall y l, In (y, l) t -> ~ In x l)) ->
    absent (cfg (fst (add_nodes os s net xs tp))) nn x.
  Proof.
    induction xs as [|y t IH]; simpl; intros s net tp nn x A Hc; auto.
    assert (Hc' : defnet net <> nn \/ (~ In x t /\ forall t0, tp = Some t0 -> forall y l, In (y, l) t0 -> ~ In x l)).
    { destruct Hc as [Hc|[H1 H2]]; auto. right; split; auto. }
    destruct tp as [tp0|].
    - destruct (aget tp0 y) as [l|] eqn:El; simpl; auto.
      assert (A' : absent (cfg (fst (add_node os s net y None None None None None None (Some l)))) nn x).
      { apply absent_add_node; auto. destruct Hc as [Hc|[H1 H2]]; auto. right. split.
        - intro; apply H1; auto.
        - intros l0 Hl0. inversion Hl0; subst. eapply H2; eauto. apply aget_In; eauto. }
      destruct (add_node os s net y None None None None None None (Some l)) as [s' r]. simpl in A'.
      destruct r; simpl; auto.
    - assert (A' : absent (cfg (fst (add_node os s net y None None None None None None None))) nn x).
      { apply absent_add_node; auto. destruct Hc as [Hc|[H1 H2]]; auto. right. split.
        - intro; apply H1; auto.
        - discriminate. }
      destruct (add_node os s net y None None None None None None None) as [s' r]. simpl in A'.
      destruct r; simpl; auto.
  Qed.

  Lemma absent_step s o nn x :
    mentions nn x o = false -> absent (cfg s) nn x -> absent (cfg (fst (step os s o))) nn x.
  Proof.
    intros M A. destruct o; cbn [mentions] in M; try discriminate; cbn [step fst]; auto.
    - apply absent_add_node; auto.
      destruct (String.eqb_spec (defnet net) nn) as [E|E]; auto. right. cbn [andb] in M.
      apply orb_false_iff in M. destruct M as [M1 M2]. split.
      + apply String.eqb_neq; auto.
      + intros l Hl. subst nb. apply smem_false; auto.
    - apply absent_remove_node; auto.
    - unfold add_network. apply absent_add_nodes.
      + unfold remove_network; simpl. apply absent_adel; auto.
      + change (defnet (Some (defnet net))) with (defnet net).
        destruct (String.eqb_spec (defnet net) nn) as [E|E]; auto. right. cbn [andb] in M.
        apply orb_false_iff in M. destruct M as [M1 M2]. split; [apply smem_false; auto|].
        intros t Ht y l Hin. subst tp. apply smem_false.
        destruct (smem x l) eqn:Es; auto.
        apply not_true_iff_false in M2. exfalso. apply M2.
        apply existsb_exists. exists (y, l); auto.
    - unfold remove_network; simpl. apply absent_adel; auto.
    - unfold reset, add_network. apply absent_add_nodes.
      + unfold remove_network; simpl. apply absent_nil.
      + change (defnet (Some (defnet None))) with "default"%string.
        destruct (String.eqb_spec nn "default") as [E|E]; [|left; congruence].
        right. cbn [andb] in M. split; [apply smem_false; auto|discriminate].
  Qed.

  Lemma absent_run later : forall s nn x,
    forallb (fun o => negb (mentions nn x o)) later = true ->
    absent (cfg s) nn x -> absent (cfg (run os s later)) nn x.
  Proof.
    unfold run. induction later as [|o t IH]; simpl; intros s nn x H A; auto.
    apply andb_true_iff in H. destruct H as [H1 H2]. apply IH; auto.
    apply absent_step; auto. destruct (mentions nn x o); simpl in *; congruence.
  Qed.

  Lemma removed_stays_gone_all ops later net x :
    forallb (fun o => negb (mentions (defnet net) x o)) later = true ->
    absent (cfg (run os init (ops ++ [RemoveNode net x] ++ later))) (defnet net) x.
  Proof.
    intros H. unfold run. rewrite app_assoc, fold_left_app. apply (absent_run later); auto.
    apply removed_gone_all.
  Qed.
End Gone.

Open Scope string_scope.
Lemma example_reachable :
  let os := fun (k : nat) (p : N) => negb (N.eqb p 8001) in
  let s := run os init [Reset; AddNode (Some "netB") "Zed" (Some "10.1.2.3") None (Some "10.1.2.3") (Some 8000%N) None (Some 8000%N) (Some ["Bob"]);
                        AddNode (Some "netB") "Zed" (Some "10.1.2.3") None (Some "10.1.2.3") (Some 8005%N) None (Some 9001%N) (Some ["Bob"]);
                        AddNode None "Alice" None None None (Some 8000%N) None None None;
                        AddNode None "Bob" None None None None None None (Some ["Alice"; "Eve"]);
                        RemoveNode None "Eve"; Write; RemoveNetwork (Some "netB")] in
  List.length (endpoints (cfg s)) = 12 /\ List.length (used s) = 23 /\
  node_id (cfg s) "default" "David" = Some 3 /\ name_of_id (cfg s) "default" 3 = Some "David" /\
  option_map (fun f => List.length (endpoints f)) (file s) = Some 15 /\
  option_map topology (aget (cfg s) "default") =
    Some (Some [("Alice", ["Bob"; "Charlie"; "David"]); ("Bob", ["Alice"]); ("Charlie", ["Alice"; "Bob"; "David"]);
                ("David", ["Alice"; "Bob"; "Charlie"])]).
Proof. vm_compute. repeat split. Qed.
