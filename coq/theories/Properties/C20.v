(* C20 — a started network comes up completely and stop tears it down completely (Model D).
   PARTIAL BY NATURE: the theorems are about the connect/retry state machine of the virtual nodes and about the process list
   of simulaqron.network.Network.  That real processes come to life and die, that the kernel releases their ports, and how long
   a spawn takes are operating-system behaviour: assumed here (as explicit hypotheses), observed by the correspondence run. *)
From Coq Require Import List Bool Arith.
From SQ Require Import Deploy.Model Deploy.Invariant Deploy.Connect Deploy.Procs Deploy.Main Deploy.Examples.
Import ListNotations.

(* for EVERY order in which the nodes come up and EVERY interleaving of attempts, refusals and retries: in every fair run
   (each node is eventually started, each attempt in flight eventually completes, each scheduled retry eventually fires,
   attempts fail with ConnectionRefused only) there is a time from which on check_connections answers True at every node *)
Theorem C20_eventually_connected : forall n r, fair n r ->
  exists T, forall t, T <= t -> forall i, i < n -> check_connections n (state_at n r t) i = true.
Proof. exact eventually_connected. Qed.
Print Assumptions C20_eventually_connected.

(* fair runs exist for every network size (round robin over all events), so the theorem above is not vacuous *)
Theorem C20_fair_run_exists : forall n, fair n (round_robin n).
Proof. exact round_robin_fair. Qed.
Print Assumptions C20_fair_run_exists.

(* stability, for every event list, crashes included: no later event makes a node that reported True report False *)
Theorem C20_connected_is_stable : forall n es es' i,
  check_connections n (run_events n init es) i = true ->
  check_connections n (run_events n (run_events n init es) es') i = true.
Proof. exact connected_is_stable. Qed.
Print Assumptions C20_connected_is_stable.

(* True is never premature: a node reports True only after every configured node has been started *)
Theorem C20_connected_needs_all_started : forall n es i,
  check_connections n (run_events n init es) i = true ->
  forall j, j < n -> In j (started (run_events n init es)).
Proof. exact check_not_premature. Qed.
Print Assumptions C20_connected_needs_all_started.

(* a refused attempt is rescheduled and changes no connection entry; the retry becomes an attempt again; an attempt to a
   listening peer becomes a connection entry (the three arrows of connect_to_node / handle_connection / handle_connection_error) *)
Theorem C20_retry_logic : forall n s i j,
  (In (i, j) (att s) -> ~ In j (up s) ->
     In (i, j) (ret (step n s (Try i j))) /\ conn (step n s (Try i j)) = conn s) /\
  (In (i, j) (ret s) -> In (i, j) (att (step n s (Retry i j)))) /\
  (In (i, j) (att s) -> In j (up s) -> In (i, j) (conn (step n s (Try i j)))).
Proof. exact retry_logic. Qed.
Print Assumptions C20_retry_logic.

(* no duplicates, in any reachable state: a node holds at most one connection entry per peer, and a link is in at most one of
   the phases connected / attempt in flight / retry scheduled, each at most once *)
Theorem C20_no_duplicate_conn : forall n es i,
  let s := run_events n init es in
  NoDup (conn_of s i) /\ length (conn_of s i) <= n /\
  NoDup (att s) /\ NoDup (ret s) /\
  (forall p, In p (att s) -> ~ In p (conn s) /\ ~ In p (ret s)) /\
  (forall p, In p (ret s) -> ~ In p (conn s)).
Proof. exact no_duplicate_conn. Qed.
Print Assumptions C20_no_duplicate_conn.

(* Network.stop: given that terminating a live process kills it (OS assumption), no process of the list is alive afterwards,
   the running flag is down and the list still has its two entries per node *)
Theorem C20_stop_empties : forall (terminate : pst -> pst), terminate Alive = Ended ->
  forall nw, none_alive (stop terminate nw) /\ running_flag (stop terminate nw) = false /\
             length (procs (stop terminate nw)) = length (procs nw).
Proof. exact stop_empties. Qed.
Print Assumptions C20_stop_empties.

(* any history of start/stop calls (repaired start, fixes/D20): two processes per node; all alive after a start, none after a
   stop; after a stop the modelled components equal those of a network that was never started; start after stop gives the
   process list of the first start *)
Theorem C20_restartable : forall (spawn terminate : pst -> pst), spawn Fresh = Alive -> terminate Alive = Ended ->
  forall nodes ops,
  let nw := lifecycle spawn terminate nodes ops in
  length (procs nw) = 2 * nodes /\
  (forall ops', ops = ops' ++ [Start] -> all_alive nw) /\
  (forall ops', ops = ops' ++ [Stop] -> none_alive nw /\ running_flag nw = false) /\
  map is_alive (procs (stop terminate nw)) = map is_alive (procs (new_network nodes)) /\
  running_flag (stop terminate nw) = running_flag (new_network nodes) /\
  procs (start spawn (stop terminate (start spawn nw))) = procs (start spawn nw).
Proof. exact restartable_full. Qed.
Print Assumptions C20_restartable.

(* start() as it is in the unrepaired tree cannot start a stopped network again: AssertionError on the first ended process *)
Theorem C20_restart_unrepaired_refuted : forall (spawn terminate : pst -> pst), spawn Fresh = Alive -> terminate Alive = Ended ->
  exists nodes, snd (start_orig spawn (stop terminate (fst (start_orig spawn (new_network nodes))))) = false.
Proof. exact restart_unrepaired_refuted. Qed.
Print Assumptions C20_restart_unrepaired_refuted.
