(* boolean_gaussian_elimination, as coded, brings the Pauli part (columns < 2n) of any boolean matrix into
   reduced row echelon form: the first h rows of the output are in rref on columns < 2n, the remaining rows are
   zero there.  No hypothesis on the input (rows of any length, no commutation); the sign column 2n is also
   visited by the loop but is not part of the claim. *)
From Coq Require Import List Bool Arith Lia.
From SQ Require Import Base.ListUtil Stab.Pauli Stab.Kernels Stab.Gates Stab.Tableau Stab.Group Stab.GroupGates Stab.MulProof Stab.GaussProof Stab.MeasureProof Stab.F2.
Import ListNotations.

(* ---------- length, without hypotheses --------------------------------------------------------------------- *)
Lemma gauss_aux_length_gen n : forall fuel k h t, length (gauss_aux fuel n k h t) = length t.
Proof.
  induction fuel as [|f IH]; intros k h t; simpl; auto.
  destruct (Nat.ltb_spec h (length t)) as [Hh|Hh]; auto.
  destruct (find_pivot h k t) as [i|] eqn:Ep; auto.
  rewrite IH, eliminate_length. destruct (Nat.eqb i h); auto using swap_rows_length.
Qed.

Lemma gauss_length_gen n t : length (gauss n t) = length t.
Proof. apply gauss_aux_length_gen. Qed.

(* ---------- plumbing ------------------------------------------------------------------------------------------ *)
Lemma nth_firstn_lt {A} (l : list A) d : forall h i, i < h -> nth i (firstn h l) d = nth i l d.
Proof.
  induction l as [|x l IH]; intros h i Hi.
  - rewrite firstn_nil. reflexivity.
  - destruct h as [|h]; [lia|]. destruct i as [|i]; simpl; auto. apply IH. lia.
Qed.

Lemma find_pivot_none h k t : find_pivot h k t = None ->
  forall j, h <= j -> j < length t -> get (nth j t []) k = false.
Proof.
  intros H j Hj Hl. unfold find_pivot in H. apply (find_pivot_from_none _ _ _ H).
  replace j with (h + (j - h)) by lia. rewrite <- nth_skipn. apply nth_In. rewrite skipn_length. lia.
Qed.

(* bit c < 2n of row j after `eliminate` *)
Lemma get_eliminate n h k t j c : j < length t -> c < 2 * n ->
  get (nth j (eliminate n h k t) []) c =
  xorb (get (nth j t []) c) (negb (Nat.eqb j h) && get (nth j t []) k && get (nth h t []) c).
Proof.
  intros Hj Hc. rewrite nth_eliminate by auto.
  destruct (negb (Nat.eqb j h) && get (nth j t []) k); cbn [andb].
  - apply get_mul_rows_lt; auto.
  - rewrite xorb_false_r. reflexivity.
Qed.

(* ---------- the loop invariant ------------------------------------------------------------------------------ *)
(* cs = pivot columns found so far (row i has its leading 1 in column nth i cs); columns < min k m are done *)
Record Inv (m k : nat) (cs : list nat) (t : tab) : Prop := {
  I_len : length cs <= length t;
  I_bnd : forall i, i < length cs -> nth i cs 0 < k /\ nth i cs 0 < m;
  I_inc : forall i j, i < j -> j < length cs -> nth i cs 0 < nth j cs 0;
  I_one : forall i, i < length cs -> get (nth i t []) (nth i cs 0) = true;
  I_low : forall i c, i < length cs -> c < nth i cs 0 -> get (nth i t []) c = false;
  I_col : forall i j, i < length cs -> j < length t -> j <> i -> get (nth j t []) (nth i cs 0) = false;
  I_rest : forall j c, length cs <= j -> j < length t -> c < k -> c < m -> get (nth j t []) c = false }.

Lemma Inv_init m (t : tab) : Inv m 0 [] t.
Proof.
  constructor; cbn [length]; intros; try lia.
Qed.

(* the invariant only looks at columns < m *)
Lemma Inv_ext m k cs (t t' : tab) : length t' = length t ->
  (forall j c, j < length t -> c < m -> get (nth j t' []) c = get (nth j t []) c) ->
  Inv m k cs t -> Inv m k cs t'.
Proof.
  intros L E [I1 I2 I3 I4 I5 I6 I7]. constructor; rewrite ?L; auto.
  - intros i Hi. rewrite E; auto; try lia. apply I2; auto.
  - intros i c Hi Hc. rewrite E; auto; try lia. destruct (I2 i Hi). lia.
  - intros i j Hi Hj Hne. rewrite E; auto. apply I2; auto.
  - intros j c H1 H2 H3 H4. rewrite E; auto.
Qed.

Lemma Inv_final m k cs (t : tab) : Inv m k cs t -> m <= k \/ length t <= length cs -> Inv m m cs t.
Proof.
  intros [I1 I2 I3 I4 I5 I6 I7] H. constructor; auto.
  - intros i Hi. destruct (I2 i Hi). lia.
  - intros j c H1 H2 H3 H4. destruct H as [H|H]; [|lia]. apply I7; auto. lia.
Qed.

(* no pivot in column k below row h *)
Lemma Inv_skip m k h cs (t : tab) : Inv m k cs t -> (k <= m -> length cs = h) ->
  (forall j, h <= j -> j < length t -> get (nth j t []) k = false) -> Inv m (S k) cs t.
Proof.
  intros [I1 I2 I3 I4 I5 I6 I7] Hh Hz. constructor; auto.
  - intros i Hi. destruct (I2 i Hi). lia.
  - intros j c H1 H2 H3 H4. destruct (Nat.eq_dec c k) as [->|Hne].
    + apply Hz; auto. lia.
    + apply I7; auto. lia.
Qed.

(* swapping two rows below the pivots found so far *)
Lemma Inv_swap m k cs (t : tab) h i : Inv m k cs t -> length cs <= h -> h <= i -> i < length t ->
  Inv m k cs (swap_rows t h i).
Proof.
  intros [I1 I2 I3 I4 I5 I6 I7] Hh Hi Hl.
  assert (R : forall j, j < length t -> exists j', j' < length t /\ nth j (swap_rows t h i) [] = nth j' t [] /\
                        (j < length cs -> j' = j) /\ (length cs <= j -> length cs <= j')).
  { intros j Hj. rewrite nth_swap_rows by lia.
    destruct (Nat.eqb_spec i j); [exists h; repeat split; auto; lia|].
    destruct (Nat.eqb_spec h j); [exists i|exists j]; repeat split; auto; lia. }
  constructor; rewrite ?swap_rows_length; auto.
  - intros i0 H0. destruct (R i0) as (j' & Hj' & E & Ea & Eb); [lia|]. rewrite E, Ea by lia. auto.
  - intros i0 c H0 Hc. destruct (R i0) as (j' & Hj' & E & Ea & Eb); [lia|]. rewrite E, Ea by lia. auto.
  - intros i0 j H0 Hj Hne. destruct (R j Hj) as (j' & Hj' & E & Ea & Eb). rewrite E. apply I6; auto.
    destruct (le_lt_dec (length cs) j) as [G|G]; [specialize (Eb G)|specialize (Ea G)]; lia.
  - intros j c H1 H2 H3 H4. destruct (R j H2) as (j' & Hj' & E & Ea & Eb). rewrite E. apply I7; auto.
Qed.

(* elimination on a Pauli column k < 2n with the pivot in row h = length cs *)
Lemma Inv_elim_pivot n k cs (t : tab) h : Inv (2 * n) k cs t -> length cs = h -> h < length t -> k < 2 * n ->
  get (nth h t []) k = true -> Inv (2 * n) (S k) (cs ++ [k]) (eliminate n h k t).
Proof.
  intros [I1 I2 I3 I4 I5 I6 I7] Hcs Hh Hk Hp.
  assert (Plow : forall c, c < k -> get (nth h t []) c = false) by (intros; apply I7; lia).
  assert (Pcol : forall i, i < length cs -> get (nth h t []) (nth i cs 0) = false) by (intros; apply I6; lia).
  assert (Same : forall j c, j < length t -> c < 2 * n -> get (nth h t []) c = false ->
                             get (nth j (eliminate n h k t) []) c = get (nth j t []) c).
  { intros j c Hj Hc E. rewrite get_eliminate by auto. rewrite E, andb_false_r, xorb_false_r. reflexivity. }
  assert (Clr : forall j, j < length t -> j <> h -> get (nth j (eliminate n h k t) []) k = false).
  { intros j Hj Hne. rewrite get_eliminate by auto. rewrite Hp.
    destruct (Nat.eqb_spec j h); [lia|]. cbn [negb andb]. rewrite andb_true_r. apply xorb_nilpotent. }
  assert (Piv : nth h (eliminate n h k t) [] = nth h t []).
  { rewrite nth_eliminate by auto. rewrite Nat.eqb_refl. reflexivity. }
  assert (N1 : forall i, i < length cs -> nth i (cs ++ [k]) 0 = nth i cs 0) by (intros; apply app_nth1; auto).
  assert (N2 : nth h (cs ++ [k]) 0 = k).
  { rewrite app_nth2 by lia. rewrite Hcs, Nat.sub_diag. reflexivity. }
  constructor; rewrite ?eliminate_length, ?app_length; cbn [length].
  - lia.
  - intros i Hi. destruct (Nat.eq_dec i h) as [->|Hne]; [rewrite N2; lia|].
    rewrite N1 by lia. destruct (I2 i); lia.
  - intros i j Hij Hj. rewrite (N1 i) by lia. destruct (Nat.eq_dec j h) as [->|Hne].
    + rewrite N2. destruct (I2 i); lia.
    + rewrite N1 by lia. apply I3; lia.
  - intros i Hi. destruct (Nat.eq_dec i h) as [->|Hne].
    + rewrite N2, Piv. exact Hp.
    + rewrite N1 by lia. rewrite Same; [apply I4; lia|lia|apply I2; lia|apply Pcol; lia].
  - intros i c Hi Hc. destruct (Nat.eq_dec i h) as [->|Hne].
    + rewrite N2 in Hc. rewrite Piv. auto.
    + rewrite N1 in Hc by lia. destruct (I2 i) as [B1 B2]; [lia|].
      rewrite Same; [apply I5; lia|lia|lia|apply Plow; lia].
  - intros i j Hi Hj Hne. destruct (Nat.eq_dec i h) as [->|Hih].
    + rewrite N2. apply Clr; auto.
    + rewrite N1 by lia. rewrite Same; [apply I6; lia|lia|apply I2; lia|apply Pcol; lia].
  - intros j c H1 H2 H3 H4. destruct (Nat.eq_dec c k) as [->|Hne].
    + apply Clr; lia.
    + rewrite Same; [apply I7; lia|lia|lia|apply Plow; lia].
Qed.

(* elimination at the sign column or later: the pivot row is zero on all Pauli columns *)
Lemma Inv_elim_late n k cs (t : tab) h : Inv (2 * n) k cs t -> length cs <= h -> h < length t -> 2 * n <= k ->
  Inv (2 * n) (S k) cs (eliminate n h k t).
Proof.
  intros HI Hcs Hh Hk.
  assert (Pz : forall c, c < 2 * n -> get (nth h t []) c = false).
  { intros c Hc. apply (I_rest _ _ _ _ HI); lia. }
  apply Inv_ext with (t := t).
  - apply eliminate_length.
  - intros j c Hj Hc. rewrite get_eliminate by auto. rewrite Pz by auto.
    rewrite andb_false_r, xorb_false_r. reflexivity.
  - destruct HI as [I1 I2 I3 I4 I5 I6 I7]. constructor; auto.
    + intros i Hi. destruct (I2 i Hi). lia.
    + intros j c H1 H2 H3 H4. apply I7; auto. lia.
Qed.

Lemma gauss_aux_Inv n : forall fuel k h cs t,
  Inv (2 * n) k cs t -> length cs <= h -> (k <= 2 * n -> length cs = h) -> 2 * n <= k + fuel ->
  exists cs', Inv (2 * n) (2 * n) cs' (gauss_aux fuel n k h t).
Proof.
  induction fuel as [|f IH]; intros k h cs t HI Hle Heq Hf; cbn [gauss_aux].
  - exists cs. apply (Inv_final _ k); auto. left. lia.
  - destruct (Nat.ltb_spec h (length t)) as [Hh|Hh].
    2:{ exists cs. apply (Inv_final _ k); auto. destruct (le_lt_dec (2 * n) k); [left; lia|right; lia]. }
    destruct (find_pivot h k t) as [i|] eqn:Ep.
    + pose proof (find_pivot_some _ _ _ _ Ep) as Hi. apply find_pivot_bound in Ep; auto.
      set (t1 := if Nat.eqb i h then t else swap_rows t h i).
      assert (L1 : length t1 = length t) by (unfold t1; destruct (Nat.eqb i h); auto using swap_rows_length).
      assert (I1 : Inv (2 * n) k cs t1).
      { unfold t1. destruct (Nat.eqb i h); auto. apply Inv_swap; auto; lia. }
      assert (P1 : get (nth h t1 []) k = true).
      { unfold t1. destruct (Nat.eqb_spec i h) as [->|Hne]; auto.
        rewrite nth_swap_rows by lia. destruct (Nat.eqb_spec i h); [lia|]. rewrite Nat.eqb_refl. auto. }
      destruct (lt_dec k (2 * n)) as [Hk|Hk].
      * apply (IH (S k) (S h) (cs ++ [k])).
        -- apply Inv_elim_pivot; auto; lia.
        -- rewrite app_length. cbn [length]. lia.
        -- intros _. rewrite app_length. cbn [length]. lia.
        -- lia.
      * apply (IH (S k) (S h) cs).
        -- apply Inv_elim_late; auto; lia.
        -- lia.
        -- intros; lia.
        -- lia.
    + apply (IH (S k) h cs); auto; try lia.
      apply (Inv_skip _ _ h); auto. apply find_pivot_none; auto.
Qed.

(* ---------- from the index-based invariant to the inductive rref ---------------------------------------------- *)
Lemma lead_unique m r c c' : lead m r c -> lead m r c' -> c = c'.
Proof.
  intros (_ & H1 & L1) (_ & H2 & L2).
  destruct (lt_eq_lt_dec c c') as [[H|H]|H]; auto.
  - rewrite (L2 c H) in H1. discriminate.
  - rewrite (L1 c' H) in H2. discriminate.
Qed.

Lemma rref_of_index m : forall (A : list row) (cs : list nat), length A = length cs ->
  (forall i, i < length cs -> lead m (nth i A []) (nth i cs 0)) ->
  (forall i j, i < j -> j < length cs -> nth i cs 0 < nth j cs 0) ->
  (forall i j, i < length cs -> j < length cs -> j <> i -> get (nth j A []) (nth i cs 0) = false) ->
  rref m A.
Proof.
  induction A as [|r A IH]; intros cs L P1 P2 P3; [constructor|].
  destruct cs as [|c cs]; [discriminate|]. cbn [length] in *.
  apply (rref_cons m r c).
  - apply (P1 0). lia.
  - intros r' Hr' j Hj. apply (@In_nth row _ _ []) in Hr'. destruct Hr' as (i & Hi & <-).
    destruct (P1 (S i)) as (_ & _ & Hz); [lia|]. cbn [nth] in Hz. apply Hz.
    specialize (P2 0 (S i)). cbn [nth] in P2. lia.
  - intros r' c' Hr' Hl. apply (@In_nth row _ _ []) in Hr'. destruct Hr' as (i & Hi & <-).
    assert (E : c' = nth i cs 0).
    { apply (lead_unique m (nth i A [])); auto. apply (P1 (S i)). lia. }
    subst c'. apply (P3 (S i) 0); lia.
  - apply (IH cs); [lia| | |].
    + intros i Hi. apply (P1 (S i)). lia.
    + intros i j Hij Hj. apply (P2 (S i) (S j)); lia.
    + intros i j Hi Hj Hne. apply (P3 (S i) (S j)); lia.
Qed.

Lemma Inv_rref m cs (t : tab) : Inv m m cs t ->
  rref m (firstn (length cs) t) /\
  forall r, In r (skipn (length cs) t) -> forall j, j < m -> get r j = false.
Proof.
  intros [I1 I2 I3 I4 I5 I6 I7]. split.
  - apply (rref_of_index m _ cs); auto.
    + rewrite firstn_length. lia.
    + intros i Hi. rewrite nth_firstn_lt by auto. split; [apply I2; auto|]. split; auto.
    + intros i j Hi Hj Hne. rewrite nth_firstn_lt by auto. apply I6; auto. lia.
  - intros r Hr j Hj. apply (@In_nth row _ _ []) in Hr. destruct Hr as (i & Hi & <-).
    rewrite skipn_length in Hi. rewrite nth_skipn. apply I7; auto; lia.
Qed.

(* ---------- main statement --------------------------------------------------------------------------------------- *)
Theorem gauss_structure n t :
  exists h, h <= length (gauss n t) /\
            rref (2 * n) (firstn h (gauss n t)) /\
            forall r, In r (skipn h (gauss n t)) -> forall j, j < 2 * n -> get r j = false.
Proof.
  destruct (gauss_aux_Inv n (2 * n + 1) 0 0 [] t (Inv_init _ _)) as (cs & HI); cbn [length]; auto; try lia.
  fold (gauss n t) in HI. exists (length cs). split; [apply (I_len _ _ _ _ HI)|].
  apply Inv_rref; auto.
Qed.

