(* C04, proved part: the single-lock fragment (creation, single-qubit gate / measurement on a qubit with a fixed simulating
   node, no-op on an inactive handle).  Every run is finite (at most 11 events per operation - this bound holds for all
   lock-disciplined operations, sends included), and a run that cannot be extended has completed every operation and left
   every node lock free: an operation waits only while it holds nothing, so there is no wait-for cycle. *)
From Coq Require Import List Bool Arith Lia.
From SQ Require Import Base.ListUtil Conc.Model Conc.Own Conc.Deadlock.
Import ListNotations.

Definition single (k : okind) : bool := match k with KNop | KOne _ => true | _ => false end.
Definition all_single (cfg : list okind) : Prop := forallb single cfg = true.

Lemma single_disciplined cfg : all_single cfg -> all_disciplined cfg.
Proof.
  unfold all_single, all_disciplined. rewrite !forallb_forall. intros H k Hk. specialize (H k Hk).
  destruct k; simpl in *; auto; discriminate.
Qed.

Definition nodes_ok (nn : nat) (cfg : list okind) : Prop :=
  forall o n, kind_of cfg o = KOne n -> n < nn.

(* ---- every run of lock-disciplined operations is finite ---- *)
Definition rank (x : ost) : nat :=
  match x with
  | SIdle => 11
  | SRun _ p _ => 1 + length p
  | SDone => 0
  | _ => 0
  end.

Definition total (s : st) : nat := list_sum (map rank (ops s)).

Lemma sum_upd (l : list ost) i v : i < length l ->
  list_sum (map rank (upd l i v)) + rank (nth i l SDone) = list_sum (map rank l) + rank v.
Proof.
  revert i. induction l as [|h t IH]; intros [|i] H; simpl in *; try lia.
  specialize (IH i). lia.
Qed.

Lemma total_set_op s o v : o < length (ops s) ->
  total (set_op s o v) + rank (op_of s o) = total s + rank v.
Proof. intros. unfold total, op_of; simpl. apply sum_upd; auto. Qed.

Lemma prog_len k : length (prog_of k) <= 9.
Proof. destruct k; simpl; lia. Qed.

Lemma step_decreases cfg s e s' :
  all_disciplined cfg -> Own s -> step cfg s e = Some s' -> total s' < total s.
Proof.
  intros HC HS ST. destruct e as [o|o rs|n o r|n o r|n o was|o|o]; simpl in ST.
  - destruct (op_of s o) eqn:Eo; try discriminate.
    assert (R : o < length (ops s)) by (apply op_of_range; congruence).
    pose proof (disciplined_kind cfg o HC) as D.
    assert (s' = set_op s o (SRun [] (prog_of (kind_of cfg o)) None)) as ->.
    { destruct (kind_of cfg o); simpl in D; try discriminate; inv ST; reflexivity. }
    pose proof (total_set_op s o (SRun [] (prog_of (kind_of cfg o)) None) R) as T. rewrite Eo in T. simpl in T.
    pose proof (prog_len (kind_of cfg o)). lia.
  - pose proof (disciplined_kind cfg o HC) as D. destruct (kind_of cfg o); simpl in D; discriminate.
  - rewrite (own_orph _ HS) in ST. simpl in ST.
    destruct (op_of s o) eqn:Eo; try discriminate; try (own_contra HS o Eo).
    destruct prog as [|[m|m|m] p]; try discriminate. destruct cur; try discriminate.
    destruct (Nat.eqb m n); try discriminate. inv ST.
    assert (R : o < length (ops s)) by (apply op_of_range; congruence).
    pose proof (total_set_op s o (SRun held p (Some r)) R) as T. rewrite Eo in T. simpl in T. lia.
  - destruct (lock_of s n) eqn:El; try discriminate.
    destruct (Nat.ltb n (length (locks s))); try discriminate.
    rewrite (own_orph _ HS) in ST. simpl in ST.
    destruct (op_of s o) eqn:Eo; try discriminate; try (own_contra HS o Eo).
    destruct prog as [|[m|m|m] p]; try discriminate. destruct cur as [r'|]; try discriminate.
    destruct (Nat.eqb m n && Nat.eqb r r'); try discriminate. inv ST.
    assert (R : o < length (ops s)) by (apply op_of_range; congruence).
    pose proof (total_set_op s o (SRun (n :: held) p None) R) as T. rewrite Eo in T. simpl in T.
    unfold total in *. simpl in *. lia.
  - destruct (op_of s o) eqn:Eo; try discriminate; try (own_contra HS o Eo).
    destruct prog as [|[m|m|m] p]; try discriminate. destruct cur; try discriminate.
    destruct (Nat.eqb m n); try discriminate.
    unfold rel_lock in ST. destruct (Bool.eqb was _); try discriminate. inv ST.
    assert (R : o < length (ops s)) by (apply op_of_range; congruence).
    pose proof (total_set_op s o (SRun (remove1 n held) p None) R) as T. rewrite Eo in T. simpl in T.
    unfold total in *. simpl in *. lia.
  - pose proof (disciplined_kind cfg o HC) as D. destruct (kind_of cfg o); simpl in D; discriminate.
  - destruct (op_of s o) eqn:Eo; try discriminate; try (own_contra HS o Eo).
    destruct prog; try discriminate. destruct cur; try discriminate. inv ST.
    assert (R : o < length (ops s)) by (apply op_of_range; congruence).
    pose proof (total_set_op s o SDone R) as T. rewrite Eo in T. simpl in T. lia.
Qed.

Lemma run_bounded_from cfg tr : forall s s',
  all_disciplined cfg -> Own s -> run cfg s tr = Some s' -> length tr + total s' <= total s.
Proof.
  induction tr as [|e t IH]; simpl; intros s s' HC HS R.
  - inv R. lia.
  - destruct (step cfg s e) as [s0|] eqn:E; try discriminate.
    pose proof (step_decreases _ _ _ _ HC HS E).
    assert (Own s0) by (eapply own_step; eauto).
    specialize (IH s0 s' HC H0 R). lia.
Qed.

Lemma total_init nn cfg : total (init nn cfg) = 11 * length cfg.
Proof. unfold total, init; simpl. induction cfg; simpl; auto. rewrite IHcfg. lia. Qed.

Theorem disciplined_runs_bounded cfg nn tr s :
  all_disciplined cfg -> run cfg (init nn cfg) tr = Some s -> length tr <= 11 * length cfg.
Proof.
  intros HC R. pose proof (run_bounded_from cfg tr _ _ HC (own_init nn cfg) R) as B.
  rewrite total_init in B. lia.
Qed.

(* ---- shapes of the single-lock fragment ---- *)
Definition shape (nn : nat) (k : okind) (x : ost) : Prop :=
  match k with
  | KNop => x = SIdle \/ x = SRun [] [] None \/ x = SDone
  | KOne n =>
      n < nn /\ (x = SIdle \/ x = SRun [] [AReq n; AAcq n; ARel n] None \/ (exists r, x = SRun [] [AAcq n; ARel n] (Some r))
                 \/ x = SRun [n] [ARel n] None \/ x = SRun [] [] None \/ x = SDone)
  | _ => False
  end.

Record Sh (nn : nat) (cfg : list okind) (s : st) : Prop := {
  sh_ops : length (ops s) = length cfg;
  sh_locks : length (locks s) = nn;
  sh_shape : forall o, o < length cfg -> shape nn (kind_of cfg o) (op_of s o)
}.

Lemma single_kind cfg o : all_single cfg -> single (kind_of cfg o) = true.
Proof.
  unfold all_single, kind_of. intros H.
  destruct (Nat.lt_ge_cases o (length cfg)).
  - rewrite forallb_forall in H. apply H. apply nth_In; auto.
  - rewrite nth_overflow; auto.
Qed.

Lemma sh_init nn cfg : all_single cfg -> nodes_ok nn cfg -> Sh nn cfg (init nn cfg).
Proof.
  intros HC NO. split.
  - unfold init; simpl. apply map_length.
  - unfold init; simpl. apply repeat_length.
  - intros o Ro. rewrite op_of_init_idle by auto.
    pose proof (single_kind cfg o HC) as K. destruct (kind_of cfg o) eqn:E; simpl in K; try discriminate; simpl; auto.
    split; auto. eapply NO; eauto.
Qed.

Lemma sh_set_op nn cfg s o v :
  Sh nn cfg s -> (o < length cfg -> shape nn (kind_of cfg o) v) -> Sh nn cfg (set_op s o v).
Proof.
  intros [A B C] Hv. split; simpl; auto.
  - rewrite upd_length. auto.
  - intros o' Ro'. destruct (Nat.eq_dec o o') as [<-|Ne].
    + rewrite op_set_eq by lia. auto.
    + rewrite op_set_neq by auto. auto.
Qed.

Lemma sh_set_lock nn cfg s n v : Sh nn cfg s -> Sh nn cfg (set_lock s n v).
Proof.
  intros [A B C]. split; simpl; auto. rewrite upd_length. auto.
Qed.

Lemma sh_step nn cfg s e s' :
  all_single cfg -> Own s -> Sh nn cfg s -> step cfg s e = Some s' -> Sh nn cfg s'.
Proof.
  intros HC HS HSh ST.
  pose proof (single_disciplined cfg HC) as HD.
  assert (RR : forall o, op_of s o <> SDone -> o < length cfg).
  { intros o H. rewrite <- (sh_ops _ _ _ HSh). apply op_of_range; auto. }
  destruct e as [o|o rs|n o r|n o r|n o was|o|o]; simpl in ST.
  - destruct (op_of s o) eqn:Eo; try discriminate.
    pose proof (single_kind cfg o HC) as K.
    assert (Ro : o < length cfg) by (apply RR; congruence).
    pose proof (sh_shape _ _ _ HSh o Ro) as S0.
    destruct (kind_of cfg o) eqn:Ek; simpl in K; try discriminate; inv ST; apply sh_set_op; auto; intros _; rewrite Ek; simpl.
    + auto.
    + simpl in S0. destruct S0 as [Hn _]. split; auto.
  - pose proof (disciplined_kind cfg o HD) as D. destruct (kind_of cfg o); simpl in D; discriminate.
  - rewrite (own_orph _ HS) in ST. simpl in ST.
    destruct (op_of s o) eqn:Eo; try discriminate; try (own_contra HS o Eo).
    destruct prog as [|[m|m|m] p]; try discriminate. destruct cur; try discriminate.
    destruct (Nat.eqb_spec m n); try discriminate. subst m. inv ST.
    assert (Ro : o < length cfg) by (apply RR; congruence).
    pose proof (sh_shape _ _ _ HSh o Ro) as S0. rewrite Eo in S0.
    apply sh_set_op; auto. intros _.
    destruct (kind_of cfg o) eqn:Ek; simpl in *; try contradiction.
    + destruct S0 as [X|[X|X]]; discriminate.
    + destruct S0 as [Hn [X|[X|[[r' X]|[X|[X|X]]]]]]; try discriminate. inv X. split; [exact Hn|]. right; right; left. eauto.
  - destruct (lock_of s n) eqn:El; try discriminate.
    destruct (Nat.ltb n (length (locks s))); try discriminate.
    rewrite (own_orph _ HS) in ST. simpl in ST.
    destruct (op_of s o) eqn:Eo; try discriminate; try (own_contra HS o Eo).
    destruct prog as [|[m|m|m] p]; try discriminate. destruct cur as [r'|]; try discriminate.
    destruct (Nat.eqb_spec m n); simpl in ST; try discriminate. subst m.
    destruct (Nat.eqb r r'); try discriminate. inv ST.
    assert (Ro : o < length cfg) by (apply RR; congruence).
    pose proof (sh_shape _ _ _ HSh o Ro) as S0. rewrite Eo in S0.
    apply sh_set_lock. apply sh_set_op; auto. intros _.
    destruct (kind_of cfg o) eqn:Ek; simpl in *; try contradiction.
    + destruct S0 as [X|[X|X]]; discriminate.
    + destruct S0 as [Hn [X|[X|[[r2 X]|[X|[X|X]]]]]]; try discriminate. inv X. split; [exact Hn|]. right; right; right; left. reflexivity.
  - destruct (op_of s o) eqn:Eo; try discriminate; try (own_contra HS o Eo).
    destruct prog as [|[m|m|m] p]; try discriminate. destruct cur; try discriminate.
    destruct (Nat.eqb_spec m n); try discriminate. subst m.
    unfold rel_lock in ST. destruct (Bool.eqb was _); try discriminate. inv ST.
    assert (Ro : o < length cfg) by (apply RR; congruence).
    pose proof (sh_shape _ _ _ HSh o Ro) as S0. rewrite Eo in S0.
    apply sh_set_lock. apply sh_set_op; auto. intros _.
    destruct (kind_of cfg o) eqn:Ek; simpl in *; try contradiction.
    + destruct S0 as [X|[X|X]]; discriminate.
    + destruct S0 as [Hn [X|[X|[[r2 X]|[X|[X|X]]]]]]; try discriminate. inv X. split; [exact Hn|].
      simpl. rewrite Nat.eqb_refl. right; right; right; right; left. reflexivity.
  - pose proof (disciplined_kind cfg o HD) as D. destruct (kind_of cfg o); simpl in D; discriminate.
  - destruct (op_of s o) eqn:Eo; try discriminate; try (own_contra HS o Eo).
    destruct prog; try discriminate. destruct cur; try discriminate. inv ST.
    assert (Ro : o < length cfg) by (apply RR; congruence).
    pose proof (sh_shape _ _ _ HSh o Ro) as S0.
    apply sh_set_op; auto. intros _.
    destruct (kind_of cfg o) eqn:Ek; simpl in *; try contradiction; auto.
    destruct S0 as [Hn _]. split; [exact Hn|]. right; right; right; right; right; reflexivity.
Qed.

Lemma sh_run nn cfg tr : forall s s',
  all_single cfg -> Own s -> Sh nn cfg s -> run cfg s tr = Some s' -> Sh nn cfg s' /\ Own s'.
Proof.
  induction tr as [|e t IH]; simpl; intros s s' HC HS HSh R.
  - inv R. auto.
  - destruct (step cfg s e) as [s0|] eqn:E; try discriminate.
    apply (IH s0 s'); auto.
    + eapply own_step; eauto. apply single_disciplined; auto.
    + eapply sh_step; eauto.
Qed.

(* ---- progress: an operation that is not done has an enabled event, or the holder of the lock it waits for has one ---- *)
Lemma step_rel cfg s o n held p :
  op_of s o = SRun held (ARel n :: p) None ->
  exists s', step cfg s (ERel n o (is_some (lock_of s n))) = Some s'.
Proof.
  intros E. simpl. rewrite E, Nat.eqb_refl. unfold rel_lock.
  rewrite lock_set_op. rewrite Bool.eqb_reflx. eauto.
Qed.

Lemma step_done cfg s o held :
  op_of s o = SRun held [] None -> exists s', step cfg s (EDone o) = Some s'.
Proof. intros E. simpl. rewrite E. eauto. Qed.

Theorem single_progress nn cfg s o :
  all_single cfg -> Own s -> Sh nn cfg s -> o < length cfg -> done s o = false ->
  exists e s', step cfg s e = Some s'.
Proof.
  intros HC HS HSh Ro ND.
  pose proof (single_disciplined cfg HC) as HD.
  pose proof (sh_shape _ _ _ HSh o Ro) as S0.
  pose proof (own_orph _ HS) as Horph.
  destruct (kind_of cfg o) eqn:Ek; simpl in S0; try contradiction.
  - destruct S0 as [X|[X|X]].
    + exists (EIssue o). eexists. apply step_issue; auto. apply disciplined_kind; auto.
    + exists (EDone o). eapply step_done; eauto.
    + unfold done in ND. rewrite X in ND. discriminate.
  - destruct S0 as [Hn [X|[X|[[r X]|[X|[X|X]]]]]].
    + exists (EIssue o). eexists. apply step_issue; auto. apply disciplined_kind; auto.
    + exists (EReq n o 0). eexists. apply step_req; eauto.
    + destruct (lock_of s n) as [[o' b]|] eqn:El.
      * (* the holder is an operation of the fragment that holds n: it is about to release *)
        destruct (own_locks_run _ _ _ _ HS El) as (-> & held & prog & cur & Eo' & Hin).
        assert (Ro' : o' < length cfg).
        { rewrite <- (sh_ops _ _ _ HSh). apply op_of_range. congruence. }
        pose proof (sh_shape _ _ _ HSh o' Ro') as S1. rewrite Eo' in S1.
        destruct (kind_of cfg o') eqn:Ek'; simpl in S1; try contradiction.
        -- destruct S1 as [Y|[Y|Y]]; try discriminate. inv Y. contradiction.
        -- destruct S1 as [Hn' [Y|[Y|[[r' Y]|[Y|[Y|Y]]]]]]; try discriminate; inv Y; try contradiction.
           exists (ERel n0 o' (is_some (lock_of s n0))). eapply step_rel; eauto.
      * exists (EAcq n o r). eexists. apply step_acq; eauto. rewrite (sh_locks _ _ _ HSh). auto.
    + exists (ERel n o (is_some (lock_of s n))). eapply step_rel; eauto.
    + exists (EDone o). eapply step_done; eauto.
    + unfold done in ND. rewrite X in ND. discriminate.
Qed.

Theorem single_lock_fragment_completes_lemma nn cfg tr s :
  all_single cfg -> nodes_ok nn cfg ->
  run cfg (init nn cfg) tr = Some s ->
  length tr <= 11 * length cfg /\
  ((forall e, step cfg s e = None) ->
   (forall o, o < length cfg -> done s o = true) /\ (forall n, lock_of s n = None)).
Proof.
  intros HC NO R. split.
  - eapply disciplined_runs_bounded; eauto. apply single_disciplined; auto.
  - intros Stuck.
    destruct (sh_run nn cfg tr _ _ HC (own_init nn cfg) (sh_init nn cfg HC NO) R) as [HSh HS].
    assert (D : forall o, o < length cfg -> done s o = true).
    { intros o Ro. destruct (done s o) eqn:E; auto.
      destruct (single_progress nn cfg s o HC HS HSh Ro E) as (e & s' & ST). rewrite Stuck in ST. discriminate. }
    split; auto.
    intros n. destruct (lock_of s n) as [[o b]|] eqn:El; auto.
    destruct (own_locks_run _ _ _ _ HS El) as (-> & held & prog & cur & Eo & Hin).
    assert (Ro : o < length cfg).
    { rewrite <- (sh_ops _ _ _ HSh). apply op_of_range. congruence. }
    specialize (D o Ro). unfold done in D. rewrite Eo in D. discriminate.
Qed.

(* non-vacuity: three operations on two nodes, one complete run *)
Example single_example :
  let cfg := [KOne 0; KOne 0; KOne 1] in
  exists tr s, run cfg (init 2 cfg) tr = Some s /\ (forall e, step cfg s e = None) /\ done_ops s = [0; 1; 2] /\ held_nodes s = [].
Proof.
  exists [EIssue 0; EIssue 1; EReq 0 1 0; EReq 0 0 1; EAcq 0 1 0; EIssue 2; EReq 1 2 2; EAcq 1 2 2; ERel 0 1 true;
          EAcq 0 0 1; EDone 1; ERel 1 2 true; ERel 0 0 true; EDone 2; EDone 0].
  eexists. split; [vm_compute; reflexivity|]. split; [|split; reflexivity].
  intros e. destruct e as [o|o rs|n o r|n o r|n o was|o|o];
    do 4 (try (destruct o as [|o]; try reflexivity));
    do 3 (try (destruct n as [|n]; try reflexivity)).
Qed.
