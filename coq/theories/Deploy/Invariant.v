(* Model D — the inductive invariant of the connect/retry state machine, for EVERY event list (crashes included). *)
From Coq Require Import List Bool Arith Lia.
From SQ Require Import Deploy.Model.
Import ListNotations.

(* ---- membership lemmas for the list-as-set operations ------------------------------------------------------- *)
Lemma leqb_eq a b : leqb a b = true <-> a = b.
Proof.
  destruct a as [a1 a2], b as [b1 b2]; unfold leqb; simpl.
  rewrite andb_true_iff, !Nat.eqb_eq. split.
  - intros [-> ->]; reflexivity.
  - intros H; inversion H; auto.
Qed.

Lemma leqb_refl a : leqb a a = true.
Proof. apply leqb_eq; reflexivity. Qed.

Lemma link_dec (a b : link) : {a = b} + {a <> b}.
Proof. decide equality; apply Nat.eq_dec. Qed.

Lemma lmem_In p l : lmem p l = true <-> In p l.
Proof.
  unfold lmem. rewrite existsb_exists. split.
  - intros [x [Hx He]]. apply leqb_eq in He. subst; auto.
  - intros H. exists p. split; auto. apply leqb_refl.
Qed.

Lemma lmem_nIn p l : lmem p l = false <-> ~ In p l.
Proof.
  split; intros H.
  - intros Hi. apply lmem_In in Hi. congruence.
  - destruct (lmem p l) eqn:E; auto. apply lmem_In in E. contradiction.
Qed.

Lemma nmem_In i l : nmem i l = true <-> In i l.
Proof.
  unfold nmem. rewrite existsb_exists. split.
  - intros [x [Hx He]]. apply Nat.eqb_eq in He. subst; auto.
  - intros H. exists i. split; auto. apply Nat.eqb_refl.
Qed.

Lemma nmem_nIn i l : nmem i l = false <-> ~ In i l.
Proof.
  split; intros H.
  - intros Hi. apply nmem_In in Hi. congruence.
  - destruct (nmem i l) eqn:E; auto. apply nmem_In in E. contradiction.
Qed.

Lemma In_ldel q p l : In q (ldel p l) <-> In q l /\ q <> p.
Proof.
  unfold ldel. rewrite filter_In. split; intros [H1 H2]; split; auto.
  - intros ->. rewrite leqb_refl in H2. discriminate.
  - destruct (leqb p q) eqn:E; auto. apply leqb_eq in E. subst. congruence.
Qed.

Lemma In_lins q p l : In q (lins p l) <-> q = p \/ In q l.
Proof.
  unfold lins. destruct (lmem p l) eqn:E.
  - apply lmem_In in E. split; auto. intros [->|H]; auto.
  - simpl. split; intros [H|H]; auto.
Qed.

Lemma In_ndel x i l : In x (ndel i l) <-> In x l /\ x <> i.
Proof.
  unfold ndel. rewrite filter_In. split; intros [H1 H2]; split; auto.
  - intros ->. rewrite Nat.eqb_refl in H2. discriminate.
  - destruct (Nat.eqb_spec i x); auto; subst; congruence.
Qed.

Lemma In_notfrom p i l : In p (notfrom i l) <-> In p l /\ fst p <> i.
Proof.
  unfold notfrom. rewrite filter_In. split; intros [H1 H2]; split; auto.
  - intros E. rewrite E, Nat.eqb_refl in H2. discriminate.
  - destruct (Nat.eqb_spec (fst p) i); auto; contradiction.
Qed.

Lemma In_from p i l : In p (from i l) <-> In p l /\ fst p = i.
Proof.
  unfold from. rewrite filter_In, Nat.eqb_eq. tauto.
Qed.

Lemma In_others n i j : In j (others n i) <-> j < n /\ j <> i.
Proof.
  unfold others. rewrite filter_In, in_seq. split.
  - intros [H1 H2]. split; [lia|]. intros ->. rewrite Nat.eqb_refl in H2. discriminate.
  - intros [H1 H2]. split; [lia|]. destruct (Nat.eqb_spec j i); auto.
Qed.

Lemma NoDup_lins p l : NoDup l -> NoDup (lins p l).
Proof.
  intros H. unfold lins. destruct (lmem p l) eqn:E; auto.
  constructor; auto. apply lmem_nIn; auto.
Qed.

Lemma NoDup_ldel p l : NoDup l -> NoDup (ldel p l).
Proof. intros H. apply NoDup_filter; auto. Qed.

Lemma NoDup_app_intro {A} (l1 l2 : list A) :
  NoDup l1 -> NoDup l2 -> (forall x, In x l1 -> ~ In x l2) -> NoDup (l1 ++ l2).
Proof.
  induction l1 as [|a l1 IH]; simpl; intros H1 H2 H; auto.
  inversion H1; subst. constructor.
  - rewrite in_app_iff. intros [Hi|Hi]; auto. apply (H a); auto.
  - apply IH; auto.
Qed.

Lemma NoDup_map_pair (i : nat) (l : list nat) : NoDup l -> NoDup (map (pair i) l).
Proof.
  induction 1 as [|x l Hx Hn IH]; simpl; constructor; auto.
  rewrite in_map_iff. intros [y [Hy Hi]]. inversion Hy; subst. contradiction.
Qed.

Lemma In_map_pair (i : nat) (p : link) (l : list nat) : In p (map (pair i) l) <-> fst p = i /\ In (snd p) l.
Proof.
  rewrite in_map_iff. split.
  - intros [y [<- Hy]]. simpl; auto.
  - intros [<- H]. exists (snd p). destruct p; auto.
Qed.

(* ---- the invariant ---------------------------------------------------------------------------------------------- *)
Record Inv (n : nat) (s : state) : Prop := {
  inv_nd_conn : NoDup (conn s);
  inv_nd_att : NoDup (att s);
  inv_nd_ret : NoDup (ret s);
  inv_conn_rng : forall i j, In (i, j) (conn s) -> In i (started s) /\ j < n;
  inv_att_rng : forall i j, In (i, j) (att s) -> In i (up s) /\ j < n /\ i <> j;
  inv_ret_rng : forall i j, In (i, j) (ret s) -> In i (up s) /\ j < n /\ i <> j;
  inv_up_started : forall i, In i (up s) -> In i (started s) /\ i < n;
  (* a link is in at most one phase: connected, attempt in flight, retry scheduled *)
  inv_att_excl : forall p, In p (att s) -> ~ In p (conn s) /\ ~ In p (ret s);
  inv_ret_excl : forall p, In p (ret s) -> ~ In p (conn s);
  (* a running node accounts for every configured node *)
  inv_cover : forall i j, In i (up s) -> j < n -> In (i, j) (conn s) \/ In (i, j) (att s) \/ In (i, j) (ret s)
}.

Lemma Inv_init n : Inv n init.
Proof. constructor; simpl; try constructor; intros; contradiction. Qed.

Lemma Inv_step n s e : Inv n s -> Inv n (step n s e).
Proof.
  intros [Nc Na Nr Rc Ra Rr Us Ea Er Cv].
  destruct e as [i|i j|i j|i j]; simpl.
  - (* Up *)
    destruct ((i <? n) && negb (nmem i (started s))) eqn:G; [|constructor; auto].
    apply andb_true_iff in G. destruct G as [G1 G2].
    apply Nat.ltb_lt in G1. apply negb_true_iff in G2. apply nmem_nIn in G2.
    assert (Nup : ~ In i (up s)) by (intros H; apply Us in H; tauto).
    constructor; simpl.
    + constructor; auto. intros H. apply Rc in H. tauto.
    + apply NoDup_app_intro; auto.
      * apply NoDup_map_pair. apply NoDup_filter. apply seq_NoDup.
      * intros [a b] H1 H2. apply In_map_pair in H1. simpl in H1. destruct H1 as [-> _].
        apply Ra in H2. tauto.
    + auto.
    + intros a b [H|H].
      * inversion H; subst. auto.
      * apply Rc in H. tauto.
    + intros a b H. apply in_app_iff in H. destruct H as [H|H].
      * apply In_map_pair in H. simpl in H. destruct H as [-> H]. apply In_others in H. intuition.
      * apply Ra in H. tauto.
    + intros a b H. apply Rr in H. tauto.
    + intros a [<-|H]; auto. apply Us in H. tauto.
    + intros [a b] H. apply in_app_iff in H. destruct H as [H|H].
      * apply In_map_pair in H. simpl in H. destruct H as [-> H]. apply In_others in H. split.
        -- intros [E|E]; [inversion E; lia|]. apply Rc in E. tauto.
        -- intros E. apply Rr in E. tauto.
      * split.
        -- intros [E|E]; [inversion E; subst; apply Ra in H; tauto|]. apply Ea in H. tauto.
        -- apply Ea in H. tauto.
    + intros [a b] H [E|E].
      * inversion E; subst. apply Rr in H. tauto.
      * apply Er in H. tauto.
    + intros a b [E|H] Hb.
      * subst a. destruct (Nat.eq_dec b i) as [->|Hne]; auto.
        right; left. apply in_app_iff. left. apply In_map_pair. simpl. split; auto. apply In_others. auto.
      * destruct (Cv a b H Hb) as [C|[C|C]]; auto.
        right; left. apply in_app_iff. auto.
  - (* Try *)
    destruct (lmem (i, j) (att s)) eqn:G; [|constructor; auto].
    apply lmem_In in G. destruct (Ra _ _ G) as [Gi [Gj Gne]].
    destruct (nmem j (up s)) eqn:U.
    + constructor; simpl; auto.
      * apply NoDup_lins; auto.
      * apply NoDup_ldel; auto.
      * intros a b H. apply In_lins in H. destruct H as [H|H].
        -- inversion H; subst. split; auto. apply Us; auto.
        -- apply Rc; auto.
      * intros a b H. apply In_ldel in H. apply Ra. tauto.
      * intros p H. apply In_ldel in H. destruct H as [H Hne]. split.
        -- intros E. apply In_lins in E. destruct E as [E|E]; [contradiction|]. apply Ea in H. tauto.
        -- apply Ea in H. tauto.
      * intros p H E. apply In_lins in E. destruct E as [->|E].
        -- apply Ea in G. tauto.
        -- apply Er in H. tauto.
      * intros a b Ha Hb. destruct (link_dec (a, b) (i, j)) as [E|E].
        -- left. apply In_lins. auto.
        -- destruct (Cv a b Ha Hb) as [C|[C|C]]; auto.
           ++ left. apply In_lins. auto.
           ++ right; left. apply In_ldel. auto.
    + constructor; simpl; auto.
      * apply NoDup_ldel; auto.
      * apply NoDup_lins; auto.
      * intros a b H. apply In_ldel in H. apply Ra. tauto.
      * intros a b H. apply In_lins in H. destruct H as [H|H].
        -- inversion H; subst. auto.
        -- apply Rr; auto.
      * intros p H. apply In_ldel in H. destruct H as [H Hne]. split.
        -- apply Ea in H. tauto.
        -- intros E. apply In_lins in E. destruct E as [E|E]; [contradiction|]. apply Ea in H. tauto.
      * intros p H. apply In_lins in H. destruct H as [->|H].
        -- apply Ea in G. tauto.
        -- apply Er; auto.
      * intros a b Ha Hb. destruct (link_dec (a, b) (i, j)) as [E|E].
        -- right; right. apply In_lins. auto.
        -- destruct (Cv a b Ha Hb) as [C|[C|C]]; auto.
           ++ right; left. apply In_ldel. auto.
           ++ right; right. apply In_lins. auto.
  - (* Retry *)
    destruct (lmem (i, j) (ret s)) eqn:G; [|constructor; auto].
    apply lmem_In in G. destruct (Rr _ _ G) as [Gi [Gj Gne]].
    constructor; simpl; auto.
    + apply NoDup_lins; auto.
    + apply NoDup_ldel; auto.
    + intros a b H. apply In_lins in H. destruct H as [H|H].
      * inversion H; subst. auto.
      * apply Ra; auto.
    + intros a b H. apply In_ldel in H. apply Rr. tauto.
    + intros p H. apply In_lins in H. destruct H as [->|H].
      * split; [apply Er; auto|]. intros E. apply In_ldel in E. tauto.
      * split; [apply Ea in H; tauto|]. intros E. apply In_ldel in E. apply Ea in H. tauto.
    + intros p H. apply In_ldel in H. apply Er. tauto.
    + intros a b Ha Hb. destruct (link_dec (a, b) (i, j)) as [E|E].
      * right; left. apply In_lins. auto.
      * destruct (Cv a b Ha Hb) as [C|[C|C]]; auto.
        -- right; left. apply In_lins. auto.
        -- right; right. apply In_ldel. auto.
  - (* Crash *)
    destruct (lmem (i, j) (att s)) eqn:G; [|constructor; auto].
    constructor; simpl; auto.
    + apply NoDup_filter; auto.
    + apply NoDup_filter; auto.
    + intros a b H. apply In_notfrom in H. simpl in H. destruct H as [H Hne].
      apply Ra in H. rewrite In_ndel. tauto.
    + intros a b H. apply In_notfrom in H. simpl in H. destruct H as [H Hne].
      apply Rr in H. rewrite In_ndel. tauto.
    + intros a H. apply In_ndel in H. apply Us. tauto.
    + intros p H. apply In_notfrom in H. destruct H as [H Hne]. apply Ea in H.
      split; [tauto|]. intros E. apply In_notfrom in E. tauto.
    + intros p H. apply In_notfrom in H. apply Er. tauto.
    + intros a b Ha Hb. apply In_ndel in Ha. destruct Ha as [Ha Hne].
      destruct (Cv a b Ha Hb) as [C|[C|C]]; auto.
      * right; left. apply In_notfrom. auto.
      * right; right. apply In_notfrom. auto.
Qed.

Lemma Inv_run n es : forall s, Inv n s -> Inv n (run_events n s es).
Proof.
  unfold run_events. induction es as [|e es IH]; simpl; intros s H; auto.
  apply IH. apply Inv_step; auto.
Qed.

Lemma Inv_state_at n r t : Inv n (state_at n r t).
Proof. induction t; simpl; [apply Inv_init | apply Inv_step; auto]. Qed.

(* ---- consequences for what a node reports ------------------------------------------------------------------------ *)
Lemma In_conn_of s i j : In j (conn_of s i) <-> In (i, j) (conn s).
Proof.
  unfold conn_of. rewrite in_map_iff. split.
  - intros [[a b] [E H]]. simpl in E. subst. apply In_from in H. simpl in H. destruct H as [H ->]. auto.
  - intros H. exists (i, j). split; auto. apply In_from. auto.
Qed.

Lemma NoDup_map_snd_from i l : NoDup l -> NoDup (map snd (from i l)).
Proof.
  induction 1 as [|[a b] l Hx Hn IH]; simpl; [constructor|].
  destruct (Nat.eqb_spec a i) as [->|Hne]; simpl; auto.
  constructor; auto.
  rewrite in_map_iff. intros [[c d] [E H]]. simpl in E. subst.
  apply In_from in H. simpl in H. destruct H as [H ->]. contradiction.
Qed.

(* a node never holds two connections to the same peer *)
Lemma conn_of_NoDup n s i : Inv n s -> NoDup (conn_of s i).
Proof. intros H. apply NoDup_map_snd_from. apply (inv_nd_conn _ _ H). Qed.

Lemma conn_of_bound n s i : Inv n s -> length (conn_of s i) <= n.
Proof.
  intros H. rewrite <- (seq_length n 0).
  apply NoDup_incl_length; [eapply conn_of_NoDup; eauto|].
  intros j Hj. apply In_conn_of in Hj. apply (inv_conn_rng _ _ H) in Hj. apply in_seq. lia.
Qed.

(* check_connections answers True exactly when the node has a connection entry for every configured node *)
Lemma check_connections_iff n s i : Inv n s ->
  (check_connections n s i = true <-> forall j, j < n -> In (i, j) (conn s)).
Proof.
  intros H. unfold check_connections. rewrite Nat.eqb_eq. split.
  - intros L j Hj. apply In_conn_of.
    assert (I : incl (seq 0 n) (conn_of s i)).
    { apply NoDup_length_incl.
      - eapply conn_of_NoDup; eauto.
      - rewrite seq_length. lia.
      - intros k Hk. apply In_conn_of in Hk. apply (inv_conn_rng _ _ H) in Hk. apply in_seq. lia. }
    apply I. apply in_seq. lia.
  - intros A. apply Nat.le_antisymm; [eapply conn_of_bound; eauto|].
    rewrite <- (seq_length n 0) at 1.
    apply NoDup_incl_length; [apply seq_NoDup|].
    intros j Hj. apply in_seq in Hj. apply In_conn_of. apply A. lia.
Qed.
