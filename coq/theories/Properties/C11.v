(* C11 — freeing qubits and stopping an application releases everything it held (Model N over Model V, one NetQASM host
   on node i, no entanglement generation: the closed world in which "what the node held before" is well defined).
   Model of the code after the D16 repair (a refused qalloc is rolled back).  Not proved here: the register count
   (numRegs) returning to baseline -- Model V's invariant does not exclude empty registers; the correspondence and the
   count oracle of harness/props/c11.py cover it on every run.  The halves handed to another node: Properties/C08.v. *)
From Coq Require Import List Bool Arith.
From SQ Require Import Base.ListUtil Net.Model Net.Inv Net.Population Qasm.Exec Qasm.ExecProps Qasm.Teardown.
Import ListNotations.

(* the invariant: qubitList handles are exactly the qubits the node holds, every mapped address has its qubit, qubitList
   keys are used physical ids -- preserved by EVERY instruction, failing ones included *)
Theorem C11_teardown_invariant : forall i s q, tinv i s -> tinv i (fst (fst (exec i s q))).
Proof. exact tinv_exec. Qed.
Print Assumptions C11_teardown_invariant.

Theorem C11_teardown_invariant_reachable : forall caps i qs, tinv i (run_q i (init_q caps) qs).
Proof. exact tinv_reachable. Qed.
Print Assumptions C11_teardown_invariant_reachable.

(* StopApp of an active application always completes (never escapes the handler), forgets the unit module and
   removes every qubit it still mapped from qubitList (each by a destructive measurement that succeeded) *)
Theorem C11_stop_done : forall i s app coins um,
  tinv i s -> mem_nat app (h_active (q_host s)) = true -> alookup app (h_units (q_host s)) = Some um ->
  snd (fst (exec i s (QStopApp app coins))) = RDone None /\
  alookup app (h_units (q_host (fst (fst (exec i s (QStopApp app coins)))))) = None /\
  (forall a p, nth_error um a = Some (Some p) -> plookup (PP p) (h_qlist (q_host (fst (fst (exec i s (QStopApp app coins)))))) = None).
Proof. exact stop_done. Qed.
Print Assumptions C11_stop_done.

(* nothing but application qubits is ever in qubitList *)
Theorem C11_leakfree : forall i s q, tinv i s -> leakfree s -> fresh_init s q -> leakfree (fst (fst (exec i s q))).
Proof. exact leakfree_exec. Qed.
Print Assumptions C11_leakfree.

(* stop_restores: for every history (any mix of allocations, frees, gates, measurements, refused and failed instructions,
   several applications at once, any number of generations) in which an application id is initialised only while it has no
   unit module: when every application has been stopped, the node holds as many qubits as before the first one (none) *)
Theorem C11_stop_restores : forall caps i qs, fresh_inits i (init_q caps) qs ->
  h_units (q_host (run_q i (init_q caps) qs)) = [] ->
  held (q_net (run_q i (init_q caps) qs)) i = held (q_net (init_q caps)) i /\ h_qlist (q_host (run_q i (init_q caps) qs)) = [].
Proof. exact stop_restores. Qed.
Print Assumptions C11_stop_restores.

Theorem C11_stop_restores_from : forall i qs s, tinv i s -> leakfree s -> fresh_inits i s qs ->
  h_units (q_host (run_q i s qs)) = [] ->
  held (q_net (run_q i s qs)) i = 0 /\ h_qlist (q_host (run_q i s qs)) = [].
Proof. exact stop_restores_from. Qed.
Print Assumptions C11_stop_restores_from.

(* non-vacuity: two generations on a node with room for 2 qubits, a refused third allocation, a failed gate, a free,
   a stop that still has to clear a qubit *)
Theorem C11_example : fresh_inits 0 (init_q [(2, 3)]) ex_history /\ h_units (q_host (run_q 0 (init_q [(2, 3)]) ex_history)) = []
  /\ held (q_net (run_q 0 (init_q [(2, 3)]) (firstn 8 ex_history))) 0 = 1
  /\ held (q_net (run_q 0 (init_q [(2, 3)]) ex_history)) 0 = held (q_net (init_q [(2, 3)])) 0.
Proof. exact (conj ex_history_fresh (conj ex_history_idle (conj (proj2 ex_history_results) ex_history_restored))). Qed.
Print Assumptions C11_example.

(* the register / simulated-qubit half (closed world of one host): the network the host drives is a reachable state of the
   virtual-node model, and once every application has been stopped NO node holds a qubit, simulates a qubit or keeps a register *)
From SQ Require Import Net.Bookkeeping Qasm.TeardownFull.
Theorem C11_host_network_is_reachable : forall caps i qs, reachable (q_net (run_q i (init_q caps) qs)).
Proof. exact run_q_reachable. Qed.
Print Assumptions C11_host_network_is_reachable.

Theorem C11_stop_leaves_nothing : forall caps i qs, fresh_inits i (init_q caps) qs ->
  h_units (q_host (run_q i (init_q caps) qs)) = [] ->
  forall j, virt (nth_node (q_net (run_q i (init_q caps) qs)) j) = [] /\
            sims (nth_node (q_net (run_q i (init_q caps) qs)) j) = [] /\
            regs (nth_node (q_net (run_q i (init_q caps) qs)) j) = [] /\
            numRegs (nth_node (q_net (run_q i (init_q caps) qs)) j) = 0.
Proof. exact stop_leaves_nothing. Qed.
Print Assumptions C11_stop_leaves_nothing.
