(* Base list utilities shared by every model: boolean rows with total get/upd. *)
From Coq Require Import List Bool Arith Lia.
Import ListNotations.

Definition get (r : list bool) (i : nat) : bool := nth i r false.

Fixpoint upd {A : Type} (r : list A) (i : nat) (v : A) : list A :=
  match r, i with
  | [], _ => []
  | _ :: t, 0 => v :: t
  | h :: t, S i' => h :: upd t i' v
  end.

Lemma upd_length {A} (r : list A) i v : length (upd r i v) = length r.
Proof. revert i; induction r as [|h t IH]; intros [|i]; simpl; auto. Qed.

Lemma nth_upd_eq {A} (r : list A) i v d : i < length r -> nth i (upd r i v) d = v.
Proof.
  revert i; induction r as [|h t IH]; intros [|i] H; simpl in *; try lia; auto.
  apply IH; lia.
Qed.

Lemma nth_upd_neq {A} (r : list A) i j v d : i <> j -> nth j (upd r i v) d = nth j r d.
Proof.
  revert i j; induction r as [|h t IH]; intros [|i] [|j] H; simpl; auto; try lia.
Qed.

Lemma get_upd_eq r i v : i < length r -> get (upd r i v) i = v.
Proof. apply nth_upd_eq. Qed.

Lemma get_upd_neq r i j v : i <> j -> get (upd r i v) j = get r j.
Proof. apply nth_upd_neq. Qed.

Lemma get_upd r i j v :
  get (upd r i v) j = if (Nat.eqb i j && Nat.ltb i (length r))%bool then v else get r j.
Proof.
  destruct (Nat.eqb_spec i j) as [->|Hne]; simpl.
  - destruct (Nat.ltb_spec j (length r)) as [Hlt|Hge].
    + apply get_upd_eq; auto.
    + unfold get. rewrite !nth_overflow; auto. rewrite upd_length; auto.
  - apply get_upd_neq; auto.
Qed.

Lemma upd_same {A} (r : list A) i d : upd r i (nth i r d) = r.
Proof. revert i; induction r as [|h t IH]; intros [|i]; simpl; auto. f_equal; auto. Qed.

Lemma nth_ext_bool (r1 r2 : list bool) :
  length r1 = length r2 -> (forall i, i < length r1 -> get r1 i = get r2 i) -> r1 = r2.
Proof.
  intros HL H. apply (nth_ext r1 r2 false false HL). exact H.
Qed.

Lemma get_overflow r i : length r <= i -> get r i = false.
Proof. intros; unfold get; apply nth_overflow; auto. Qed.

(* conditional flip of one column: numpy  g[mask, c] = logical_not(g[mask, c])  seen row by row *)
Definition flip_if (m : bool) (r : list bool) (c : nat) : list bool :=
  if m then upd r c (negb (get r c)) else r.

Lemma flip_if_length m r c : length (flip_if m r c) = length r.
Proof. unfold flip_if; destruct m; auto using upd_length. Qed.

Lemma get_flip_if m r c j :
  get (flip_if m r c) j =
  if (Nat.eqb c j && Nat.ltb c (length r))%bool then xorb m (get r j) else get r j.
Proof.
  unfold flip_if; destruct m; simpl.
  - rewrite get_upd. destruct (Nat.eqb_spec c j) as [->|]; simpl; auto.
  - destruct (_ && _)%bool; destruct (get r j); auto.
Qed.

(* swap of two columns: numpy  g[:, [a,b]] = g[:, [b,a]] *)
Definition swap_cols (r : list bool) (a b : nat) : list bool :=
  upd (upd r a (get r b)) b (get r a).

Lemma swap_cols_length r a b : length (swap_cols r a b) = length r.
Proof. unfold swap_cols; rewrite !upd_length; auto. Qed.

Fixpoint list_eqb {A} (eqb : A -> A -> bool) (l1 l2 : list A) : bool :=
  match l1, l2 with
  | [], [] => true
  | a :: t1, b :: t2 => eqb a b && list_eqb eqb t1 t2
  | _, _ => false
  end.

Lemma list_eqb_spec {A} (eqb : A -> A -> bool) :
  (forall a b, eqb a b = true <-> a = b) ->
  forall l1 l2, list_eqb eqb l1 l2 = true <-> l1 = l2.
Proof.
  intros H; induction l1 as [|a t IH]; intros [|b t2]; simpl; split; intros E;
    try discriminate; auto.
  - apply andb_true_iff in E as [E1 E2]. apply H in E1; apply IH in E2; subst; auto.
  - injection E as -> ->. apply andb_true_iff; split; [apply H|apply IH]; auto.
Qed.

(* indices (0-based) at which a boolean list is false; used by every correspondence file *)
Fixpoint failing_from (i : nat) (l : list bool) : list nat :=
  match l with
  | [] => []
  | b :: t => if b then failing_from (S i) t else i :: failing_from (S i) t
  end.
Definition failing (l : list bool) : list nat := failing_from 0 l.
