"""C16 helpers: driving the real NetworksConfigConstructor / SocketsConfig / SimulaQronNetworkInfo on scratch files,
printing Coq literals for Conf/Cases.v, and the property oracle (plain Python, independent of the Coq model)."""
import copy
import json
import os
import re

import common

NAMES = ["Alice", "Bob", "Charlie", "David", "Eve", "alice", "Zed", "A10", "A2", "n_1", "bob", "Bo"]
NETS = [None, "default", "netB", "lab2"]          # None is an alias of "default": three networks
HOSTS = [None, "localhost", "127.0.0.1", "127.0.0.2", "10.1.2.3"]      # numeric: Host() resolves them without DNS
PORTS = [7999, 8000, 8001, 8002, 8003, 8004, 8005, 8006, 9000, 9001]   # overlaps the automatic range 8000..9000
ROLES = ["app", "qnodeos", "vnode"]
_OKSTR = re.compile(r"^[A-Za-z0-9_.]*$")


# ------------------------------------------------------------------------------------------------------------
# random edit sequences
# ------------------------------------------------------------------------------------------------------------
def gen_op(rng, explicit_bias):
    r = rng.random()
    if r < 0.46:
        ports = [rng.choice(PORTS) if rng.random() < explicit_bias else None for _ in range(3)]
        hosts = [rng.choice(HOSTS) if rng.random() < 0.4 else None for _ in range(3)]
        nb = None
        if rng.random() < 0.45:
            nb = rng.sample(NAMES, rng.randrange(0, 4))
        return {"op": "add_node", "net": rng.choice(NETS), "name": rng.choice(NAMES[:8]), "hosts": hosts, "ports": ports, "neighbors": nb}
    if r < 0.64:
        return {"op": "remove_node", "net": rng.choice(NETS), "name": rng.choice(NAMES[:8])}
    if r < 0.71:
        xs = rng.sample(NAMES, rng.randrange(0, 5))
        if xs and rng.random() < 0.15:
            xs.append(xs[0])
        tp = None
        if rng.random() < 0.45:
            tp = {x: [y for y in rng.sample(NAMES, rng.randrange(0, 4))] for x in xs}
            if tp and rng.random() < 0.2:
                tp.pop(rng.choice(sorted(tp)))
        return {"op": "add_network", "net": rng.choice(NETS), "names": xs, "topology": tp}
    if r < 0.76:
        return {"op": "remove_network", "net": rng.choice(NETS)}
    if r < 0.79:
        return {"op": "reset"}
    if r < 0.90:
        return {"op": "write"}
    if r < 0.95:
        return {"op": "read"}
    return {"op": "load"}


def gen_ops(rng, maxlen=25):
    bias = rng.choice([0.0, 0.3, 0.6, 0.9])
    return [gen_op(rng, bias) for _ in range(rng.randrange(1, maxlen + 1))]


# ------------------------------------------------------------------------------------------------------------
# the implementation under a scripted / recorded OS probe
# ------------------------------------------------------------------------------------------------------------
class Probe:
    """stands for NetworksConfigConstructor._check_socket_is_free; records every answer in call order"""

    def __init__(self, mode, seed=0, p_free=1.0, real=None):
        import random
        self.mode, self.rng, self.p_free, self.real = mode, random.Random(seed), p_free, real
        self.answers = []

    def __call__(self, port):
        if self.mode == "real":
            a = bool(self.real(port))
        else:
            a = self.rng.random() < self.p_free
        self.answers.append(a)
        return a


class Driver:
    def __init__(self, path, probe):
        from simulaqron.toolbox import manage_nodes
        self.cls = manage_nodes.NetworksConfigConstructor
        self.path = path
        self.probe = probe
        if os.path.exists(path):
            os.remove(path)
        self.cls._check_socket_is_free = staticmethod(probe)
        self.c = self.cls(file_path=path)

    def apply(self, o):
        """returns 0 (ok), 1 (ValueError), 2 (KeyError); anything else propagates"""
        c = self.c
        try:
            k = o["op"]
            if k == "add_node":
                h, p = o["hosts"], o["ports"]
                nb = None if o["neighbors"] is None else list(o["neighbors"])
                c.add_node(o["name"], network_name=o["net"], app_hostname=h[0], qnodeos_hostname=h[1], vnode_hostname=h[2],
                           app_port=p[0], qnodeos_port=p[1], vnode_port=p[2], neighbors=nb)
            elif k == "remove_node":
                c.remove_node(o["name"], network_name=o["net"])
            elif k == "add_network":
                c.add_network(list(o["names"]), network_name=o["net"], topology=copy.deepcopy(o["topology"]))
            elif k == "remove_network":
                c.remove_network(network_name=o["net"])
            elif k == "reset":
                c.reset()
            elif k == "write":
                c.write_to_file()
            elif k == "read":
                c.read_from_file()
            elif k == "load":
                self.c = self.cls(file_path=self.path)
            else:
                raise common.Broken("unknown op %r" % (o,))
        except ValueError:
            return 1
        except KeyError:
            return 2
        return 0

    def observe(self, res):
        f = None
        if os.path.exists(self.path):
            with open(self.path) as fh:
                f = json.load(fh)
        return {"res": res, "cfg": copy.deepcopy(self.c.to_dict()), "used": [tuple(e) for e in self.c.used_sockets],
                "calls": len(self.probe.answers), "file": f}


# ------------------------------------------------------------------------------------------------------------
# Coq literals
# ------------------------------------------------------------------------------------------------------------
def cstr(s):
    if not isinstance(s, str) or not _OKSTR.match(s):
        raise common.Broken("string %r cannot be printed as a Coq literal by this harness" % (s,))
    return '"%s"' % s


def cN(p):
    if not isinstance(p, int) or isinstance(p, bool) or p < 0:
        return "4294967295%N"          # cannot occur in the model (e.g. None): forces a disagreement
    return "%d%%N" % p


def cep(e):
    return "(%s, %s)" % (cstr(e[0]), cN(e[1]))


def copt(x, f):
    return "None" if x is None else "(Some %s)" % f(x)


def cstrs(l):
    return "[" + "; ".join(cstr(x) for x in l) + "]"


def ctopo(t):
    return "[" + "; ".join("(%s, %s)" % (cstr(k), cstrs(v)) for k, v in t.items()) + "]"


def cnet(d):
    nodes = "; ".join("(%s, mkNode %s %s %s)" % (cstr(x), cep(nd["app_socket"]), cep(nd["qnodeos_socket"]), cep(nd["vnode_socket"]))
                      for x, nd in d["nodes"].items())
    return "mkNet [%s] %s" % (nodes, copt(d["topology"], ctopo))


def ccfg(d):
    return "[" + "; ".join("(%s, %s)" % (cstr(k), cnet(v)) for k, v in d.items()) + "]"


def cop(o):
    k = o["op"]
    if k == "add_node":
        return "AddNode %s %s %s %s %s %s" % (copt(o["net"], cstr), cstr(o["name"]), " ".join(copt(h, cstr) for h in o["hosts"]),
                                             " ".join(copt(p, cN) for p in o["ports"]), copt(o["neighbors"], cstrs), "")
    if k == "remove_node":
        return "RemoveNode %s %s" % (copt(o["net"], cstr), cstr(o["name"]))
    if k == "add_network":
        return "AddNetwork %s %s %s" % (copt(o["net"], cstr), cstrs(o["names"]), copt(o["topology"], ctopo))
    if k == "remove_network":
        return "RemoveNetwork %s" % copt(o["net"], cstr)
    return {"reset": "Reset", "write": "Write", "read": "Read", "load": "Load"}[k]


def cobs(ob):
    return "mkObs %s %s [%s] %d %s" % (["ROk", "RValueError", "RKeyError"][ob["res"]], ccfg(ob["cfg"]),
                                      "; ".join(cep(e) for e in ob["used"]), ob["calls"], copt(ob["file"], ccfg))


def cedits(answers, steps):
    return "CEdits [%s] [\n  %s]" % (";".join("t" if a else "f" for a in answers),
                                     ";\n  ".join("(%s, %s)" % (cop(o), cobs(ob)) for o, ob in steps))


def cids(f, nn, ids, names):
    return "CIds %s %s [%s] [%s]" % (ccfg(f), cstr(nn),
                                    "; ".join("(%s, %s)" % (cstr(x), copt(i, lambda v: "%d" % v)) for x, i in ids),
                                    "; ".join("(%d, %s)" % (i, copt(x, cstr)) for i, x in names))


HEADER = (common.CASE_HEADER + "From Coq Require Import NArith.\nFrom SQ Require Import Base.ListUtil Conf.Model Conf.Cases.\n"
          "Open Scope string_scope.\nOpen Scope list_scope.\n")


def coq_text(cases):
    return HEADER + "Definition cases : list ccase := [\n" + ";\n".join(cases) + "\n].\nEval vm_compute in failing_cases cases.\n"


def run_cases(ctx, cases, name, shard=60):
    """cases: list of (coq_text, description). Returns the failing descriptions."""
    shards = [cases[i:i + shard] for i in range(0, len(cases), shard)]
    res = common.coq_eval_many([coq_text([c[0] for c in sh]) for sh in shards])
    failing, okall = [], True
    for sh, (ok, out) in zip(shards, res):
        lists = common.parse_nat_lists(out) if ok else []
        if not ok or len(lists) != 1:
            ctx.obligation("correspondence %s evaluates in Coq" % name, False, out)
            okall = False
            continue
        failing += [sh[i][1] for i in lists[0]]
    ctx.obligation("correspondence %s: model = implementation on %d cases" % (name, len(cases)), okall and not failing,
                   "first disagreement: %s" % (json.dumps(failing[:1], default=str)[:1500],))
    return failing


# ------------------------------------------------------------------------------------------------------------
# the property, stated directly on what the implementation shows (no reference to the model)
# ------------------------------------------------------------------------------------------------------------
def all_endpoints(cfg):
    out = []
    for net in cfg.values():
        for nd in net["nodes"].values():
            for r in ROLES:
                out.append(tuple(nd[r + "_socket"]))
    return out


def occurs(cfg, net, x):
    """where does node name x occur in network net of a to_dict()?"""
    where = []
    nw = cfg.get(net)
    if nw is None:
        return where
    if x in nw["nodes"]:
        where.append("nodes")
    if nw["topology"] is not None:
        if x in nw["topology"]:
            where.append("topology key")
        for y, l in nw["topology"].items():
            if x in l:
                where.append("neighbour list of %s" % y)
    return where


def mentions(o, net, x):
    """may this edit legitimately (re)introduce the name x into network net?"""
    k = o["op"]
    onet = o.get("net") or "default"
    if k == "add_node":
        return onet == net and (o["name"] == x or x in (o["neighbors"] or []))
    if k == "add_network":
        return onet == net and (x in o["names"] or any(x == a or x in b for a, b in (o["topology"] or {}).items()))
    if k == "reset":
        return net == "default" and x in ["Alice", "Bob", "Charlie", "David", "Eve"]
    return k in ("read", "load")


class Oracle:
    """judges one run of the real code, edit by edit; failures are (kind, step index, text)"""

    def __init__(self, drv, lookups=True):
        self.drv = drv
        self.gone = set()
        self.failures = []
        self.lookups = lookups
        self.id_cases = []          # (file content, network, [(name, id)], [(id, name or None)]) for the Coq side
        self.stats = {"id_lookups": 0, "roundtrips": 0}

    def fail(self, kind, i, text):
        self.failures.append((kind, i, text))

    def after(self, i, o, res):
        drv = self.drv
        cfg = drv.c.to_dict()
        # (1) no two endpoints share (host, port)
        eps = all_endpoints(cfg)
        dup = sorted({e for e in eps if eps.count(e) > 1}, key=str)
        if dup:
            self.fail("endpoints", i, "endpoints shared by two roles/nodes: %r" % (dup[:3],))
        # (2) a removed node appears nowhere until an edit names it again
        for (net, x) in list(self.gone):
            if mentions(o, net, x):
                self.gone.discard((net, x))
        if o["op"] == "remove_node" and res == 0:
            self.gone.add((o["net"] or "default", o["name"]))
        for (net, x) in sorted(self.gone):
            w = occurs(cfg, net, x)
            if w:
                self.fail("removed_gone", i, "removed node %s of network %s still occurs in: %s" % (x, net, ", ".join(w)))
        # (3) write then read reproduces the configuration exactly; (4) ids
        if o["op"] == "write" and res == 0:
            self.stats["roundtrips"] += 1
            fresh = drv.cls(file_path=drv.path)
            again = drv.cls()
            again.read_from_file(drv.path)
            for who, c2 in (("fresh constructor", fresh), ("read_from_file", again)):
                if c2.to_dict() != cfg:             # dictionary equality (the order of keys is compared by the correspondence only)
                    self.fail("write_read", i, "%s after write_to_file shows %s, written %s" % (who, json.dumps(c2.to_dict())[:300], json.dumps(cfg)[:300]))
            if self.lookups and not dup:
                self.ids(i, cfg)

    def ids(self, i, cfg):
        from simulaqron.general.host_config import SocketsConfig, get_node_id_from_net_config
        from simulaqron.sdk.connection import SimulaQronNetworkInfo
        from simulaqron.settings import simulaqron_settings
        path = self.drv.path
        with open(path) as fh:
            fcontent = json.load(fh)
        for net, nw in cfg.items():
            names = list(nw["nodes"].keys())
            n = len(names)
            per_reader = []
            for role in ROLES + ["qnodeos"]:                      # the last one is a second, independent reader
                try:
                    sc = SocketsConfig(path, network_name=net, config_type=role)
                    per_reader.append([get_node_id_from_net_config(sc, x) for x in names])
                    self.stats["id_lookups"] += n
                except Exception as e:                               # noqa: BLE001
                    self.fail("id_bijection", i, "node id lookup (%s, %s) raised %r" % (net, role, e))
                    return
            ids = per_reader[0]
            if any(p != ids for p in per_reader):
                self.fail("id_bijection", i, "readers of the same file disagree on node ids of %s: %r" % (net, per_reader))
            if sorted(ids) != list(range(n)) or [sorted(names).index(x) for x in names] != ids:
                self.fail("id_bijection", i, "node ids of %s are not the indices in the sorted name list: %r -> %r" % (net, names, ids))
            back = []
            if net == "default":
                simulaqron_settings._config["network_config_file"] = path
                for x, want in zip(names, ids):
                    try:
                        got = SimulaQronNetworkInfo._get_node_id(x)
                        nm = SimulaQronNetworkInfo._get_node_name(got)
                    except Exception as e:                           # noqa: BLE001
                        self.fail("id_bijection", i, "name_of_id(node_id(%s)) raised %r" % (x, e))
                        continue
                    if got != want or nm != x:
                        self.fail("id_bijection", i, "node_id(%s) = %r (other readers: %r), name_of_id(%r) = %r" % (x, got, want, got, nm))
                for j in range(n + 2):
                    try:
                        nm = SimulaQronNetworkInfo._get_node_name(j)
                    except KeyError:
                        nm = None
                    except Exception as e:                           # noqa: BLE001
                        self.fail("id_bijection", i, "name_of_id(%d) raised %r" % (j, e))
                        continue
                    back.append((j, nm))
                    if j < n:
                        if nm is None:
                            self.fail("id_bijection", i, "name_of_id(%d) unknown although the network has %d nodes" % (j, n))
                        elif SimulaQronNetworkInfo._get_node_id(nm) != j:
                            self.fail("id_bijection", i, "node_id(name_of_id(%d)) = %r" % (j, SimulaQronNetworkInfo._get_node_id(nm)))
                    elif nm is not None:
                        self.fail("id_bijection", i, "name_of_id(%d) = %r although the network has only %d nodes" % (j, nm, n))
            absent = [x for x in NAMES if x not in names][:2]
            idobs = list(zip(names, ids))
            for x in absent:
                try:
                    get_node_id_from_net_config(SocketsConfig(path, network_name=net, config_type="app"), x)
                    self.fail("id_bijection", i, "node id for the unknown name %s" % x)
                except ValueError:
                    idobs.append((x, None))
            self.id_cases.append((fcontent, net, idobs, back))
            if n >= 2:
                self.unresolvable(i, net, names, ids, fcontent)

    def unresolvable(self, i, net, names, ids, fcontent):
        """one endpoint of one node gets a host name that does not resolve: a reader of that role may refuse the file (loudly), but a reader
        that answers must still number ALL configured nodes by their rank in the sorted name list, like the readers of the other roles"""
        import copy as _copy
        import socket
        from simulaqron.general.host_config import SocketsConfig, get_node_id_from_net_config
        bad_host = "endpoint.does-not-resolve.invalid"
        victim = sorted(names)[(i * 7) % (len(names) - 1)]            # never the last name: its loss would shift nobody
        role = ROLES[i % len(ROLES)]
        doc = _copy.deepcopy(fcontent)
        try:
            doc[net]["nodes"][victim]["%s_socket" % role][0] = bad_host
        except (KeyError, TypeError, IndexError):
            return
        path2 = self.drv.path + ".unresolvable.json"
        with open(path2, "w") as fh:
            json.dump(doc, fh)
        real = socket.getaddrinfo

        def fake(host, *a, **k):
            if host == bad_host:
                raise socket.gaierror(socket.EAI_NONAME, "Name or service not known")
            return real(host, *a, **k)
        socket.getaddrinfo = fake
        try:
            for r in ROLES:
                try:
                    sc = SocketsConfig(path2, network_name=net, config_type=r)
                except socket.gaierror:
                    self.stats["unresolvable_refused"] = self.stats.get("unresolvable_refused", 0) + 1
                    continue
                except Exception as e:                               # noqa: BLE001
                    self.fail("id_bijection", i, "reading role %s of a file with an unresolvable host raised %r" % (r, e))
                    continue
                self.stats["unresolvable_answered"] = self.stats.get("unresolvable_answered", 0) + 1
                got = []
                for x in names:
                    try:
                        got.append(get_node_id_from_net_config(sc, x))
                    except Exception as e:                           # noqa: BLE001
                        got.append(repr(e))
                if got != ids:
                    self.fail("id_bijection", i, "a reader of role %s of a file in which %s's %s host does not resolve numbers the nodes %r -> %r, the other readers %r"
                              % (r, victim, role, names, got, ids))
        finally:
            socket.getaddrinfo = real
            os.remove(path2)


def run_ops(path, ops, probe, lookups=True):
    """one run of the real code with the oracle attached; returns (steps, oracle, driver)"""
    drv = Driver(path, probe)
    orc = Oracle(drv, lookups)
    steps = []
    for i, o in enumerate(ops):
        res = drv.apply(o)
        orc.after(i, o, res)
        steps.append((o, drv.observe(res)))
    return steps, orc, drv


def shrink(ops, fails):
    """greedy delta debugging: drop edits while fails(ops) stays true, then simplify add_node arguments"""
    assert fails(ops)
    changed = True
    while changed:
        changed = False
        i = len(ops) - 1
        while i >= 0:
            cand = ops[:i] + ops[i + 1:]
            if cand and fails(cand):
                ops, changed = cand, True
            i -= 1
    for i, o in enumerate(ops):
        if o["op"] == "add_node":
            for fld, val in (("hosts", [None] * 3), ("ports", [None] * 3), ("neighbors", None)):
                cand = copy.deepcopy(ops)
                cand[i][fld] = val
                if cand[i] != o and fails(cand):
                    ops, o = cand, cand[i]
    return ops
