(* invariant preservation: local register merge, fresh merge register *)
From Coq Require Import List Bool Arith Lia Permutation.
From SQ Require Import Base.ListUtil Stab.Tableau Net.Model Net.Refusal Net.Capacity Net.Handles Net.Fresh Net.Inv Net.InvNew Net.InvMeas.
Import ListNotations.

Definition mv_sq (k1 k2 off : nat) (y : sq) : sq :=
  if Nat.eqb (s_reg y) k2 then mkSq (s_simNum y) k1 (s_pos y + off) else y.

Lemma mv_simNum k1 k2 off y : s_simNum (mv_sq k1 k2 off y) = s_simNum y.
Proof. unfold mv_sq; destruct (Nat.eqb _ _); auto. Qed.

Lemma count_mv k1 k2 off kk l : k1 <> k2 ->
  length (filter (fun z => Nat.eqb (s_reg z) kk) (map (mv_sq k1 k2 off) l)) =
  if Nat.eqb kk k1 then length (filter (fun z => Nat.eqb (s_reg z) k1) l) + length (filter (fun z => Nat.eqb (s_reg z) k2) l)
  else if Nat.eqb kk k2 then 0 else length (filter (fun z => Nat.eqb (s_reg z) kk) l).
Proof.
  intros Hne. induction l as [|a t IH]; simpl.
  - destruct (Nat.eqb kk k1); auto. destruct (Nat.eqb kk k2); auto.
  - unfold mv_sq at 1. destruct (Nat.eqb_spec (s_reg a) k2) as [E2|N2]; simpl.
    + destruct (Nat.eqb_spec (s_reg a) k1) as [E1|N1]; [congruence|].
      destruct (Nat.eqb_spec k1 kk) as [<-|Nk1].
      * rewrite Nat.eqb_refl in *. simpl. rewrite IH. lia.
      * destruct (Nat.eqb_spec kk k1); [congruence|].
        destruct (Nat.eqb_spec (s_reg a) kk) as [Ek|Nk].
        -- subst kk. rewrite E2, Nat.eqb_refl in IH. rewrite E2, Nat.eqb_refl. auto.
        -- destruct (Nat.eqb kk k2); auto.
    + destruct (Nat.eqb_spec (s_reg a) kk) as [Ek|Nk]; simpl.
      * subst kk. destruct (Nat.eqb_spec (s_reg a) k1) as [E1|N1]; simpl.
        -- rewrite IH. lia.
        -- destruct (Nat.eqb_spec (s_reg a) k2); [congruence|]. rewrite IH. reflexivity.
      * destruct (Nat.eqb_spec kk k1) as [->|].
        -- destruct (Nat.eqb_spec (s_reg a) k1); [congruence|]. auto.
        -- auto.
Qed.

Lemma nth_app_l {A} (l1 l2 : list A) i d : i < length l1 -> nth i (l1 ++ l2) d = nth i l1 d.
Proof. intros; apply app_nth1; auto. Qed.
Lemma nth_app_r {A} (l1 l2 : list A) i d : nth (i + length l1) (l1 ++ l2) d = nth i l2 d.
Proof. rewrite app_nth2 by lia. f_equal. lia. Qed.

Lemma inv_local_merge s ni k1 k2 : k1 <> k2 -> inv s -> inv (local_merge s ni k1 k2).
Proof.
  intros Hne H. unfold local_merge.
  set (nd := nth_node s ni).
  destruct (find_reg k1 (regs nd)) as [r1|] eqn:F1; [|exact H].
  destruct (find_reg k2 (regs nd)) as [r2|] eqn:F2; [|exact H].
  apply find_reg_some in F1 as [Hr1 E1]. apply find_reg_some in F2 as [Hr2 E2].
  pose proof (inv_nodes s H) as inv_nodes0. pose proof (inv_backed s H) as inv_backed0.
  pose proof (inv_inj s H) as inv_inj0. pose proof (inv_onto s H) as inv_onto0.
  pose proof (inv_qid_inj s H) as inv_qid_inj0. pose proof (inv_qid_lt s H) as inv_qid_lt0.
  pose proof (inv_nodes0 ni) as OK. fold nd in OK.
  pose proof (ok_snum nd OK) as ok_snum0. pose proof (ok_rnum nd OK) as ok_rnum0.
  pose proof (ok_rlt nd OK) as ok_rlt0. pose proof (ok_nregs nd OK) as ok_nregs0. pose proof (ok_rn nd OK) as ok_rn0.
  pose proof (ok_sreg nd OK) as ok_sreg0. pose proof (ok_pos_inj nd OK) as ok_pos_inj0. pose proof (ok_count nd OK) as ok_count0.
  set (off := r_n r1).
  set (r1' := mkReg (r_num r1) (r_max r1 + r_n r2) (r_n r1 + r_n r2) (tensor (r_n r1) (r_tab r1) (r_n r2) (r_tab r2)) (r_ids r1 ++ r_ids r2)).
  set (mv := mv_sq k1 k2 off).
  set (nd' := mkNode (virt nd) (map mv (sims nd)) (del_reg (set_reg (regs nd) r1') k2) (numRegs nd - 1) (nextReg nd) (maxQ nd) (maxR nd)).
  cbv zeta. change (inv (set_node s ni nd')).
  destruct (Nat.ltb_spec ni (length (nodes s))) as [Lni|Lni].
  2:{ exfalso. unfold nd in Hr1. rewrite nth_node_overflow in Hr1; auto. }
  assert (EN : forall j, nth_node (set_node s ni nd') j = if Nat.eqb j ni then nd' else nth_node s j).
  { intro j. rewrite nth_node_set. destruct (Nat.ltb_spec ni (length (nodes s))); try lia. rewrite andb_true_r. auto. }
  assert (REG : forall r, In r (regs nd') <-> (In r (regs nd) /\ r_num r <> k1 /\ r_num r <> k2) \/ r = r1').
  { intro r. unfold nd'; cbn [regs]. rewrite in_del_reg. split.
    - intros [Hr Nk]. apply in_set_reg in Hr as [[Hr N1]| ->]; auto. left. simpl in N1. repeat split; auto. congruence.
    - intros [[Hr [N1 N2]]| ->].
      + split; auto. apply in_set_reg_other; auto. simpl. congruence.
      + split; [apply in_set_reg_new with (r := r1); auto | simpl; congruence]. }
  assert (REGOF : forall y, In y (sims nd) -> s_reg y = k1 \/ s_reg y = k2 \/
                            (exists r, In r (regs nd) /\ r_num r = s_reg y /\ r_num r <> k1 /\ r_num r <> k2 /\ s_pos y < r_n r)).
  { intros y Hy. destruct (Nat.eq_dec (s_reg y) k1); auto. destruct (Nat.eq_dec (s_reg y) k2); auto.
    right; right. destruct (ok_sreg0 y Hy) as [r [Hr [E L]]]. exists r. repeat split; auto; congruence. }
  assert (POS1 : forall y, In y (sims nd) -> s_reg y = k1 -> s_pos y < r_n r1).
  { intros y Hy E. destruct (ok_sreg0 y Hy) as [r [Hr [Er L]]].
    assert (r = r1) by (apply (NoDup_map_inj r_num (regs nd)); auto; congruence). subst; auto. }
  assert (POS2 : forall y, In y (sims nd) -> s_reg y = k2 -> s_pos y < r_n r2).
  { intros y Hy E. destruct (ok_sreg0 y Hy) as [r [Hr [Er L]]].
    assert (r = r2) by (apply (NoDup_map_inj r_num (regs nd)); auto; congruence). subst; auto. }
  assert (NOK : node_ok nd').
  { constructor; unfold nd'; cbn [virt sims regs numRegs nextReg].
    - apply (ok_vnum nd OK).
    - rewrite map_map. erewrite map_ext; [exact ok_snum0|]. intro y. apply mv_simNum.
    - unfold del_reg. apply NoDup_map_filter. rewrite map_rnum_set_reg. auto.
    - intros r Hr. apply in_del_reg in Hr as [Hr _]. apply in_set_reg in Hr as [[Hr _]| ->]; auto. simpl. apply ok_rlt0; auto.
    - rewrite length_del_reg.
      + unfold set_reg. rewrite map_length. lia.
      + rewrite map_rnum_set_reg. auto.
      + rewrite map_rnum_set_reg. rewrite <- E2. apply in_map; auto.
    - intros r Hr. apply in_del_reg in Hr as [Hr _]. apply in_set_reg in Hr as [[Hr _]| ->]; auto. simpl.
      rewrite app_length. rewrite (ok_rn0 r1 Hr1), (ok_rn0 r2 Hr2). auto.
    - intros y' Hy'. apply in_map_iff in Hy' as [y [<- Hy]]. unfold mv, mv_sq.
      destruct (Nat.eqb_spec (s_reg y) k2) as [Ek2|Nk2]; simpl.
      + exists r1'. split; [apply (REG r1'); auto|]. split; [simpl; auto|]. simpl. pose proof (POS2 y Hy Ek2). unfold off. lia.
      + destruct (REGOF y Hy) as [Ek1|[Ek2|(r & Hr & Er & N1 & N2 & L)]]; [|congruence|].
        * exists r1'. split; [apply (REG r1'); auto|]. split; [simpl; congruence|]. simpl. pose proof (POS1 y Hy Ek1). lia.
        * exists r. split; [apply (REG r); auto|]. auto.
    - intros y' z' Hy' Hz' Er Ep. apply in_map_iff in Hy' as [y [<- Hy]]. apply in_map_iff in Hz' as [z [<- Hz]].
      unfold mv in *. rewrite !mv_simNum. unfold mv_sq in Er, Ep.
      destruct (Nat.eqb_spec (s_reg y) k2) as [Ey|Ny], (Nat.eqb_spec (s_reg z) k2) as [Ez|Nz]; simpl in Er, Ep.
      + apply ok_pos_inj0; auto; [congruence|lia].
      + exfalso. pose proof (POS1 z Hz (eq_sym Er)). unfold off in Ep. lia.
      + exfalso. pose proof (POS1 y Hy Er). unfold off in Ep. lia.
      + apply ok_pos_inj0; auto.
    - intros r Hr. unfold mv. rewrite count_mv; auto.
      apply REG in Hr as [[Hr [N1 N2]]| ->].
      + destruct (Nat.eqb_spec (r_num r) k1); [congruence|]. destruct (Nat.eqb_spec (r_num r) k2); [congruence|]. auto.
      + simpl r_num. rewrite E1, Nat.eqb_refl. simpl r_n.
        pose proof (ok_count0 r1 Hr1) as C1. rewrite E1 in C1. pose proof (ok_count0 r2 Hr2) as C2. rewrite E2 in C2.
        rewrite C1, C2. reflexivity. }
  constructor.
  - intro j. rewrite EN. destruct (Nat.eqb j ni); auto.
  - intros i p Hp.
    assert (Hp0 : In p (virt (nth_node s i))).
    { rewrite EN in Hp. destruct (Nat.eqb_spec i ni) as [->|]; auto. }
    destruct (inv_backed0 i p Hp0) as (y & ry & B1 & B2 & B3 & B4 & B5).
    rewrite EN. destruct (Nat.eqb_spec (v_simNode p) ni) as [Es|]; [|exists y, ry; auto].
    rewrite Es in *. fold nd in B1, B3.
    assert (INMV : In (mv y) (sims nd')) by (unfold nd'; cbn [sims]; apply in_map; auto).
    exists (mv y). unfold mv in *. rewrite mv_simNum. unfold mv_sq in *.
    destruct (Nat.eqb_spec (s_reg y) k2) as [Ek2|Nk2]; cbn [s_reg s_pos].
    + exists r1'. assert (ry = r2) by (apply (NoDup_map_inj r_num (regs nd)); auto; congruence). subst ry.
      split; [exact INMV|]. split; [exact B2|]. split; [apply (REG r1'); auto|]. split; [simpl; auto|].
      simpl r_ids. unfold off. rewrite <- (ok_rn0 r1 Hr1). rewrite nth_app_r. auto.
    + destruct (Nat.eq_dec (s_reg y) k1) as [Ek1|Nk1].
      * exists r1'. assert (ry = r1) by (apply (NoDup_map_inj r_num (regs nd)); auto; congruence). subst ry.
        split; [exact INMV|]. split; [exact B2|]. split; [apply (REG r1'); auto|]. split; [simpl; congruence|].
        simpl r_ids. rewrite nth_app_l; auto. rewrite (ok_rn0 r1 Hr1). apply POS1; auto.
      * exists ry. split; [exact INMV|]. split; [exact B2|]. split; [apply (REG ry); left; repeat split; auto; congruence|]. split; auto.
  - intros i j p p' Hp Hp'. rewrite EN in Hp, Hp'.
    assert (Hp0 : In p (virt (nth_node s i))) by (destruct (Nat.eqb_spec i ni) as [->|]; auto).
    assert (Hp0' : In p' (virt (nth_node s j))) by (destruct (Nat.eqb_spec j ni) as [->|]; auto). eauto.
  - intros j z Hz. rewrite EN in Hz.
    assert (exists z0, In z0 (sims (nth_node s j)) /\ s_simNum z0 = s_simNum z) as (z0 & Hz0 & Ez).
    { destruct (Nat.eqb_spec j ni) as [->|]; [|eauto]. unfold nd' in Hz; cbn [sims] in Hz.
      apply in_map_iff in Hz as [z0 [<- Hz0]]. exists z0. split; auto. unfold mv. rewrite mv_simNum. auto. }
    destruct (inv_onto0 j z0 Hz0) as (i & p & Hp & E). exists i, p. rewrite EN. split; [|congruence].
    destruct (Nat.eqb_spec i ni) as [->|]; auto.
  - intros i j p p' Hp Hp'. rewrite EN in Hp, Hp'.
    assert (Hp0 : In p (virt (nth_node s i))) by (destruct (Nat.eqb_spec i ni) as [->|]; auto).
    assert (Hp0' : In p' (virt (nth_node s j))) by (destruct (Nat.eqb_spec j ni) as [->|]; auto). eauto.
  - intros i p Hp. rewrite EN in Hp.
    assert (Hp0 : In p (virt (nth_node s i))) by (destruct (Nat.eqb_spec i ni) as [->|]; auto).
    unfold set_node; simpl. eauto.
Qed.

(* a new EMPTY register of any capacity (the capacity is no part of the invariant): the temporary register of a both-remote
   merge and the client's remote_add_register *)
Definition with_empty_reg (nd : node) (mq : nat) : node :=
  mkNode (virt nd) (sims nd) (regs nd ++ [mkReg (nextReg nd) mq 0 [] []]) (S (numRegs nd)) (S (nextReg nd)) (maxQ nd) (maxR nd).

Lemma inv_add_empty_register s vi mq : inv s -> inv (set_node s vi (with_empty_reg (nth_node s vi) mq)).
Proof.
  intros H. unfold with_empty_reg.
  set (nd := nth_node s vi). set (K := nextReg nd).
  set (r0 := mkReg K mq 0 [] []).
  set (nd' := mkNode (virt nd) (sims nd) (regs nd ++ [r0]) (S (numRegs nd)) (S K) (maxQ nd) (maxR nd)).
  pose proof (inv_nodes s H) as inv_nodes0. pose proof (inv_backed s H) as inv_backed0.
  pose proof (inv_inj s H) as inv_inj0. pose proof (inv_onto s H) as inv_onto0.
  pose proof (inv_qid_inj s H) as inv_qid_inj0. pose proof (inv_qid_lt s H) as inv_qid_lt0.
  pose proof (inv_nodes0 vi) as OK. fold nd in OK.
  assert (RLT : forall r, In r (regs nd) -> r_num r <> K).
  { intros r Hr. pose proof (ok_rlt nd OK r Hr). unfold K. lia. }
  assert (SOLD : forall x, In x (sims nd) -> s_reg x <> K).
  { intros x Hx. destruct (ok_sreg nd OK x Hx) as [r [Hr [E _]]]. rewrite <- E. apply RLT; auto. }
  assert (NOK : node_ok nd').
  { pose proof (ok_vnum nd OK) as ok_vnum0. pose proof (ok_snum nd OK) as ok_snum0. pose proof (ok_rnum nd OK) as ok_rnum0.
    pose proof (ok_rlt nd OK) as ok_rlt0. pose proof (ok_nregs nd OK) as ok_nregs0. pose proof (ok_rn nd OK) as ok_rn0.
    pose proof (ok_sreg nd OK) as ok_sreg0. pose proof (ok_pos_inj nd OK) as ok_pos_inj0. pose proof (ok_count nd OK) as ok_count0.
    constructor; unfold nd'; cbn [virt sims regs numRegs nextReg]; auto.
    - rewrite map_app. simpl. apply NoDup_app_one; auto.
      intro Hin. apply in_map_iff in Hin as [r [E Hr]]. apply (RLT r); auto.
    - intros r Hr. apply in_app_one in Hr as [Hr| ->]; [specialize (ok_rlt0 r Hr); fold K in ok_rlt0; lia | simpl; lia].
    - rewrite app_length; simpl. lia.
    - intros r Hr. apply in_app_one in Hr as [Hr| ->]; auto.
    - intros x Hx. destruct (ok_sreg0 x Hx) as [r [Hr E]]. exists r. split; auto. apply in_app_one; auto.
    - intros r Hr. apply in_app_one in Hr as [Hr| ->]; auto. simpl.
      clear - SOLD. induction (sims nd) as [|a t IH]; simpl; auto.
      destruct (Nat.eqb_spec (s_reg a) K); [exfalso; apply (SOLD a); simpl; auto|].
      apply IH. intros x Hx. apply SOLD. simpl; auto. }
  destruct (Nat.ltb_spec vi (length (nodes s))) as [Lvi|Lvi].
  2:{ assert (E : set_node s vi nd' = s) by (unfold set_node; rewrite upd_overflow; auto; destruct s; reflexivity).
      rewrite E. exact H. }
  assert (EN : forall j, nth_node (set_node s vi nd') j = if Nat.eqb j vi then nd' else nth_node s j).
  { intro j. rewrite nth_node_set. destruct (Nat.ltb_spec vi (length (nodes s))); try lia. rewrite andb_true_r. auto. }
  assert (VE : forall j, virt (nth_node (set_node s vi nd') j) = virt (nth_node s j)).
  { intro j. rewrite EN. destruct (Nat.eqb_spec j vi) as [->|]; auto. }
  assert (SE : forall j, sims (nth_node (set_node s vi nd') j) = sims (nth_node s j)).
  { intro j. rewrite EN. destruct (Nat.eqb_spec j vi) as [->|]; auto. }
  assert (RE : forall j r, In r (regs (nth_node s j)) -> In r (regs (nth_node (set_node s vi nd') j))).
  { intros j r Hr. rewrite EN. destruct (Nat.eqb_spec j vi) as [->|]; auto. unfold nd'; cbn [regs]. apply in_app_one; auto. }
  constructor.
  - intro j. rewrite EN. destruct (Nat.eqb j vi); auto.
  - intros i p Hp. rewrite VE in Hp. destruct (inv_backed0 i p Hp) as (y & ry & B1 & B2 & B3 & B4 & B5).
    exists y, ry. rewrite SE. repeat split; auto.
  - intros i j p p' Hp Hp'. rewrite VE in Hp, Hp'. eauto.
  - intros j z Hz. rewrite SE in Hz. destruct (inv_onto0 j z Hz) as (i & p & Hp & E). exists i, p. rewrite VE. auto.
  - intros i j p p' Hp Hp'. rewrite VE in Hp, Hp'. eauto.
  - intros i p Hp. rewrite VE in Hp. unfold set_node; simpl. eauto.
Qed.

(* the temporary register of a both-remote merge *)
Lemma inv_add_register_force s vi : inv s -> inv (set_node s vi (fst (add_register_force (nth_node s vi)))).
Proof. apply (inv_add_empty_register s vi 10). Qed.

(* remote_add_register by a client *)
Lemma inv_newreg s n mq : inv s -> inv (fst (op_newreg s n mq)).
Proof.
  intros H. unfold op_newreg. destruct (Nat.leb _ _); [exact H|]. cbn [fst].
  apply (inv_add_empty_register s n mq H).
Qed.

(* remote_new_qubit_inreg: a fresh qubit appended to an existing register *)
Lemma inv_new_inreg s n ow k : n < length (nodes s) -> hid_inv s -> inv s -> inv (fst (op_new_inreg s n ow k)).
Proof.
  intros Hn HI H. unfold op_new_inreg.
  destruct (negb _); [exact H|].
  destruct (Nat.leb_spec (maxQ (nth_node s n)) (length (virt (nth_node s n)))); [exact H|].
  destruct (find_reg k (regs (nth_node s n))) as [r|] eqn:EF; [|exact H].
  destruct (Nat.leb_spec (r_max r) (r_n r)); [exact H|].
  cbn [fst].
  apply find_reg_some in EF as [Hr Ek].
  set (nd := nth_node s n) in *.
  set (HH := next_hid s).
  set (simNum := fresh_id (map s_simNum (sims nd))).
  set (newNum := fresh_id (map v_num (virt nd))).
  pose proof (inv_nodes s H n) as OK. fold nd in OK.
  set (r1 := mkReg (r_num r) (r_max r) (S (r_n r)) (add_qubit (r_n r) (r_tab r)) (r_ids r ++ [HH])).
  set (xnew := mkSq simNum k (r_n r)).
  set (qnew := mkVq HH newNum n simNum HH).
  set (nd4 := mkNode (virt nd ++ [qnew]) (sims nd ++ [xnew]) (set_reg (regs nd) r1) (numRegs nd) (nextReg nd) (maxQ nd) (maxR nd)).
  match goal with |- inv (mkNet (upd _ _ ?x) _) => change x with nd4 end.
  assert (EN : forall j, nth_node (mkNet (upd (nodes s) n nd4) (S HH)) j = if Nat.eqb j n then nd4 else nth_node s j).
  { intro j. rewrite nth_node_mk. destruct (Nat.ltb_spec n (length (nodes s))); try lia. rewrite andb_true_r. reflexivity. }
  assert (FR1 : ~ In simNum (map s_simNum (sims nd))) by apply fresh_id_notin.
  assert (FR2 : ~ In newNum (map v_num (virt nd))) by apply fresh_id_notin.
  assert (K1 : r_num r1 = k) by exact Ek.
  assert (LEN : length (r_ids r) = r_n r) by (apply (ok_rn nd OK r Hr)).
  (* a simulated qubit of register k sits below r_n r *)
  assert (POS : forall x, In x (sims nd) -> s_reg x = k -> s_pos x < r_n r).
  { intros x Hx E. destruct (ok_sreg nd OK x Hx) as [r' [Hr' [E1 E2]]].
    assert (r' = r) by (apply (NoDup_map_inj r_num (regs nd)); auto; [apply (ok_rnum nd OK)|congruence]). subst; auto. }
  assert (NOK : node_ok nd4).
  { pose proof (ok_vnum nd OK) as ok_vnum0. pose proof (ok_snum nd OK) as ok_snum0. pose proof (ok_rnum nd OK) as ok_rnum0.
    pose proof (ok_rlt nd OK) as ok_rlt0. pose proof (ok_nregs nd OK) as ok_nregs0. pose proof (ok_rn nd OK) as ok_rn0.
    pose proof (ok_sreg nd OK) as ok_sreg0. pose proof (ok_pos_inj nd OK) as ok_pos_inj0. pose proof (ok_count nd OK) as ok_count0.
    constructor; unfold nd4; cbn [virt sims regs numRegs nextReg].
    - rewrite map_app. simpl. apply NoDup_app_one; auto.
    - rewrite map_app. simpl. apply NoDup_app_one; auto.
    - rewrite map_rnum_set_reg; auto.
    - intros y Hy. apply in_set_reg in Hy as [[Hy _]| ->]; auto. apply (ok_rlt0 r Hr).
    - unfold set_reg. rewrite map_length. auto.
    - intros y Hy. apply in_set_reg in Hy as [[Hy _]| ->]; auto. simpl. rewrite app_length; simpl. lia.
    - intros x Hx. apply in_app_one in Hx as [Hx| ->].
      + destruct (ok_sreg0 x Hx) as [r' [Hr' [E1 E2]]].
        destruct (Nat.eq_dec (r_num r') (r_num r1)) as [E|NE].
        * exists r1. split; [apply in_set_reg_new with (r := r); auto|]. split; [congruence|].
          assert (r' = r) by (apply (NoDup_map_inj r_num (regs nd)); auto). subst. simpl. lia.
        * exists r'. split; [apply in_set_reg_other; auto|]. auto.
      + exists r1. split; [apply in_set_reg_new with (r := r); auto|]. simpl. split; auto.
    - intros x y Hx Hy E1 E2. apply in_app_one in Hx as [Hx| ->]; apply in_app_one in Hy as [Hy| ->]; auto.
      + exfalso. simpl in E1, E2. pose proof (POS x Hx E1). lia.
      + exfalso. simpl in E1, E2. pose proof (POS y Hy (eq_sym E1)). lia.
    - intros y Hy. rewrite filter_app_one. rewrite app_length. simpl (s_reg xnew).
      apply in_set_reg in Hy as [[Hy NE]| ->].
      + rewrite K1 in NE. destruct (Nat.eqb_spec k (r_num y)); [exfalso; auto|]. simpl. rewrite Nat.add_0_r. auto.
      + rewrite K1, Nat.eqb_refl. simpl. rewrite <- Ek. rewrite (ok_count0 r Hr). lia. }
  pose proof (inv_nodes s H) as inv_nodes0. pose proof (inv_backed s H) as inv_backed0.
  pose proof (inv_inj s H) as inv_inj0. pose proof (inv_onto s H) as inv_onto0.
  pose proof (inv_qid_inj s H) as inv_qid_inj0. pose proof (inv_qid_lt s H) as inv_qid_lt0.
  constructor.
  - intro i. rewrite EN. destruct (Nat.eqb i n); auto.
  - intros i q Hq. rewrite EN in Hq.
    assert (CASE : (In q (virt (nth_node s i))) \/ (i = n /\ q = qnew)).
    { destruct (Nat.eqb_spec i n) as [->|]; auto. unfold nd4 in Hq; cbn [virt] in Hq.
      apply in_app_one in Hq as [Hq| ->]; auto. }
    destruct CASE as [Hq0|[-> ->]].
    + destruct (inv_backed0 i q Hq0) as (x & r' & B1 & B2 & B3 & B4 & B5).
      rewrite EN. destruct (Nat.eqb_spec (v_simNode q) n) as [E|E]; [|exists x, r'; repeat split; auto].
      rewrite E in *. fold nd in B1, B3. unfold nd4; cbn [sims regs].
      destruct (Nat.eq_dec (r_num r') (r_num r1)) as [E'|NE].
      * assert (r' = r) by (apply (NoDup_map_inj r_num (regs nd)); auto; apply (ok_rnum nd OK)). subst r'.
        exists x, r1. repeat split; auto; [apply in_app_one; auto|apply in_set_reg_new with (r := r); auto|].
        simpl. rewrite nth_app_l; auto. rewrite LEN. apply POS; auto. congruence.
      * exists x, r'. repeat split; auto; [apply in_app_one; auto|apply in_set_reg_other; auto].
    + exists xnew, r1. rewrite EN. simpl (v_simNode qnew). rewrite Nat.eqb_refl. unfold nd4; cbn [sims regs].
      repeat split; auto; [apply in_app_one; auto|apply in_set_reg_new with (r := r); auto|].
      simpl. rewrite <- LEN. replace (length (r_ids r)) with (0 + length (r_ids r)) by lia. rewrite nth_app_r. reflexivity.
  - intros i j q q' Hq Hq' E. rewrite EN in Hq, Hq'.
    assert (CASE : forall i q, In q (virt (if Nat.eqb i n then nd4 else nth_node s i)) -> In q (virt (nth_node s i)) \/ q = qnew).
    { intros i0 q0 Hq0. destruct (Nat.eqb_spec i0 n) as [->|]; auto. unfold nd4 in Hq0; cbn [virt] in Hq0.
      apply in_app_one in Hq0 as [Hq0| ->]; auto. }
    destruct (CASE _ _ Hq) as [A| ->], (CASE _ _ Hq') as [B| ->]; eauto.
    + exfalso. destruct (inv_backed0 i q A) as (x & r' & B1 & B2 & _).
      unfold vref in E. simpl in E. injection E as E1 E2. rewrite E1 in B1. fold nd in B1.
      apply FR1. rewrite <- E2, <- B2. apply in_map; auto.
    + exfalso. destruct (inv_backed0 j q' B) as (x & r' & B1 & B2 & _).
      unfold vref in E. simpl in E. injection E as E1 E2. rewrite <- E1 in B1. fold nd in B1.
      apply FR1. rewrite E2, <- B2. apply in_map; auto.
  - intros j x Hx. rewrite EN in Hx.
    assert (CASE : In x (sims (nth_node s j)) \/ (j = n /\ x = xnew)).
    { destruct (Nat.eqb_spec j n) as [->|]; auto. unfold nd4 in Hx; cbn [sims] in Hx.
      apply in_app_one in Hx as [Hx| ->]; auto. }
    destruct CASE as [Hx0|[-> ->]].
    + destruct (inv_onto0 j x Hx0) as (i & q & Hq & E). exists i, q. rewrite EN. split; auto.
      destruct (Nat.eqb_spec i n) as [->|]; auto. unfold nd4; cbn [virt]. apply in_app_one; auto.
    + exists n, qnew. rewrite EN, Nat.eqb_refl. unfold nd4; cbn [virt]. split; [apply in_app_one; auto|reflexivity].
  - intros i j q q' Hq Hq' E. rewrite EN in Hq, Hq'.
    assert (CASE : forall i q, In q (virt (if Nat.eqb i n then nd4 else nth_node s i)) -> (exists i', In q (virt (nth_node s i'))) \/ q = qnew).
    { intros i0 q0 Hq0. destruct (Nat.eqb_spec i0 n) as [->|]; eauto. unfold nd4 in Hq0; cbn [virt] in Hq0.
      apply in_app_one in Hq0 as [Hq0| ->]; eauto. }
    destruct (CASE _ _ Hq) as [[a A]| ->], (CASE _ _ Hq') as [[b B]| ->]; eauto.
    + exfalso. specialize (inv_qid_lt0 _ _ A). simpl in E. unfold HH in E. lia.
    + exfalso. specialize (inv_qid_lt0 _ _ B). simpl in E. unfold HH in E. lia.
  - intros i q Hq. rewrite EN in Hq. simpl.
    destruct (Nat.eqb_spec i n) as [->|].
    + unfold nd4 in Hq; cbn [virt] in Hq. apply in_app_one in Hq as [Hq| ->].
      * specialize (inv_qid_lt0 _ _ Hq). unfold HH. lia.
      * simpl. unfold HH. lia.
    + specialize (inv_qid_lt0 _ _ Hq). unfold HH. lia.
Qed.
