(* C01, layer 2: one engine call on one factor of an arbitrary well-formed factor list, stated through permutations
   (`fs` contains the factor somewhere, `fs'` contains the transformed factor and the same remaining factors).
   Each theorem gives: the new list is well-formed, how the set of identities changes, and the new joint group as the
   image of the old joint group under a transformation of GLOBAL strings that mentions only the qubit identity. *)
From Coq Require Import List Bool Arith Lia Permutation.
From SQ Require Import Base.ListUtil Stab.Pauli Stab.Kernels Stab.Gates Stab.Tableau Stab.Group Stab.GroupGates
     Stab.TensorProof Stab.PermProof Stab.EqProof Stab.MeasureProof Stab.MeasureFull Stab.LocalZ
     Net.Model Net.Joint Net.JointOps.
Import ListNotations.

Ltac msplit := repeat match goal with |- _ /\ _ => split end.

Lemma ex_iff_l {A} (F G R : A -> Prop) : (forall x, F x <-> G x) -> ((exists x, F x /\ R x) <-> (exists x, G x /\ R x)).
Proof. intro E. split; intros (x & H & K); exists x; split; auto; apply E; auto. Qed.

Lemma frame_ok fs ids n t rest : fsok fs -> Permutation fs (mkF ids n t :: rest) ->
  fsok (mkF ids n t :: rest) /\ NoDup ids /\ length ids = n /\ full n t /\ fsok rest /\
  (forall y, In y ids -> In y (all_ids rest) -> False) /\
  (forall P, jgroup fs P <-> jgroup (mkF ids n t :: rest) P) /\
  (forall y, In y (all_ids fs) <-> In y ids \/ In y (all_ids rest)).
Proof.
  intros OK HP. pose proof (fsok_perm _ _ HP OK) as OK'.
  destruct (fsok_head _ _ OK') as (A & B & C & D & E). simpl in A, B, C, E.
  msplit; auto.
  - intro P. apply jgroup_perm; auto. apply OK.
  - intro y. rewrite (all_ids_perm _ _ y HP). simpl. rewrite in_app_iff. tauto.
Qed.

Lemma replace_same_ids fs fs' ids n t t' rest : fsok fs -> Permutation fs (mkF ids n t :: rest) ->
  Permutation fs' (mkF ids n t' :: rest) -> full n t' ->
  fsok fs' /\ (forall y, In y (all_ids fs') <-> In y (all_ids fs)) /\
  (forall P, jgroup fs' P <-> jgroup (mkF ids n t' :: rest) P).
Proof.
  intros OK HP HP' F'. destruct (frame_ok _ _ _ _ _ OK HP) as (OK1 & ND & L & F & OKR & D & _ & I).
  assert (OK' : fsok fs').
  { apply (fsok_perm _ _ (Permutation_sym HP')). apply (fsok_head_replace (mkF ids n t)); simpl; auto. split; auto. }
  msplit; auto.
  - intro y. rewrite (all_ids_perm _ _ y HP'), I. simpl. rewrite in_app_iff. tauto.
  - intro P. apply jgroup_perm; auto. apply OK'.
Qed.

(* ---- gates ------------------------------------------------------------------------------------------------------------ *)
Theorem step_gate1 fs fs' ids n t rest g p : fsok fs -> Permutation fs (mkF ids n t :: rest) ->
  Permutation fs' (mkF ids n (tab_gate1 g n p t) :: rest) -> p < n ->
  fsok fs' /\ (forall y, In y (all_ids fs') <-> In y (all_ids fs)) /\
  forall P, jgroup fs' P <-> exists P0, jgroup fs P0 /\ geq P (gconj1 g (nth p ids 0) P0).
Proof.
  intros OK HP HP' Hp. destruct (frame_ok _ _ _ _ _ OK HP) as (OK1 & ND & L & F & OKR & D & J & I).
  destruct (replace_same_ids _ _ _ _ _ _ _ OK HP HP' (full_gate1 g n p t F Hp)) as (OK' & I' & J').
  msplit; auto. intro P. rewrite J'. rewrite (head_gate1 g ids n t p rest P ND L (proj1 (proj1 F)) Hp).
  apply ex_iff_l. intro x. symmetry. apply J.
Qed.

Theorem step_gate2 fs fs' ids n t rest g c t' : fsok fs -> Permutation fs (mkF ids n t :: rest) ->
  Permutation fs' (mkF ids n (tab_gate2 g n c t' t) :: rest) -> c < n -> t' < n -> c <> t' ->
  fsok fs' /\ (forall y, In y (all_ids fs') <-> In y (all_ids fs)) /\
  forall P, jgroup fs' P <-> exists P0, jgroup fs P0 /\ geq P (gconj2 g (nth c ids 0) (nth t' ids 0) P0).
Proof.
  intros OK HP HP' Hc Ht Hne. destruct (frame_ok _ _ _ _ _ OK HP) as (OK1 & ND & L & F & OKR & D & J & I).
  destruct (replace_same_ids _ _ _ _ _ _ _ OK HP HP' (full_gate2 g n c t' t F Hc Ht Hne)) as (OK' & I' & J').
  msplit; auto. intro P. rewrite J'. rewrite (head_gate2 g ids n t c t' rest P ND L (proj1 (proj1 F)) Hc Ht Hne).
  apply ex_iff_l. intro x. symmetry. apply J.
Qed.

(* ---- merging two factors ------------------------------------------------------------------------------------------------ *)
Theorem step_merge fs fs' ids1 n1 t1 ids2 n2 t2 rest : fsok fs ->
  Permutation fs (mkF ids1 n1 t1 :: mkF ids2 n2 t2 :: rest) ->
  Permutation fs' (mkF (ids1 ++ ids2) (n1 + n2) (tensor n1 t1 n2 t2) :: rest) ->
  fsok fs' /\ (forall y, In y (all_ids fs') <-> In y (all_ids fs)) /\ forall P, jgroup fs' P <-> jgroup fs P.
Proof.
  intros OK HP HP'. pose proof (fsok_perm _ _ HP OK) as OK1.
  destruct OK1 as [ND FA]. simpl in ND. inversion FA as [|? ? [L1 F1] FA2]; subst. inversion FA2 as [|? ? [L2 F2] FAR]; subst.
  simpl in L1, L2, F1, F2.
  assert (OKM : fsok (mkF (ids1 ++ ids2) (n1 + n2) (tensor n1 t1 n2 t2) :: rest)).
  { split; simpl; [rewrite <- app_assoc; auto|]. constructor; auto. split; simpl; [rewrite app_length; lia|].
    apply full_tensor; auto. }
  assert (OK' : fsok fs') by (apply (fsok_perm _ _ (Permutation_sym HP')); auto).
  msplit; auto.
  - intro y. rewrite (all_ids_perm _ _ y HP'), (all_ids_perm _ _ y HP). simpl. rewrite <- app_assoc. tauto.
  - intro P. rewrite (jgroup_perm _ _ P HP' (proj1 OK')), (jgroup_perm _ _ P HP (proj1 OK)).
    apply jgroup_merge; auto; try (apply F1); try (apply F2).
    + intro Z; rewrite Z in F1. apply full0_nil; auto.
    + intro Z; rewrite Z in F2. apply full0_nil; auto.
Qed.

(* an empty register more or less *)
Theorem step_add_empty fs fs' : fsok fs -> Permutation fs' (mkF [] 0 [] :: fs) ->
  fsok fs' /\ (forall y, In y (all_ids fs') <-> In y (all_ids fs)) /\ forall P, jgroup fs' P <-> jgroup fs P.
Proof.
  intros OK HP'.
  assert (OKM : fsok (mkF [] 0 [] :: fs)).
  { destruct OK as [ND FA]. split; simpl; auto. constructor; auto. split; simpl; auto. apply full_nil. }
  assert (OK' : fsok fs') by (apply (fsok_perm _ _ (Permutation_sym HP')); auto).
  msplit; auto.
  - intro y. rewrite (all_ids_perm _ _ y HP'). simpl. tauto.
  - intro P. rewrite (jgroup_perm _ _ P HP' (proj1 OK')). apply jgroup_drop_empty.
Qed.

(* ---- in-place measurement ------------------------------------------------------------------------------------------------ *)
Theorem step_det fs ids n t rest p : fsok fs -> Permutation fs (mkF ids n t :: rest) -> p < n ->
  (random_branch n p t = false <-> forall P, jgroup fs P -> xbit (snd P (nth p ids 0)) = false).
Proof.
  intros OK HP Hp. destruct (frame_ok _ _ _ _ _ OK HP) as (OK1 & ND & L & F & OKR & D & J & I).
  rewrite (random_branch_iff n p t Hp (proj1 (proj1 F)) (proj1 (proj2 (proj1 F)))).
  rewrite (head_det ids n t p rest ND L Hp).
  split; intros H P HP0; apply H; apply J; auto.
Qed.

Theorem step_zel fs ids n t rest p s : fsok fs -> Permutation fs (mkF ids n t :: rest) -> p < n ->
  (gen n t (zel s n p) <-> jgroup fs (gz s (nth p ids 0))).
Proof.
  intros OK HP Hp. destruct (frame_ok _ _ _ _ _ OK HP) as (OK1 & ND & L & F & OKR & D & J & I).
  rewrite J. apply head_zel; auto.
Qed.

Theorem step_meas_inplace fs fs' ids n t rest p coin o n1 t1 : fsok fs -> Permutation fs (mkF ids n t :: rest) ->
  p < n -> measure n p true coin t = (o, n1, t1) -> Permutation fs' (mkF ids n1 t1 :: rest) ->
  n1 = n /\ fsok fs' /\ (forall y, In y (all_ids fs') <-> In y (all_ids fs)) /\
  (if random_branch n p t
   then o = coin /\
        forall P, jgroup fs' P <-> exists P0, jgroup fs P0 /\ (xbit (snd P0 (nth p ids 0)) = false /\
                                      (geq P P0 \/ geq P (gmulz coin (nth p ids 0) P0)))
   else (forall P, jgroup fs' P <-> jgroup fs P) /\ (o = false <-> jgroup fs (gz P0 (nth p ids 0)))).
Proof.
  intros OK HP Hp EM HP'. destruct (frame_ok _ _ _ _ _ OK HP) as (OK1 & ND & L & F & OKR & D & J & I).
  destruct (meas_inplace_spec n p coin t Hp F) as (o' & t1' & EM' & F1 & SP).
  rewrite EM in EM'. inversion EM'; subst o' n1 t1'. clear EM'.
  destruct (replace_same_ids _ _ _ _ _ _ _ OK HP HP' F1) as (OK' & I' & J').
  msplit; auto.
  destruct (random_branch n p t).
  - destruct SP as [-> SP]. split; auto. intro P. rewrite J'.
    rewrite (head_meas_random ids n t t1 coin p rest P ND L Hp SP).
    apply ex_iff_l. intro x. symmetry. apply J.
  - destruct SP as (SG & O1 & O2). split.
    + intro P. rewrite J', J. apply jgroup_head_congr. auto.
    + rewrite O1. apply (step_zel fs ids n t rest p P0 OK HP Hp).
Qed.

(* ---- removal ---------------------------------------------------------------------------------------------------------------- *)
Theorem step_remove_keep fs2 ids n t1 t2 rest p : fsok (mkF ids n t1 :: rest) -> p < n -> full (n - 1) t2 ->
  (forall g, gen (n - 1) t2 g <->
     exists g', gen n t1 g' /\ nth p (snd g') PI = PI /\ g = (fst g', remove_nth p (snd g'))) ->
  Permutation fs2 (mkF (remove_nth p ids) (n - 1) t2 :: rest) ->
  fsok fs2 /\ (forall y, In y (all_ids fs2) <-> (In y (all_ids (mkF ids n t1 :: rest)) /\ y <> nth p ids 0)) /\
  forall P, jgroup fs2 P <-> (jgroup (mkF ids n t1 :: rest) P /\ snd P (nth p ids 0) = PI).
Proof.
  intros OK Hp F2 SP HP2.
  destruct (fsok_head _ _ OK) as (ND & L & F & OKR & D). simpl in ND, L, F, D.
  assert (NI : ~ In (nth p ids 0) (all_ids rest)) by (intro H; apply (D (nth p ids 0)); auto; apply nth_In; lia).
  assert (LR : length (remove_nth p ids) = n - 1) by (rewrite remove_nth_length; lia).
  assert (OKX : fsok (mkF (remove_nth p ids) (n - 1) t2 :: rest)).
  { apply (fsok_head_replace (mkF ids n t1)); simpl; auto; [split; auto | apply remove_nth_NoDup; auto |
      intros y; apply remove_nth_in]. }
  assert (OK2 : fsok fs2) by (apply (fsok_perm _ _ (Permutation_sym HP2)); auto).
  msplit; auto.
  - intro y. rewrite (all_ids_perm _ _ y HP2). simpl. rewrite !in_app_iff. rewrite (remove_nth_in_iff p ids y ND) by lia.
    split; [intros [[A B]|A]; split; auto; intro; subst; contradiction | intros [[A|A] B]; auto].
  - intro P. rewrite (jgroup_perm _ _ P HP2 (proj1 OK2)). apply head_remove; auto.
Qed.

(* the network drops a register that has become empty *)
Theorem step_remove fs2 ids n t1 t2 rest p : fsok (mkF ids n t1 :: rest) -> p < n -> full (n - 1) t2 ->
  (forall g, gen (n - 1) t2 g <->
     exists g', gen n t1 g' /\ nth p (snd g') PI = PI /\ g = (fst g', remove_nth p (snd g'))) ->
  Permutation fs2 (if Nat.eqb (n - 1) 0 then rest else mkF (remove_nth p ids) (n - 1) t2 :: rest) ->
  fsok fs2 /\ (forall y, In y (all_ids fs2) <-> (In y (all_ids (mkF ids n t1 :: rest)) /\ y <> nth p ids 0)) /\
  forall P, jgroup fs2 P <-> (jgroup (mkF ids n t1 :: rest) P /\ snd P (nth p ids 0) = PI).
Proof.
  intros OK Hp F2 SP HP2.
  destruct (Nat.eqb_spec (n - 1) 0) as [E0|N0]; [|apply (step_remove_keep fs2 ids n t1 t2 rest p); auto].
  destruct (step_remove_keep _ ids n t1 t2 rest p OK Hp F2 SP (Permutation_refl _)) as (OKX & IX & JX).
  destruct (fsok_head _ _ OK) as (ND & L & F & OKR & D). simpl in ND, L, F, D.
  assert (t2 = []) by (rewrite E0 in F2; apply full0_nil; auto). subst t2.
  assert (LR : length (remove_nth p ids) = n - 1) by (rewrite remove_nth_length; lia).
  assert (ER : remove_nth p ids = []) by (destruct (remove_nth p ids); [auto|simpl in LR; lia]).
  rewrite ER, E0 in *.
  assert (OK2 : fsok fs2) by (apply (fsok_perm _ _ (Permutation_sym HP2)); auto).
  msplit; auto.
  - intro y. rewrite (all_ids_perm _ _ y HP2). rewrite <- IX. simpl. tauto.
  - intro P. rewrite (jgroup_perm _ _ P HP2 (proj1 OK2)). rewrite <- JX. symmetry. apply jgroup_drop_empty.
Qed.

(* ---- two factor lists with the same joint group, measured in place at the same identity with the same coin ------------ *)
Lemma bool_false_iff (a b : bool) : (a = false <-> b = false) -> a = b.
Proof.
  destruct a, b; intros [A B]; auto; try (apply B; reflexivity); symmetry; apply A; reflexivity.
Qed.

Theorem inplace_agree fsA fsA' idsA nA tA restA pA oA n1A t1A fsB fsB' idsB nB tB restB pB oB n1B t1B coin :
  fsok fsA -> Permutation fsA (mkF idsA nA tA :: restA) -> pA < nA ->
  measure nA pA true coin tA = (oA, n1A, t1A) -> Permutation fsA' (mkF idsA n1A t1A :: restA) ->
  fsok fsB -> Permutation fsB (mkF idsB nB tB :: restB) -> pB < nB ->
  measure nB pB true coin tB = (oB, n1B, t1B) -> Permutation fsB' (mkF idsB n1B t1B :: restB) ->
  nth pB idsB 0 = nth pA idsA 0 ->
  (forall P, jgroup fsA P <-> jgroup fsB P) ->
  oA = oB /\ n1A = nA /\ n1B = nB /\ fsok fsA' /\ fsok fsB' /\
  (forall y, In y (all_ids fsA') <-> In y (all_ids fsA)) /\ (forall y, In y (all_ids fsB') <-> In y (all_ids fsB)) /\
  forall P, jgroup fsA' P <-> jgroup fsB' P.
Proof.
  intros OKA HPA LA EMA HPA' OKB HPB LB EMB HPB' EQ J.
  destruct (step_meas_inplace _ _ _ _ _ _ _ _ _ _ _ OKA HPA LA EMA HPA') as (NA & OKA' & IA & SA).
  destruct (step_meas_inplace _ _ _ _ _ _ _ _ _ _ _ OKB HPB LB EMB HPB') as (NB & OKB' & IB & SB).
  pose proof (step_det fsA idsA nA tA restA pA OKA HPA LA) as DA.
  pose proof (step_det fsB idsB nB tB restB pB OKB HPB LB) as DB.
  rewrite EQ in SB, DB.
  assert (RB : random_branch nB pB tB = random_branch nA pA tA).
  { apply bool_false_iff. rewrite DA, DB. split; intros H P HP; apply H; apply J; auto. }
  rewrite RB in SB.
  destruct (random_branch nA pA tA).
  - destruct SA as [EA SA], SB as [EB SB]. msplit; auto; [congruence|].
    intro P. rewrite SA, SB. apply ex_iff_l. auto.
  - destruct SA as [SA OA], SB as [SB OB]. msplit; auto.
    + apply bool_false_iff. rewrite OA, OB. apply J.
    + intro P. rewrite SA, SB. apply J.
Qed.

(* ---- creation on the single-factor side ---------------------------------------------------------------------------------- *)
Theorem step_create_single ids t q : fsok [mkF ids (length ids) t] -> ~ In q ids ->
  fsok [mkF (ids ++ [q]) (length (ids ++ [q])) (add_qubit (length ids) t)] /\
  forall P, jgroup [mkF (ids ++ [q]) (length (ids ++ [q])) (add_qubit (length ids) t)] P <->
            jgroup [mkF ids (length ids) t; mkF [q] 1 (add_qubit 0 [])] P.
Proof.
  intros OK NI. destruct (fsok_head _ _ OK) as (ND & L & F & _ & _). simpl in ND, L, F.
  assert (E : length (ids ++ [q]) = length ids + 1) by (rewrite app_length; reflexivity).
  rewrite E. split.
  - split; simpl.
    + rewrite app_nil_r. apply (Permutation_NoDup (Permutation_cons_append ids q)). constructor; auto.
    + constructor; auto. split; simpl; auto. apply full_add_qubit; auto.
  - intro P. change (add_qubit (length ids) t) with (tensor (length ids) t 1 (add_qubit 0 [])).
    apply jgroup_merge; auto; try apply F; try apply full_zero1.
    + intro Z. apply full0_nil. rewrite <- Z. auto.
    + discriminate.
Qed.
