(* C01, layer 2: LOCATION TRANSPARENCY at the level of stabilizer groups.
   For every network and every program, the joint group of all registers of all nodes (each register placed on the
   physical-qubit identities it records) equals the group of ONE ideal register driven by the same program translated
   through the identities, with the same coins; and every measurement outcome Model V reports is the ideal machine's. *)
From Coq Require Import List Bool Arith Lia Permutation.
From SQ Require Import Base.ListUtil Stab.Pauli Stab.Kernels Stab.Gates Stab.Tableau Stab.Group Stab.GroupGates
     Stab.TensorProof Stab.PermProof Stab.EqProof Stab.MeasureProof Stab.MeasureFull Stab.LocalZ
     Net.Model Net.Refusal Net.Capacity Net.Handles Net.Fresh Net.Inv Net.InvStep Net.Bookkeeping Net.Placement
     Net.RegsPerm Net.Joint Net.JointOps Net.JointSteps Net.JointExplicit Net.Ideal.
Import ListNotations.

Definition fac (r : reg) : factor := mkF (r_ids r) (r_n r) (r_tab r).
Definition factors (s : net) : list factor := map fac (all_regs s).
(* P is in the joint group of the network *)
Definition joint (s : net) (P : gstr) : Prop := jgroup (factors s) P.
Definition ifac (st : istate) : factor := mkF (fst st) (length (fst st)) (snd st).
(* P is in the group of the ideal register *)
Definition ideal (st : istate) (P : gstr) : Prop := jgroup [ifac st] P.

Record tcore (s : net) (st : istate) : Prop := mk_tcore {
  tc_ok : fsok (factors s);
  tc_iok : fsok [ifac st];
  tc_ids : forall y, In y (fst st) <-> In y (all_ids (factors s));
  tc_eq : forall P, joint s P <-> ideal st P
}.

Lemma all_ids_single f y : In y (all_ids [f]) <-> In y (f_ids f).
Proof. simpl. rewrite app_nil_r. tauto. Qed.

Lemma in_all_ids_factors s y : In y (all_ids (factors s)) <-> exists r, In r (all_regs s) /\ In y (r_ids r).
Proof.
  unfold all_ids, factors. rewrite in_flat_map. split.
  - intros (f & Hf & Hy). apply in_map_iff in Hf as (r & <- & Hr). eauto.
  - intros (r & Hr & Hy). exists (fac r). split; auto. apply in_map; auto.
Qed.

Lemma factors_perm s l : Permutation (all_regs s) l -> Permutation (factors s) (map fac l).
Proof. apply Permutation_map. Qed.

Lemma reachable_step s o : reachable s -> reachable (fst (step s o)).
Proof.
  intros (caps & ops & ->). exists caps, (ops ++ [o]). unfold run. rewrite fold_left_app. reflexivity.
Qed.

(* ---- the initial state -------------------------------------------------------------------------------------------------- *)
Lemma all_regs_init caps : all_regs (init_net caps) = [].
Proof. unfold all_regs, init_net; simpl. induction caps as [|c caps IH]; simpl; auto. Qed.

Lemma tcore_init caps : tcore (init_net caps) iinit.
Proof.
  assert (E : factors (init_net caps) = []) by (unfold factors; rewrite all_regs_init; reflexivity).
  constructor; unfold joint, ideal; rewrite ?E.
  - split; simpl; constructor.
  - split; simpl; [constructor|]. constructor; auto. split; simpl; auto. apply full_nil.
  - simpl. tauto.
  - intro P. symmetry. apply (jgroup_drop_empty [] [] P).
Qed.

(* ---- where the ideal machine finds an identity that the network records ---------------------------------------------- *)
Lemma net_frame s st r rest : tcore s st -> Permutation (all_regs s) (r :: rest) ->
  NoDup (r_ids r) /\ length (r_ids r) = r_n r /\ full (r_n r) (r_tab r) /\
  Permutation (factors s) (mkF (r_ids r) (r_n r) (r_tab r) :: map fac rest).
Proof.
  intros T HP. pose proof (factors_perm s _ HP) as HF. simpl in HF.
  destruct (frame_ok _ _ _ _ _ (tc_ok s st T) HF) as (_ & ND & L & F & _). auto.
Qed.

Lemma ideal_locate s st r rest p : tcore s st -> Permutation (all_regs s) (r :: rest) -> p < r_n r ->
  exists p', index_of (nth p (r_ids r) 0) (fst st) = Some p' /\ p' < length (fst st) /\
             nth p' (fst st) 0 = nth p (r_ids r) 0.
Proof.
  intros T HP Hp. destruct (net_frame s st r rest T HP) as (ND & L & F & HF).
  assert (In (nth p (r_ids r) 0) (fst st)).
  { apply (tc_ids s st T). apply in_all_ids_factors. exists r. split; [apply (Permutation_in _ (Permutation_sym HP)); simpl; auto|].
    apply nth_In. lia. }
  destruct (index_of_in _ _ H) as [p' E]. exists p'. split; auto. apply index_of_some; auto.
Qed.


Lemma ifac_frame s st : tcore s st ->
  NoDup (fst st) /\ full (length (fst st)) (snd st) /\ Permutation [ifac st] (mkF (fst st) (length (fst st)) (snd st) :: []).
Proof.
  intro T. destruct (fsok_head _ _ (tc_iok s st T)) as (ND & _ & F & _). auto.
Qed.

(* both sides transformed by the same relation on global strings *)
Lemma tcore_transfer s s' st st' (R : gstr -> gstr -> Prop) : tcore s st ->
  fsok (factors s') -> fsok [ifac st'] ->
  (forall y, In y (all_ids (factors s')) <-> In y (all_ids (factors s))) ->
  (forall y, In y (all_ids [ifac st']) <-> In y (all_ids [ifac st])) ->
  (forall P, jgroup (factors s') P <-> exists P0, jgroup (factors s) P0 /\ R P0 P) ->
  (forall P, jgroup [ifac st'] P <-> exists P0, jgroup [ifac st] P0 /\ R P0 P) ->
  tcore s' st'.
Proof.
  intros T OK OKI I II J JI. constructor; auto.
  - intro y. pose proof (all_ids_single (ifac st') y) as A1. pose proof (all_ids_single (ifac st) y) as A2.
    cbn [f_ids ifac] in A1, A2. pose proof (I y). pose proof (II y). pose proof (tc_ids s st T y). tauto.
  - intro P. unfold joint, ideal. rewrite J, JI. apply ex_iff_l. apply (tc_eq s st T).
Qed.

Lemma tcore_same_factors s s' st : factors s' = factors s -> tcore s st -> tcore s' st.
Proof. intros E [A B C D]. constructor; unfold joint in *; rewrite ?E; auto. Qed.

(* ---- register merges do not change the joint group ------------------------------------------------------------------------ *)
Lemma mrel_factors s sm : mrel s sm -> fsok (factors s) ->
  fsok (factors sm) /\ (forall y, In y (all_ids (factors sm)) <-> In y (all_ids (factors s))) /\
  forall P, jgroup (factors sm) P <-> jgroup (factors s) P.
Proof.
  induction 1; intro OK.
  - msplit; auto; intros; tauto.
  - destruct (perm_local_merge s sn k1 k2 r1 r2) as (rest & P1 & P2); auto.
    apply (step_merge (factors s) _ (r_ids r1) (r_n r1) (r_tab r1) (r_ids r2) (r_n r2) (r_tab r2) (map fac rest)); auto.
    + apply (factors_perm s _ P1).
    + apply (factors_perm _ _ P2).
  - destruct (perm_merge_from s li oi simNum lk x lr) as (orr & rest & Ho & P1 & P2); auto.
    apply (step_merge (factors s) _ (r_ids lr) (r_n lr) (r_tab lr) (r_ids orr) (r_n orr) (r_tab orr) (map fac rest)); auto.
    + apply (factors_perm s _ P1).
    + apply (factors_perm _ _ P2).
  - apply step_add_empty; auto. apply (factors_perm _ _ (perm_add_register_force s vi H)).
  - destruct (IHmrel1 OK) as (OK2 & I2 & J2). destruct (IHmrel2 OK2) as (OK3 & I3 & J3).
    msplit; auto.
    + intro y. rewrite I3. apply I2.
    + intro P. rewrite J3. apply J2.
Qed.

Lemma tcore_mrel s sm st : mrel s sm -> tcore s st -> tcore sm st.
Proof.
  intros M T. destruct (mrel_factors s sm M (tc_ok s st T)) as (OK & I & J).
  constructor; auto; [apply T| |].
  - intro y. rewrite I. apply T.
  - intro P. unfold joint. rewrite J. apply T.
Qed.

(* ---- one-qubit gate ------------------------------------------------------------------------------------------------------------ *)
Lemma tcore_gate1 s st h g gg vi q : reachable s -> tcore s st ->
  find_handle s h = Some (vi, q) -> gate1_of g = Some gg ->
  tcore (fst (step s (OGate1 h g))) (fst (istep st (IGate1 (v_qid q) gg))).
Proof.
  intros R T EF EG. destruct (reachable_ginv s R) as [HI HV].
  destruct (gate1_hits_denoted_qubit s h g gg vi q R EF EG) as (x & r & Hr & Lp & Eid & ES).
  rewrite ES. cbn [fst].
  set (r' := reg_with_tab r (r_n r) (tab_gate1 gg (r_n r) (s_pos x) (r_tab r))).
  destruct (perm_update_reg s (v_simNode q) r r' HV Hr eq_refl) as (rest & P1 & P2).
  destruct (net_frame s st r rest T P1) as (ND & L & F & HF).
  destruct (ideal_locate s st r rest (s_pos x) T P1 Lp) as (p' & EI & Lp' & Ep'). rewrite Eid in EI, Ep'.
  unfold istep. rewrite EI. cbn [fst].
  destruct (step_gate1 (factors s) (factors (update_reg_at s (v_simNode q) r')) (r_ids r) (r_n r) (r_tab r) (map fac rest)
              gg (s_pos x) (tc_ok s st T) HF (factors_perm _ _ P2) Lp) as (OK' & I' & J').
  destruct (step_gate1 [ifac st] [ifac (fst st, tab_gate1 gg (length (fst st)) p' (snd st))]
              (fst st) (length (fst st)) (snd st) [] gg p' (tc_iok s st T) (Permutation_refl _) (Permutation_refl _) Lp')
    as (OKI' & II' & JI').
  rewrite Eid in J'. rewrite Ep' in JI'.
  apply (tcore_transfer s _ st _ (fun P0 P => geq P (gconj1 gg (v_qid q) P0))); auto.
Qed.

(* ---- two-qubit gate, all seven placements ------------------------------------------------------------------------------------ *)
Lemma tcore_gate2 s st h1 h2 g vi q1 q2 : reachable s -> tcore s st ->
  find_handle s h1 = Some (vi, q1) -> find_handle s h2 = Some (vi, q2) -> h1 <> h2 ->
  tcore (fst (step s (OGate2 h1 h2 g))) (fst (istep st (IGate2 (v_qid q1) (v_qid q2) (gate2_of g)))).
Proof.
  intros R T0 EF1 EF2 Hne.
  destruct (gate2_hits_denoted_qubits_merges s h1 h2 g vi q1 q2 R EF1 EF2 Hne)
    as (sm & ni & k & p1 & p2 & r & MR & [HI HV] & ES & Hr & Ek & L1 & L2 & Np & E1 & E2).
  pose proof (tcore_mrel s sm st MR T0) as T.
  rewrite ES. cbn [fst]. rewrite (apply_gate2_at_eq sm ni k g p1 p2 r HV Hr Ek).
  set (r' := reg_with_tab r (r_n r) (tab_gate2 (gate2_of g) (r_n r) p1 p2 (r_tab r))).
  destruct (perm_update_reg sm ni r r' HV Hr eq_refl) as (rest & P1 & P2).
  destruct (net_frame sm st r rest T P1) as (ND & L & F & HF).
  destruct (ideal_locate sm st r rest p1 T P1 L1) as (c & EC & Lc & Ec). rewrite E1 in EC, Ec.
  destruct (ideal_locate sm st r rest p2 T P1 L2) as (t & ET & Lt & Et). rewrite E2 in ET, Et.
  assert (Nq : v_qid q1 <> v_qid q2).
  { rewrite <- E1, <- E2. intro E. apply Np. apply (proj1 (NoDup_nth (r_ids r) 0) ND); auto; lia. }
  assert (Nct : c <> t) by (intro; subst; apply Nq; congruence).
  unfold istep. rewrite EC, ET. destruct (Nat.eqb_spec c t); [contradiction|]. cbn [fst].
  destruct (step_gate2 (factors sm) (factors (update_reg_at sm ni r')) (r_ids r) (r_n r) (r_tab r) (map fac rest)
              (gate2_of g) p1 p2 (tc_ok sm st T) HF (factors_perm _ _ P2) L1 L2 Np) as (OK' & I' & J').
  destruct (step_gate2 [ifac st] [ifac (fst st, tab_gate2 (gate2_of g) (length (fst st)) c t (snd st))]
              (fst st) (length (fst st)) (snd st) [] (gate2_of g) c t (tc_iok sm st T) (Permutation_refl _) (Permutation_refl _)
              Lc Lt Nct) as (OKI' & II' & JI').
  rewrite E1, E2 in J'. rewrite Ec, Et in JI'.
  apply (tcore_transfer sm _ st _ (fun P0 P => geq P (gconj2 (gate2_of g) (v_qid q1) (v_qid q2) P0))); auto.
Qed.

(* ---- creation -------------------------------------------------------------------------------------------------------------------- *)
Lemma fresh_not_recorded s : ginv s -> ~ In (next_hid s) (all_ids (factors s)).
Proof.
  intros G H. apply in_all_ids_factors in H as (r & Hr & Hy). pose proof (reg_ids_lt s r _ G Hr Hy). lia.
Qed.

Lemma tcore_new s st n v r : reachable s -> tcore s st ->
  r_n r = 1 -> r_tab r = add_qubit 0 [] -> r_ids r = [next_hid s] ->
  Permutation (all_regs (fst (step s (ONew n)))) (r :: all_regs s) ->
  snd (step s (ONew n)) = Ok v ->
  tcore (fst (step s (ONew n))) (fst (istep st (ICreate (next_hid s)))).
Proof.
  intros R T En Et Ei P2 _. pose proof (reachable_ginv s R) as G.
  set (q := next_hid s) in *. set (s' := fst (step s (ONew n))) in *.
  pose proof (fresh_not_recorded s G) as NQ. fold q in NQ.
  assert (NQI : ~ In q (fst st)) by (intro H; apply NQ; apply (tc_ids s st T); auto).
  unfold istep. rewrite (mem_nat_false q (fst st) NQI). cbn [fst].
  set (f0 := mkF [q] 1 (add_qubit 0 [])).
  assert (Ef : fac r = f0) by (unfold fac, f0; rewrite En, Et, Ei; reflexivity).
  pose proof (factors_perm s' _ P2) as HF. simpl in HF. rewrite Ef in HF. fold (factors s) in HF.
  destruct (tc_ok s st T) as [NDs FAs].
  assert (OK0 : fsok (f0 :: factors s)).
  { split; simpl; [constructor; auto|]. constructor; auto. split; simpl; auto. apply full_zero1. }
  assert (OK' : fsok (factors s')) by (apply (fsok_perm _ _ (Permutation_sym HF)); auto).
  destruct (step_create_single (fst st) (snd st) q (tc_iok s st T) NQI) as (OKI' & JI').
  destruct (ifac_frame s st T) as (NDI & FI & _).
  assert (OK1 : fsok [f0; ifac st]).
  { split; simpl; [rewrite app_nil_r; constructor; auto|]. constructor; [split; simpl; auto; apply full_zero1|].
    apply (tc_iok s st T). }
  constructor; auto.
  - intro y. cbn [fst]. rewrite (all_ids_perm _ _ y HF). simpl. rewrite in_app_iff, <- (tc_ids s st T). simpl. tauto.
  - intro P. unfold joint, ideal. rewrite (jgroup_perm _ _ P HF (proj1 OK')).
    rewrite (jgroup_cons_congr f0 (factors s) [ifac st] P (tc_eq s st T)).
    rewrite (jgroup_perm _ _ P (perm_swap (ifac st) f0 []) (proj1 OK1)).
    symmetry. apply JI'.
Qed.

(* ---- client-made registers ------------------------------------------------------------------------------------------------ *)
(* an empty register more: the joint group is unchanged, the ideal register is not touched *)
Lemma tcore_newreg s st n mq : tcore s st -> tcore (fst (step s (ONewReg n mq))) st.
Proof.
  intros T. destruct (perm_newreg_alt s n mq) as [(v & P2) | (_ & ES)]; [|rewrite ES; exact T].
  destruct P2 as [_ P2]. pose proof (factors_perm _ _ P2) as HF. simpl in HF. fold (factors s) in HF.
  change (fac (mkReg (nextReg (nth_node s n)) mq 0 [] [])) with (mkF [] 0 []) in HF.
  destruct (step_add_empty (factors s) _ (tc_ok s st T) HF) as (OK & I & J).
  constructor; auto; [apply T| |].
  - intro y. rewrite I. apply T.
  - intro P. unfold joint. rewrite J. apply T.
Qed.

(* the network gains the one-qubit factor |0> on a fresh identity (in whatever form): the ideal machine's creation matches it *)
Lemma tcore_create_core s s' st q : tcore s st -> ~ In q (all_ids (factors s)) ->
  fsok (factors s') ->
  (forall y, In y (all_ids (factors s')) <-> In y (all_ids (mkF [q] 1 (add_qubit 0 []) :: factors s))) ->
  (forall P, jgroup (factors s') P <-> jgroup (mkF [q] 1 (add_qubit 0 []) :: factors s) P) ->
  tcore s' (fst (istep st (ICreate q))).
Proof.
  intros T NQ OK' I' J'.
  assert (NQI : ~ In q (fst st)) by (intro H; apply NQ; apply (tc_ids s st T); auto).
  unfold istep. rewrite (mem_nat_false q (fst st) NQI). cbn [fst].
  set (f0 := mkF [q] 1 (add_qubit 0 [])) in *.
  destruct (step_create_single (fst st) (snd st) q (tc_iok s st T) NQI) as (OKI' & JI').
  destruct (ifac_frame s st T) as (NDI & FI & _).
  assert (OK1 : fsok [f0; ifac st]).
  { split; simpl; [rewrite app_nil_r; constructor; auto|]. constructor; [split; simpl; auto; apply full_zero1|].
    apply (tc_iok s st T). }
  constructor; auto.
  - intro y. cbn [fst]. rewrite I'. simpl. rewrite in_app_iff, <- (tc_ids s st T). simpl. tauto.
  - intro P. unfold joint, ideal. rewrite J'.
    rewrite (jgroup_cons_congr f0 (factors s) [ifac st] P (tc_eq s st T)).
    rewrite (jgroup_perm _ _ P (perm_swap (ifac st) f0 []) (proj1 OK1)).
    symmetry. apply JI'.
Qed.

(* remote_new_qubit_inreg: |0> appended INSIDE an existing register equals that register (x) |0> (tensor_group via jgroup_merge) *)
Lemma tcore_new_inreg s st n ow k v : reachable s -> tcore s st ->
  snd (step s (ONewInReg n ow k)) = Ok v ->
  tcore (fst (step s (ONewInReg n ow k))) (fst (istep st (ICreate (next_hid s)))).
Proof.
  intros R T EO. pose proof (reachable_ginv s R) as G.
  destruct (perm_new_inreg_alt s n ow k (proj2 G)) as [(v' & r & rest & _ & Hr & Ek & P1 & P2) | (NO & _)];
    [|exfalso; apply (NO v); exact EO].
  set (q := next_hid s) in *. set (s' := fst (step s (ONewInReg n ow k))) in *.
  pose proof (fresh_not_recorded s G) as NQ. fold q in NQ.
  set (f0 := mkF [q] 1 (add_qubit 0 [])).
  pose proof (factors_perm s _ P1) as HF. simpl in HF.
  pose proof (factors_perm s' _ P2) as HF'. simpl in HF'.
  change (fac (mkReg (r_num r) (r_max r) (S (r_n r)) (add_qubit (r_n r) (r_tab r)) (r_ids r ++ [q])))
    with (mkF (r_ids r ++ [q]) (S (r_n r)) (tensor (r_n r) (r_tab r) 1 (add_qubit 0 []))) in HF'.
  replace (S (r_n r)) with (r_n r + 1) in HF' by lia.
  destruct (tc_ok s st T) as [NDs FAs].
  assert (OK0 : fsok (f0 :: factors s)).
  { split; simpl; [constructor; auto|]. constructor; auto. split; simpl; auto. apply full_zero1. }
  assert (PA : Permutation (f0 :: factors s) (mkF (r_ids r) (r_n r) (r_tab r) :: f0 :: map fac rest)).
  { eapply Permutation_trans; [apply perm_skip; exact HF|]. apply perm_swap. }
  destruct (step_merge (f0 :: factors s) (factors s') (r_ids r) (r_n r) (r_tab r) [q] 1 (add_qubit 0 []) (map fac rest) OK0 PA HF')
    as (OK' & I' & J').
  apply (tcore_create_core s s' st q T NQ OK' I' J').
Qed.

(* ---- measurement on a live handle ------------------------------------------------------------------------------------------------ *)
Lemma tcore_meas s st h vi q ip c : reachable s -> tcore s st -> find_handle s h = Some (vi, q) ->
  tcore (fst (step s (OMeas h ip c))) (fst (istep st (IMeas (v_qid q) ip c))) /\
  out_meas (OMeas h ip c) (snd (step s (OMeas h ip c))) = snd (istep st (IMeas (v_qid q) ip c)).
Proof.
  intros R T EF. pose proof (reachable_ginv s R) as G.
  destruct (meas_shape s h vi q ip c G EF) as (x & r & rest & Hr & Lp & Eid & P1 & MS).
  destruct (net_frame s st r rest T P1) as (ND & L & F & HF).
  destruct (ideal_locate s st r rest (s_pos x) T P1 Lp) as (p' & EI & Lp' & Ep'). rewrite Eid in EI.
  destruct (ifac_frame s st T) as (NDI & FI & HFI).
  set (p := s_pos x) in *. set (nI := length (fst st)) in *.
  unfold istep. rewrite EI. fold nI.
  destruct ip.
  - (* in place *)
    destruct (measure (r_n r) p true c (r_tab r)) as [[o n1] t1] eqn:EM. destruct MS as [EO P2].
    destruct (measure nI p' true c (snd st)) as [[oI nI1] tI1] eqn:EMI. cbn [fst snd].
    destruct (inplace_agree (factors s) (factors (fst (step s (OMeas h true c)))) (r_ids r) (r_n r) (r_tab r) (map fac rest) p o n1 t1
                [ifac st] [mkF (fst st) nI1 tI1] (fst st) nI (snd st) [] p' oI nI1 tI1 c
                (tc_ok s st T) HF Lp EM (factors_perm _ _ P2) (tc_iok s st T) HFI Lp' EMI (Permutation_refl _) Ep' (tc_eq s st T))
      as (EO' & N1 & N1I & OK' & OKI' & I' & II' & J').
    subst nI1. split.
    + constructor; auto.
      * intro y. cbn [fst]. pose proof (I' y) as A1. pose proof (II' y) as A2. rewrite !all_ids_single in A2.
        cbn [f_ids ifac] in A2. pose proof (tc_ids s st T y). tauto.
    + rewrite EO. simpl. subst oI. destruct o; reflexivity.
  - (* destructive: the node measures in place and then removes; the ideal machine measures destructively at once *)
    destruct (meas_destr_after_inplace (r_n r) p c (r_tab r) Lp F) as (o & t1 & o2 & t2 & EM & EM2 & F2 & SP2).
    rewrite EM in MS. destruct MS as [EO P2]. rewrite EM2 in P2.
    destruct (meas_destr_spec nI p' c (snd st) Lp' FI) as (oI & tI1 & tI2 & EMI & EMI2 & FI2 & SPI2).
    rewrite EMI2. cbn [fst snd].
    destruct (inplace_agree (factors s) (mkF (r_ids r) (r_n r) t1 :: map fac rest) (r_ids r) (r_n r) (r_tab r) (map fac rest) p o (r_n r) t1
                [ifac st] [mkF (fst st) nI tI1] (fst st) nI (snd st) [] p' oI nI tI1 c
                (tc_ok s st T) HF Lp EM (Permutation_refl _) (tc_iok s st T) HFI Lp' EMI (Permutation_refl _) Ep' (tc_eq s st T))
      as (EO' & _ & _ & OK1 & OKI1 & I1 & II1 & J1).
    assert (HP2 : Permutation (factors (fst (step s (OMeas h false c))))
                    (if Nat.eqb (r_n r - 1) 0 then map fac rest
                     else mkF (remove_nth p (r_ids r)) (r_n r - 1) t2 :: map fac rest)).
    { pose proof (factors_perm _ _ P2) as HX. destruct (Nat.eqb (r_n r - 1) 0); exact HX. }
    destruct (step_remove _ (r_ids r) (r_n r) t1 t2 (map fac rest) p OK1 Lp F2 SP2 HP2) as (OK2 & I2 & J2).
    assert (LR : length (remove_nth p' (fst st)) = nI - 1) by (apply remove_nth_length; auto).
    assert (HPI2 : Permutation [ifac (remove_nth p' (fst st), tI2)] [mkF (remove_nth p' (fst st)) (nI - 1) tI2]).
    { unfold ifac. cbn [fst snd]. rewrite LR. apply Permutation_refl. }
    destruct (step_remove_keep _ (fst st) nI tI1 tI2 [] p' OKI1 Lp' FI2 SPI2 HPI2) as (OKI2 & II2 & JI2).
    rewrite Ep', Eid in *.
    split.
    + constructor; auto.
      * intro y. cbn [fst]. pose proof (I2 y) as A1. pose proof (II2 y) as A2. pose proof (I1 y) as A3. pose proof (II1 y) as A4.
        rewrite !all_ids_single in A2, A4. cbn [f_ids ifac fst] in A2, A4. pose proof (tc_ids s st T y). tauto.
      * intro P. unfold joint, ideal. rewrite J2, JI2, J1. tauto.
    + rewrite EO. simpl. subst oI. destruct o; reflexivity.
Qed.

(* ---- one step ---------------------------------------------------------------------------------------------------------------------- *)
Theorem step_tcore s st o : reachable s -> tcore s st ->
  tcore (fst (step s o)) (fst (istep st (tr s o))) /\ out_meas o (snd (step s o)) = snd (istep st (tr s o)).
Proof.
  intros R T. pose proof (reachable_ginv s R) as G.
  destruct o as [n | h g | h1 h2 g | h t | h ip c | n mq | n ow k].
  - (* create *)
    unfold tr. destruct (perm_new_alt s n (proj2 G)) as [(v & r & EO & En & Et & Ei & P2) | (NO & ES)].
    + rewrite EO. split; [eapply tcore_new; eauto|].
      simpl out_meas. unfold istep. destruct (mem_nat _ _); reflexivity.
    + destruct (snd (step s (ONew n))) as [v| | |k] eqn:EO; try (exfalso; apply (NO v); reflexivity);
        rewrite ES; split; auto.
  - (* one-qubit gate *)
    unfold tr. destruct (find_handle s h) as [[vi q]|] eqn:EF.
    + destruct (gate1_of g) as [gg|] eqn:EG.
      * split; [eapply tcore_gate1; eauto|]. unfold istep. destruct (index_of _ _); reflexivity.
      * rewrite (gate1_unsupported_noop s h g EG). split; auto.
    + rewrite (gate1_stale_noop s h g EF). split; auto.
  - (* two-qubit gate *)
    unfold tr. destruct (find_handle s h1) as [[v1 q1]|] eqn:EF1.
    + destruct (find_handle s h2) as [[v2 q2]|] eqn:EF2.
      * destruct (Nat.eqb_spec v1 v2) as [->|NV]; simpl andb.
        -- destruct (Nat.eqb_spec h1 h2) as [EH|NH]; simpl negb.
           ++ rewrite (gate2_noop s h1 h2 g) by auto. split; auto.
           ++ split; [eapply tcore_gate2; eauto|]. unfold istep.
              destruct (index_of _ _); [destruct (index_of _ _); [destruct (Nat.eqb _ _)|]|]; reflexivity.
        -- rewrite (gate2_noop s h1 h2 g) by (right; right; right; exists v1, q1, v2, q2; auto). split; auto.
      * rewrite (gate2_noop s h1 h2 g) by auto. split; auto.
    + rewrite (gate2_noop s h1 h2 g) by auto. split; auto.
  - (* send *)
    split; auto. apply (tcore_same_factors s); auto. unfold factors. rewrite all_regs_send. reflexivity.
  - (* measurement *)
    unfold tr. destruct (find_handle s h) as [[vi q]|] eqn:EF.
    + apply (tcore_meas s st h vi q ip c R T EF).
    + rewrite (meas_stale_noop s h ip c EF). split; auto.
  - (* create a register *)
    split; auto. apply tcore_newreg; auto.
  - (* create a qubit inside a register *)
    unfold tr. destruct (snd (step s (ONewInReg n ow k))) as [v| | |kk] eqn:EO.
    + split; [eapply tcore_new_inreg; eauto|].
      simpl out_meas. unfold istep. destruct (mem_nat _ _); reflexivity.
    + destruct (perm_new_inreg_alt s n ow k (proj2 G)) as [(v' & r & rest & EO' & _) | (_ & ES)]; [congruence|].
      rewrite ES. split; auto.
    + destruct (perm_new_inreg_alt s n ow k (proj2 G)) as [(v' & r & rest & EO' & _) | (_ & ES)]; [congruence|].
      rewrite ES. split; auto.
    + destruct (perm_new_inreg_alt s n ow k (proj2 G)) as [(v' & r & rest & EO' & _) | (_ & ES)]; [congruence|].
      rewrite ES. split; auto.
Qed.

(* ---- whole programs ------------------------------------------------------------------------------------------------------------------ *)
Theorem run_tcore ops : forall s st, reachable s -> tcore s st ->
  tcore (run s ops) (irun st (tr_run s ops)) /\
  outs_meas ops (run_outs s ops) = irun_outs st (tr_run s ops).
Proof.
  induction ops as [|o ops IH]; intros s st R T; simpl; auto.
  destruct (step_tcore s st o R T) as [T' EO].
  destruct (IH _ _ (reachable_step s o R) T') as [T'' EOs].
  destruct (step s o) as [s' r] eqn:ES. cbn [fst snd] in *.
  split; auto. simpl. rewrite EO, EOs. reflexivity.
Qed.

Theorem location_transparency caps ops :
  let s := run (init_net caps) ops in
  let iops := tr_run (init_net caps) ops in
  let st := irun iinit iops in
  (forall P, joint s P <-> ideal st P) /\
  outs_meas ops (run_outs (init_net caps) ops) = irun_outs iinit iops.
Proof.
  assert (R : reachable (init_net caps)) by (exists caps, []; reflexivity).
  destruct (run_tcore ops (init_net caps) iinit R (tcore_init caps)) as [T EO].
  split; auto. apply T.
Qed.

(* the identities recorded in the registers of a reachable state are pairwise different (across all registers and nodes),
   every register is a full stabilizer state of its size, and the ideal register holds exactly the same identities *)
Theorem reachable_factors_ok caps ops :
  let s := run (init_net caps) ops in
  let st := irun iinit (tr_run (init_net caps) ops) in
  NoDup (flat_map r_ids (all_regs s)) /\
  (forall r, In r (all_regs s) -> length (r_ids r) = r_n r /\ full (r_n r) (r_tab r)) /\
  NoDup (fst st) /\ full (length (fst st)) (snd st) /\
  (forall y, In y (fst st) <-> In y (flat_map r_ids (all_regs s))).
Proof.
  assert (R : reachable (init_net caps)) by (exists caps, []; reflexivity).
  destruct (run_tcore ops (init_net caps) iinit R (tcore_init caps)) as [T _].
  set (s := run (init_net caps) ops) in *. set (st := irun iinit (tr_run (init_net caps) ops)) in *. cbv zeta.
  assert (E : all_ids (factors s) = flat_map r_ids (all_regs s)).
  { unfold all_ids, factors. rewrite flat_map_concat_map, map_map, <- flat_map_concat_map. reflexivity. }
  destruct (tc_ok s st T) as [ND FA]. destruct (ifac_frame s st T) as (NDI & FI & _).
  rewrite <- E. msplit; auto.
  - intros r Hr. rewrite Forall_forall in FA. apply (FA (fac r)). apply in_map; auto.
  - apply (tc_ids s st T).
Qed.

(* ---- every reported outcome has non-zero probability -------------------------------------------------------------------------------
   A stabilizer state with group S gives outcome b on qubit q with probability 0 exactly when (-1)^(1-b) Z_q is in S (the state
   is then an eigenstate of Z_q with the other eigenvalue).  Whenever Model V reports an outcome v for a measurement, the
   operator of the opposite eigenvalue is neither in the joint group of the network nor in the ideal register's group. *)
Theorem reported_outcome_possible caps ops h ip c v :
  let s := run (init_net caps) ops in
  let st := irun iinit (tr_run (init_net caps) ops) in
  snd (step s (OMeas h ip c)) = Ok v ->
  exists vi q, find_handle s h = Some (vi, q) /\ (v = 0 \/ v = 1) /\
    ~ joint s (gz (ph_of_sign (negb (Nat.eqb v 1))) (v_qid q)) /\
    ~ ideal st (gz (ph_of_sign (negb (Nat.eqb v 1))) (v_qid q)).
Proof.
  assert (R0 : reachable (init_net caps)) by (exists caps, []; reflexivity).
  destruct (run_tcore ops (init_net caps) iinit R0 (tcore_init caps)) as [T _].
  assert (R : reachable (run (init_net caps) ops)) by (exists caps, ops; reflexivity).
  set (s := run (init_net caps) ops) in *. set (st := irun iinit (tr_run (init_net caps) ops)) in *. cbv zeta.
  intro EV. pose proof (reachable_ginv s R) as G.
  destruct (find_handle s h) as [[vi q]|] eqn:EF; [|rewrite (meas_stale_noop s h ip c EF) in EV; discriminate].
  exists vi, q. split; auto.
  destruct (meas_shape s h vi q ip c G EF) as (x & r & rest & Hr & Lp & Eid & P1 & MS).
  destruct (net_frame s st r rest T P1) as (ND & L & F & HF).
  pose proof (meas_outcome_possible (r_n r) (s_pos x) true c (r_tab r) Lp F) as NP.
  destruct (measure (r_n r) (s_pos x) true c (r_tab r)) as [[o n1] t1] eqn:EM. destruct MS as [EO _].
  rewrite EO in EV. inversion EV as [EV']. cbn [fst] in NP.
  assert (EB : Nat.eqb (if o then 1 else 0) 1 = o) by (destruct o; reflexivity). rewrite EB.
  rewrite (step_zel (factors s) (r_ids r) (r_n r) (r_tab r) (map fac rest) (s_pos x) _ (tc_ok s st T) HF Lp) in NP.
  rewrite Eid in NP.
  split; [destruct o; auto|]. split; auto. intro H. apply NP. apply (tc_eq s st T). exact H.
Qed.

(* ---- `joint` and `ideal` in explicit form, for every reachable state ----------------------------------------------------------------
   joint: one element g_r of the group of every register r of every node (registers in the model's own order), P restricted
   to the identities r_ids r is g_r position by position, P is the identity on every other identity, and the phase of P is
   the sum of the phases of the g_r.  ideal: the same with the single ideal register. *)
Theorem joint_ideal_explicit caps ops P :
  let s := run (init_net caps) ops in
  let st := irun iinit (tr_run (init_net caps) ops) in
  (joint s P <-> explicit (factors s) P) /\ (ideal st P <-> explicit [ifac st] P).
Proof.
  assert (R0 : reachable (init_net caps)) by (exists caps, []; reflexivity).
  destruct (run_tcore ops (init_net caps) iinit R0 (tcore_init caps)) as [T _]. cbv zeta.
  split; apply jgroup_explicit; apply T.
Qed.
