(* Model F: proofs about the classical socket (Sock.v). *)
From Coq Require Import List NArith Arith Lia Bool.
From SQ Require Import Frame.Bytes Frame.Sock.
Import ListNotations.
Local Open Scope nat_scope.

(* what does hold for every schedule: the byte stream itself is intact and in order *)
Definition stream_inv (st : sock) : Prop := concat (recvd st) ++ inflight st = concat (sent st).

Lemma sstep_stream_inv st op : stream_inv st -> stream_inv (sstep st op).
Proof.
  unfold stream_inv. destruct op as [m|maxsize k]; simpl; intro H.
  - rewrite concat_app. simpl. rewrite app_nil_r, app_assoc, H. reflexivity.
  - rewrite concat_app. simpl. rewrite app_nil_r, <- app_assoc, firstn_skipn. exact H.
Qed.

Lemma socket_stream_integrity_lem ops :
  concat (recvd (srun ops)) ++ inflight (srun ops) = concat (sent (srun ops)).
Proof.
  unfold srun. change (stream_inv (fold_left sstep ops sock0)).
  assert (H : forall st, stream_inv st -> stream_inv (fold_left sstep ops st)).
  { induction ops as [|op ops IH]; intros st Hs; simpl; [assumption|]. apply IH, sstep_stream_inv, Hs. }
  apply H. reflexivity.
Qed.

(* the regime the examples run in *)
Lemma lockstep_from maxsize ms : forall st,
  Forall (fun m => length m <= maxsize) ms -> inflight st = [] ->
  let st' := fold_left sstep (lockstep maxsize ms) st in
  recvd st' = recvd st ++ ms /\ inflight st' = [] /\ sent st' = sent st ++ ms.
Proof.
  induction ms as [|m ms IH]; intros st Hf Hi.
  - simpl. rewrite !app_nil_r. auto.
  - inversion Hf as [|? ? Hm Hms]; subst.
    change (lockstep maxsize (m :: ms)) with ([Send m; Recv maxsize maxsize] ++ lockstep maxsize ms).
    cbv zeta. rewrite fold_left_app.
    change (fold_left sstep [Send m; Recv maxsize maxsize] st)
      with (sstep (sstep st (Send m)) (Recv maxsize maxsize)).
    set (st1 := sstep (sstep st (Send m)) (Recv maxsize maxsize)).
    assert (E1 : inflight st1 = []).
    { unfold st1. simpl. rewrite Hi. simpl. rewrite Nat.min_id.
      rewrite Nat.min_r by lia. apply skipn_all. }
    assert (E2 : recvd st1 = recvd st ++ [m]).
    { unfold st1. simpl. rewrite Hi. simpl. rewrite Nat.min_id.
      rewrite Nat.min_r by lia. rewrite firstn_all. reflexivity. }
    assert (E3 : sent st1 = sent st ++ [m]) by reflexivity.
    destruct (IH st1 Hms E1) as (H1 & H2 & H3).
    rewrite H1, H2, H3, E2, E3, <- !app_assoc. simpl. auto.
Qed.

Lemma socket_lockstep_ok_lem maxsize ms :
  Forall (fun m => length m <= maxsize) ms ->
  recvd (srun (lockstep maxsize ms)) = ms /\ inflight (srun (lockstep maxsize ms)) = [].
Proof.
  intro H. destruct (lockstep_from maxsize ms sock0 H eq_refl) as (H1 & H2 & _). auto.
Qed.

(* two sends before the first receive: one recv returns both messages glued together *)
Lemma socket_coalesce_refuted_lem :
  let ops := [Send [104%N]; Send [105%N]; Recv 1024 1024] in
  sent (srun ops) = [[104%N]; [105%N]] /\ recvd (srun ops) = [[104%N; 105%N]] /\
  recvd (srun ops) <> sent (srun ops).
Proof. vm_compute. repeat split. intro H; discriminate H. Qed.

(* one send of more than maxsize bytes: whatever the OS does, the first recv returns a truncated message *)
Lemma socket_truncate_refuted_lem : forall k,
  let m := repeat 97%N 1025 in
  let ops := [Send m; Recv 1024 k] in
  forall r, recvd (srun ops) = [r] -> r <> m.
Proof.
  intros k m ops r H Hr. subst r. unfold ops, srun in H. simpl fold_left in H.
  unfold sstep in H. simpl recvd in H. simpl inflight in H.
  injection H as H. apply (f_equal (@length N)) in H.
  rewrite firstn_length in H. unfold m in H. rewrite repeat_length in H. lia.
Qed.

(* non-vacuity of the lockstep theorem *)
Example lockstep_example :
  Forall (fun m => length m <= 4) [[1%N]; [2%N; 3%N]; [4%N; 5%N; 6%N; 7%N]] /\
  recvd (srun (lockstep 4 [[1%N]; [2%N; 3%N]; [4%N; 5%N; 6%N; 7%N]])) = [[1%N]; [2%N; 3%N]; [4%N; 5%N; 6%N; 7%N]].
Proof. split; [repeat constructor; simpl; lia | vm_compute; reflexivity]. Qed.
