(* C01, layer 2: the ideal single-register machine and the translation of Model-V operations to it.
   State: the identities of the live physical qubits in creation order, and ONE tableau over them.
   A Model-V operation is translated through the ghost identities only (v_qid of the handle it names; a created qubit
   gets the identity next_hid, whether it is created in a register of its own or inside an existing register); where the
   qubit is simulated never enters.  Operations that Model V refuses or ignores, and the creation of an empty register,
   translate to INop. *)
From Coq Require Import List Bool Arith Lia.
From SQ Require Import Base.ListUtil Stab.Pauli Stab.Kernels Stab.Tableau Net.Model.
Import ListNotations.

Inductive iop :=
| ICreate (q : nat)
| IGate1 (q : nat) (g : gate1)
| IGate2 (qc qt : nat) (g : gate2)
| IMeas (q : nat) (inplace coin : bool)
| INop.

Definition istate := (list nat * tab)%type.
Definition iinit : istate := ([], []).

Fixpoint index_of (q : nat) (ids : list nat) : option nat :=
  match ids with
  | [] => None
  | a :: t => if Nat.eqb a q then Some 0 else option_map S (index_of q t)
  end.

(* one step; the second component is the reported measurement outcome, if the operation is a measurement *)
Definition istep (st : istate) (o : iop) : istate * option bool :=
  let n := length (fst st) in
  match o with
  | ICreate q => if mem_nat q (fst st) then (st, None) else ((fst st ++ [q], add_qubit n (snd st)), None)
  | IGate1 q g =>
      match index_of q (fst st) with
      | Some p => ((fst st, tab_gate1 g n p (snd st)), None)
      | None => (st, None)
      end
  | IGate2 qc qt g =>
      match index_of qc (fst st), index_of qt (fst st) with
      | Some c, Some t => if Nat.eqb c t then (st, None) else ((fst st, tab_gate2 g n c t (snd st)), None)
      | _, _ => (st, None)
      end
  | IMeas q ip coin =>
      match index_of q (fst st) with
      | Some p => let '(o, _, t1) := measure n p ip coin (snd st) in
                  ((if ip then fst st else remove_nth p (fst st), t1), Some o)
      | None => (st, None)
      end
  | INop => (st, None)
  end.

Definition irun (st : istate) (ops : list iop) : istate := fold_left (fun s o => fst (istep s o)) ops st.
Fixpoint irun_outs (st : istate) (ops : list iop) : list (option bool) :=
  match ops with
  | [] => []
  | o :: t => snd (istep st o) :: irun_outs (fst (istep st o)) t
  end.

(* ---- translation ------------------------------------------------------------------------------------------------------ *)
Definition tr (s : net) (o : op) : iop :=
  match o with
  | ONew n => match snd (step s o) with Ok _ => ICreate (next_hid s) | _ => INop end
  | OGate1 h g =>
      match find_handle s h, gate1_of g with
      | Some (_, q), Some gg => IGate1 (v_qid q) gg
      | _, _ => INop
      end
  | OGate2 h1 h2 g =>
      match find_handle s h1, find_handle s h2 with
      | Some (v1, q1), Some (v2, q2) =>
          if Nat.eqb v1 v2 && negb (Nat.eqb h1 h2) then IGate2 (v_qid q1) (v_qid q2) (gate2_of g) else INop
      | _, _ => INop
      end
  | OSend _ _ => INop
  | OMeas h ip c =>
      match find_handle s h with
      | Some (_, q) => IMeas (v_qid q) ip c
      | None => INop
      end
  | ONewReg _ _ => INop          (* an empty register holds no qubit: nothing happens to the ideal register *)
  | ONewInReg _ _ _ =>            (* a qubit created inside an existing register is just a fresh |0> qubit *)
      match snd (step s o) with Ok _ => ICreate (next_hid s) | _ => INop end
  end.

(* each operation is translated in the network state in which it is issued *)
Fixpoint tr_run (s : net) (ops : list op) : list iop :=
  match ops with
  | [] => []
  | o :: t => tr s o :: tr_run (fst (step s o)) t
  end.

(* the measurement outcome Model V reports for an operation (None: not a measurement, or ignored) *)
Definition out_meas (o : op) (r : out) : option bool :=
  match o, r with
  | OMeas _ _ _, Ok v => Some (Nat.eqb v 1)
  | _, _ => None
  end.
Fixpoint outs_meas (ops : list op) (rs : list out) : list (option bool) :=
  match ops, rs with
  | o :: ops', r :: rs' => out_meas o r :: outs_meas ops' rs'
  | _, _ => []
  end.

Lemma index_of_some q : forall ids p, index_of q ids = Some p -> p < length ids /\ nth p ids 0 = q.
Proof.
  induction ids as [|a ids IH]; simpl; intros p H; [discriminate|].
  destruct (Nat.eqb_spec a q) as [->|Hne].
  - inversion H; subst. split; [lia|auto].
  - destruct (index_of q ids) as [p'|]; [|discriminate]. inversion H; subst.
    destruct (IH p' eq_refl). split; [lia|auto].
Qed.

Lemma index_of_in q : forall ids, In q ids -> exists p, index_of q ids = Some p.
Proof.
  induction ids as [|a ids IH]; simpl; intros H; [contradiction|].
  destruct (Nat.eqb_spec a q) as [->|Hne]; eauto.
  destruct H as [H|H]; [contradiction|]. destruct (IH H) as [p ->]. simpl. eauto.
Qed.

Lemma index_of_nth : forall ids p, NoDup ids -> p < length ids -> index_of (nth p ids 0) ids = Some p.
Proof.
  intros ids p ND Hp. destruct (index_of_in (nth p ids 0) ids (nth_In _ _ Hp)) as [p' E].
  rewrite E. f_equal. destruct (index_of_some _ _ _ E) as [L N].
  apply (proj1 (NoDup_nth ids 0) ND); auto.
Qed.

Lemma mem_nat_false q l : ~ In q l -> mem_nat q l = false.
Proof.
  intro H. unfold mem_nat. destruct (existsb (Nat.eqb q) l) eqn:E; auto.
  apply existsb_exists in E as [x [Hx E]]. apply Nat.eqb_eq in E. subst. contradiction.
Qed.
