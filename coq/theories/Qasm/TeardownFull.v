(* C11, the register / simulated-qubit half: in the closed world of one NetQASM host the virtual-node network it drives is a
   reachable Model-V state, the other nodes never hold anything, hence once every application is stopped NOTHING is left on
   any node: no held qubit, no simulated qubit, no register (Net/NonEmpty.v). *)
From Coq Require Import List Bool Arith Lia.
From SQ Require Import Base.ListUtil Stab.Tableau Net.Model Net.Refusal Net.Handles Net.Inv Net.InvNew Net.InvStep
  Net.Bookkeeping Net.Population Net.NonEmpty Net.PerNode Qasm.Exec Qasm.ExecProps Qasm.Teardown.
Import ListNotations.

Lemma run_app s l1 l2 : run s (l1 ++ l2) = run (run s l1) l2.
Proof. unfold run. apply fold_left_app. Qed.

Definition tops (tr : ntrace) : list op := map fst tr.

Lemma native_net_run s o : q_net (fst (fst (native s o))) = run (q_net s) (tops (snd (native s o))).
Proof. unfold native. destruct (step (q_net s) o) as [n' r] eqn:E. unfold tops, run. cbn [fst snd map fold_left q_net]. rewrite E. reflexivity. Qed.

Lemma cmd_new_net_run i s p : q_net (fst (fst (cmd_new i s p))) = run (q_net s) (tops (snd (cmd_new i s p))).
Proof.
  unfold cmd_new. destruct (step (q_net s) (ONew i)) as [n' o] eqn:E.
  destruct o; unfold tops, run; cbn [fst snd map fold_left q_net]; rewrite E; reflexivity.
Qed.

Lemma clear_phys_net_run s p c : q_net (fst (fst (clear_phys s p c))) = run (q_net s) (tops (snd (clear_phys s p c))).
Proof.
  unfold clear_phys. destruct (virt_of (q_host s) (PP p)) as [hd|]; [|reflexivity].
  pose proof (native_net_run s (OMeas hd false c)) as HN.
  destruct (native s (OMeas hd false c)) as [[s1 r] tr]. simpl in HN.
  destruct r; simpl; exact HN.
Qed.

Lemma clear_all_net_run um : forall s coins,
  q_net (fst (fst (clear_all s um coins))) = run (q_net s) (tops (snd (clear_all s um coins))).
Proof.
  induction um as [|[p|] t IH]; intros s coins; simpl; [reflexivity| |apply IH].
  destruct (negb (mem_nat p (h_used (q_host s)))); [reflexivity|].
  set (s0 := mkQ (q_net s) _).
  pose proof (clear_phys_net_run s0 p (hd false coins)) as HP.
  destruct (clear_phys s0 p (hd false coins)) as [[s1 ok] tr]. simpl in HP.
  destruct ok; [|exact HP].
  pose proof (IH s1 (tl coins)) as HI.
  destruct (clear_all s1 t (tl coins)) as [[s2 ok2] tr2]. simpl in *.
  unfold tops in *. rewrite map_app, run_app. rewrite <- HP. exact HI.
Qed.

Lemma exec_net_run i s q : q_net (fst (fst (exec i s q))) = run (q_net s) (tops (snd (exec i s q))).
Proof.
  unfold exec. destruct q as [app maxq|app coins|app a|app a coin|app a g|app a ax|app a1 a2 g|app a coin|app a coin].
  - reflexivity.
  - destruct (negb _); [reflexivity|]. destruct (alookup _ _) as [um|]; [|reflexivity].
    set (s1 := mkQ (q_net s) _).
    pose proof (clear_all_net_run um s1 coins) as HC.
    destruct (clear_all s1 um coins) as [[s2 ok] tr]. simpl in *. exact HC.
  - destruct (alookup _ _) as [um|]; [|reflexivity]. destruct (nth_error um a) as [[p|]|]; try reflexivity.
    set (s1 := mkQ (q_net s) _).
    pose proof (cmd_new_net_run i s1 (PP (fresh_id (h_used (q_host s))))) as HC.
    destruct (cmd_new i s1 (PP (fresh_id (h_used (q_host s))))) as [[s2 ok] tr]. simpl in *. destruct ok; exact HC.
  - destruct (handle_of _ _ _) as [hd|]; [|reflexivity].
    pose proof (native_net_run s (OMeas hd true coin)) as HN.
    destruct (native s (OMeas hd true coin)) as [[s1 r] tr]. simpl in HN.
    destruct r as [[|[|v]]| | |k]; try exact HN.
    pose proof (native_net_run s1 (OGate1 hd NX)) as HN2.
    destruct (native s1 (OGate1 hd NX)) as [[s2 r2] tr2]. simpl in *.
    unfold tops in *. rewrite map_app, run_app. rewrite <- HN. exact HN2.
  - destruct (handle_of _ _ _) as [hd|]; [|reflexivity].
    pose proof (native_net_run s (OGate1 hd (native1 g))) as HN.
    destruct (native s (OGate1 hd (native1 g))) as [[s1 r] tr]. exact HN.
  - destruct (handle_of _ _ _) as [hd|]; [|reflexivity].
    pose proof (native_net_run s (OGate1 hd NRot)) as HN.
    destruct (native s (OGate1 hd NRot)) as [[s1 r] tr]. exact HN.
  - destruct (position _ _ a1) as [p1|]; [|reflexivity]. destruct (position _ _ a2) as [p2|]; [|reflexivity].
    destruct (virt_of _ (PP p1)) as [h1|]; [|reflexivity]. destruct (virt_of _ (PP p2)) as [h2|]; [|reflexivity].
    destruct (Nat.eqb h1 h2); [reflexivity|].
    pose proof (native_net_run s (OGate2 h1 h2 (native2 g))) as HN.
    destruct (native s (OGate2 h1 h2 (native2 g))) as [[s1 r] tr]. exact HN.
  - destruct (handle_of _ _ _) as [hd|]; [|reflexivity].
    pose proof (native_net_run s (OMeas hd true coin)) as HN.
    destruct (native s (OMeas hd true coin)) as [[s1 r] tr]. exact HN.
  - destruct (alookup _ _) as [um|]; [|reflexivity]. destruct (nth_error um a) as [[p|]|]; try reflexivity.
    destruct (negb _); [reflexivity|].
    set (s1 := mkQ (q_net s) _).
    pose proof (clear_phys_net_run s1 p coin) as HC.
    destruct (clear_phys s1 p coin) as [[s2 ok] tr]. exact HC.
Qed.

Lemma run_q_net_run i qs : forall s, exists ops, q_net (run_q i s qs) = run (q_net s) ops.
Proof.
  induction qs as [|q t IH]; intros s; simpl.
  - exists []. reflexivity.
  - destruct (IH (fst (fst (exec i s q)))) as [ops E].
    exists (tops (snd (exec i s q)) ++ ops). rewrite run_app. rewrite <- exec_net_run. exact E.
Qed.

(* ---- the native operations a host at node i issues: creations at i, gates and measurements; never a send ---------------- *)
Definition own_op (i : nat) (o : op) : bool :=
  match o with ONew n => Nat.eqb n i | OSend _ _ | ONewReg _ _ | ONewInReg _ _ _ => false | _ => true end.

Lemma native_own i s o : own_op i o = true -> Forall (fun x => own_op i x = true) (tops (snd (native s o))).
Proof. intro H. unfold native. destruct (step (q_net s) o) as [n' r]. simpl. constructor; auto. Qed.

Lemma cmd_new_own i s p : Forall (fun x => own_op i x = true) (tops (snd (cmd_new i s p))).
Proof.
  unfold cmd_new. destruct (step (q_net s) (ONew i)) as [n' o].
  destruct o; simpl; constructor; auto; simpl; apply Nat.eqb_refl.
Qed.

Lemma clear_phys_own i s p c : Forall (fun x => own_op i x = true) (tops (snd (clear_phys s p c))).
Proof.
  unfold clear_phys. destruct (virt_of (q_host s) (PP p)) as [hd|]; [|constructor].
  pose proof (native_own i s (OMeas hd false c) eq_refl) as HN.
  destruct (native s (OMeas hd false c)) as [[s1 r] tr]. simpl in HN. destruct r; simpl; exact HN.
Qed.

Lemma clear_all_own i um : forall s coins, Forall (fun x => own_op i x = true) (tops (snd (clear_all s um coins))).
Proof.
  induction um as [|[p|] t IH]; intros s coins; simpl; [constructor| |apply IH].
  destruct (negb (mem_nat p (h_used (q_host s)))); [constructor|].
  set (s0 := mkQ (q_net s) _).
  pose proof (clear_phys_own i s0 p (hd false coins)) as HP.
  destruct (clear_phys s0 p (hd false coins)) as [[s1 ok] tr]. simpl in HP.
  destruct ok; [|exact HP].
  pose proof (IH s1 (tl coins)) as HI.
  destruct (clear_all s1 t (tl coins)) as [[s2 ok2] tr2]. simpl in *.
  unfold tops in *. rewrite map_app. apply Forall_app. split; auto.
Qed.

Lemma exec_own i s q : Forall (fun x => own_op i x = true) (tops (snd (exec i s q))).
Proof.
  unfold exec. destruct q as [app maxq|app coins|app a|app a coin|app a g|app a ax|app a1 a2 g|app a coin|app a coin].
  - constructor.
  - destruct (negb _); [constructor|]. destruct (alookup _ _) as [um|]; [|constructor].
    set (s1 := mkQ (q_net s) _).
    pose proof (clear_all_own i um s1 coins) as HC.
    destruct (clear_all s1 um coins) as [[s2 ok] tr]. exact HC.
  - destruct (alookup _ _) as [um|]; [|constructor]. destruct (nth_error um a) as [[p|]|]; try constructor.
    set (s1 := mkQ (q_net s) _).
    pose proof (cmd_new_own i s1 (PP (fresh_id (h_used (q_host s))))) as HC.
    destruct (cmd_new i s1 (PP (fresh_id (h_used (q_host s))))) as [[s2 ok] tr]. simpl in *. destruct ok; exact HC.
  - destruct (handle_of _ _ _) as [hd|]; [|constructor].
    pose proof (native_own i s (OMeas hd true coin) eq_refl) as HN.
    destruct (native s (OMeas hd true coin)) as [[s1 r] tr]. simpl in HN.
    destruct r as [[|[|v]]| | |k]; try exact HN.
    pose proof (native_own i s1 (OGate1 hd NX) eq_refl) as HN2.
    destruct (native s1 (OGate1 hd NX)) as [[s2 r2] tr2]. simpl in *.
    unfold tops in *. rewrite map_app. apply Forall_app. split; auto.
  - destruct (handle_of _ _ _) as [hd|]; [|constructor].
    pose proof (native_own i s (OGate1 hd (native1 g)) eq_refl) as HN.
    destruct (native s (OGate1 hd (native1 g))) as [[s1 r] tr]. exact HN.
  - destruct (handle_of _ _ _) as [hd|]; [|constructor].
    pose proof (native_own i s (OGate1 hd NRot) eq_refl) as HN.
    destruct (native s (OGate1 hd NRot)) as [[s1 r] tr]. exact HN.
  - destruct (position _ _ a1) as [p1|]; [|constructor]. destruct (position _ _ a2) as [p2|]; [|constructor].
    destruct (virt_of _ (PP p1)) as [h1|]; [|constructor]. destruct (virt_of _ (PP p2)) as [h2|]; [|constructor].
    destruct (Nat.eqb h1 h2); [constructor|].
    pose proof (native_own i s (OGate2 h1 h2 (native2 g)) eq_refl) as HN.
    destruct (native s (OGate2 h1 h2 (native2 g))) as [[s1 r] tr]. exact HN.
  - destruct (handle_of _ _ _) as [hd|]; [|constructor].
    pose proof (native_own i s (OMeas hd true coin) eq_refl) as HN.
    destruct (native s (OMeas hd true coin)) as [[s1 r] tr]. exact HN.
  - destruct (alookup _ _) as [um|]; [|constructor]. destruct (nth_error um a) as [[p|]|]; try constructor.
    destruct (negb _); [constructor|].
    set (s1 := mkQ (q_net s) _).
    pose proof (clear_phys_own i s1 p coin) as HC.
    destruct (clear_phys s1 p coin) as [[s2 ok] tr]. exact HC.
Qed.

Lemma run_q_net_run_own i qs : forall s,
  exists ops, q_net (run_q i s qs) = run (q_net s) ops /\ Forall (fun x => own_op i x = true) ops.
Proof.
  induction qs as [|q t IH]; intros s; simpl.
  - exists []. split; [reflexivity|constructor].
  - destruct (IH (fst (fst (exec i s q)))) as [ops [E F]].
    exists (tops (snd (exec i s q)) ++ ops). split.
    + rewrite run_app. rewrite <- exec_net_run. exact E.
    + apply Forall_app. split; [apply exec_own|exact F].
Qed.

(* a node other than i never gains a qubit from such operations *)
Lemma held_other_le s o i j : hid_inv s -> own_op i o = true -> j <> i -> held (fst (step s o)) j <= held s j.
Proof.
  intros HI Ho Hj. destruct o as [n|h g|h1 h2 g|h t|h ip c|n mq|n ow k]; simpl in Ho; try discriminate.
  - apply Nat.eqb_eq in Ho. subst n.
    destruct (snd (step s (ONew i))) as [v| | |k] eqn:E.
    + rewrite (held_new s i v j E). destruct (Nat.eqb_spec j i); [contradiction|lia].
    + rewrite held_unchanged_unless_ok; [lia|]. intros v. rewrite E. discriminate.
    + rewrite held_unchanged_unless_ok; [lia|]. intros v. rewrite E. discriminate.
    + rewrite held_unchanged_unless_ok; [lia|]. intros v. rewrite E. discriminate.
  - rewrite held_gate1. lia.
  - rewrite held_gate2. lia.
  - destruct ip; [rewrite held_meas_inplace; lia|].
    destruct (snd (step s (OMeas h false c))) as [v| | |k] eqn:E.
    + destruct (find_handle s h) as [[vi q]|] eqn:EF.
      * rewrite (held_meas_destructive s h c v vi q j HI EF E). destruct (Nat.eqb j vi); lia.
      * exfalso. simpl in E. unfold op_meas in E. rewrite EF in E. discriminate.
    + rewrite held_unchanged_unless_ok; [lia|]. intros v. rewrite E. discriminate.
    + rewrite held_unchanged_unless_ok; [lia|]. intros v. rewrite E. discriminate.
    + rewrite held_unchanged_unless_ok; [lia|]. intros v. rewrite E. discriminate.
Qed.

Lemma run_held_other_le i j ops : j <> i -> Forall (fun x => own_op i x = true) ops ->
  forall s, ginv s -> held (run s ops) j <= held s j.
Proof.
  intros Hj F. induction F as [|o t Ho Ft IH]; intros s G; simpl; [lia|].
  pose proof (held_other_le s o i j (proj1 G) Ho Hj).
  specialize (IH (fst (step s o)) (step_ginv s o G)). lia.
Qed.

Lemma init_held caps j : held (init_net caps) j = 0.
Proof.
  unfold held, nth_node, init_net; simpl. destruct (Nat.ltb_spec j (length caps)).
  - rewrite (nth_indep _ _ (empty_node (fst (0,0)) (snd (0,0)))) by (rewrite map_length; auto).
    rewrite (map_nth (fun c => empty_node (fst c) (snd c))). reflexivity.
  - rewrite nth_overflow by (rewrite map_length; auto). reflexivity.
Qed.

(* the network a single host drives is a reachable Model-V state *)
Theorem run_q_reachable caps i qs : reachable (q_net (run_q i (init_q caps) qs)).
Proof. destruct (run_q_net_run i qs (init_q caps)) as [ops E]. exists caps, ops. exact E. Qed.

(* ... reached without the client operation remote_add_register (the NetQASM backend never calls it, nor remote_new_qubit_inreg):
   the hypothesis of Net/NonEmpty.v is met *)
Lemma own_op_core i o : own_op i o = true -> core_op o.
Proof. destruct o; simpl; intro H; try exact I; discriminate. Qed.

Theorem run_q_reachable_core caps i qs : reachable_core (q_net (run_q i (init_q caps) qs)).
Proof.
  destruct (run_q_net_run_own i qs (init_q caps)) as [ops [E F]]. exists caps, ops. split; [|exact E].
  eapply Forall_impl; [|exact F]. intros o Ho. apply (own_op_core i o Ho).
Qed.

(* C11, full population clause for the closed world of one host: when every application has been stopped, no node holds a
   qubit, simulates a qubit or keeps a register *)
Theorem stop_leaves_nothing caps i qs : fresh_inits i (init_q caps) qs ->
  h_units (q_host (run_q i (init_q caps) qs)) = [] ->
  forall j, virt (nth_node (q_net (run_q i (init_q caps) qs)) j) = [] /\
            sims (nth_node (q_net (run_q i (init_q caps) qs)) j) = [] /\
            regs (nth_node (q_net (run_q i (init_q caps) qs)) j) = [] /\
            numRegs (nth_node (q_net (run_q i (init_q caps) qs)) j) = 0.
Proof.
  intros F E.
  destruct (stop_restores caps i qs F E) as [Hi _].
  assert (H0 : forall j, held (q_net (run_q i (init_q caps) qs)) j = 0).
  { intro j. destruct (Nat.eq_dec j i) as [->|Nj].
    - rewrite Hi. apply init_held.
    - destruct (run_q_net_run_own i qs (init_q caps)) as [ops [Eo Fo]]. rewrite Eo.
      assert (G0 : ginv (init_net caps)) by (split; [apply init_hid_inv | apply init_inv]).
      pose proof (run_held_other_le i j ops Nj Fo (init_net caps) G0) as L. simpl in L.
      change (q_net (init_q caps)) with (init_net caps). rewrite init_held in L. lia. }
  assert (V0 : forall j, virt (nth_node (q_net (run_q i (init_q caps) qs)) j) = []).
  { intro j. specialize (H0 j). unfold held in H0. destruct (virt _); [reflexivity|discriminate]. }
  intro j. destruct (nothing_held_nothing_left _ (run_q_reachable_core caps i qs) V0 j) as (A & B & C). auto.
Qed.
