#!/usr/bin/env python3
"""Fail-closed translator: the eight gate kernels of StabilizerState -> Coq row functions.

Reads <repo>/simulaqron/toolbox/stabilizer_states.py with `ast` and writes Gen/StabGatesGen.v with one
`gen_apply_G` definition per kernel plus the obligation `gen_apply_G_eq` (generated = hand model, for all
n, positions and rows satisfying the guards the Python code checks).  Anything the translator does not
recognise aborts with TranslateError, which the check reports as a broken tie.

numpy semantics relied on (trusted, exercised by the correspondence run):
  * `self._group[:, c]`            is a view of column c (re-read at use time)
  * `np.logical_*`                  return fresh arrays (values)
  * `g[mask, c] = logical_not(g[mask, c])`  flips column c in the rows where mask holds
  * `g[:, [a, b]] = g[:, [b, a]]`   swaps columns a and b (the right-hand side is a copy)
all of which act on every row independently, so a kernel is a map of a row function.
"""
import ast
import sys

KERNELS = {
    "apply_X": ("position",), "apply_Y": ("position",), "apply_Z": ("position",),
    "apply_H": ("position",), "apply_K": ("position",), "apply_S": ("position",),
    "apply_CNOT": ("control", "target"), "apply_CZ": ("control", "target"),
}
HAND = {k: k + "_row" for k in KERNELS}


class TranslateError(Exception):
    pass


def fail(node, msg):
    raise TranslateError("line %s: %s" % (getattr(node, "lineno", "?"), msg))


def is_self_group(node):
    return (isinstance(node, ast.Attribute) and node.attr == "_group"
            and isinstance(node.value, ast.Name) and node.value.id == "self")


class Kernel:
    def __init__(self, fn, params):
        self.fn = fn
        self.params = params
        self.views = {}      # python name -> coq column expression
        self.values = set()  # python names bound to computed boolean values
        self.rv = 0          # current row version
        self.lines = []
        self.guards = []

    # ---- column expressions -------------------------------------------------------------------
    def col(self, node):
        if isinstance(node, ast.UnaryOp) and isinstance(node.op, ast.USub) and \
                isinstance(node.operand, ast.Constant) and node.operand.value == 1:
            return "(2 * n)"
        if isinstance(node, ast.Name):
            if node.id in self.params or node.id == "n":
                return node.id
            fail(node, "unknown name in column expression: %s" % node.id)
        if isinstance(node, ast.BinOp) and isinstance(node.op, ast.Add):
            return "(%s + %s)" % (self.col(node.left), self.col(node.right))
        if isinstance(node, ast.Constant) and isinstance(node.value, int) and node.value >= 0:
            return str(node.value)
        fail(node, "unsupported column expression: " + ast.dump(node))

    def column_read(self, node):
        """self._group[:, c] -> column expression or None"""
        if isinstance(node, ast.Subscript) and is_self_group(node.value):
            sl = node.slice
            if isinstance(sl, ast.Tuple) and len(sl.elts) == 2:
                a, b = sl.elts
                if isinstance(a, ast.Slice) and a.lower is None and a.upper is None and a.step is None:
                    if isinstance(b, ast.List):
                        return None
                    return self.col(b)
        return None

    # ---- boolean expressions (evaluated now, on the current row) --------------------------------
    def bexpr(self, node):
        r = "r%d" % self.rv
        c = self.column_read(node)
        if c is not None:
            return "(get %s %s)" % (r, c)
        if isinstance(node, ast.Name):
            if node.id in self.views:
                return "(get %s %s)" % (r, self.views[node.id])
            if node.id in self.values:
                return "v_" + node.id
            fail(node, "unknown name: %s" % node.id)
        if isinstance(node, ast.Call) and isinstance(node.func, ast.Attribute) and \
                isinstance(node.func.value, ast.Name) and node.func.value.id == "np" and not node.keywords:
            f = node.func.attr
            args = [self.bexpr(a) for a in node.args]
            if f == "logical_and" and len(args) == 2:
                return "(andb %s %s)" % tuple(args)
            if f == "logical_or" and len(args) == 2:
                return "(orb %s %s)" % tuple(args)
            if f == "logical_xor" and len(args) == 2:
                return "(xorb %s %s)" % tuple(args)
            if f == "logical_not" and len(args) == 1:
                return "(negb %s)" % args[0]
        # operator spellings of the same functions on boolean arrays (the tableau is a bool array: checked by the constructor probes and the
        # correspondence; on integer arrays `~` would differ from logical_not)
        if isinstance(node, ast.BinOp) and isinstance(node.op, (ast.BitAnd, ast.BitOr, ast.BitXor)):
            f = {ast.BitAnd: "andb", ast.BitOr: "orb", ast.BitXor: "xorb"}[type(node.op)]
            return "(%s %s %s)" % (f, self.bexpr(node.left), self.bexpr(node.right))
        if isinstance(node, ast.UnaryOp) and isinstance(node.op, ast.Invert):
            return "(negb %s)" % self.bexpr(node.operand)
        fail(node, "unsupported boolean expression: " + ast.dump(node))

    # ---- statements ----------------------------------------------------------------------------
    def guard(self, st):
        """if <cond>: raise ValueError(...)   -- recorded, must consist of a raise only"""
        if len(st.body) == 1 and isinstance(st.body[0], ast.Raise) and not st.orelse:
            self.guards.append(ast.unparse(st.test))
            return True
        return False

    def stmt(self, st):
        if isinstance(st, ast.Expr) and isinstance(st.value, ast.Constant) and isinstance(st.value.value, str):
            return  # docstring
        if isinstance(st, ast.If):
            if self.guard(st):
                return
            fail(st, "if-statement that is not a guard")
        if isinstance(st, ast.Assign) and len(st.targets) == 1:
            tgt, val = st.targets[0], st.value
            if isinstance(tgt, ast.Name):
                if tgt.id == "n":
                    if isinstance(val, ast.Attribute) and val.attr == "num_qubits" and \
                            isinstance(val.value, ast.Name) and val.value.id == "self":
                        return
                    fail(st, "n must be self.num_qubits")
                if tgt.id in self.params:
                    fail(st, "assignment to a parameter")
                c = self.column_read(val)
                if c is not None:
                    self.views[tgt.id] = c
                    self.values.discard(tgt.id)
                    return
                e = self.bexpr(val)
                self.lines.append("  let v_%s := %s in" % (tgt.id, e))
                self.values.add(tgt.id)
                self.views.pop(tgt.id, None)
                return
            if isinstance(tgt, ast.Subscript) and is_self_group(tgt.value):
                sl = tgt.slice
                if not (isinstance(sl, ast.Tuple) and len(sl.elts) == 2):
                    fail(st, "unsupported store")
                a, b = sl.elts
                r = "r%d" % self.rv
                # column swap
                if isinstance(a, ast.Slice) and isinstance(b, ast.List) and len(b.elts) == 2:
                    if not (isinstance(val, ast.Subscript) and is_self_group(val.value)
                            and isinstance(val.slice, ast.Tuple) and isinstance(val.slice.elts[1], ast.List)
                            and len(val.slice.elts[1].elts) == 2
                            and isinstance(val.slice.elts[0], ast.Slice)):
                        fail(st, "column-list store whose right-hand side is not a column-list read")
                    l0, l1 = [self.col(x) for x in b.elts]
                    r0, r1 = [self.col(x) for x in val.slice.elts[1].elts]
                    if (l0, l1) != (r1, r0):
                        fail(st, "column-list store that is not a swap")
                    self.rv += 1
                    self.lines.append("  let r%d := swap_cols %s %s %s in" % (self.rv, r, l0, l1))
                    return
                # masked flip
                if isinstance(a, ast.Name):
                    same = ast.dump(ast.Subscript(value=tgt.value, slice=tgt.slice, ctx=ast.Load()))
                    is_not_call = (isinstance(val, ast.Call) and isinstance(val.func, ast.Attribute)
                                   and val.func.attr == "logical_not" and len(val.args) == 1 and ast.dump(val.args[0]) == same)
                    is_invert = isinstance(val, ast.UnaryOp) and isinstance(val.op, ast.Invert) and ast.dump(val.operand) == same
                    if not (is_not_call or is_invert):
                        fail(st, "masked store that is not g[m, c] = logical_not(g[m, c])")
                    m = self.bexpr(a)
                    c = self.col(b)
                    self.rv += 1
                    self.lines.append("  let r%d := flip_if %s %s %s in" % (self.rv, m, r, c))
                    return
        fail(st, "unsupported statement: " + ast.unparse(st))

    def run(self):
        args = [a.arg for a in self.fn.args.args]
        if tuple(args) != ("self",) + tuple(self.params):
            fail(self.fn, "unexpected signature %s" % args)
        for st in self.fn.body:
            self.stmt(st)
        return self


def required_guards(params, guards):
    """the range / distinctness guards the eq-lemma's hypotheses rely on must be present"""
    txt = " ; ".join(guards)
    for p in params:
        want = "not (%s >= 0 and %s < n)" % (p, p)
        if want not in txt:
            raise TranslateError("range guard for %s missing (have: %s)" % (p, txt))
    if len(params) == 2 and ("%s == %s" % params) not in txt:
        raise TranslateError("control == target guard missing")


def translate(src_path):
    tree = ast.parse(open(src_path).read())
    cls = [n for n in tree.body if isinstance(n, ast.ClassDef) and n.name == "StabilizerState"]
    if len(cls) != 1:
        raise TranslateError("class StabilizerState not found")
    fns = {n.name: n for n in cls[0].body if isinstance(n, ast.FunctionDef)}
    out = ["(* GENERATED by translate/stab_gates.py from %s -- do not edit *)" % src_path,
           "From Coq Require Import List Bool Arith Lia.",
           "From SQ Require Import Base.ListUtil Stab.Kernels Stab.Gates Stab.GenTactics.",
           "Import ListNotations.", ""]
    for name, params in KERNELS.items():
        if name not in fns:
            raise TranslateError("kernel %s not found" % name)
        k = Kernel(fns[name], params).run()
        required_guards(params, k.guards)
        ps = " ".join(params)
        out.append("Definition gen_%s (n %s : nat) (r0 : row) : row :=" % (name, ps))
        out.extend(k.lines)
        out.append("  r%d." % k.rv)
        out.append("")
        if len(params) == 1:
            out.append("Lemma gen_%s_eq : forall n %s r0, wf_row n r0 -> %s < n -> gen_%s n %s r0 = %s n %s r0."
                       % (name, ps, params[0], name, ps, HAND[name], ps))
            out.append("Proof. solve_gen_eq1 gen_%s %s. Qed." % (name, HAND[name]))
        else:
            out.append("Lemma gen_%s_eq : forall n %s r0, wf_row n r0 -> %s < n -> %s < n -> %s <> %s -> "
                       "gen_%s n %s r0 = %s n %s r0."
                       % (name, ps, params[0], params[1], params[0], params[1], name, ps, HAND[name], ps))
            out.append("Proof. solve_gen_eq2 gen_%s %s. Qed." % (name, HAND[name]))
        out.append("")
    return "\n".join(out) + "\n"


if __name__ == "__main__":
    try:
        sys.stdout.write(translate(sys.argv[1]))
    except TranslateError as e:
        sys.stderr.write("TRANSLATE-ERROR %s\n" % e)
        sys.exit(2)
