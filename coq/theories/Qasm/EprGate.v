(* C12 (end-to-end part) and the pair-creation half of C11: cmd_epr for a create-and-keep request of one pair
   (executioner.py 377-460, send_epr_half 623-666).  The decision function may_create / is_adjacent itself is modelled and
   translated in Qasm/Topo.v (other builder); here `adj` is its result. *)
From Coq Require Import List Bool Arith Lia.
From SQ Require Import Base.ListUtil Stab.Tableau Net.Model Net.Refusal Net.Population Qasm.Exec.
Import ListNotations.

(* the three checks, in the order cmd_epr makes them, all before the first cmd_new *)
Inductive epr_check := CKnown | CNotSelf | CAdjacent.
Definition epr_checks : list epr_check := [CKnown; CNotSelf; CAdjacent].
Definition check_ok (known : list nat) (self r : nat) (adj : bool) (c : epr_check) : bool :=
  match c with CKnown => mem_nat r known | CNotSelf => negb (Nat.eqb r self) | CAdjacent => adj end.
Definition epr_gate (known : list nat) (self r : nat) (adj : bool) : bool := forallb (check_ok known self r adj) epr_checks.

Definition cmd_epr_keep (i : nat) (s : qst) (known : list nat) (r : nat) (adj : bool) (qid : nat) : qst * qres * ntrace :=
  if negb (epr_gate known i r adj) then (s, RErr, [])
  else
    let '(s1, ok1, t1) := cmd_new i s (PP qid) in
    if negb ok1 then (s1, RErr, t1) else
    let '(s2, ok2, t2) := cmd_new i s1 (PM qid) in
    if negb ok2 then (s2, RErr, t1 ++ t2) else                 (* the first temporary stays in qubitList *)
    match virt_of (q_host s2) (PP qid), virt_of (q_host s2) (PM qid) with
    | Some h1, Some h2 =>
        let '(s3, r3, t3) := native s2 (OGate1 h1 NH) in
        let '(s4, r4, t4) := native s3 (OGate2 h1 h2 NCnot) in
        let '(s5, r5, t5) := native s4 (OSend h2 r) in          (* netqasm_send_epr_half -> remote_send_qubit *)
        match r5 with
        | Ok _ => (mkQ (q_net s5) (with_qlist (q_host s5) (premove (PM qid) (h_qlist (q_host s5)))), RDone None,
                   t1 ++ t2 ++ t3 ++ t4 ++ t5)
        | _ => (s5, RErr, t1 ++ t2 ++ t3 ++ t4 ++ t5)            (* receiver refused: both temporaries stay *)
        end
    | _, _ => (s2, RErr, t1 ++ t2)
    end.

Theorem epr_gate_iff known self r adj :
  epr_gate known self r adj = true <-> In r known /\ r <> self /\ adj = true.
Proof.
  unfold epr_gate; simpl. rewrite !andb_true_iff. unfold mem_nat. rewrite existsb_exists.
  split.
  - intros ((x & Hx & E) & N & A & _). apply Nat.eqb_eq in E. subst x.
    split; auto. split; auto. intro; subst. rewrite Nat.eqb_refl in N. discriminate.
  - intros (H & N & A). split; [exists r; split; auto; apply Nat.eqb_refl|].
    split; [|auto]. destruct (Nat.eqb_spec r self); [contradiction|reflexivity].
Qed.

(* refused_creates_nothing: unknown id, itself, or not adjacent: error, no native call, the whole state unchanged *)
Theorem refused_creates_nothing i s known r adj qid :
  epr_gate known i r adj = false -> cmd_epr_keep i s known r adj qid = (s, RErr, []).
Proof. intro H. unfold cmd_epr_keep. rewrite H. reflexivity. Qed.

(* half_survives: after a successful creation the sent half is no longer in the creator's qubitList (so nothing the creator
   does later -- qfree, stop -- can reach it: every native call of the host goes through a qubitList handle) *)
Theorem half_survives i s known r adj qid s' tr :
  cmd_epr_keep i s known r adj qid = (s', RDone None, tr) -> plookup (PM qid) (h_qlist (q_host s')) = None.
Proof.
  unfold cmd_epr_keep. destruct (negb (epr_gate known i r adj)); [discriminate|].
  destruct (cmd_new i s (PP qid)) as [[s1 ok1] t1]. destruct (negb ok1); [discriminate|].
  destruct (cmd_new i s1 (PM qid)) as [[s2 ok2] t2]. destruct (negb ok2); [discriminate|].
  destruct (virt_of (q_host s2) (PP qid)) as [h1|]; [|discriminate].
  destruct (virt_of (q_host s2) (PM qid)) as [h2|]; [|discriminate].
  destruct (native s2 (OGate1 h1 NH)) as [[s3 r3] t3]. destruct (native s3 (OGate2 h1 h2 NCnot)) as [[s4 r4] t4].
  destruct (native s4 (OSend h2 r)) as [[s5 r5] t5]. destruct r5; try discriminate.
  intro E. inversion E; subst. simpl.
  induction (h_qlist (q_host s5)) as [|[k0 v0] l IH]; simpl; auto.
  destruct (pid_eqb_spec k0 (PM qid)); simpl; auto. destruct (pid_eqb_spec k0 (PM qid)); [contradiction|auto].
Qed.

(* C11 refuted for failed pair creation: the receiver (node 1, capacity 0) refuses the half; both temporaries stay in
   qubitList under ids no unit module maps; stopping the application does not remove them: the creator's node keeps 2 qubits *)
Definition leak_start : qst := fst (fst (exec 0 (mkQ (init_net [(4, 5); (0, 5)]) empty_host) (QInitApp 0 2))).
Definition leak_after_create : qst := fst (fst (cmd_epr_keep 0 leak_start [0; 1] 1 true 0)).
Definition leak_after_stop : qst := fst (fst (exec 0 leak_after_create (QStopApp 0 []))).
Theorem stop_restores_refuted_failed_pair :
  snd (fst (cmd_epr_keep 0 leak_start [0; 1] 1 true 0)) = RErr /\
  snd (fst (exec 0 leak_after_create (QStopApp 0 []))) = RDone None /\
  held (q_net leak_start) 0 = 0 /\ held (q_net leak_after_stop) 0 = 2 /\
  h_units (q_host leak_after_stop) = [] /\ length (h_qlist (q_host leak_after_stop)) = 2.
Proof. vm_compute. repeat split; reflexivity. Qed.

(* non-vacuity of the positive statements: a successful creation between two nodes with room *)
Definition ok_start : qst := fst (fst (exec 0 (mkQ (init_net [(4, 5); (4, 5)]) empty_host) (QInitApp 0 2))).
Example ex_create_ok :
  snd (fst (cmd_epr_keep 0 ok_start [0; 1] 1 true 0)) = RDone None /\
  map fst (snd (cmd_epr_keep 0 ok_start [0; 1] 1 true 0)) = [ONew 0; ONew 0; OGate1 0 NH; OGate2 0 1 NCnot; OSend 1 1] /\
  held (q_net (fst (fst (cmd_epr_keep 0 ok_start [0; 1] 1 true 0)))) 0 = 1 /\
  held (q_net (fst (fst (cmd_epr_keep 0 ok_start [0; 1] 1 true 0)))) 1 = 1.
Proof. vm_compute. repeat split; reflexivity. Qed.
Example ex_refused : epr_gate [0; 1] 0 0 true = false /\ epr_gate [0; 1] 0 2 true = false /\ epr_gate [0; 1] 0 1 false = false
  /\ epr_gate [0; 1] 0 1 true = true.
Proof. vm_compute. auto. Qed.
