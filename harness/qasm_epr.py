"""Entanglement generation between in-process NetQASM hosts (H-qasm): requests built with netqasm.sdk on a
DebugConnection (the byte strings a real application sends), handled concurrently by the real SubroutineHandlers,
judged by the pairing predicate of C08, a numpy check of the delivered pairs, and population counts (C11/C12)."""
import numpy as np

import net_sync as N
import oracle_np as O
import qasm_sync as Q

OK_FIELDS = 10
# LinkLayerOKTypeK: type, create_id, logical_qubit_id, directionality_flag, sequence_number, purpose_id, remote_node_id, goodness, goodness_time, bell_state
# LinkLayerOKTypeM: type, create_id, measurement_outcome, measurement_basis, directionality_flag, sequence_number, purpose_id, remote_node_id, goodness, bell_state
K_FIELDS = ["type", "create_id", "logical_qubit_id", "directionality_flag", "sequence_number", "purpose_id", "remote_node_id",
            "goodness", "goodness_time", "bell_state"]
M_FIELDS = ["type", "create_id", "measurement_outcome", "measurement_basis", "directionality_flag", "sequence_number", "purpose_id",
            "remote_node_id", "goodness", "bell_state"]


# netqasm.sdk offers no way to set the basis probabilities of a measure-directly request (fields 10-13 of the request array stay 0,
# which makes SimulaQron choose Z always); an application writing the array itself can.  The harness sets NEXT_PROBS = [l1, l2, r1, r2]
# before create_measure and the serializer below writes them into the array the SDK builds.
NEXT_PROBS = [None]


def _install_probs():
    import netqasm.sdk.builder as B
    if getattr(B.serialize_request, "_sq_probs", False):
        return
    orig = B.serialize_request

    def serialize_request(tp, params):
        arr = orig(tp, params)
        pr = NEXT_PROBS[0]
        if pr is not None and tp.name == "M":
            for k, v in zip((10, 11, 12, 13), pr):
                if v:
                    arr[k] = v
        NEXT_PROBS[0] = None
        return arr
    serialize_request._sq_probs = True
    B.serialize_request = serialize_request


def sdk_messages(names, node, app_id, sockets, body, max_qubits=5, ids=None):
    """run `body(conn, eprs)` on a DebugConnection for `node`; returns the raw host messages (InitNewApp, OpenEPRSocket.., Subroutine.., StopApp)
    sockets: list of (remote node name, local socket id, remote socket id)"""
    from netqasm.sdk import EPRSocket
    from netqasm.sdk.connection import DebugConnection
    from netqasm.backend.messages import deserialize_host_msg, SignalMessage
    DebugConnection.node_ids = dict(ids) if ids is not None else Q.node_ids(names)
    _install_probs()
    eprs = [EPRSocket(r, epr_socket_id=l, remote_epr_socket_id=rs) for (r, l, rs) in sockets]
    DebugConnection._app_ids = {}          # class-level registry of the SDK: every application starts fresh
    with DebugConnection(node, app_id=app_id, epr_sockets=eprs, max_qubits=max_qubits) as conn:
        body(conn, eprs)
    msgs = []
    for raw in conn.storage:
        m = deserialize_host_msg(raw)
        if isinstance(m, SignalMessage):
            continue                        # Signal.STOP would stop the whole QNodeOS process; the hosts are reused here
        msgs.append(m)
    return msgs


class Pending:
    def __init__(self, host, msg_id, start, box):
        self.host, self.msg_id, self.start, self.box = host, msg_id, start, box

    @property
    def done(self):
        return "done" in self.box

    def replies(self):
        return Q.reply_summary([Q.decode_reply(b) for b in self.host.proto.transport.out[self.start:self.end]])


def start(host, msg):
    """hand a message to the real handler without waiting for completion"""
    msg_id = host.next_msg_id
    host.next_msg_id += 1
    startpos = len(host.proto.transport.out)
    box = []
    d = host.handler.handle_netqasm_message(msg_id=msg_id, msg=msg)
    d.addCallback(host.proto.log_handled_message)
    d.addErrback(lambda f: (box.append(f), host.proto.log_error(f))[1])
    d.addBoth(lambda r: box.append("done") or r)
    return Pending(host, msg_id, startpos, box)


def run_concurrently(env, net, streams, order_rng, limit=1200):
    """streams: {host index: [messages]}; each host handles its messages one after the other (one connection), the hosts
    run concurrently: at every turn the scheduler (order_rng) picks which idle host gets its next message or advances the
    clock / flushes PB links.  Returns {host index: [(msg, replies)]}"""
    pos = {h: 0 for h in streams}
    cur = {h: None for h in streams}
    out = {h: [] for h in streams}
    steps = 0
    pb = hasattr(net, "pumps")
    while steps < limit:
        steps += 1
        if pb:
            import net_pb
            net_pb.flush(net)
        for h in streams:
            p = cur[h]
            if p is not None and p.done:
                p.end = len(p.host.proto.transport.out)
                out[h].append((p.msg, p.replies(), [b for b in p.box if b != "done"]))
                cur[h] = None
        ready = [h for h in streams if cur[h] is None and pos[h] < len(streams[h])]
        busy = [h for h in streams if cur[h] is not None]
        if not ready and not busy:
            break
        choices = ready + (["tick"] if busy else [])
        c = order_rng.choice(choices)
        if c == "tick":
            calls = env.clock.getDelayedCalls()
            if calls:
                nxt = min(x.getTime() for x in calls) - env.clock.seconds()
                env.clock.advance(max(nxt, 0.0) + 1e-6)
            elif not pb:
                break
            continue
        m = streams[c][pos[c]]
        pos[c] += 1
        p = start(net.hosts[c], m)
        p.msg = m
        cur[c] = p
    for h in streams:
        p = cur[h]
        if p is not None:
            p.end = len(p.host.proto.transport.out)
            out[h].append((p.msg, p.replies(), ["pending"]))
    return out


def ent_infos(replies, address):
    """entanglement-information records from the returned array at `address` (list of dicts), or None"""
    for r in replies:
        if r[0] == "arr" and r[1] == address:
            vals = r[2]
            recs = []
            for i in range(0, len(vals), OK_FIELDS):
                chunk = vals[i:i + OK_FIELDS]
                if chunk[0] is None:
                    recs.append(None)
                    continue
                fields = K_FIELDS if chunk[0] == 0 else M_FIELDS          # ReturnType.OK_K = 0, OK_M = 1
                recs.append(dict(zip(fields, chunk)))
            return recs
    return None


def pairing_problems(create_recs, recv_recs, n, creator_id, receiver_id, csock, rsock):
    """C08's pairing predicate on the two result arrays"""
    bad = []
    if create_recs is None or recv_recs is None:
        return ["no entanglement information returned (creator %r, receiver %r)" % (create_recs is not None, recv_recs is not None)]
    if len(create_recs) != n or len(recv_recs) != n or None in create_recs or None in recv_recs:
        return ["expected %d results on both sides, got %r / %r" % (n, create_recs, recv_recs)]
    for i, (a, b) in enumerate(zip(create_recs, recv_recs)):
        if a["sequence_number"] != b["sequence_number"]:
            bad.append("pair %d: sequence numbers differ (%d / %d)" % (i, a["sequence_number"], b["sequence_number"]))
        if (a["directionality_flag"], b["directionality_flag"]) != (0, 1):
            bad.append("pair %d: directionality (%d, %d) is not (0, 1)" % (i, a["directionality_flag"], b["directionality_flag"]))
        if a["remote_node_id"] != receiver_id or b["remote_node_id"] != creator_id:
            bad.append("pair %d: remote node ids (%d, %d) do not name each other (%d, %d)" % (i, a["remote_node_id"], b["remote_node_id"], receiver_id, creator_id))
        if a["purpose_id"] != csock or b["purpose_id"] != rsock:
            bad.append("pair %d: purpose ids (%d, %d) are not the local sockets (%d, %d)" % (i, a["purpose_id"], b["purpose_id"], csock, rsock))
    seqs = [a["sequence_number"] for a in create_recs]
    if len(set(seqs)) != len(seqs):
        bad.append("sequence numbers of one request repeat: %r" % seqs)
    return bad


PHI = np.zeros((4, 4), dtype=complex)
for _a in (0, 3):
    for _b in (0, 3):
        PHI[_a, _b] = 0.5


def pair_state(net, q1, q2):
    """reduced state of two virtualQubit objects if they sit alone in one register of size 2 (else None): 4x4 density matrix"""
    s1, s2 = N.resolve(net, q1.simQubit), N.resolve(net, q2.simQubit)
    if s1.register is not s2.register or s1.register.activeQubits != 2:
        return None
    arr = s1.register.qubitReg.to_array()
    rho = O.projector([[bool(x) for x in row] for row in arr], 2)
    if s1.num == 1:      # order (q1, q2)
        sw = np.zeros((4, 4))
        for a in range(2):
            for b in range(2):
                sw[2 * a + b, 2 * b + a] = 1
        rho = sw @ rho @ sw.T
    return rho


BASIS_MAT = {0: O.PZ, 1: O.PX, 2: O.PY}       # qlink Basis: Z = 0, X = 1, Y = 2


def md_possible(b1, o1, b2, o2):
    """probability that measuring |Phi+> in bases (b1, b2) gives outcomes (o1, o2) is non-zero"""
    p1 = (np.eye(2) + (-1) ** o1 * BASIS_MAT[b1]) / 2
    p2 = (np.eye(2) + (-1) ** o2 * BASIS_MAT[b2]) / 2
    return float(np.real(np.trace(np.kron(p1, p2) @ PHI))) > 1e-9
