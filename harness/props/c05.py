"""C05 — failed operations are atomic and typed (sequential part; the cross-node error class is checked over real PB in c05pb)."""
from props import netprop, scen


def run(ctx):
    t = ctx.tier == "thorough"
    ctx.rule = ("random programs with a refusal-heavy profile (capacity 1..5, unknown targets, T/rotation, identical operands, register limit) "
                "injected at random points of random histories, for local / remote / third-node placements; for every refused operation: exception "
                "class in the documented set, full dump before = after, no lock held; refusals racing with other clients' operations under seeded schedules over the real PB; distinct = distinct (capacities, operation, dump)")
    def extra(ctx, env0, runners):
        from props import concextra
        concextra.run(ctx, "C05", concextra.judge_c05,
                      "with concurrent clients every operation that does not succeed is refused with a documented class, no operation fails because "
                      "another one was refused, and no lock is held once the network is idle")
    netprop.run_property(ctx, "C05", ["refuse", "capacity", "refuse", "mixed", "registers"], 1500 if t else 150, 30 if t else 24,
                         scenarios=scen.refusals() + scen.capacity() + scen.register_limit() + scen.big_merge() + scen.register_api(), own_props=["C05"], extra=extra)
