(* C02 / C01 (placement layer): the bookkeeping invariant of Model V — definitions and generic lemmas.
   Per node: id uniqueness, register table consistency, positions of the simulated qubits of a register are
   injective, bounded by and as many as the register size (hence exactly 0..k-1).
   Network-wide: every held qubit is backed by a simulated qubit that exists at the node it names as simulator,
   the backing map is injective and onto, and the ghost identity of a held qubit is the identity recorded at the
   position of its backing simulated qubit. *)
From Coq Require Import List Bool Arith Lia Permutation.
From SQ Require Import Base.ListUtil Stab.Tableau Net.Model Net.Refusal Net.Capacity Net.Handles Net.Fresh.
Import ListNotations.

Definition shape (r : reg) : nat * nat * list nat := (r_num r, r_n r, r_ids r).
Definition vref (q : vq) : nat * nat := (v_simNode q, v_simNum q).

Record node_ok (nd : node) : Prop := mk_node_ok {
  ok_vnum : NoDup (map v_num (virt nd));
  ok_snum : NoDup (map s_simNum (sims nd));
  ok_rnum : NoDup (map r_num (regs nd));
  ok_rlt : forall r, In r (regs nd) -> r_num r < nextReg nd;
  ok_nregs : numRegs nd = length (regs nd);
  ok_rn : forall r, In r (regs nd) -> length (r_ids r) = r_n r;
  ok_sreg : forall x, In x (sims nd) -> exists r, In r (regs nd) /\ r_num r = s_reg x /\ s_pos x < r_n r;
  ok_pos_inj : forall x y, In x (sims nd) -> In y (sims nd) -> s_reg x = s_reg y -> s_pos x = s_pos y ->
                           s_simNum x = s_simNum y;
  ok_count : forall r, In r (regs nd) ->
                       length (filter (fun x => Nat.eqb (s_reg x) (r_num r)) (sims nd)) = r_n r
}.

Record inv (s : net) : Prop := mk_inv {
  inv_nodes : forall i, node_ok (nth_node s i);
  (* backed, by a simulated qubit of an existing register, whose recorded identity is the held qubit's *)
  inv_backed : forall i q, In q (virt (nth_node s i)) ->
      exists x r, In x (sims (nth_node s (v_simNode q))) /\ s_simNum x = v_simNum q /\
                  In r (regs (nth_node s (v_simNode q))) /\ r_num r = s_reg x /\
                  nth (s_pos x) (r_ids r) 0 = v_qid q;
  inv_inj : forall i j q q', In q (virt (nth_node s i)) -> In q' (virt (nth_node s j)) ->
      vref q = vref q' -> v_hid q = v_hid q';
  inv_onto : forall j x, In x (sims (nth_node s j)) ->
      exists i q, In q (virt (nth_node s i)) /\ vref q = (j, s_simNum x);
  inv_qid_inj : forall i j q q', In q (virt (nth_node s i)) -> In q' (virt (nth_node s j)) ->
      v_qid q = v_qid q' -> v_hid q = v_hid q';
  inv_qid_lt : forall i q, In q (virt (nth_node s i)) -> v_qid q < next_hid s
}.

(* ---- node access ------------------------------------------------------------------------------------------- *)
Lemma nth_node_overflow s i : length (nodes s) <= i -> nth_node s i = empty_node 0 0.
Proof. intros; unfold nth_node; apply nth_overflow; auto. Qed.

Lemma nth_node_set s i nd j :
  nth_node (set_node s i nd) j =
  if (Nat.eqb j i && Nat.ltb i (length (nodes s)))%bool then nd else nth_node s j.
Proof.
  unfold nth_node, set_node; simpl.
  destruct (Nat.eqb_spec j i) as [->|Hne]; simpl.
  - destruct (Nat.ltb_spec i (length (nodes s))).
    + apply nth_upd_eq; auto.
    + rewrite upd_overflow; auto.
  - apply nth_upd_neq; auto.
Qed.

Lemma nth_node_set_eq s i nd : i < length (nodes s) -> nth_node (set_node s i nd) i = nd.
Proof.
  intros H. rewrite nth_node_set, Nat.eqb_refl. destruct (Nat.ltb_spec i (length (nodes s))); auto; lia.
Qed.

Lemma nth_node_set_neq s i nd j : j <> i -> nth_node (set_node s i nd) j = nth_node s j.
Proof. intros H. rewrite nth_node_set. destruct (Nat.eqb_spec j i); auto; contradiction. Qed.

Lemma set_node_length s i nd : length (nodes (set_node s i nd)) = length (nodes s).
Proof. unfold set_node; simpl; apply upd_length. Qed.

Lemma empty_node_ok mq mr : node_ok (empty_node mq mr).
Proof.
  constructor; simpl; try constructor; try tauto; auto.
Qed.

Lemma in_virt_lt s i q : In q (virt (nth_node s i)) -> i < length (nodes s).
Proof.
  intros H. destruct (Nat.ltb_spec i (length (nodes s))); auto.
  rewrite nth_node_overflow in H; auto. simpl in H. contradiction.
Qed.

Lemma in_sims_lt s i x : In x (sims (nth_node s i)) -> i < length (nodes s).
Proof.
  intros H. destruct (Nat.ltb_spec i (length (nodes s))); auto.
  rewrite nth_node_overflow in H; auto. simpl in H. contradiction.
Qed.

(* ---- find vs In --------------------------------------------------------------------------------------------- *)
Lemma find_sq_some k l x : find_sq k l = Some x -> In x l /\ s_simNum x = k.
Proof.
  induction l as [|a t IH]; simpl; [discriminate|].
  destruct (Nat.eqb_spec (s_simNum a) k); intro H.
  - inversion H; subst; auto.
  - apply IH in H; tauto.
Qed.

Lemma find_sq_in k l x : NoDup (map s_simNum l) -> In x l -> s_simNum x = k -> find_sq k l = Some x.
Proof.
  induction l as [|a t IH]; simpl; [tauto|].
  intros Hn [->|Hin] Hk.
  - rewrite Hk, Nat.eqb_refl; auto.
  - inversion Hn; subst. destruct (Nat.eqb_spec (s_simNum a) (s_simNum x)).
    + exfalso. apply H1. rewrite e. apply in_map; auto.
    + apply IH; auto.
Qed.

Lemma find_reg_some k l r : find_reg k l = Some r -> In r l /\ r_num r = k.
Proof.
  induction l as [|a t IH]; simpl; [discriminate|].
  destruct (Nat.eqb_spec (r_num a) k); intro H.
  - inversion H; subst; auto.
  - apply IH in H; tauto.
Qed.

Lemma find_reg_in k l r : NoDup (map r_num l) -> In r l -> r_num r = k -> find_reg k l = Some r.
Proof.
  induction l as [|a t IH]; simpl; [tauto|].
  intros Hn [->|Hin] Hk.
  - rewrite Hk, Nat.eqb_refl; auto.
  - inversion Hn; subst. destruct (Nat.eqb_spec (r_num a) (r_num r)).
    + exfalso. apply H1. rewrite e. apply in_map; auto.
    + apply IH; auto.
Qed.

Lemma NoDup_map_inj {A B} (f : A -> B) l a b : NoDup (map f l) -> In a l -> In b l -> f a = f b -> a = b.
Proof.
  induction l as [|x t IH]; simpl; [tauto|].
  intros Hn Ha Hb E. inversion Hn; subst.
  destruct Ha as [->|Ha], Hb as [->|Hb]; auto.
  - exfalso. apply H1. rewrite E. apply in_map; auto.
  - exfalso. apply H1. rewrite <- E. apply in_map; auto.
Qed.

Lemma shape_eq r0 r : shape r0 = shape r -> r_num r0 = r_num r /\ r_n r0 = r_n r /\ r_ids r0 = r_ids r.
Proof. unfold shape; intro E; inversion E; auto. Qed.

(* ---- registers with the same shape --------------------------------------------------------------------------- *)
Lemma set_reg_shape l r r' :
  NoDup (map r_num l) -> In r l -> shape r' = shape r -> map shape (set_reg l r') = map shape l.
Proof.
  intros Hn Hin Hs. unfold set_reg. rewrite map_map. apply map_ext_in. intros x Hx.
  assert (Hk : r_num r' = r_num r) by (unfold shape in Hs; congruence).
  destruct (Nat.eqb_spec (r_num x) (r_num r')); auto.
  assert (x = r) by (apply (NoDup_map_inj r_num l); auto; congruence). subst. auto.
Qed.

Lemma in_shape l l' r : map shape l' = map shape l -> In r l' -> exists r0, In r0 l /\ shape r0 = shape r.
Proof.
  intros E H. apply (in_map shape) in H. rewrite E in H. apply in_map_iff in H as [r0 [E0 H0]]. eauto.
Qed.

Lemma map_shape_rnum l l' : map shape l' = map shape l -> map r_num l' = map r_num l.
Proof.
  intros E. assert (H : map (fun p : nat * nat * list nat => fst (fst p)) (map shape l') =
                        map (fun p : nat * nat * list nat => fst (fst p)) (map shape l)) by congruence.
  rewrite !map_map in H. exact H.
Qed.

Definition same_view (nd nd' : node) : Prop :=
  virt nd' = virt nd /\ sims nd' = sims nd /\ map shape (regs nd') = map shape (regs nd) /\
  numRegs nd' = numRegs nd /\ nextReg nd' = nextReg nd.

Lemma same_view_refl nd : same_view nd nd.
Proof. unfold same_view; auto. Qed.

Lemma node_ok_same_view nd nd' : same_view nd nd' -> node_ok nd -> node_ok nd'.
Proof.
  intros (Ev & Es & Er & En & Ex) H. destruct H.
  constructor; rewrite ?Ev, ?Es, ?En, ?Ex; auto.
  - rewrite (map_shape_rnum _ _ Er); auto.
  - intros r Hr. destruct (in_shape _ _ r Er Hr) as [r0 [H0 E0]]. apply shape_eq in E0 as (A & B & C).
    specialize (ok_rlt0 r0 H0). congruence.
  - rewrite ok_nregs0. rewrite <- (map_length shape (regs nd)), <- Er, map_length; auto.
  - intros r Hr. destruct (in_shape _ _ r Er Hr) as [r0 [H0 E0]]. apply shape_eq in E0 as (A & B & C).
    specialize (ok_rn0 r0 H0). congruence.
  - intros x Hx. destruct (ok_sreg0 x Hx) as [r [Hr [E1 E2]]].
    assert (Hr' : In (shape r) (map shape (regs nd'))) by (rewrite Er; apply in_map; auto).
    apply in_map_iff in Hr' as [r' [E' Hr']]. apply shape_eq in E' as (A & B & C).
    exists r'. split; auto. split; congruence.
  - intros r Hr. destruct (in_shape _ _ r Er Hr) as [r0 [H0 E0]]. apply shape_eq in E0 as (A & B & C).
    rewrite <- A, <- B. apply ok_count0; auto.
Qed.

Lemma inv_same_view s s' :
  next_hid s' = next_hid s ->
  (forall i, same_view (nth_node s i) (nth_node s' i)) ->
  inv s -> inv s'.
Proof.
  intros Eh Hv H. destruct H.
  assert (EV : forall i, virt (nth_node s' i) = virt (nth_node s i)) by (intro i; apply (Hv i)).
  assert (ES : forall i, sims (nth_node s' i) = sims (nth_node s i)) by (intro i; apply (Hv i)).
  constructor.
  - intro i. apply (node_ok_same_view (nth_node s i)); auto.
  - intros i q Hq. rewrite EV in Hq. destruct (inv_backed0 i q Hq) as (x & r & H1 & H2 & H3 & H4 & H5).
    destruct (Hv (v_simNode q)) as (_ & _ & Er & _).
    assert (Hr' : In (shape r) (map shape (regs (nth_node s' (v_simNode q))))) by (rewrite Er; apply in_map; auto).
    apply in_map_iff in Hr' as [r' [E' Hr']]. apply shape_eq in E' as (A & B & C).
    exists x, r'. rewrite ES. repeat split; auto; congruence.
  - intros i j q q' Hq Hq'. rewrite EV in Hq, Hq'. eauto.
  - intros j x Hx. rewrite ES in Hx. destruct (inv_onto0 j x Hx) as (i & q & Hq & E).
    exists i, q. rewrite EV. auto.
  - intros i j q q' Hq Hq'. rewrite EV in Hq, Hq'. eauto.
  - intros i q Hq. rewrite EV in Hq. rewrite Eh. eauto.
Qed.

(* a tableau-only update of one register *)
Lemma inv_update_tab s ni r r' :
  In r (regs (nth_node s ni)) -> shape r' = shape r -> inv s -> inv (update_reg_at s ni r').
Proof.
  intros Hin Hs H. apply (inv_same_view s); auto.
  intro i. unfold update_reg_at. rewrite nth_node_set.
  destruct (Nat.eqb i ni && Nat.ltb ni (length (nodes s)))%bool eqn:E; [|apply same_view_refl].
  apply andb_true_iff in E as [E _]. apply Nat.eqb_eq in E. subst i.
  unfold same_view; simpl. repeat split; auto.
  apply set_reg_shape with (r := r); auto. apply (inv_nodes s H ni).
Qed.

Lemma init_inv caps : inv (init_net caps).
Proof.
  assert (E : forall i, nth_node (init_net caps) i = empty_node (maxQ (nth_node (init_net caps) i)) (maxR (nth_node (init_net caps) i))).
  { intro i. unfold nth_node, init_net; simpl.
    destruct (Nat.ltb_spec i (length caps)).
    - rewrite (nth_indep _ _ (empty_node (fst (0,0)) (snd (0,0)))) by (rewrite map_length; auto).
      rewrite (map_nth (fun c => empty_node (fst c) (snd c))). reflexivity.
    - rewrite nth_overflow by (rewrite map_length; auto). reflexivity. }
  constructor.
  - intro i. rewrite E. apply empty_node_ok.
  - intros i q Hq. rewrite E in Hq. simpl in Hq. contradiction.
  - intros i j q q' Hq. rewrite E in Hq. simpl in Hq. contradiction.
  - intros j x Hx. rewrite E in Hx. simpl in Hx. contradiction.
  - intros i j q q' Hq. rewrite E in Hq. simpl in Hq. contradiction.
  - intros i q Hq. rewrite E in Hq. simpl in Hq. contradiction.
Qed.
