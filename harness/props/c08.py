"""C08 — entanglement generation delivers matched halves of one Bell pair per request (and the end-to-end parts of C11/C12
that need two hosts: halves survive the creator's stop, refused requests create nothing — see c12_e2e.py)."""
import logging
import random

import common
import net_sync as N
import qasm_epr as EP
import qasm_sync as Q
from props import c09

TYPES = ["K", "M"]
RB = ["NONE", "XZ", "XYZ"]


def make_net(env, n_nodes, pb, cap=12, names=None):
    from netqasm.sdk.shared_memory import SharedMemoryManager
    SharedMemoryManager.reset_memories()
    env.clock.stopped = False
    names = list(names) if names else ["N%d" % i for i in range(n_nodes)]
    if pb:
        import net_pb
        net = net_pb.make_pb_network(env, names, [cap] * n_nodes, [cap] * n_nodes)
    else:
        net = N.make_network(env, names, [cap] * n_nodes, [cap] * n_nodes)
    Q.make_hosts(env, net, pb_local=pb)
    return net, names


def random_experiment(rng, thorough):
    n_nodes = rng.choice([2, 2, 3])
    reqs = []
    total = 0
    freed = set()
    for _ in range(rng.randrange(1, 5 if thorough else 4)):
        c = rng.randrange(n_nodes)
        r = rng.choice([x for x in range(n_nodes) if x != c])
        n = rng.randrange(1, 4)
        tp = rng.choice(TYPES)
        if tp == "K" and total + n > 4:
            tp = "M"
        if tp == "K":
            total += n
        sock = rng.randrange(2)
        q = {"c": c, "r": r, "n": n, "tp": tp, "ls": sock, "rs": rng.randrange(2) if rng.random() < 0.3 else sock,
             "rbl": rng.choice(RB), "rbr": rng.choice(RB)}
        # basis-choice distributions (8-bit weights; XZ: [p1, 256-p1] over X,Z; XYZ: [p1, p2, 256-p1-p2] over X,Y,Z)
        pr = []
        for side in ("rbl", "rbr"):
            p1 = rng.choice([0, 64, 128, 200, 255])
            p2 = rng.choice([x for x in (0, 56, 100, 128) if p1 + x <= 256]) if q[side] == "XYZ" else 0
            pr += [p1, p2]
        q["probs"] = pr
        reqs.append(q)
        # a node gives up a half it got earlier (not necessarily the newest) before the next request: {"node", "req", "pair"}
        q["free"] = []
        if rng.random() < 0.45:
            cands = [(x, k2, i) for k2, q2 in enumerate(reqs) if q2["tp"] == "K" for i in range(q2["n"]) for x in (q2["c"], q2["r"])
                     if (x, k2, i) not in freed and x in (q["c"], q["r"])]
            for (x, k2, i) in rng.sample(cands, min(len(cands), rng.randrange(1, 3))):
                freed.add((x, k2, i))
                q["free"].append({"node": x, "req": k2, "pair": i})
    labels = ["Na", "Nb", "Nc"][:n_nodes]
    if rng.random() < 0.5:
        rng.shuffle(labels)              # node i is called labels[i]; NetQASM node ids are ranks in the sorted list of names
    return {"n_nodes": n_nodes, "names": labels, "reqs": reqs, "pb": rng.random() < 0.25, "sched": rng.randrange(10 ** 6), "coins": [rng.randrange(2) for _ in range(64)],
            "basis_seed": rng.randrange(10 ** 6)}


def nm(exp, i):
    return exp["names"][i] if exp.get("names") else "N%d" % i


def socket_table(exp):
    """per node: list of (remote name, local socket id, remote socket id), consistent on both ends (well-formed configuration)"""
    socks = {i: [] for i in range(exp["n_nodes"])}
    for q in exp["reqs"]:
        a = (nm(exp, q["r"]), q["ls"], q["rs"])
        b = (nm(exp, q["c"]), q["rs"], q["ls"])
        if a not in socks[q["c"]]:
            socks[q["c"]].append(a)
        if b not in socks[q["r"]]:
            socks[q["r"]].append(b)
    # in the random experiments a local socket id names one remote end only: when one id serves two neighbours whose requests are in flight at
    # the same time the receiving queue (keyed by the socket id alone) is shared, and what the i-th poll returns depends on the arrival order
    # (Qasm/EprKeyed.v: C08_shared_queue_unfiltered_refuted).  One id for several neighbours with ONE request in flight at a time (the layout
    # of netqasm's repeater examples) is exercised by shared_socket_id_experiment below.
    for i, l in socks.items():
        ids = [x[1] for x in l]
        if len(set(ids)) != len(ids):
            return None
    return socks


def run_experiment(env, exp):
    """returns dict with per-request observations and problems"""
    from netqasm.qlink_compat import RandomBasis
    socks = socket_table(exp)
    if socks is None:
        return None
    net, names = make_net(env, exp["n_nodes"], exp["pb"], names=exp.get("names"))
    env.E.random = random.Random(exp["basis_seed"])          # basis choices of measure-directly (random.choices in executioner.py)
    ids = Q.node_ids(names)
    streams = {}
    marks = {}
    for node in range(exp["n_nodes"]):
        if not socks[node]:
            continue
        my = [(k, q) for k, q in enumerate(exp["reqs"]) if node in (q["c"], q["r"])]

        def body(conn, eprs, node=node, my=my):
            got = {}
            for k, q in my:
                if q["c"] == node:
                    e = eprs[socks[node].index((nm(exp, q["r"]), q["ls"], q["rs"]))]
                    if q["tp"] == "K":
                        got[k] = e.create_keep(q["n"])
                    else:
                        EP.NEXT_PROBS[0] = q.get("probs")
                        e.create_measure(q["n"], random_basis_local=RandomBasis[q["rbl"]], random_basis_remote=RandomBasis[q["rbr"]])
                else:
                    e = eprs[socks[node].index((nm(exp, q["c"]), q["rs"], q["ls"]))]
                    if q["tp"] == "K":
                        got[k] = e.recv_keep(q["n"])
                    else:
                        e.recv_measure(q["n"])
                conn.flush()
                fr = [f for f in q.get("free", []) if f["node"] == node]
                for f in fr:
                    got[f["req"]][f["pair"]].free()
                if fr:
                    conn.flush()
        msgs = EP.sdk_messages(names, names[node], 0, socks[node], body, max_qubits=8)
        stops = [m for m in msgs if type(m).__name__ == "StopAppMessage"]
        streams[node] = [m for m in msgs if type(m).__name__ != "StopAppMessage"]
        marks[node] = (my, stops)
    tap0 = len(env.tap)
    Q.script_coins(env, exp["coins"], tap0)
    out = EP.run_concurrently(env, net, streams, random.Random(exp["sched"]))
    Q.script_coins(env, None, 0)
    res = {"exp": exp, "problems": [], "requests": [], "net": net, "events": []}
    P = res["problems"]
    # subroutine replies per node, in request order
    subs = {}
    for node, lst in out.items():
        subs[node] = [(rep, esc) for (m, rep, esc) in lst if type(m).__name__ == "SubroutineMessage"]
        for (m, rep, esc) in lst:
            if esc:
                P.append({"kind": "hang" if esc == ["pending"] else "escaped", "what": "%s at node %d did not complete: %r" % (type(m).__name__, node, esc)})
    if P:
        return res
    idx = {node: 0 for node in subs}
    pairs_by_socketpair = {}
    gone = set((f["node"], f["req"], f["pair"]) for q in exp["reqs"] for f in q.get("free", []))
    for k, q in enumerate(exp["reqs"]):
        crep, _ = subs[q["c"]][idx[q["c"]]]
        idx[q["c"]] += 1 + (1 if any(f["node"] == q["c"] for f in q.get("free", [])) else 0)
        rrep, _ = subs[q["r"]][idx[q["r"]]]
        idx[q["r"]] += 1 + (1 if any(f["node"] == q["r"] for f in q.get("free", [])) else 0)

        def ent(rep):
            arrs = [r for r in rep if r[0] == "arr" and len(r[2]) == EP.OK_FIELDS * q["n"] and None not in r[2]]
            return EP.ent_infos(arrs[:1], arrs[0][1]) if arrs else None
        ce, re_ = ent(crep), ent(rrep)
        cid, rid = ids[nm(exp, q["c"])], ids[nm(exp, q["r"])]
        bad = EP.pairing_problems(ce, re_, q["n"], cid, rid, q["ls"], q["rs"])
        obs = {"req": q, "creator": ce, "receiver": re_, "creator_replies": crep, "receiver_replies": rrep}
        res["requests"].append(obs)
        for b in bad:
            P.append({"kind": "pairing", "what": "request %d (%s, %d pairs, N%d -> N%d): %s" % (k, q["tp"], q["n"], q["c"], q["r"], b), "req": k})
        if bad:
            continue
        res["events"] += [("C", q["c"], q["ls"], q["r"], q["rs"], a["sequence_number"]) for a in ce]
        res["events"] += [("P", q["r"], q["rs"], b["sequence_number"], q["c"]) for b in re_]
        key = frozenset([(q["c"], q["ls"]), (q["r"], q["rs"])])
        for a in ce:
            pairs_by_socketpair.setdefault(key, []).append((a["sequence_number"], q["c"], k))
        hc, hr = net.hosts[q["c"]], net.hosts[q["r"]]
        for i in range(q["n"]):
            if q["tp"] == "K" and ((q["c"], k, i) in gone or (q["r"], k, i) in gone):
                res["freed_pairs"] = res.get("freed_pairs", 0) + 1       # one half was given up on purpose: nothing to compare
            elif q["tp"] == "K":
                pa, pb_ = ce[i]["logical_qubit_id"], re_[i]["logical_qubit_id"]
                if pa not in hc.factory.qubitList or pb_ not in hr.factory.qubitList:
                    P.append({"kind": "delivery", "what": "request %d pair %d: reported qubit ids (%r, %r) are not in the hosts' qubit lists" % (k, i, pa, pb_), "req": k})
                    continue
                q1 = N.resolve(net, hc.factory.qubitList[pa].virt)
                q2 = N.resolve(net, hr.factory.qubitList[pb_].virt)
                rho = EP.pair_state(net, q1, q2)
                if rho is None or not O_close(rho, EP.PHI):
                    P.append({"kind": "state", "what": "request %d pair %d: the two delivered qubits are not an isolated |Phi+> pair" % (k, i), "req": k})
            else:
                a, b = ce[i], re_[i]
                res.setdefault("bases", []).append((a["measurement_basis"], b["measurement_basis"]))
                for side, rec in (("rbl", a), ("rbr", b)):
                    allowed = {"NONE": (0,), "XZ": (0, 1), "XYZ": (0, 1, 2)}[q[side]]
                    if rec["measurement_basis"] not in allowed:
                        P.append({"kind": "md-basis", "what": "request %d pair %d: reported basis %d is not in the requested set %s" % (k, i, rec["measurement_basis"], q[side]), "req": k})
                if not EP.md_possible(a["measurement_basis"], a["measurement_outcome"], b["measurement_basis"], b["measurement_outcome"]):
                    P.append({"kind": "md-outcomes", "what": "request %d pair %d: outcomes (%d, %d) in bases (%d, %d) are impossible for |Phi+>"
                              % (k, i, a["measurement_outcome"], b["measurement_outcome"], a["measurement_basis"], b["measurement_basis"]), "req": k})
    # sequence numbers on one socket pair
    for key, lst in pairs_by_socketpair.items():
        seen = {}
        for seqn, creator, k in lst:
            if seqn in seen:
                other = seen[seqn]
                kind = "seq-collision-opposite-directions" if other[0] != creator else "seq-collision"
                P.append({"kind": kind, "what": "socket pair %r: two distinct pairs (requests %d and %d, created by N%d and N%d) carry sequence number %d"
                          % (sorted(key), other[1], k, other[0], creator, seqn)})
                break
            seen[seqn] = (creator, k)
    # ---- teardown: creators stop first; the halves at the receivers survive; then everybody stops and the nodes are empty
    kept = sum(q["n"] for q in exp["reqs"] if q["tp"] == "K")
    if not P:
        recv_before = [len(n.virtQubits) for n in net.nodes]
        creators = sorted(set(q["c"] for q in exp["reqs"]))
        order = creators + [n for n in marks if n not in creators]
        expect = list(recv_before)
        Q.script_coins(env, [(i * 7 + exp["sched"]) % 2 for i in range(64)], len(env.tap))
        for node in order:
            my, stops = marks[node]
            mine = sum(q["n"] for q in exp["reqs"] if q["tp"] == "K" and node in (q["c"], q["r"])) - sum(1 for g_ in gone if g_[0] == node)
            o = EP.run_concurrently(env, net, {node: stops}, random.Random(1))
            rep = o[node][0][1] if o[node] else []
            if not rep or rep[-1][0] != "done" or ("err", 0) in rep:
                P.append({"kind": "stop-failed", "what": "StopApp at node %d answered %r" % (node, rep)})
                break
            expect[node] -= mine
            now = [len(n.virtQubits) for n in net.nodes]
            if now != expect:
                P.append({"kind": "teardown-population", "what": "after the stop of node %d the nodes hold %r qubits, expected %r (halves held by other nodes must survive)"
                          % (node, now, expect)})
                break
    Q.script_coins(env, None, 0)
    res["kept"] = kept
    return res


def _text_msg(text, app=0):
    from netqasm.backend.messages import SubroutineMessage
    from netqasm.lang.parsing.text import parse_text_subroutine
    return SubroutineMessage(subroutine=parse_text_subroutine("# NETQASM 1.0\n# APPID %d\n%s" % (app, text)))


def _create_keep(remote, sock, q, base):
    return ("array 1 @{b}\nstore {q} @{b}[0]\narray 22 @{b1}\nstore 0 @{b1}[0]\nstore 1 @{b1}[1]\narray 10 @{b2}\nset R0 {r}\nset R1 {s}\nset R2 {b}\n"
            "set R3 {b1}\nset R4 {b2}\ncreate_epr R0 R1 R2 R3 R4\nwait_all @{b2}[0:10]\n").format(b=base, b1=base + 1, b2=base + 2, q=q, r=remote, s=sock)


def _recv_keep(remote, sock, q, base):
    return ("array 1 @{b}\nstore {q} @{b}[0]\narray 10 @{b1}\nset R0 {r}\nset R1 {s}\nset R2 {b}\nset R3 {b1}\nrecv_epr R0 R1 R2 R3\n"
            "wait_all @{b1}[0:10]\n").format(b=base, b1=base + 1, q=q, r=remote, s=sock)


def occupied_address_experiment(env, variant, pb, order):
    """hand-written subroutines, several in flight per host (a host may commit subroutines without waiting): the receiver asks for a pair
    into a virtual address that is still occupied, so the delivery stays pending; meanwhile the same node takes part in another request
    (variant 0: it creates a pair towards the first creator; 1: towards a third node; 2: it receives a second pair from the first creator on another
    socket); then the address is freed.  Every pair must come out as an isolated |Phi+> pair between the right addresses.
    order: node names in configuration order (node ids are ranks in the SORTED list)"""
    from netqasm.backend.messages import InitNewAppMessage, OpenEPRSocketMessage
    from netqasm.sdk.shared_memory import SharedMemoryManager
    SharedMemoryManager.reset_memories()
    env.clock.stopped = False
    names = list(order)
    if pb:
        import net_pb
        net = net_pb.make_pb_network(env, names, [12] * 3, [12] * 3)
    else:
        net = N.make_network(env, names, [12] * 3, [12] * 3)
    Q.make_hosts(env, net, pb_local=pb)
    ids = Q.node_ids(names)
    A, Bn, C = 0, 1, 2                       # indices into names: first creator, the receiver with the occupied address, third node
    idA, idB, idC = ids[names[A]], ids[names[Bn]], ids[names[C]]
    P = []

    def pump(pend, what, rounds=400):
        for _ in range(rounds):
            if pb:
                import net_pb
                net_pb.flush(net)
            if all(p.done for p in pend):
                return True
            calls = env.clock.getDelayedCalls()
            if calls:
                env.clock.advance(max(min(c.getTime() for c in calls) - env.clock.seconds(), 0.0) + 1e-6)
        if not all(p.done for p in pend):
            P.append({"kind": "hang", "what": "occupied-address experiment (variant %d): %s did not complete" % (variant, what)})
            return False
        return True

    def go(node, msg, what):
        p = EP.start(net.hosts[node], msg)
        return p if pump([p], what) else None

    Q.script_coins(env, [0, 1, 1, 0] * 16, len(env.tap))
    for node in (A, Bn, C):
        if go(node, InitNewAppMessage(app_id=0, max_qubits=10), "InitNewApp") is None:
            return P
    socks = [(A, 0, idB, 0), (Bn, 0, idA, 0), (A, 1, idB, 1), (Bn, 1, idA, 1), (Bn, 2, idC, 0), (C, 0, idB, 2)]
    for node, s_, rid, rs in socks:
        if go(node, OpenEPRSocketMessage(app_id=0, epr_socket_id=s_, remote_node_id=rid, remote_epr_socket_id=rs, min_fidelity=100), "OpenEPRSocket") is None:
            return P
    if go(Bn, _text_msg("set Q0 0\nqalloc Q0\ninit Q0\nh Q0\n"), "local allocation") is None:
        return P
    pend_recv = EP.start(net.hosts[Bn], _text_msg(_recv_keep(idA, 0, 0, 5)))          # into the occupied address 0
    if go(A, _text_msg(_create_keep(idB, 0, 0, 5)), "creation towards the occupied address") is None:
        return P
    for _ in range(12):                      # let the receiver's poll find the half (its delivery must now be pending)
        if pb:
            import net_pb
            net_pb.flush(net)
        calls = env.clock.getDelayedCalls()
        if calls:
            env.clock.advance(max(min(c.getTime() for c in calls) - env.clock.seconds(), 0.0) + 1e-6)
    if pend_recv.done:
        P.append({"kind": "pending", "what": "occupied-address experiment: the delivery into an occupied virtual address completed before the address was freed"})
        return P
    pairs = [((A, 0), (Bn, 0))]
    if variant == 0:
        r2 = EP.start(net.hosts[A], _text_msg(_recv_keep(idB, 1, 1, 8)))
        c2 = EP.start(net.hosts[Bn], _text_msg(_create_keep(idA, 1, 1, 7)))
        ok = pump([r2, c2], "the request in the opposite direction")
        pairs.append(((Bn, 1), (A, 1)))
    elif variant == 1:
        r2 = EP.start(net.hosts[C], _text_msg(_recv_keep(idB, 0, 1, 8)))
        c2 = EP.start(net.hosts[Bn], _text_msg(_create_keep(idC, 2, 1, 7)))
        ok = pump([r2, c2], "the request towards a third node")
        pairs.append(((Bn, 1), (C, 1)))
    else:
        r2 = EP.start(net.hosts[Bn], _text_msg(_recv_keep(idA, 1, 1, 8)))
        c2 = EP.start(net.hosts[A], _text_msg(_create_keep(idB, 1, 1, 7)))
        ok = pump([r2, c2], "the second request on another socket")
        pairs.append(((A, 1), (Bn, 1)))
    if not ok:
        return P
    if go(Bn, _text_msg("set Q0 0\nqfree Q0\n"), "freeing the occupied address") is None:
        return P
    if not pump([pend_recv], "the pending delivery after the address was freed"):
        return P
    Q.script_coins(env, None, 0)

    def virt(node, addr):
        h = net.hosts[node]
        try:
            pos = h.executor._get_position(app_id=0, address=addr)
            return N.resolve(net, h.factory.qubitList[pos].virt)
        except Exception as e:
            P.append({"kind": "delivery", "what": "occupied-address experiment (variant %d): node %s has no qubit at virtual address %d (%s)" % (variant, names[node], addr, type(e).__name__)})
            return None
    seen = {}
    for (n1, a1), (n2, a2) in pairs:
        q1, q2 = virt(n1, a1), virt(n2, a2)
        if q1 is None or q2 is None:
            continue
        for key, q in (((n1, a1), q1), ((n2, a2), q2)):
            if id(q) in seen and seen[id(q)] != key:
                P.append({"kind": "aliasing", "what": "occupied-address experiment (variant %d): virtual addresses %r and %r are the same qubit" % (variant, seen[id(q)], key)})
            seen[id(q)] = key
        rho = EP.pair_state(net, q1, q2)
        if rho is None or not O_close(rho, EP.PHI):
            P.append({"kind": "state", "what": "occupied-address experiment (variant %d, names %r): the qubits at %s@%d and %s@%d are not an isolated |Phi+> pair"
                      % (variant, names, names[n1], a1, names[n2], a2)})
    return P


def shared_socket_id_experiment(env, order, pb):
    """a repeater R uses ONE local socket id (0, the SDK default) towards both neighbours A and B; towards A the REMOTE socket id is 1, towards B it
    is 0.  One request at a time: A creates a pair with R; B creates a pair with R; R creates a pair with A (must arrive on A's socket 1); R
    creates a pair with B.  Every pair must be an isolated |Phi+> pair at the right addresses and every record must name the right peer."""
    from netqasm.backend.messages import InitNewAppMessage, OpenEPRSocketMessage
    from netqasm.sdk.shared_memory import SharedMemoryManager
    SharedMemoryManager.reset_memories()
    env.clock.stopped = False
    names = list(order)
    if pb:
        import net_pb
        net = net_pb.make_pb_network(env, names, [12] * 3, [12] * 3)
    else:
        net = N.make_network(env, names, [12] * 3, [12] * 3)
    Q.make_hosts(env, net, pb_local=pb)
    ids = Q.node_ids(names)
    A, R, B = 0, 1, 2
    idA, idR, idB = ids[names[A]], ids[names[R]], ids[names[B]]
    P = []

    def pump(pend, what, rounds=400):
        for _ in range(rounds):
            if pb:
                import net_pb
                net_pb.flush(net)
            if all(p.done for p in pend):
                return True
            calls = env.clock.getDelayedCalls()
            if calls:
                env.clock.advance(max(min(c.getTime() for c in calls) - env.clock.seconds(), 0.0) + 1e-6)
        P.append({"kind": "hang", "what": "shared-socket-id experiment (names %r): %s did not complete" % (names, what)})
        return False

    def go(node, msg, what):
        p = EP.start(net.hosts[node], msg)
        return p if pump([p], what) else None
    Q.script_coins(env, [1, 0, 0, 1] * 16, len(env.tap))
    for node in (A, R, B):
        if go(node, InitNewAppMessage(app_id=0, max_qubits=10), "InitNewApp") is None:
            return P
    for node, s_, rid, rs in [(A, 1, idR, 0), (B, 0, idR, 0), (R, 0, idA, 1), (R, 0, idB, 0)]:
        if go(node, OpenEPRSocketMessage(app_id=0, epr_socket_id=s_, remote_node_id=rid, remote_epr_socket_id=rs, min_fidelity=100), "OpenEPRSocket") is None:
            return P
    steps = [("A creates with R", (A, idR, 1, 0, 0), (R, idA, 0, 0, 0)), ("B creates with R", (B, idR, 0, 0, 0), (R, idB, 0, 1, 3)),
             ("R creates with A", (R, idA, 0, 2, 6), (A, idR, 1, 1, 3)), ("R creates with B", (R, idB, 0, 3, 9), (B, idR, 0, 1, 3))]
    pairs = []
    for what, (cn, crem, csock, cq, cbase), (rn, rrem, rsock, rq, rbase) in steps:
        pr = EP.start(net.hosts[rn], _text_msg(_recv_keep(rrem, rsock, rq, rbase)))
        pc = EP.start(net.hosts[cn], _text_msg(_create_keep(crem, csock, cq, cbase)))
        if not pump([pr, pc], what):
            return P
        pairs.append((what, (cn, cq), (rn, rq)))
        ca = list(net.hosts[cn].executor._app_arrays[0][cbase + 2, :])
        ra = list(net.hosts[rn].executor._app_arrays[0][rbase + 1, :])
        want_c, want_r = ids[names[rn]], ids[names[cn]]
        # K record: type, create_id, logical_qubit_id, directionality_flag, sequence_number, purpose_id, remote_node_id, ...
        if None in ca or None in ra or ca[6] != want_c or ra[6] != want_r or ca[4] != ra[4] or (ca[3], ra[3]) != (0, 1):
            P.append({"kind": "pairing", "what": "shared-socket-id experiment (names %r), %s: creator record %r, receiver record %r (remote node ids must be %d / %d, "
                      "equal sequence numbers, directionality 0 / 1)" % (names, what, ca, ra, want_c, want_r)})
    Q.script_coins(env, None, 0)

    def virt(node, addr):
        h = net.hosts[node]
        try:
            return N.resolve(net, h.factory.qubitList[h.executor._get_position(app_id=0, address=addr)].virt)
        except Exception as e:               # noqa: BLE001
            P.append({"kind": "delivery", "what": "shared-socket-id experiment: node %s has no qubit at virtual address %d (%s)" % (names[node], addr, type(e).__name__)})
            return None
    for what, (cn, cq), (rn, rq) in pairs:
        q1, q2 = virt(cn, cq), virt(rn, rq)
        if q1 is None or q2 is None:
            continue
        rho = EP.pair_state(net, q1, q2)
        if rho is None or not O_close(rho, EP.PHI):
            P.append({"kind": "state", "what": "shared-socket-id experiment (names %r), %s: the delivered qubits are not an isolated |Phi+> pair" % (names, what)})
    return P


def second_application_experiment(env, order, pb):
    """two applications on the creator's node: application 0 creates a pair with the peer, application 1 (purely local) starts, allocates,
    and STOPS, application 0 creates two more pairs on the same socket pair.  The three pairs of application 0 must carry three different
    sequence numbers, equal on both ends, and be isolated |Phi+> pairs: nothing another application does may disturb them."""
    from netqasm.backend.messages import InitNewAppMessage, OpenEPRSocketMessage, StopAppMessage
    from netqasm.sdk.shared_memory import SharedMemoryManager
    SharedMemoryManager.reset_memories()
    env.clock.stopped = False
    names = list(order)
    if pb:
        import net_pb
        net = net_pb.make_pb_network(env, names, [12] * 2, [12] * 2)
    else:
        net = N.make_network(env, names, [12] * 2, [12] * 2)
    Q.make_hosts(env, net, pb_local=pb)
    ids = Q.node_ids(names)
    A, B = 0, 1
    idA, idB = ids[names[A]], ids[names[B]]
    P = []

    def pump(pend, what, rounds=400):
        for _ in range(rounds):
            if pb:
                import net_pb
                net_pb.flush(net)
            if all(p.done for p in pend):
                return True
            calls = env.clock.getDelayedCalls()
            if calls:
                env.clock.advance(max(min(c.getTime() for c in calls) - env.clock.seconds(), 0.0) + 1e-6)
        P.append({"kind": "hang", "what": "second-application experiment (names %r): %s did not complete" % (names, what)})
        return False

    def go(node, msg, what):
        p = EP.start(net.hosts[node], msg)
        return p if pump([p], what) else None
    Q.script_coins(env, [0, 1, 1, 0] * 16, len(env.tap))
    for node in (A, B):
        if go(node, InitNewAppMessage(app_id=0, max_qubits=10), "InitNewApp 0") is None:
            return P
    for node, rid in ((A, idB), (B, idA)):
        if go(node, OpenEPRSocketMessage(app_id=0, epr_socket_id=0, remote_node_id=rid, remote_epr_socket_id=0, min_fidelity=100), "OpenEPRSocket") is None:
            return P
    seqs = []

    def pair(q, cbase, rbase, what):
        pr = EP.start(net.hosts[B], _text_msg(_recv_keep(idA, 0, q, rbase)))
        pc = EP.start(net.hosts[A], _text_msg(_create_keep(idB, 0, q, cbase)))
        if not pump([pr, pc], what):
            return False
        ca = list(net.hosts[A].executor._app_arrays[0][cbase + 2, :])
        ra = list(net.hosts[B].executor._app_arrays[0][rbase + 1, :])
        if None in ca or None in ra or ca[4] != ra[4]:
            P.append({"kind": "pairing", "what": "second-application experiment, %s: creator record %r, receiver record %r" % (what, ca, ra)})
            return False
        seqs.append(ca[4])
        return True
    if not pair(0, 0, 0, "first pair of application 0"):
        return P
    if go(A, InitNewAppMessage(app_id=1, max_qubits=4), "InitNewApp 1") is None:
        return P
    if go(A, _text_msg("set Q0 0\nqalloc Q0\ninit Q0\nh Q0\n", app=1), "local subroutine of application 1") is None:
        return P
    if go(A, StopAppMessage(app_id=1), "StopApp 1") is None:
        return P
    if not pair(1, 3, 2, "second pair of application 0") or not pair(2, 6, 4, "third pair of application 0"):
        return P
    Q.script_coins(env, None, 0)
    if len(set(seqs)) != len(seqs):
        P.append({"kind": "seq-collision", "what": "second-application experiment (names %r): the three pairs application 0 created on one socket pair carry sequence "
                  "numbers %r (another application on the creator's node was stopped in between)" % (names, seqs)})
    for q in range(3):
        try:
            q1 = N.resolve(net, net.hosts[A].factory.qubitList[net.hosts[A].executor._get_position(app_id=0, address=q)].virt)
            q2 = N.resolve(net, net.hosts[B].factory.qubitList[net.hosts[B].executor._get_position(app_id=0, address=q)].virt)
        except Exception as e:               # noqa: BLE001
            P.append({"kind": "delivery", "what": "second-application experiment: pair %d is not mapped on both hosts (%s)" % (q, type(e).__name__)})
            continue
        rho = EP.pair_state(net, q1, q2)
        if rho is None or not O_close(rho, EP.PHI):
            P.append({"kind": "state", "what": "second-application experiment: pair %d of application 0 is not an isolated |Phi+> pair" % q})
    return P


def shared_socket_wrong_sender_first(env, order, pb):
    """a repeater R uses ONE local socket id (0, the SDK default) towards both neighbours A and B (all remote socket ids 0).  R asks for a pair
    from A first and then for a pair from B; B happens to create BEFORE A.  Returns None when both of R's requests complete with matched pairs,
    else a description (R's first request never completes: its only poll took B's half, which matches no request yet; A's half is never polled)."""
    from netqasm.backend.messages import InitNewAppMessage, OpenEPRSocketMessage
    from netqasm.sdk.shared_memory import SharedMemoryManager
    SharedMemoryManager.reset_memories()
    env.clock.stopped = False
    names = list(order)
    if pb:
        import net_pb
        net = net_pb.make_pb_network(env, names, [12] * 3, [12] * 3)
    else:
        net = N.make_network(env, names, [12] * 3, [12] * 3)
    Q.make_hosts(env, net, pb_local=pb)
    ids = Q.node_ids(names)
    A, R, B = 0, 1, 2
    idA, idR, idB = ids[names[A]], ids[names[R]], ids[names[B]]

    def pump(pend, rounds=300):
        for _ in range(rounds):
            if pb:
                import net_pb
                net_pb.flush(net)
            if all(p.done for p in pend):
                return True
            calls = env.clock.getDelayedCalls()
            if calls:
                env.clock.advance(max(min(c.getTime() for c in calls) - env.clock.seconds(), 0.0) + 1e-6)
        return all(p.done for p in pend)
    Q.script_coins(env, [0, 1] * 16, len(env.tap))
    try:
        for node in (A, R, B):
            if not pump([EP.start(net.hosts[node], InitNewAppMessage(app_id=0, max_qubits=10))]):
                return "InitNewApp did not complete"
        for node, rid in [(A, idR), (B, idR), (R, idA), (R, idB)]:
            if not pump([EP.start(net.hosts[node], OpenEPRSocketMessage(app_id=0, epr_socket_id=0, remote_node_id=rid, remote_epr_socket_id=0, min_fidelity=100))]):
                return "OpenEPRSocket did not complete"
        r_from_a = EP.start(net.hosts[R], _text_msg(_recv_keep(idA, 0, 0, 0)))       # R: first subroutine, a pair from A
        b_creates = EP.start(net.hosts[B], _text_msg(_create_keep(idR, 0, 0, 0)))    # B is quicker than A
        if not pump([b_creates]):
            return "B's creation did not complete"
        for _ in range(10):
            pump([], 1)
            calls = env.clock.getDelayedCalls()
            if calls:
                env.clock.advance(max(min(c.getTime() for c in calls) - env.clock.seconds(), 0.0) + 1e-6)
        a_creates = EP.start(net.hosts[A], _text_msg(_create_keep(idR, 0, 0, 0)))
        if not pump([a_creates]):
            return "A's creation did not complete"
        done_a = pump([r_from_a], 200)
        if not done_a:
            ex = net.hosts[R].executor
            return ("repeater %s (socket 0 towards %s and %s): its request for a pair from %s never completes although %s has created the pair — its poll took the "
                    "half %s had sent earlier, which matches no request yet (%d pending response(s)), and %d half(s) stay unpolled in the queue of socket 0"
                    % (names[R], names[A], names[B], names[A], names[A], names[B], len(ex._pending_epr_responses),
                       len(getattr(net.nodes[R], "qubit_recv_epr", {}).get(0, []))))
        r_from_b = EP.start(net.hosts[R], _text_msg(_recv_keep(idB, 0, 1, 3)))
        if not pump([r_from_b], 200):
            return "repeater's second request (from %s) never completes" % names[B]
        return None
    finally:
        Q.script_coins(env, None, 0)


def O_close(a, b):
    import numpy as np
    return a.shape == b.shape and np.allclose(a, b, atol=1e-8)


def coq_case(res):
    evs, obs = [], []
    for e in res["events"]:
        if e[0] == "C":
            evs.append("KCreate %d %d %d %d" % (e[1], e[2], e[3], e[4]))
            obs.append("(%d,%d)" % (e[5], e[1]))
        else:
            evs.append("KPoll %d %d" % (e[1], e[2]))
            obs.append("(%d,%d)" % (e[3], e[4]))
    return "([%s], [%s])" % ("; ".join(evs), "; ".join(obs))


COQ_CHECK = """
Definition obs_ok (o : option item) (x : nat * nat) : bool :=
  match o with Some it => Nat.eqb (i_seq it) (fst x) && Nat.eqb (i_from it) (snd x) | None => false end.
Fixpoint all2 {A B} (f : A -> B -> bool) (a : list A) (b : list B) : bool :=
  match a, b with [], [] => true | x :: xs, y :: ys => f x y && all2 f xs ys | _, _ => false end.
Definition check (c : list kev * list (nat * nat)) : bool := all2 obs_ok (krun kinit (fst c)) (snd c).
"""


def run(ctx, only_extra=False):
    t = ctx.tier == "thorough"
    ctx.trusted += c09.TRUST + [
        "harness/qasm_epr.py: requests are built with netqasm.sdk (EPRSocket.create_keep/recv_keep/create_measure/recv_measure on a DebugConnection) and the "
        "serialized messages are handled concurrently by two or three real SubroutineHandlers; a seeded scheduler picks which host proceeds / when the "
        "clock advances; executioner.py's `random` (basis choice) is replaced by a seeded generator",
        "the sequence-number / FIFO model is compared through a linearisation of the observed creations and deliveries (the theorem says the result does "
        "not depend on the interleaving)",
        "harness/qasm_eprfail.py (measure-directly pairs message by message): replicates _sample_basis_choice's use of random.choices to find the generator "
        "seed that yields the wanted bases; reads the records from ReturnArray messages of 10 defined values whose type field is OK_M"]
    ctx.rule = ("random experiments: 2-3 nodes, 1-4 requests (create-and-keep / measure-directly, 1-3 pairs, random basis sets NONE/XZ/XYZ per side with random 8-bit basis-choice weights (written into the request array; the SDK leaves them 0), 1-2 sockets "
                "per node pair, both directions on one socket pair), random scheduler seed, 25% over real PB; per request the pairing predicate on both "
                "ReturnArray contents, numpy check that the two delivered qubits are an isolated |Phi+> register, outcome possibility for measure-directly, "
                "sequence numbers per socket pair, halves survive the creator's stop, everything gone after all stops; configuration order of the nodes differs from the "
                "alphabetical order in half of the experiments; hand-written subroutines with several in flight per host: delivery into an occupied virtual address; "
                "measure-directly requests of one pair with forced bases (all nine pairs) and scripted coins, alone or with a create-and-keep request in the same deque: "
                "native calls, node dumps, host bookkeeping, deques and both ReturnArray records compared with the N-host model message by message (Qasm/EprCases.v); "
                "distinct = distinct (request list, scheduler seed, coins)")
    common.check_properties_file(ctx)
    logging.disable(logging.CRITICAL)
    env = N.setup()
    Q.setup_qasm(env)
    rng = ctx.rng
    results = []
    fixed = [
        {"n_nodes": 2, "reqs": [{"c": 0, "r": 1, "n": 2, "tp": "K", "ls": 0, "rs": 0, "rbl": "NONE", "rbr": "NONE"}], "pb": False, "sched": 1, "coins": [1, 0] * 20, "basis_seed": 1},
        {"n_nodes": 2, "reqs": [{"c": 0, "r": 1, "n": 3, "tp": "M", "ls": 0, "rs": 0, "rbl": "XYZ", "rbr": "XYZ", "probs": [100, 100, 56, 128]}], "pb": False, "sched": 2, "coins": [1, 1, 0] * 20, "basis_seed": 5},
        {"n_nodes": 2, "reqs": [{"c": 1, "r": 0, "n": 1, "tp": "K", "ls": 1, "rs": 0, "rbl": "NONE", "rbr": "NONE"}], "pb": True, "sched": 3, "coins": [0] * 40, "basis_seed": 2},
        # the receiver gives up the OLDER of two halves and then receives another pair (ids / virtual numbers are reused)
        {"n_nodes": 2, "reqs": [{"c": 0, "r": 1, "n": 2, "tp": "K", "ls": 0, "rs": 0, "rbl": "NONE", "rbr": "NONE", "free": [{"node": 1, "req": 0, "pair": 0}]},
                                {"c": 0, "r": 1, "n": 1, "tp": "K", "ls": 0, "rs": 0, "rbl": "NONE", "rbr": "NONE", "free": [{"node": 0, "req": 0, "pair": 1}]},
                                {"c": 1, "r": 0, "n": 1, "tp": "K", "ls": 1, "rs": 1, "rbl": "NONE", "rbr": "NONE"}], "pb": False, "sched": 5, "coins": [0, 1] * 20, "basis_seed": 4},
        # both directions on one socket pair (D15)
        {"n_nodes": 2, "reqs": [{"c": 0, "r": 1, "n": 1, "tp": "K", "ls": 0, "rs": 0, "rbl": "NONE", "rbr": "NONE"},
                                {"c": 1, "r": 0, "n": 1, "tp": "K", "ls": 0, "rs": 0, "rbl": "NONE", "rbr": "NONE"}], "pb": False, "sched": 4, "coins": [0] * 40, "basis_seed": 3},
    ]
    with c09.quiet():
        for exp in fixed:
            r = run_experiment(env, exp)
            if r:
                results.append(r)
                if any(p["kind"] in ("hang", "escaped") for p in r["problems"]):
                    break
        n = 0
        hung = any(p["kind"] in ("hang", "escaped") for r in results for p in r["problems"])
        while n < (3000 if t else 90) and not hung:
            r = run_experiment(env, random_experiment(rng, t))
            if r is None:
                continue
            n += 1
            results.append(r)
            if any(p["kind"] in ("hang", "escaped") for p in r["problems"]):
                break               # a host that never completes: every further experiment would only burn the time budget
    occ = []
    with c09.quiet():
        for variant in (0, 1, 2):
            for order, pb in ((["Na", "Nb", "Nc"], False), (["Nb", "Nc", "Na"], False), (["Nc", "Na", "Nb"], True)):
                if hung:
                    break
                ps = occupied_address_experiment(env, variant, pb, order)
                ctx.count("occupied_address_experiments")
                ctx.case(("occupied-address", variant, tuple(order), pb), nontrivial=True)
                if ps:
                    occ.append((variant, order, pb, ps))
        for order, pb in ((["Na", "Nb", "Nc"], False), (["Nc", "Nb", "Na"], False), (["Nb", "Na", "Nc"], True)):
            if hung:
                break
            ps = shared_socket_id_experiment(env, order, pb)
            ctx.count("shared_socket_id_experiments")
            ctx.case(("shared-socket-id", tuple(order), pb), nontrivial=True)
            if ps:
                occ.append((9, order, pb, ps))
        wrong_sender = None
        if not hung:
            wrong_sender = shared_socket_wrong_sender_first(env, ["Na", "Nb", "Nc"], False)
            ctx.count("shared_socket_wrong_sender_first_experiments")
            ctx.case(("shared-socket-wrong-sender-first",), nontrivial=True)
        for order, pb in ((["Na", "Nb"], False), (["Nb", "Na"], True)):
            if hung:
                break
            ps = second_application_experiment(env, order, pb)
            ctx.count("second_application_experiments")
            ctx.case(("second-application", tuple(order), pb), nontrivial=True)
            if ps:
                occ.append((8, order, pb, ps))
    # measure-directly pairs, message by message against the N-host model (harness/qasm_eprfail.py, Qasm/EprCases.v): one request of one
    # pair with the creator's two basis choices forced through the seeded generator, all nine pairs of bases
    import qasm_eprfail as F
    md_runs = []
    with c09.quiet():
        if not hung:
            for sc in F.fixed_scenarios():
                if sc["kind"] == "ok" and sc.get("md"):
                    md_runs.append(F.run(env, sc))
    logging.disable(logging.NOTSET)
    for r in md_runs:
        ctx.count("md_pairs_message_by_message")
        ctx.count("md_pair_bases_" + r["sc"]["md"]["bases"])
        ctx.case(("md-pair", str(sorted(r["sc"].items()))), nontrivial=True)
    for r in results:
        e = r["exp"]
        ctx.case((str(e["reqs"]), e["sched"], str(e["coins"][:8]), e["pb"]), nontrivial=True)
        ctx.count("experiments")
        ctx.count("nodes_%d" % e["n_nodes"])
        if e["pb"]:
            ctx.count("experiments_over_real_PB")
        for q in e["reqs"]:
            ctx.count("requests_%s" % q["tp"])
            ctx.count("pairs", q["n"])
            ctx.count("halves_given_up_between_requests", len(q.get("free", [])))
            if q["tp"] == "M":
                ctx.count("basis_%s_%s" % (q["rbl"], q["rbr"]))
        for bb in r.get("bases", []):
            ctx.count("md_reported_bases_%d_%d" % bb)
        dirs = set((q["c"], q["r"], q["ls"], q["rs"]) for q in e["reqs"])
        if any((b, a, d, c) in dirs for (a, b, c, d) in dirs):
            ctx.count("experiments_with_both_directions_on_one_socket_pair")
    ctx.sample({k: v for k, v in results[0]["exp"].items()})
    ctx.sample({k: v for k, v in results[-1]["exp"].items()})
    # ---- correspondence: the keyed counter / FIFO model -------------------------------------------------------------------------------
    good = [r for r in results if r["events"]]
    text = (common.CASE_HEADER + "From SQ Require Import Base.ListUtil Qasm.Epr.\n" + COQ_CHECK +
            "Definition cases : list (list kev * list (nat * nat)) := [\n" + ";\n".join(coq_case(r) for r in good) + "\n].\n"
            "Eval vm_compute in (failing (map check cases)).\n")
    ok, out = common.coq_eval(text)
    lists = common.parse_nat_lists(out) if ok else []
    agree = ok and len(lists) == 1 and lists[0] == []
    ctx.obligation("correspondence: sequence numbers and FIFO delivery of %d creations / deliveries in %d experiments = keyed model (Qasm/Epr.v)"
                   % (sum(len(r["events"]) for r in good), len(good)), agree, out[-800:] if not agree else "")
    # ---- oracle verdicts ---------------------------------------------------------------------------------------------------------------------
    seen = set()
    found = False
    for r in results:
        for p in r["problems"][:1]:
            key = "C08:" + p["kind"]
            if key in seen:
                continue
            seen.add(key)
            # shrink: keep only the requests the problem talks about (plus, for collisions, all requests on that socket pair)
            e = r["exp"]
            small = dict(e)
            if "req" in p:
                small["reqs"] = [dict(e["reqs"][p["req"]], free=[])]      # frees name other requests by index: dropped with them
                with c09.quiet():
                    logging.disable(logging.CRITICAL)
                    rr = run_experiment(env, small)
                    logging.disable(logging.NOTSET)
                if not (rr and any(x["kind"] == p["kind"] for x in rr["problems"])):
                    small = e
            ctx.obligation("oracle %s" % key, False, p["what"])
            if ctx.report(key, p["what"], {"experiment": small, "note": "requests are issued through netqasm.sdk in list order; c = creator node, r = receiver node, "
                                           "ls/rs = local/remote EPR socket id"}, found_input=True):
                found = True
            else:
                ctx.broken_explained_by_known = True
    ctx.obligation("oracle: a delivery into an occupied virtual address stays pending until the address is freed; requests handled meanwhile and the pending one "
                   "all end as isolated |Phi+> pairs at the right addresses (3 variants x 3 configuration orders); one socket id towards two neighbours, one request at a time (3 orders); a second application on the creator's node starting and stopping between requests", not occ,
                   occ[0][3][0]["what"] if occ else "")
    for variant, order, pb, ps in occ[:1]:
        key = "C08:occupied-address-" + ps[0]["kind"]
        seen.add(key)
        if ctx.report(key, ps[0]["what"], {"experiment": "occupied_address_experiment", "variant": variant, "configuration_order": order, "over_real_PB": pb,
                                           "problems": ps}, found_input=True):
            found = True
        else:
            ctx.broken_explained_by_known = True
    if wrong_sender is not None:
        key = "C08:shared-socket-id-other-sender-first"
        seen.add(key)
        ctx.obligation("oracle %s" % key, False, wrong_sender)
        if ctx.report(key, wrong_sender, {"experiment": "shared_socket_wrong_sender_first", "configuration_order": ["Na", "Nb", "Nc"],
                                          "script": "R opens socket 0 -> A and socket 0 -> B (remote socket ids 0); R: recv_keep(1) from A; B: create_keep(1) with R; "
                                                    "then A: create_keep(1) with R; R's request never completes"}, found_input=True):
            found = True
        else:
            ctx.broken_explained_by_known = True
    if not (seen - {"C08:seq-collision-opposite-directions", "C08:shared-socket-id-other-sender-first"}):
        ctx.obligation("oracle: pairing, |Phi+> state, measure-directly outcomes, per-direction sequence numbers, halves survive the creator's stop", True)
    # ---- measure-directly pairs: model = implementation, message by message -----------------------------------------------------------------
    md_found = [(r, F.judge(r)) for r in md_runs]
    md_found = [(r, ps) for r, ps in md_found if ps]
    ctx.obligation("oracle (measure-directly, one pair, forced bases): every message completes without error and nothing is left on any node (%d scenarios, "
                   "all nine pairs of bases)" % len(md_runs),
                   not md_found and (hung or all(ctx.coverage.get("md_pair_bases_" + a + b) for a in "ZXY" for b in "ZXY")),
                   "%s -- %s" % (md_found[0][1][0]["what"], F.describe(md_found[0][0]["sc"])) if md_found else "")
    for r, ps in md_found[:1]:
        if ctx.report("C08:md-" + ps[0]["kind"], "%s -- %s" % (ps[0]["what"], F.describe(r["sc"])), F.replay_obj(r), found_input=True):
            found = True
        else:
            ctx.broken_explained_by_known = True
    bad_md = F.correspond(ctx, md_runs) if md_runs else []
    if bad_md and not found and not (seen - {"C08:seq-collision-opposite-directions"}):
        r, i = bad_md[0]
        if ctx.report("correspondence:C08-measure-directly", "the model of a measure-directly pair (EprGate.cmd_epr_measure inside TeardownNet.nstep_r: native calls "
                      "with basis rotations and coins, deques, both ReturnArray records) and the implementation disagree (the oracles are satisfied)",
                      dict(F.replay_obj(r), first_disagreeing_message=i), found_input=False):
            found = True
    # (the end-to-end half of C12 runs under ./check C12, see props/c12.py)
    if not agree and not found and not (seen - {"C08:shared-socket-id-other-sender-first"}):
        ctx.report("correspondence:C08", "keyed sequence/FIFO model and implementation disagree", {"broken": ctx.broken()}, found_input=False)
