(* Correspondence cases for the stabilizer layer: the harness writes lists of these (inputs together with
   what the implementation returned) and Coq decides agreement with the model by vm_compute. *)
From Coq Require Import List Bool Arith.
From SQ Require Import Base.ListUtil Stab.Pauli Stab.Kernels Stab.Tableau.
Import ListNotations.

Inductive scase :=
| CGate1 (g : gate1) (n p : nat) (tin tout : tab)
| CGate2 (g : gate2) (n c t' : nat) (tin tout : tab)
| CTensor (n1 : nat) (t1 : tab) (n2 : nat) (t2 : tab) (tout : tab)
| CAddQ (n : nat) (tin tout : tab)
| CGauss (n : nat) (tin tout : tab)
| CEq (n1 : nat) (t1 : tab) (n2 : nat) (t2 : tab) (res : bool)
| CContains (n : nat) (tin : tab) (g : row) (res : bool)
| CMul (n : nat) (a b out : row)
| CMeasure (n p : nat) (inplace coin : bool) (tin : tab) (outcome : bool) (nout : nat) (tout : tab).

Definition check_case (c : scase) : bool :=
  match c with
  | CGate1 g n p tin tout => tab_eqb (tab_gate1 g n p tin) tout
  | CGate2 g n c t' tin tout => tab_eqb (tab_gate2 g n c t' tin) tout
  | CTensor n1 t1 n2 t2 tout => tab_eqb (tensor n1 t1 n2 t2) tout
  | CAddQ n tin tout => tab_eqb (add_qubit n tin) tout
  | CGauss n tin tout => tab_eqb (gauss n tin) tout
  | CEq n1 t1 n2 t2 res => Bool.eqb (teq n1 t1 n2 t2) res
  | CContains n tin g res => Bool.eqb (contains n tin g) res
  | CMul n a b out => row_eqb (mul_rows n a b) out
  | CMeasure n p inplace coin tin outcome nout tout =>
      let '(o, n', t') := measure n p inplace coin tin in
      Bool.eqb o outcome && Nat.eqb n' nout && tab_eqb t' tout
  end.

Definition failing_cases (l : list scase) : list nat := failing (map check_case l).
