(* C18 over all histories of Model P: the synchronisation invariant of single-writer histories and the three
   clauses (a written setting is what a later process reads / reset restores the defaults / user precedence). *)
From Coq Require Import List String ZArith Bool Arith Lia.
From SQ Require Import Base.ListUtil Settings.Model Settings.Facts.
Import ListNotations.
Local Open Scope string_scope.

Lemma lmem_map_cache ps q : lmem q (map fst ps) = true -> cache_of ps q <> None.
Proof. intros H E. apply cache_of_none_notin in E. congruence. Qed.

Lemma live_in_others ps p q c : cache_of ps q = Some c -> q <> p -> lmem q (others ps p) = true.
Proof.
  intros H Hne. unfold others. rewrite lmem_lremove.
  destruct (lmem q (map fst ps)) eqn:E.
  - destruct (Nat.eqb_spec q p); simpl; congruence.
  - exfalso. revert E. clear Hne. unfold lmem. induction ps as [|[r c0] t IH]; simpl in *; [discriminate|].
    destruct (Nat.eqb_spec r q) as [->|Hne].
    + rewrite Nat.eqb_refl. discriminate.
    + intros E. apply orb_false_iff in E as [_ E]. auto.
Qed.

Lemma others_live ps p q : lmem q (others ps p) = true -> cache_of ps q <> None /\ q <> p.
Proof.
  intros H. split; [|eapply lmem_others; eauto].
  unfold others in H. rewrite lmem_lremove in H. apply andb_true_iff in H as [H _].
  apply lmem_map_cache; auto.
Qed.

Lemma opt_or_none {A} (a : option A) : match a with Some v => Some v | None => None end = a.
Proof. destruct a; auto. Qed.

Section WithDefault.
Variable dflt : dict.
Hypothesis dflt_wf : wf dflt.

Notation step := (step dflt).
Notation run := (run dflt).
Notation eff_store := (eff_store dflt).
Notation load := (load dflt).
Notation WF := (WF dflt).
Notation Sync := (Sync dflt).
Notation disciplined := (disciplined dflt).
Notation fresh_read := (fresh_read dflt).
Notation overrides_enabled := (overrides_enabled dflt).

Lemma user_has_false s k : user_has s k = false ->
  match user s with Some ud => lookup ud k | None => None end = None.
Proof. unfold user_has. destruct (user s) as [ud|]; auto. destruct (lookup ud k); auto. discriminate. Qed.

(* the store layer seen through a state *)
Lemma eff_store_def s k :
  eff_store s k = match store s with
                  | Some sd => match lookup sd k with Some v => Some v | None => lookup dflt k end
                  | None => lookup dflt k end.
Proof. reflexivity. Qed.

(* ---------- one step preserves Sync on single-writer steps -------------------------------------------------- *)
Lemma Sync_step s o : WF s -> Sync s -> op_ok s o = true -> Sync (step s o).
Proof.
  intros HW [Hf Hk Hl] Hok. destruct HW as [Hu Hs Hc Hd Hn].
  destruct o as [p|p k0 v|p|p|p]; simpl in *.
  - (* Spawn *)
    pose proof (load_store_layer dflt dflt_wf (store s) (user s) [] Hs) as LS.
    pose proof (fun k => load_cache_layer dflt dflt_wf (store s) (user s) [] k Hs Hu) as LC.
    destruct (load (store s) (user s) []) as [c st'] eqn:EL. simpl in *.
    assert (EE : forall k, Model.eff_store dflt {| store := st'; user := user s; procs := pset (procs s) p c;
                                                   stale := lremove (stale s) p |} k = eff_store s k).
    { intros k. unfold Model.eff_store; simpl. rewrite LS. destruct (store s); auto. apply opt_or_none. }
    assert (EC : forall k, user_has s k = false -> lookup c k = eff_store s k).
    { intros k Uk. rewrite (LC k (user_has_false s k Uk)). unfold Model.eff_store.
      destruct (store s) as [sd|]; simpl.
      - destruct (lookup sd k); auto. apply opt_or_none.
      - apply opt_or_none. }
    constructor; simpl.
    + intros q c'. rewrite cache_of_pset, lmem_lremove. unfold user_has; simpl. fold (user_has s).
      destruct (Nat.eqb_spec p q) as [->|Hne].
      * intros E _ k Uk. injection E as <-. rewrite EE. apply EC; auto.
      * intros E Hst k Uk. rewrite EE. apply (Hf q c'); auto.
        destruct (Nat.eqb_spec q p); [congruence|]. rewrite andb_true_r in Hst; auto.
    + intros q c'. rewrite cache_of_pset. unfold user_has; simpl. fold (user_has s).
      destruct (Nat.eqb_spec p q) as [->|Hne].
      * intros E k Uk. injection E as <-. rewrite EE, EC; auto.
      * intros E k Uk. rewrite EE. apply (Hk q c'); auto.
    + intros q. rewrite lmem_lremove, cache_of_pset. intros H. apply andb_true_iff in H as [H1 H2].
      destruct (Nat.eqb_spec p q) as [->|Hne]; [discriminate|]. apply Hl; auto.
  - (* SetK *)
    destruct (cache_of (procs s) p) as [c0|] eqn:Ep; [|constructor; auto].
    apply negb_true_iff in Hok.
    assert (EE : forall k, Model.eff_store dflt {| store := Some (set c0 k0 v); user := user s;
                    procs := pset (procs s) p (set c0 k0 v); stale := others (procs s) p |} k =
                   match lookup (set c0 k0 v) k with Some x => Some x | None => lookup dflt k end) by reflexivity.
    constructor; simpl.
    + intros q c'. rewrite cache_of_pset. unfold user_has; simpl. fold (user_has s).
      destruct (Nat.eqb_spec p q) as [->|Hne].
      * intros E _ k Uk. injection E as <-. rewrite EE.
        destruct (lookup (set c0 k0 v) k) eqn:E1; auto.
        destruct (lookup dflt k) eqn:E2; auto. exfalso.
        apply (lookup_set_keeps c0 k0 v k); auto. apply (Hd q c0 k Ep). congruence.
      * intros E Hst. rewrite (live_in_others _ p q c' E) in Hst by auto. discriminate.
    + intros q c'. rewrite cache_of_pset. unfold user_has; simpl. fold (user_has s).
      destruct (Nat.eqb_spec p q) as [->|Hne].
      * intros E k Uk Hne. injection E as <-. rewrite EE. destruct (lookup (set c0 k0 v) k); congruence.
      * intros E k Uk Hne'. rewrite EE.
        assert (G : lookup c0 k <> None).
        { rewrite (Hf p c0 Ep Hok k Uk). apply (Hk q c'); auto. }
        apply (lookup_set_keeps c0 k0 v k) in G. destruct (lookup (set c0 k0 v) k); congruence.
    + intros q H. apply others_live in H as [H1 H2]. rewrite cache_of_pset.
      destruct (Nat.eqb_spec p q); [congruence|auto].
  - (* Reset *)
    destruct (cache_of (procs s) p) as [c0|] eqn:Ep; [|constructor; auto].
    apply negb_true_iff in Hok.
    assert (EE : forall k, Model.eff_store dflt {| store := Some (update c0 dflt); user := user s;
                    procs := pset (procs s) p (update c0 dflt); stale := others (procs s) p |} k =
                   match lookup (update c0 dflt) k with Some x => Some x | None => lookup dflt k end) by reflexivity.
    constructor; simpl.
    + intros q c'. rewrite cache_of_pset. unfold user_has; simpl. fold (user_has s).
      destruct (Nat.eqb_spec p q) as [->|Hne].
      * intros E _ k Uk. injection E as <-. rewrite EE.
        destruct (lookup (update c0 dflt) k) eqn:E1; auto.
        rewrite lookup_update in E1 by auto. destruct (lookup dflt k); congruence.
      * intros E Hst. rewrite (live_in_others _ p q c' E) in Hst by auto. discriminate.
    + intros q c'. rewrite cache_of_pset. unfold user_has; simpl. fold (user_has s).
      destruct (Nat.eqb_spec p q) as [->|Hne].
      * intros E k Uk Hne. injection E as <-. rewrite EE. destruct (lookup (update c0 dflt) k); congruence.
      * intros E k Uk Hne'. rewrite EE.
        assert (G : lookup c0 k <> None).
        { rewrite (Hf p c0 Ep Hok k Uk). apply (Hk q c'); auto. }
        apply (lookup_update_keeps c0 dflt k) in G. destruct (lookup (update c0 dflt) k); congruence.
    + intros q H. apply others_live in H as [H1 H2]. rewrite cache_of_pset.
      destruct (Nat.eqb_spec p q); [congruence|auto].
  - (* Reload *)
    destruct (cache_of (procs s) p) as [c0|] eqn:Ep; [|constructor; auto].
    destruct (store s) as [sd|] eqn:Est; [|rewrite (Hn eq_refl) in Ep; discriminate].
    pose proof (fun k => load_cache_layer dflt dflt_wf (Some sd) (user s) c0 k Hs Hu) as LC.
    unfold Model.load in *. simpl in *.
    set (c := merge_user (user s) (update (update c0 dflt) sd)) in *.
    assert (EE : forall k, Model.eff_store dflt {| store := Some sd; user := user s; procs := pset (procs s) p c;
                                                   stale := lremove (stale s) p |} k = eff_store s k).
    { intros k. unfold Model.eff_store; simpl. rewrite Est. reflexivity. }
    assert (EC : forall k, user_has s k = false -> lookup c k = eff_store s k).
    { intros k Uk. rewrite (LC k (user_has_false s k Uk)). unfold Model.eff_store. rewrite Est.
      destruct (lookup sd k) eqn:E1; auto. destruct (lookup dflt k) eqn:E2; auto.
      destruct (lookup c0 k) eqn:E3; auto. exfalso.
      apply (Hk p c0 Ep k Uk); [congruence|]. unfold Model.eff_store. rewrite Est, E1, E2. reflexivity. }
    constructor; simpl.
    + intros q c'. rewrite cache_of_pset, lmem_lremove. unfold user_has; simpl. fold (user_has s).
      destruct (Nat.eqb_spec p q) as [->|Hne].
      * intros E _ k Uk. injection E as <-. rewrite EE. apply EC; auto.
      * intros E Hst k Uk. rewrite EE. apply (Hf q c'); auto.
        destruct (Nat.eqb_spec q p); [congruence|]. rewrite andb_true_r in Hst; auto.
    + intros q c'. rewrite cache_of_pset. unfold user_has; simpl. fold (user_has s).
      destruct (Nat.eqb_spec p q) as [->|Hne].
      * intros E k Uk. injection E as <-. rewrite EE, EC; auto.
      * intros E k Uk. rewrite EE. apply (Hk q c'); auto.
    + intros q. rewrite lmem_lremove, cache_of_pset. intros H. apply andb_true_iff in H as [H1 H2].
      destruct (Nat.eqb_spec p q) as [->|Hne]; [discriminate|]. apply Hl; auto.
  - (* Exit *)
    constructor; simpl.
    + intros q c'. rewrite cache_of_premove, lmem_lremove.
      destruct (Nat.eqb_spec p q) as [->|Hne]; [discriminate|].
      intros E Hst k Uk. apply (Hf q c'); auto.
      destruct (Nat.eqb_spec q p); [congruence|]. rewrite andb_true_r in Hst; auto.
    + intros q c'. rewrite cache_of_premove.
      destruct (Nat.eqb_spec p q) as [->|Hne]; [discriminate|]. intros E k Uk. apply (Hk q c'); auto.
    + intros q. rewrite lmem_lremove, cache_of_premove. intros H. apply andb_true_iff in H as [H1 H2].
      destruct (Nat.eqb_spec p q) as [->|Hne]; [rewrite Nat.eqb_refl in H2; discriminate|]. apply Hl; auto.
Qed.

(* ---------- the store layer is stable under operations that do not write k ---------------------------------- *)
Lemma eff_store_step s o k : WF s -> Sync s -> op_ok s o = true -> writes_key k o = false ->
  user_has s k = false -> eff_store (step s o) k = eff_store s k.
Proof.
  intros HW [Hf Hk Hl] Hok Hwk Uk. destruct HW as [Hu Hs Hc Hd Hn].
  destruct o as [p|p k0 v|p|p|p]; simpl in *; try discriminate; auto.
  - pose proof (load_store_layer dflt dflt_wf (store s) (user s) [] Hs k) as LS.
    destruct (load (store s) (user s) []) as [c st'] eqn:EL. simpl in *.
    unfold Model.eff_store; simpl. rewrite LS. destruct (store s); auto. apply opt_or_none.
  - destruct (cache_of (procs s) p) as [c0|] eqn:Ep; auto.
    apply negb_true_iff in Hok.
    unfold Model.eff_store at 1; simpl. rewrite lookup_set. rewrite Hwk.
    rewrite (Hf p c0 Ep Hok k Uk).
    destruct (eff_store s k) eqn:E; auto. eapply eff_store_none_dflt; eauto.
  - destruct (cache_of (procs s) p) as [c0|] eqn:Ep; auto.
    destruct (store s) as [sd|] eqn:Est; [|rewrite (Hn eq_refl) in Ep; discriminate].
    unfold Model.load; simpl. unfold Model.eff_store; simpl. rewrite Est. reflexivity.
Qed.

Lemma disciplined_app s a b :
  disciplined s (a ++ b) = disciplined s a && disciplined (run s a) b.
Proof.
  unfold Model.run. revert s. induction a as [|o t IH]; intros s; simpl; auto.
  rewrite IH, andb_assoc. reflexivity.
Qed.

Lemma run_app s a b : run s (a ++ b) = run (run s a) b.
Proof. unfold Model.run. apply fold_left_app. Qed.

Lemma Sync_run s ops : WF s -> Sync s -> disciplined s ops = true -> Sync (run s ops).
Proof.
  unfold Model.run. revert s. induction ops as [|o t IH]; intros s HW HS Hd; simpl in *; auto.
  apply andb_true_iff in Hd as [H1 H2]. apply IH; auto using WF_step, Sync_step.
Qed.

Lemma Sync_init st u : Sync (init st u).
Proof. constructor; simpl; intros; discriminate. Qed.

Lemma eff_store_run s ops k : WF s -> Sync s -> disciplined s ops = true ->
  forallb (fun o => negb (writes_key k o)) ops = true -> user_has s k = false ->
  eff_store (run s ops) k = eff_store s k.
Proof.
  unfold Model.run. revert s. induction ops as [|o t IH]; intros s HW HS Hd Hw Uk; simpl in *; auto.
  apply andb_true_iff in Hd as [H1 H2]. apply andb_true_iff in Hw as [W1 W2].
  apply negb_true_iff in W1.
  rewrite IH; auto using WF_step, Sync_step.
  - apply eff_store_step; auto.
  - rewrite user_has_step; auto.
Qed.

(* ---------- what a process started now reads ------------------------------------------------------------------ *)
Lemma fresh_read_spec s k : WF s ->
  fresh_read s k =
  if overrides_enabled s
  then match user s with
       | Some ud => match lookup ud k with Some v => Some v | None => eff_store s k end
       | None => eff_store s k
       end
  else eff_store s k.
Proof.
  intros [Hu Hs Hc Hd Hn]. unfold Model.fresh_read, Model.load, Model.overrides_enabled.
  assert (E0 : forall k', lookup (update [] dflt) k' = lookup dflt k').
  { intros k'. rewrite lookup_update by auto. apply opt_or_none. }
  destruct (store s) as [sd|] eqn:Est; simpl.
  - assert (E1 : forall k', lookup (update (update [] dflt) sd) k' = eff_store s k').
    { intros k'. rewrite lookup_update by auto. unfold Model.eff_store. rewrite Est, E0. reflexivity. }
    rewrite lookup_merge_user by auto. unfold enabled. rewrite !E1. reflexivity.
  - assert (E1 : forall k', lookup (update [] dflt) k' = eff_store s k').
    { intros k'. unfold Model.eff_store. rewrite Est. apply E0. }
    rewrite lookup_merge_user by auto. unfold enabled. rewrite !E1. reflexivity.
Qed.

(* fresh_read is literally the cache of a process spawned now *)
Lemma spawn_cache s q :
  cache_of (procs (step s (Spawn q))) q = Some (fst (load (store s) (user s) [])).
Proof.
  simpl. destruct (load (store s) (user s) []) as [c st]; simpl.
  rewrite cache_of_pset, Nat.eqb_refl. reflexivity.
Qed.

Lemma fresh_read_no_user s k v : WF s -> user_has s k = false -> eff_store s k = Some v -> fresh_read s k = Some v.
Proof.
  intros HW Uk E. rewrite fresh_read_spec by auto. apply user_has_false in Uk.
  destruct (overrides_enabled s); auto. destruct (user s); auto. rewrite Uk. auto.
Qed.

(* ---------- clause 1: a written setting is what any process started later reads ----------------------------- *)
Lemma set_then_spawn_lemma : forall st0 u h1 p k v h2,
  optwf st0 -> optwf u ->
  let s0 := run (init st0 u) h1 in
  disciplined (init st0 u) (h1 ++ SetK p k v :: h2) = true ->
  cache_of (procs s0) p <> None ->                                   (* p is a live process *)
  forallb (fun o => negb (writes_key k o)) h2 = true ->              (* nobody overwrites k or resets afterwards *)
  user_has s0 k = false ->                                           (* "unless the user's override file sets that key" *)
  let s2 := run s0 (SetK p k v :: h2) in
  fresh_read s2 k = Some v /\
  forall q, exists c, cache_of (procs (step s2 (Spawn q))) q = Some c /\ lookup c k = Some v.
Proof.
  intros st0 u h1 p k v h2 Hst Hu s0 Hd Hp Hw Uk s2.
  rewrite disciplined_app in Hd. apply andb_true_iff in Hd as [D1 D2].
  assert (W0 : WF s0) by (apply WF_run, WF_init; auto).
  assert (S0 : Sync s0) by (apply Sync_run; auto using WF_init, Sync_init).
  fold s0 in D2. simpl in D2. apply andb_true_iff in D2 as [D2 D3].
  set (s1 := step s0 (SetK p k v)) in *.
  assert (W1 : WF s1) by (apply WF_step; auto).
  assert (S1 : Sync s1) by (apply Sync_step; auto).
  assert (E1 : eff_store s1 k = Some v).
  { unfold s1; simpl. destruct (cache_of (procs s0) p) as [c0|]; [|congruence].
    unfold Model.eff_store; simpl. rewrite lookup_set, String.eqb_refl. reflexivity. }
  assert (U1 : user_has s1 k = false) by (unfold s1; rewrite user_has_step; auto).
  assert (E2 : eff_store s2 k = Some v).
  { unfold s2. change (run s0 (SetK p k v :: h2)) with (run s1 h2). rewrite eff_store_run; auto. }
  assert (W2 : WF s2) by (apply WF_run; auto).
  assert (U2 : user_has s2 k = false).
  { unfold user_has, s2. rewrite user_run. exact Uk. }
  assert (R : fresh_read s2 k = Some v) by (apply fresh_read_no_user; auto).
  split; auto. intros q. eexists. split; [apply spawn_cache|exact R].
Qed.

(* ---------- clause 2: resetting restores every documented default in the store ---------------------------------- *)
Lemma reset_defaults_lemma : forall st0 u h p,
  let s := run (init st0 u) h in
  cache_of (procs s) p <> None ->
  exists sd, store (step s (Reset p)) = Some sd /\
             forall k d, lookup dflt k = Some d -> lookup sd k = Some d.
Proof.
  intros st0 u h p s Hp. simpl. destruct (cache_of (procs s) p) as [c0|]; [|congruence].
  eexists; split; [reflexivity|]. intros k d E. rewrite lookup_update by auto. rewrite E. reflexivity.
Qed.

(* ... and, in single-writer histories, every process started later reads the default until someone writes the key *)
Lemma reset_then_spawn_lemma : forall st0 u h1 p k d h2,
  optwf st0 -> optwf u ->
  let s0 := run (init st0 u) h1 in
  disciplined (init st0 u) (h1 ++ Reset p :: h2) = true ->
  cache_of (procs s0) p <> None ->
  lookup dflt k = Some d ->
  forallb (fun o => negb (writes_key k o)) h2 = true ->
  user_has s0 k = false ->
  fresh_read (run s0 (Reset p :: h2)) k = Some d.
Proof.
  intros st0 u h1 p k d h2 Hst Hu s0 Hd Hp Ed Hw Uk.
  rewrite disciplined_app in Hd. apply andb_true_iff in Hd as [D1 D2].
  assert (W0 : WF s0) by (apply WF_run, WF_init; auto).
  assert (S0 : Sync s0) by (apply Sync_run; auto using WF_init, Sync_init).
  fold s0 in D2. simpl in D2. apply andb_true_iff in D2 as [D2 D3].
  set (s1 := step s0 (Reset p)) in *.
  assert (W1 : WF s1) by (apply WF_step; auto).
  assert (S1 : Sync s1) by (apply Sync_step; auto).
  assert (E1 : eff_store s1 k = Some d).
  { unfold s1; simpl. destruct (cache_of (procs s0) p) as [c0|]; [|congruence].
    unfold Model.eff_store; simpl. rewrite lookup_update by auto. rewrite Ed. reflexivity. }
  assert (U1 : user_has s1 k = false) by (unfold s1; rewrite user_has_step; auto).
  change (run s0 (Reset p :: h2)) with (run s1 h2).
  apply fresh_read_no_user.
  - apply WF_run; auto.
  - unfold user_has. rewrite user_run. exact U1.
  - rewrite eff_store_run; auto.
Qed.

(* ---------- clause 3: keys of the user's file take precedence whenever overrides are enabled (ALL histories) ---- *)
Lemma user_precedence_lemma : forall st0 u h ud k v,
  optwf st0 -> optwf u ->
  let s := run (init st0 u) h in
  overrides_enabled s = true ->
  u = Some ud -> lookup ud k = Some v ->
  fresh_read s k = Some v /\
  forall q, exists c, cache_of (procs (step s (Spawn q))) q = Some c /\ lookup c k = Some v.
Proof.
  intros st0 u h ud k v Hst Hu s He Eu Ek.
  assert (W : WF s) by (apply WF_run, WF_init; auto).
  assert (R : fresh_read s k = Some v).
  { rewrite fresh_read_spec by auto. rewrite He. unfold s. rewrite user_run. simpl. rewrite Eu, Ek. reflexivity. }
  split; auto. intros q. eexists. split; [apply spawn_cache|exact R].
Qed.

(* with overrides disabled the user's file is not consulted *)
Lemma user_ignored_lemma : forall st0 u h k,
  optwf st0 -> optwf u ->
  let s := run (init st0 u) h in
  overrides_enabled s = false -> fresh_read s k = eff_store s k.
Proof.
  intros st0 u h k Hst Hu s He.
  rewrite fresh_read_spec by (apply WF_run, WF_init; auto). rewrite He. reflexivity.
Qed.
End WithDefault.
