(* Bridge between the Pauli-group view (gen / gprod / independent) and the GF(2) view (lin / inspan / lindep) of a
   tableau; canonical form of the elements of a commuting generated group; uniqueness of signs. *)
From Coq Require Import List Bool Arith Lia.
From SQ Require Import Base.ListUtil Stab.Pauli Stab.Kernels Stab.Gates Stab.Tableau Stab.Group Stab.GroupGates
  Stab.MulProof Stab.GaussProof Stab.MeasureProof Stab.F2 Stab.Rref Stab.GaussIndep.
Import ListNotations.

(* bit j (< 2n) of a Pauli string in binary symplectic form: X bits, then Z bits *)
Definition pbit (n : nat) (l : list pauli) (j : nat) : bool :=
  if Nat.ltb j n then xbit (nth j l PI) else zbit (nth (j - n) l PI).

Lemma pbit_decode n r j : j < 2 * n -> pbit n (snd (decode n r)) j = get r j.
Proof.
  intro H. unfold pbit, decode. cbn [snd]. destruct (Nat.ltb_spec j n).
  - rewrite nth_map_seq by auto. unfold pauli_at. apply xbit_pauli_of.
  - rewrite nth_map_seq by lia. unfold pauli_at. rewrite zbit_pauli_of. f_equal. lia.
Qed.

Lemma bits_pmul1 x y : xbit (snd (pmul1 x y)) = xorb (xbit x) (xbit y) /\ zbit (snd (pmul1 x y)) = xorb (zbit x) (zbit y).
Proof. destruct x, y; split; reflexivity. Qed.

Lemma pbit_pmul n a b j : length a = length b ->
  pbit n (snd (pmul_l a b)) j = xorb (pbit n a j) (pbit n b j).
Proof.
  intro H. unfold pbit. destruct (Nat.ltb j n); rewrite nth_pmul_l by auto; apply bits_pmul1.
Qed.

Lemma pbit_one n k j : pbit n (repeat PI k) j = false.
Proof. unfold pbit. destruct (Nat.ltb j n); rewrite nth_repeat_PI; reflexivity. Qed.

Lemma pbit_gprod n : forall t sel j, j < 2 * n -> pbit n (snd (gprod n sel t)) j = lin sel t j.
Proof.
  induction t as [|r t IH]; intros sel j Hj.
  - destruct sel; cbn [gprod lin]; unfold pone; cbn [snd]; rewrite pbit_one; reflexivity.
  - destruct sel as [|s sel]; [cbn [gprod lin]; unfold pone; cbn [snd]; apply pbit_one|].
    cbn [gprod lin]. destruct s; cbn [andb].
    + unfold pmul; cbn [snd]. rewrite pbit_pmul by (rewrite decode_ph_length, gprod_length; reflexivity).
      rewrite IH by auto. unfold decode_ph, lift; cbn [snd]. rewrite pbit_decode by auto. reflexivity.
    + rewrite IH by auto. rewrite xorb_false_l. reflexivity.
Qed.

Lemma pauli_bits_ext x y : xbit x = xbit y -> zbit x = zbit y -> x = y.
Proof. destruct x, y; simpl; intros; try discriminate; reflexivity. Qed.

Lemma pbit_ext n a b : length a = n -> length b = n -> (forall j, j < 2 * n -> pbit n a j = pbit n b j) -> a = b.
Proof.
  intros La Lb H. apply (nth_ext a b PI PI); [congruence|]. intros i Hi. rewrite La in Hi.
  apply pauli_bits_ext.
  - specialize (H i ltac:(lia)). unfold pbit in H. destruct (Nat.ltb_spec i n); [auto|lia].
  - specialize (H (i + n) ltac:(lia)). unfold pbit in H. destruct (Nat.ltb_spec (i + n) n); [lia|].
    replace (i + n - n) with i in H by lia. auto.
Qed.

Theorem independent_lindep n t : independent n t <-> lindep (2 * n) t.
Proof.
  split; intros H sel HL E.
  - apply H; auto. apply (pbit_ext n); [apply gprod_length | apply (repeat_length PI n) |].
    intros j Hj. rewrite pbit_gprod, pbit_one by auto. auto.
  - apply H; auto. intros j Hj. rewrite <- (pbit_gprod n) by auto. rewrite E. apply pbit_one.
Qed.

Theorem gauss_independent n t : independent n t -> independent n (gauss n t).
Proof. rewrite !independent_lindep. apply gauss_lindep. Qed.

(* ---------- canonical form of group elements ---------------------------------------------------------------- *)
Lemma gprod_false n : forall t k, gprod n (repeat false k) t = pone n.
Proof. induction t as [|r t IH]; intros [|k]; cbn [repeat gprod]; auto. Qed.

Lemma gprod_row n : forall t r, In r t -> exists sel, length sel = length t /\ gprod n sel t = decode_ph n r.
Proof.
  induction t as [|x t IH]; intros r Hr; [destruct Hr|]. destruct Hr as [->|Hr].
  - exists (true :: repeat false (length t)). split; [simpl; rewrite repeat_length; reflexivity|].
    cbn [gprod]. rewrite gprod_false. apply pmul_one_r. apply decode_ph_length.
  - destruct (IH r Hr) as (sel & HL & E). exists (false :: sel). split; [simpl; lia|]. exact E.
Qed.

Lemma gen_tail n r t x : gen n t x -> gen n (r :: t) x.
Proof. revert x. apply gen_incl. intros r' Hr. apply gen_row. right; auto. Qed.

Lemma gprod_in_gen n t : forall sel, gen n t (gprod n sel t).
Proof.
  induction t as [|r t IH]; intros [|s sel]; cbn [gprod]; try apply gen_one.
  destruct s; [apply gen_mul; [apply gen_row; left; auto|]|]; apply gen_tail, IH.
Qed.

Lemma gprod_mul n : forall t s1 s2, commuting n t -> length s1 = length t -> length s2 = length t ->
  pmul (gprod n s1 t) (gprod n s2 t) = gprod n (selx s1 s2) t.
Proof.
  induction t as [|r t IH]; intros s1 s2 Hc L1 L2.
  - destruct s1, s2; cbn [gprod selx]; apply pmul_one_l; apply repeat_length.
  - destruct s1 as [|a s1], s2 as [|b s2]; simpl in L1, L2; try discriminate.
    assert (Ct : commuting n t) by (intros x y Hx Hy; apply Hc; right; auto).
    specialize (IH s1 s2 Ct ltac:(lia) ltac:(lia)).
    cbn [gprod selx].
    set (D := decode_ph n r) in *. set (P1 := gprod n s1 t) in *. set (P2 := gprod n s2 t) in *.
    assert (LD : length (snd D) = n) by apply decode_ph_length.
    assert (LP1 : length (snd P1) = n) by apply gprod_length.
    assert (LP2 : length (snd P2) = n) by apply gprod_length.
    assert (RD : ph_odd (fst D) = false) by apply decode_ph_real.
    assert (CD : pmul P1 D = pmul D P1).
    { apply pmul_comm. apply (gen_commute n (r :: t)); auto.
      - apply gen_tail. apply gprod_in_gen.
      - apply gen_row. left; auto. }
    destruct a, b; cbn [xorb].
    + (* (D P1)(D P2) = P1 P2 *)
      rewrite <- IH. rewrite (pmul_assoc D P1) by (rewrite ?(pmul_length n); congruence).
      rewrite <- (pmul_assoc P1 D P2) by congruence. rewrite CD. rewrite (pmul_assoc D P1 P2) by congruence.
      rewrite <- (pmul_assoc D D) by (rewrite ?(pmul_length n); congruence).
      rewrite pmul_self by auto. rewrite LD. apply pmul_one_l. apply pmul_length; auto.
    + rewrite <- IH. apply pmul_assoc; congruence.
    + rewrite <- IH. rewrite <- pmul_assoc by congruence. rewrite CD. apply pmul_assoc; congruence.
    + exact IH.
Qed.

(* every element of the group generated by commuting rows is the ordered product of a selection of rows *)
Theorem gen_gprod n t : commuting n t -> forall g, gen n t g -> exists sel, length sel = length t /\ g = gprod n sel t.
Proof.
  intros Hc g G. induction G as [|r Hr|a b Ga IHa Gb IHb].
  - exists (repeat false (length t)). split; [apply repeat_length|]. symmetry. apply gprod_false.
  - destruct (gprod_row n t r Hr) as (sel & HL & E). exists sel. auto.
  - destruct IHa as (s1 & L1 & ->), IHb as (s2 & L2 & ->). exists (selx s1 s2). split.
    + rewrite selx_length; lia.
    + apply gprod_mul; auto.
Qed.

Lemma selx_false_eq : forall s1 s2, length s1 = length s2 -> forallb negb (selx s1 s2) = true -> s1 = s2.
Proof.
  induction s1 as [|a s1 IH]; intros [|b s2] HL H; simpl in *; try discriminate; auto.
  apply andb_true_iff in H. destruct H as [H1 H2]. f_equal; [destruct a, b; simpl in *; auto; discriminate|].
  apply IH; auto.
Qed.

(* a group generated by commuting independent rows contains at most one of +g, -g (in fact one of i^k g) *)
Theorem gen_sign_unique n t : commuting n t -> independent n t ->
  forall g g', gen n t g -> gen n t g' -> snd g = snd g' -> g = g'.
Proof.
  intros Hc Hi g g' G G' E.
  destruct (gen_gprod n t Hc g G) as (s1 & L1 & ->). destruct (gen_gprod n t Hc g' G') as (s2 & L2 & ->).
  assert (X : snd (gprod n (selx s1 s2) t) = repeat PI n).
  { rewrite <- gprod_mul by auto. unfold pmul; cbn [snd]. rewrite E, pmul_l_self. cbn [snd]. rewrite gprod_length. reflexivity. }
  apply Hi in X; [|rewrite selx_length; lia]. apply selx_false_eq in X; [|lia]. subst. reflexivity.
Qed.

Corollary gen_no_minus_one n t : commuting n t -> independent n t -> ~ gen n t (P2, repeat PI n).
Proof.
  intros Hc Hi G. pose proof (gen_sign_unique n t Hc Hi _ _ G (gen_one n t) eq_refl) as E. discriminate E.
Qed.

(* span of the rows = Pauli parts of the generated group *)
Lemma gen_inspan n t g : commuting n t -> gen n t g -> inspan (2 * n) t (pbit n (snd g)).
Proof.
  intros Hc G. destruct (gen_gprod n t Hc g G) as (sel & HL & ->). exists sel. split; auto.
  intros j Hj. apply pbit_gprod; auto.
Qed.

Lemma inspan_gen n t f : inspan (2 * n) t f -> exists g, gen n t g /\ forall j, j < 2 * n -> pbit n (snd g) j = f j.
Proof.
  intros (sel & HL & H). exists (gprod n sel t). split; [apply gprod_in_gen|].
  intros j Hj. rewrite pbit_gprod by auto. symmetry. auto.
Qed.
