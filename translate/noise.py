#!/usr/bin/env python3
"""Fail-closed translator for the idle-noise code of simulatedQubit (simulaqron/virtual_node/quantum.py).

Usage: noise.py <quantum.py> [decide|rate]

  decide (default) -> Gen/NoiseGen.v
     * `gen_decide noisy p x`   : the early return and the if/elif chain of `_apply_random_pauli_noise`
                                  (comparisons in source order, branch -> engine method -> Pauli), with the
                                  obligation `gen_decide_eq : gen_decide = Noise.Decide.decide`;
     * `gen_idle_update`        : the two clock reads / the `last_accessed` update, obligation `gen_idle_update_eq`;
     * `gen_noise_first`        : the list of gate / measurement methods, each *syntactically checked* to call
                                  `self._apply_random_pauli_noise()` unconditionally, exactly once, before any
                                  statement that touches `self.register` (only the docstring, logger calls and
                                  `name = args[i]` may precede it), obligation `gen_noise_first_complete`.
  rate             -> Gen/NoiseRateGen.v (depends on Coq Reals)
     * `gen_rate t T1`          : the expression assigned to `p`, obligation `gen_rate_eq : gen_rate = rate`.

Anything not recognised raises TranslateError (reported by the check as a broken tie).
"""
import ast
import sys

OP_PREFIXES = ("remote_apply_", "remote_measure")
OP_NAMES = ("remote_cnot_onto", "remote_cphase_onto")
NOISE = "_apply_random_pauli_noise"
ENGINE_PAULI = {"apply_X": "PX", "apply_Y": "PY", "apply_Z": "PZ"}
# the operations the hand-written development expects to be covered (a removed one is a broken tie too)
EXPECTED_OPS = ["remote_apply_X", "remote_apply_K", "remote_apply_Y", "remote_apply_Z", "remote_apply_H",
                "remote_apply_T", "remote_apply_rotation", "remote_measure_inplace", "remote_measure",
                "remote_cnot_onto", "remote_cphase_onto"]


class TranslateError(Exception):
    pass


def fail(node, msg):
    raise TranslateError("line %s: %s" % (getattr(node, "lineno", "?"), msg))


def is_self_attr(node, attr=None):
    return (isinstance(node, ast.Attribute) and isinstance(node.value, ast.Name) and node.value.id == "self"
            and (attr is None or node.attr == attr))


def is_call_to(node, mod, fn):
    return (isinstance(node, ast.Call) and isinstance(node.func, ast.Attribute) and node.func.attr == fn
            and isinstance(node.func.value, ast.Name) and node.func.value.id == mod
            and not node.args and not node.keywords)


def is_docstring(st):
    return isinstance(st, ast.Expr) and isinstance(st.value, ast.Constant) and isinstance(st.value.value, str)


def mentions_register(node):
    for n in ast.walk(node):
        if isinstance(n, ast.Attribute) and n.attr in ("register", "qubitReg"):
            return True
    return False


def is_logger_call(st):
    """self._logger.<level>(...) whose arguments cannot have an effect on the register"""
    if not (isinstance(st, ast.Expr) and isinstance(st.value, ast.Call)):
        return False
    f = st.value.func
    if not (isinstance(f, ast.Attribute) and f.attr in ("debug", "info", "warning", "error")
            and is_self_attr(f.value, "_logger")):
        return False
    for a in list(st.value.args) + [k.value for k in st.value.keywords]:
        for n in ast.walk(a):
            if isinstance(n, ast.Call):
                if not (isinstance(n.func, ast.Name) and n.func.id in ("str", "tuple", "repr", "int", "float", "list")):
                    return False
            elif not isinstance(n, (ast.Constant, ast.Name, ast.Attribute, ast.Load, ast.JoinedStr,
                                    ast.FormattedValue, ast.Tuple, ast.Subscript, ast.BinOp, ast.Mod, ast.Add)):
                return False
    return True


def is_noise_call(st):
    return (isinstance(st, ast.Expr) and isinstance(st.value, ast.Call) and is_self_attr(st.value.func, NOISE)
            and not st.value.args and not st.value.keywords)


def is_arg_unpack(st):
    """n = args[0]"""
    return (isinstance(st, ast.Assign) and len(st.targets) == 1 and isinstance(st.targets[0], ast.Name)
            and isinstance(st.value, ast.Subscript) and isinstance(st.value.value, ast.Name)
            and st.value.value.id == "args" and isinstance(st.value.slice, ast.Constant))


# ---------------------------------------------------------------------------------------------------------
# part 1: noise is applied first in every gate / measurement
# ---------------------------------------------------------------------------------------------------------
def check_noise_first(cls):
    fns = [n for n in cls.body if isinstance(n, (ast.FunctionDef, ast.AsyncFunctionDef))]
    covered = []
    for fn in fns:
        is_op = fn.name.startswith(OP_PREFIXES) or fn.name in OP_NAMES
        touches_engine = any(
            isinstance(n, ast.Call) and isinstance(n.func, ast.Attribute)
            and (n.func.attr.startswith("apply_") or n.func.attr.startswith("measure_"))
            and is_self_attr(n.func.value, "register")
            for n in ast.walk(fn))
        if fn.name == NOISE:
            continue
        if touches_engine and not is_op:
            fail(fn, "method %s applies a gate/measurement to self.register but is not a recognised operation "
                     "(remote_apply_*, remote_measure*, remote_cnot_onto, remote_cphase_onto)" % fn.name)
        if not is_op:
            continue
        if fn.decorator_list:
            fail(fn, "operation %s has decorators (control flow not analysed)" % fn.name)
        seen = False
        for st in fn.body:
            if is_noise_call(st):
                seen = True
                break
            if is_docstring(st) or is_logger_call(st) or is_arg_unpack(st):
                continue
            fail(st, "operation %s: statement before the noise call is not inert: %s" % (fn.name, ast.unparse(st)[:80]))
        if not seen:
            fail(fn, "operation %s does not call self.%s() before touching the register" % (fn.name, NOISE))
        ncalls = sum(1 for n in ast.walk(fn) if isinstance(n, ast.Call) and is_self_attr(n.func, NOISE))
        if ncalls != 1:
            fail(fn, "operation %s calls the noise routine %d times" % (fn.name, ncalls))
        covered.append(fn.name)
    for e in EXPECTED_OPS:
        if e not in covered:
            raise TranslateError("expected operation %s not found in simulatedQubit" % e)
    return covered


# ---------------------------------------------------------------------------------------------------------
# part 2: _apply_random_pauli_noise
# ---------------------------------------------------------------------------------------------------------
class Sym:
    """symbolic value: Q-expression text (or None if transcendental) and R-expression text"""

    def __init__(self, q, r):
        self.q, self.r = q, r


class NoiseFn:
    def __init__(self, fn):
        self.fn = fn
        self.env = {}
        self.last = Sym("last", "last")
        self.clock = 0
        self.guard = False
        self.t_sym = None
        self.rate_r = None
        self.draws = 0
        self.chain = None

    def expr(self, node):
        if isinstance(node, ast.Constant) and isinstance(node.value, int) and not isinstance(node.value, bool):
            return Sym("(%d # 1)" % node.value, "(IZR %d)" % node.value)
        if isinstance(node, ast.Name):
            if node.id in self.env:
                return self.env[node.id]
            fail(node, "unknown name %s" % node.id)
        if is_self_attr(node, "last_accessed"):
            return self.last
        if is_self_attr(node, "T1"):
            return Sym(None, "T1")
        if is_call_to(node, "time", "time"):
            self.clock += 1
            return Sym("now%d" % self.clock, "now%d" % self.clock)
        if is_call_to(node, "random", "random"):
            self.draws += 1
            return Sym("x", "x")
        if isinstance(node, ast.UnaryOp) and isinstance(node.op, ast.USub):
            a = self.expr(node.operand)
            return Sym(None if a.q is None else "(- %s)" % a.q, "(- %s)" % a.r)
        if isinstance(node, ast.BinOp) and type(node.op) in (ast.Add, ast.Sub, ast.Mult, ast.Div):
            a, b = self.expr(node.left), self.expr(node.right)      # left to right, as Python evaluates
            op = {ast.Add: "+", ast.Sub: "-", ast.Mult: "*", ast.Div: "/"}[type(node.op)]
            q = None if (a.q is None or b.q is None) else "(%s %s %s)" % (a.q, op, b.q)
            return Sym(q, "(%s %s %s)" % (a.r, op, b.r))
        if (isinstance(node, ast.Call) and isinstance(node.func, ast.Attribute) and node.func.attr == "exp"
                and isinstance(node.func.value, ast.Name) and node.func.value.id in ("np", "numpy", "math")
                and len(node.args) == 1 and not node.keywords):
            a = self.expr(node.args[0])
            return Sym(None, "(exp %s)" % a.r)
        fail(node, "unsupported expression: " + ast.unparse(node))

    def cond(self, node):
        if not (isinstance(node, ast.Compare) and len(node.ops) == 1):
            fail(node, "unsupported condition: " + ast.unparse(node))
        a, b = self.expr(node.left), self.expr(node.comparators[0])
        if a.q is None or b.q is None:
            fail(node, "condition is not rational in (p, x): " + ast.unparse(node))
        op = node.ops[0]
        if isinstance(op, ast.Lt):
            return "Qltb %s %s" % (a.q, b.q)
        if isinstance(op, ast.Gt):
            return "Qltb %s %s" % (b.q, a.q)
        if isinstance(op, ast.LtE):
            return "Qleb %s %s" % (a.q, b.q)
        if isinstance(op, ast.GtE):
            return "Qleb %s %s" % (b.q, a.q)
        fail(node, "unsupported comparison operator")

    def branch_body(self, body):
        """logger calls + exactly one self.register.apply_P(self.num)  ->  Some P ; only logger/pass -> None"""
        res = None
        for st in body:
            if is_logger_call(st) or isinstance(st, ast.Pass):
                continue
            if (isinstance(st, ast.Expr) and isinstance(st.value, ast.Call) and isinstance(st.value.func, ast.Attribute)
                    and is_self_attr(st.value.func.value, "register") and st.value.func.attr in ENGINE_PAULI
                    and len(st.value.args) == 1 and is_self_attr(st.value.args[0], "num") and not st.value.keywords
                    and res is None):
                res = ENGINE_PAULI[st.value.func.attr]
                continue
            fail(st, "unsupported statement in a noise branch: " + ast.unparse(st)[:80])
        return "None" if res is None else "Some " + res

    def ifchain(self, st):
        c = self.cond(st.test)
        then = self.branch_body(st.body)
        if not st.orelse:
            els = "None"
        elif len(st.orelse) == 1 and isinstance(st.orelse[0], ast.If):
            els = self.ifchain(st.orelse[0])
        else:
            els = self.branch_body(st.orelse)
        return "(if %s then %s else %s)" % (c, then, els)

    def run(self):
        if [a.arg for a in self.fn.args.args] != ["self"] or self.fn.decorator_list:
            fail(self.fn, "unexpected signature / decorators")
        for st in self.fn.body:
            if is_docstring(st) or is_logger_call(st):
                continue
            if self.chain is not None:
                fail(st, "statement after the decision chain: " + ast.unparse(st)[:80])
            if isinstance(st, ast.If) and not self.guard:
                t = st.test
                if (isinstance(t, ast.UnaryOp) and isinstance(t.op, ast.Not) and is_self_attr(t.operand, "noisy")
                        and len(st.body) == 1 and isinstance(st.body[0], ast.Return)
                        and (st.body[0].value is None or (isinstance(st.body[0].value, ast.Constant)
                                                          and st.body[0].value.value is None))
                        and not st.orelse):
                    if self.clock or self.draws or self.env:
                        fail(st, "noise guard is not the first statement")
                    self.guard = True
                    continue
                fail(st, "first if-statement is not `if not self.noisy: return`")
            if not self.guard:
                fail(st, "statement before the `if not self.noisy: return` guard: " + ast.unparse(st)[:80])
            if isinstance(st, ast.Assign) and len(st.targets) == 1:
                tgt = st.targets[0]
                if is_self_attr(tgt, "last_accessed"):
                    v = self.expr(st.value)
                    if v.q is None:
                        fail(st, "last_accessed is not a rational expression of the clock reads")
                    self.last = v
                    continue
                if isinstance(tgt, ast.Name):
                    v = self.expr(st.value)
                    if v.q is None:
                        # transcendental: this must be the rate; it enters the decision as the opaque parameter p
                        if self.rate_r is not None:
                            fail(st, "second transcendental assignment")
                        self.rate_r = v.r
                        self.rate_var = tgt.id
                        self.env[tgt.id] = Sym("p", "p")
                    else:
                        if tgt.id == "t" or self.t_sym is None and "now" in v.q:
                            self.t_sym = v
                        self.env[tgt.id] = v
                    continue
            if isinstance(st, ast.If):
                self.chain = self.ifchain(st)
                continue
            fail(st, "unsupported statement: " + ast.unparse(st)[:80])
        if not self.guard:
            fail(self.fn, "no `if not self.noisy: return` guard")
        if self.chain is None:
            fail(self.fn, "no decision chain")
        if self.draws != 1:
            fail(self.fn, "random.random() is drawn %d times" % self.draws)
        if self.rate_r is None or self.t_sym is None:
            fail(self.fn, "rate / idle time not found")
        if self.clock != 2:
            fail(self.fn, "%d clock reads (the model has two)" % self.clock)
        return self


def load(src_path):
    tree = ast.parse(open(src_path).read())
    cls = [n for n in tree.body if isinstance(n, ast.ClassDef) and n.name == "simulatedQubit"]
    if len(cls) != 1:
        raise TranslateError("class simulatedQubit not found")
    fns = {n.name: n for n in cls[0].body if isinstance(n, ast.FunctionDef)}
    if NOISE not in fns:
        raise TranslateError("%s not found" % NOISE)
    return cls[0], fns


def translate_decide(src_path):
    cls, fns = load(src_path)
    covered = check_noise_first(cls)
    nf = NoiseFn(fns[NOISE]).run()
    out = ["(* GENERATED by translate/noise.py from %s -- do not edit *)" % src_path,
           "From Coq Require Import QArith ZArith Bool List String Lqa.",
           "From SQ Require Import Stab.Pauli Noise.Decide Noise.DecideFacts Noise.GenTactics.",
           "Import ListNotations.", "Local Open Scope Q_scope.", "",
           "(* thresholds of _apply_random_pauli_noise, comparisons in source order *)",
           "Definition gen_decide (noisy : bool) (p x : Q) : option pauli :=",
           "  if negb noisy then None else %s." % nf.chain, "",
           "Lemma gen_decide_eq : forall noisy p x, gen_decide noisy p x = decide noisy p x.",
           "Proof. solve_gen_decide gen_decide. Qed.", "",
           "(* idle clock: t and the new last_accessed in terms of the two clock reads *)",
           "Definition gen_idle_update (noisy : bool) (last now1 now2 : Q) : option Q * Q :=",
           "  if negb noisy then (None, last) else (Some %s, %s)." % (nf.t_sym.q, nf.last.q), "",
           "Lemma gen_idle_update_eq : forall noisy last now1 now2,",
           "  gen_idle_update noisy last now1 now2 = idle_update noisy last now1 now2.",
           "Proof. solve_gen_idle gen_idle_update. Qed.", "",
           "(* operations syntactically checked to call the noise routine before touching the register *)",
           "Definition gen_noise_first : list string := [%s]%%string." % "; ".join('"%s"' % c for c in covered), "",
           "Lemma gen_noise_first_complete : forallb (fun o => existsb (String.eqb o) gen_noise_first) expected_ops = true.",
           "Proof. reflexivity. Qed.", "",
           "(* rate expression found (translated in Gen/NoiseRateGen.v): %s := %s *)" % (nf.rate_var, nf.rate_r), ""]
    return "\n".join(out)


def translate_rate(src_path):
    cls, fns = load(src_path)
    nf = NoiseFn(fns[NOISE]).run()
    # the idle time enters the rate as the real variable t
    r = nf.rate_r.replace(nf.t_sym.r, "t")
    if "now" in r or "last" in r:
        raise TranslateError("rate expression does not depend on the idle time only through t: " + r)
    out = ["(* GENERATED by translate/noise.py (rate) from %s -- do not edit *)" % src_path,
           "From Coq Require Import Reals Lra.",
           "From SQ Require Import Noise.Rate.",
           "Local Open Scope R_scope.", "",
           "Definition gen_rate (t T1 : R) : R := %s." % r.replace("(IZR 1)", "1").replace("(IZR 4)", "4"), "",
           "Lemma gen_rate_eq : forall t T1, gen_rate t T1 = rate t T1.",
           "Proof. intros; unfold gen_rate, rate; first [reflexivity | f_equal; try reflexivity; f_equal; f_equal; lra]. Qed.", ""]
    return "\n".join(out)


if __name__ == "__main__":
    try:
        mode = sys.argv[2] if len(sys.argv) > 2 else "decide"
        sys.stdout.write(translate_rate(sys.argv[1]) if mode == "rate" else translate_decide(sys.argv[1]))
    except TranslateError as e:
        sys.stderr.write("TRANSLATE-ERROR %s\n" % e)
        sys.exit(2)
