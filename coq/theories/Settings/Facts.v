(* Proofs about Model P (Settings/Model.v): dictionary algebra, the well-formedness invariant (all histories),
   the synchronisation invariant (single-writer histories), and the three clauses of C18. *)
From Coq Require Import List String ZArith Bool Arith Lia.
From SQ Require Import Base.ListUtil Settings.Model.
Import ListNotations.
Local Open Scope string_scope.

(* ---------- dictionaries ------------------------------------------------------------------------------- *)
Definition wf (d : dict) : Prop := NoDup (map fst d).
Definition optwf (o : option dict) : Prop := match o with Some d => wf d | None => True end.

Lemma lookup_set d k v k' :
  lookup (set d k v) k' = if String.eqb k k' then Some v else lookup d k'.
Proof.
  induction d as [|[k0 v0] t IH]; simpl.
  - reflexivity.
  - destruct (String.eqb_spec k0 k) as [->|Hne]; simpl.
    + destruct (String.eqb_spec k k'); auto.
    + destruct (String.eqb_spec k0 k') as [->|Hne']; auto.
      destruct (String.eqb_spec k k'); congruence.
Qed.

Lemma lookup_none_notin d k : lookup d k = None <-> ~ In k (map fst d).
Proof.
  induction d as [|[k0 v0] t IH]; simpl.
  - tauto.
  - destruct (String.eqb_spec k0 k) as [->|Hne].
    + split; [discriminate | intros H; exfalso; apply H; auto].
    + rewrite IH. split; [intros H [E|E]; auto | tauto].
Qed.

Lemma keys_set d k v : forall x, In x (map fst (set d k v)) <-> x = k \/ In x (map fst d).
Proof.
  induction d as [|[k0 v0] t IH]; simpl; intros x.
  - split; [intros [E|[]]; auto | intros [E|[]]; auto].
  - destruct (String.eqb_spec k0 k) as [->|Hne]; simpl.
    + intuition congruence.
    + rewrite IH. intuition congruence.
Qed.

Lemma wf_set d k v : wf d -> wf (set d k v).
Proof.
  unfold wf. induction d as [|[k0 v0] t IH]; simpl; intros H.
  - constructor; auto.
  - inversion H as [|? ? Hn Ht]; subst.
    destruct (String.eqb_spec k0 k) as [->|Hne]; simpl.
    + constructor; auto.
    + constructor; auto. rewrite keys_set. intros [E|E]; auto.
Qed.

Lemma wf_update d e : wf d -> wf (update d e).
Proof.
  unfold update. revert d. induction e as [|[k v] t IH]; simpl; intros d H; auto.
  apply IH. apply wf_set; auto.
Qed.

Lemma wf_nil : wf []. Proof. constructor. Qed.

Lemma lookup_update d e k : wf e ->
  lookup (update d e) k = match lookup e k with Some v => Some v | None => lookup d k end.
Proof.
  unfold update, wf. revert d. induction e as [|[k0 v0] t IH]; simpl; intros d H; auto.
  inversion H as [|? ? Hn Ht]; subst.
  rewrite IH by auto. rewrite lookup_set.
  destruct (String.eqb_spec k0 k) as [->|Hne]; auto.
  apply lookup_none_notin in Hn. rewrite Hn. reflexivity.
Qed.

Lemma lookup_update_keeps d e k : lookup d k <> None -> lookup (update d e) k <> None.
Proof.
  unfold update. revert d. induction e as [|[k0 v0] t IH]; simpl; intros d H; auto.
  apply IH. rewrite lookup_set. destruct (String.eqb k0 k); auto. discriminate.
Qed.

Lemma lookup_set_keeps d k v k' : lookup d k' <> None -> lookup (set d k v) k' <> None.
Proof. intros H. rewrite lookup_set. destruct (String.eqb k k'); auto. discriminate. Qed.

(* ---------- process table --------------------------------------------------------------------------------- *)
Lemma cache_of_pset ps p c q :
  cache_of (pset ps p c) q = if Nat.eqb p q then Some c else cache_of ps q.
Proof.
  induction ps as [|[r c0] t IH]; simpl.
  - destruct (Nat.eqb_spec p q); auto.
  - destruct (Nat.eqb_spec r p) as [->|Hne]; simpl.
    + destruct (Nat.eqb_spec p q); auto.
    + destruct (Nat.eqb_spec r q) as [->|Hne'].
      * destruct (Nat.eqb_spec p q); auto. congruence.
      * apply IH.
Qed.

Lemma cache_of_premove ps p q :
  cache_of (premove ps p) q = if Nat.eqb p q then None else cache_of ps q.
Proof.
  unfold premove. induction ps as [|[r c0] t IH]; simpl.
  - destruct (Nat.eqb p q); auto.
  - destruct (Nat.eqb_spec r p) as [->|Hne]; simpl.
    + rewrite IH. destruct (Nat.eqb_spec p q); auto.
    + destruct (Nat.eqb_spec r q) as [->|Hne'].
      * destruct (Nat.eqb_spec p q); auto. congruence.
      * apply IH.
Qed.

Lemma lmem_lremove l p q : lmem q (lremove l p) = lmem q l && negb (Nat.eqb q p).
Proof.
  unfold lmem, lremove. induction l as [|r t IH]; simpl; auto.
  destruct (Nat.eqb_spec r p) as [->|Hne]; simpl.
  - rewrite IH. destruct (Nat.eqb_spec q p); simpl; auto. rewrite andb_false_r; auto.
  - rewrite IH. destruct (Nat.eqb_spec q r) as [->|]; simpl; auto.
    destruct (Nat.eqb_spec r p); try congruence. auto.
Qed.

Lemma cache_of_none_notin ps p : cache_of ps p = None -> lmem p (map fst ps) = false.
Proof.
  unfold lmem. induction ps as [|[r c0] t IH]; simpl; auto.
  destruct (Nat.eqb_spec r p) as [->|Hne]; [discriminate|].
  intros H. rewrite IH by auto. destruct (Nat.eqb_spec p r); [congruence | reflexivity].
Qed.

Lemma lmem_others ps p q : lmem q (others ps p) = true -> q <> p.
Proof.
  unfold others. rewrite lmem_lremove. intros H. apply andb_true_iff in H as [_ H].
  destruct (Nat.eqb_spec q p); simpl in H; congruence.
Qed.

(* ---------- invariants ---------------------------------------------------------------------------------------- *)
Section WithDefault.
Variable dflt : dict.
Hypothesis dflt_wf : wf dflt.

Notation step := (step dflt).
Notation run := (run dflt).
Notation eff_store := (eff_store dflt).
Notation load := (load dflt).

(* holds along every history, disciplined or not *)
Record WF (s : state) : Prop := {
  wf_user : optwf (user s);
  wf_store : optwf (store s);
  wf_caches : forall p c, cache_of (procs s) p = Some c -> wf c;
  wf_has_dflt : forall p c k, cache_of (procs s) p = Some c -> lookup dflt k <> None -> lookup c k <> None;
  wf_nostore : store s = None -> procs s = []
}.

(* holds along single-writer histories *)
Record Sync (s : state) : Prop := {
  sync_fresh : forall p c, cache_of (procs s) p = Some c -> lmem p (stale s) = false ->
               forall k, user_has s k = false -> lookup c k = eff_store s k;
  sync_keys : forall p c, cache_of (procs s) p = Some c ->
              forall k, user_has s k = false -> lookup c k <> None -> eff_store s k <> None;
  sync_stale_live : forall p, lmem p (stale s) = true -> cache_of (procs s) p <> None
}.

Lemma eff_store_none_dflt s k : eff_store s k = None -> lookup dflt k = None.
Proof. unfold Model.eff_store. destruct (store s) as [sd|]; auto. destruct (lookup sd k); auto. discriminate. Qed.

Lemma wf_merge_user u c : wf c -> wf (merge_user u c).
Proof. unfold merge_user. intros H. destruct (enabled c); auto. destruct u; auto. apply wf_update; auto. Qed.

Lemma merge_user_keeps u c k : lookup c k <> None -> lookup (merge_user u c) k <> None.
Proof.
  unfold merge_user. intros H. destruct (enabled c); auto. destruct u; auto. apply lookup_update_keeps; auto.
Qed.

Lemma lookup_merge_user u c k : optwf u ->
  lookup (merge_user u c) k =
  if enabled c then match u with
                    | Some ud => match lookup ud k with Some v => Some v | None => lookup c k end
                    | None => lookup c k end
  else lookup c k.
Proof.
  intros Hu. unfold merge_user. destruct (enabled c); auto. destruct u as [ud|]; auto.
  apply lookup_update; auto.
Qed.

Lemma load_wf st u c0 : wf c0 -> wf (fst (load st u c0)) /\ (optwf st -> optwf (snd (load st u c0))).
Proof.
  intros H. unfold Model.load. destruct st as [sd|]; simpl.
  - split; auto. apply wf_merge_user. repeat apply wf_update; auto.
  - split; [apply wf_merge_user|intros _]; apply wf_update; auto.
Qed.

Lemma load_has_dflt st u c0 k : lookup dflt k <> None -> lookup (fst (load st u c0)) k <> None.
Proof.
  intros H. assert (G : lookup (update c0 dflt) k <> None).
  { rewrite lookup_update by auto. destruct (lookup dflt k); congruence. }
  unfold Model.load. destruct st as [sd|]; simpl; apply merge_user_keeps; auto.
  apply lookup_update_keeps; auto.
Qed.

(* the store layer after a load, and the cache of the loading process outside the user's keys *)
Lemma load_store_layer st u c0 : optwf st ->
  forall k, (match snd (load st u c0) with
             | Some sd => match lookup sd k with Some v => Some v | None => lookup dflt k end
             | None => lookup dflt k end)
            = match st with
              | Some sd => match lookup sd k with Some v => Some v | None => lookup dflt k end
              | None => match lookup dflt k with Some v => Some v | None => lookup c0 k end
              end.
Proof.
  intros Hst k. unfold Model.load. destruct st as [sd|]; simpl; auto.
  rewrite lookup_update by auto. destruct (lookup dflt k); auto. destruct (lookup c0 k); auto.
Qed.

Lemma load_cache_layer st u c0 k : optwf st -> optwf u ->
  (match u with Some ud => lookup ud k | None => None end) = None ->
  lookup (fst (load st u c0)) k =
  match st with
  | Some sd => match lookup sd k with Some v => Some v | None =>
               match lookup dflt k with Some v => Some v | None => lookup c0 k end end
  | None => match lookup dflt k with Some v => Some v | None => lookup c0 k end
  end.
Proof.
  intros Hst Hu Hk. unfold Model.load. destruct st as [sd|]; simpl; rewrite lookup_merge_user by auto.
  - assert (E : lookup (update (update c0 dflt) sd) k =
                match lookup sd k with Some v => Some v | None =>
                match lookup dflt k with Some v => Some v | None => lookup c0 k end end).
    { rewrite lookup_update by auto. destruct (lookup sd k); auto. apply lookup_update; auto. }
    destruct (enabled _); [destruct u as [ud|]; [rewrite Hk|]|]; exact E.
  - assert (E : lookup (update c0 dflt) k = match lookup dflt k with Some v => Some v | None => lookup c0 k end)
      by (apply lookup_update; auto).
    destruct (enabled _); [destruct u as [ud|]; [rewrite Hk|]|]; exact E.
Qed.

Lemma user_step s o : user (step s o) = user s.
Proof.
  destruct o; simpl; auto; try (destruct (cache_of (procs s) p); auto);
    match goal with |- context [load ?a ?b ?c] => destruct (load a b c); auto end.
Qed.

Lemma user_has_step s o k : user_has (step s o) k = user_has s k.
Proof. unfold user_has. rewrite user_step. reflexivity. Qed.

Lemma user_run s ops : user (run s ops) = user s.
Proof. unfold Model.run. revert s. induction ops as [|o t IH]; intros s; simpl; auto. rewrite IH. apply user_step. Qed.

Lemma WF_step s o : WF s -> WF (step s o).
Proof.
  intros [Hu Hs Hc Hd Hn].
  destruct o as [p|p k v|p|p|p]; simpl.
  - (* Spawn *)
    pose proof (load_wf (store s) (user s) [] wf_nil) as [W1 W2].
    pose proof (load_has_dflt (store s) (user s) []) as W3.
    destruct (load (store s) (user s) []) as [c st] eqn:EL. simpl in *.
    constructor; simpl; auto.
    + intros q c'. rewrite cache_of_pset. destruct (Nat.eqb p q); [intros E; injection E as <-; auto | apply Hc].
    + intros q c' k. rewrite cache_of_pset. destruct (Nat.eqb p q); [intros E; injection E as <-; auto | apply Hd].
    + intros E. exfalso. unfold Model.load in EL. destruct (store s); injection EL as _ <-; discriminate.
  - (* SetK *)
    destruct (cache_of (procs s) p) as [c0|] eqn:Ep; [|constructor; auto].
    assert (W : wf (set c0 k v)) by (apply wf_set; eauto).
    constructor; simpl; auto.
    + intros q c'. rewrite cache_of_pset. destruct (Nat.eqb p q); [intros E; injection E as <-; auto | apply Hc].
    + intros q c' k'. rewrite cache_of_pset. destruct (Nat.eqb p q); [intros E; injection E as <-|apply Hd].
      intros Hk. apply lookup_set_keeps. eapply Hd; eauto.
    + discriminate.
  - (* Reset *)
    destruct (cache_of (procs s) p) as [c0|] eqn:Ep; [|constructor; auto].
    assert (W : wf (update c0 dflt)) by (apply wf_update; eauto).
    constructor; simpl; auto.
    + intros q c'. rewrite cache_of_pset. destruct (Nat.eqb p q); [intros E; injection E as <-; auto | apply Hc].
    + intros q c' k'. rewrite cache_of_pset. destruct (Nat.eqb p q); [intros E; injection E as <-|apply Hd].
      intros Hk. apply lookup_update_keeps. eapply Hd; eauto.
    + discriminate.
  - (* Reload *)
    destruct (cache_of (procs s) p) as [c0|] eqn:Ep; [|constructor; auto].
    pose proof (load_wf (store s) (user s) c0 (Hc _ _ Ep)) as [W1 W2].
    pose proof (load_has_dflt (store s) (user s) c0) as W3.
    destruct (load (store s) (user s) c0) as [c st] eqn:EL. simpl in *.
    constructor; simpl; auto.
    + intros q c'. rewrite cache_of_pset. destruct (Nat.eqb p q); [intros E; injection E as <-; auto | apply Hc].
    + intros q c' k. rewrite cache_of_pset. destruct (Nat.eqb p q); [intros E; injection E as <-; auto | apply Hd].
    + intros E. exfalso. unfold Model.load in EL. destruct (store s); injection EL as _ <-; discriminate.
  - (* Exit *)
    constructor; simpl; auto.
    + intros q c'. rewrite cache_of_premove. destruct (Nat.eqb p q); [discriminate | apply Hc].
    + intros q c' k. rewrite cache_of_premove. destruct (Nat.eqb p q); [discriminate | apply Hd].
    + intros E. rewrite (Hn E). reflexivity.
Qed.

Lemma WF_run s ops : WF s -> WF (run s ops).
Proof. unfold Model.run. revert s. induction ops as [|o t IH]; intros s H; simpl; auto. apply IH, WF_step, H. Qed.

Lemma WF_init st u : optwf st -> optwf u -> WF (init st u).
Proof. intros; constructor; simpl; auto; intros; discriminate. Qed.
End WithDefault.
