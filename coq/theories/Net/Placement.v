(* C01, placement layer: every engine call issued for a native operation addresses, in the register that holds it,
   the position whose recorded identity is the physical qubit the handle denotes — for every reachable state,
   every placement (all seven merge cases), control/target order preserved. *)
From Coq Require Import List Bool Arith Lia Permutation.
From SQ Require Import Base.ListUtil Stab.Tableau Net.Model Net.Refusal Net.Capacity Net.Handles Net.Fresh
     Net.Inv Net.InvNew Net.InvMeas Net.InvMerge Net.InvPull Net.InvStep Net.Bookkeeping.
Import ListNotations.

(* handle h, held at node vi, denotes physical qubit qid and is backed by simulated qubit (ni, sn) *)
Definition denotes (s : net) (vi h qid ni sn : nat) : Prop :=
  exists q, In q (virt (nth_node s vi)) /\ v_hid q = h /\ v_qid q = qid /\ v_simNode q = ni /\ v_simNum q = sn.
Definition sim_in_reg (s : net) (ni sn k : nat) : Prop :=
  exists z, In z (sims (nth_node s ni)) /\ s_simNum z = sn /\ s_reg z = k.

Lemma pos_of_in s ni z : inv s -> In z (sims (nth_node s ni)) -> pos_of s ni (s_simNum z) = (s_reg z, s_pos z).
Proof.
  intros H Hz. unfold pos_of. rewrite (find_sq_in (s_simNum z) _ z); auto. apply (ok_snum _ (inv_nodes s H ni)).
Qed.

(* where a denoted qubit sits: register k, position p, and the identity recorded there is the denoted one *)
Lemma located_id s vi h qid ni sn k :
  inv s -> denotes s vi h qid ni sn -> sim_in_reg s ni sn k ->
  fst (pos_of s ni sn) = k /\
  exists r, In r (regs (nth_node s ni)) /\ r_num r = k /\ snd (pos_of s ni sn) < r_n r /\
            nth (snd (pos_of s ni sn)) (r_ids r) 0 = qid.
Proof.
  intros H (q & Hq & Eh & Eq & En & Es) (z & Hz & Ez & Ek).
  destruct (inv_backed s H vi q Hq) as (y & ry & B1 & B2 & B3 & B4 & B5).
  rewrite En in B1, B3.
  assert (y = z).
  { apply (NoDup_map_inj s_simNum (sims (nth_node s ni))); auto; [apply (ok_snum _ (inv_nodes s H ni))|congruence]. }
  subst y. rewrite <- Ez. rewrite (pos_of_in s ni z H Hz). simpl. split; auto.
  exists ry. split; auto. split; [congruence|]. split; [|congruence].
  destruct (ok_sreg _ (inv_nodes s H ni) z Hz) as [r2 [H2 [E2 L2]]].
  assert (r2 = ry) by (apply (NoDup_map_inj r_num (regs (nth_node s ni))); auto; [apply (ok_rnum _ (inv_nodes s H ni))|congruence]).
  subst; auto.
Qed.

Lemma denotes_of_handle s h vi q : find_handle s h = Some (vi, q) -> denotes s vi h (v_qid q) (v_simNode q) (v_simNum q).
Proof. intro E. apply find_handle_some in E as (_ & Hq & Eh). exists q. auto. Qed.

Lemma sim_in_reg_of_backed s vi q : inv s -> In q (virt (nth_node s vi)) ->
  exists k, sim_in_reg s (v_simNode q) (v_simNum q) k.
Proof.
  intros H Hq. destruct (inv_backed s H vi q Hq) as (y & ry & B1 & B2 & _). exists (s_reg y), y. auto.
Qed.

(* ---- single-qubit gate and measurement ------------------------------------------------------------------------- *)
Theorem gate1_hits_denoted_qubit s h g gg vi q :
  reachable s -> find_handle s h = Some (vi, q) -> gate1_of g = Some gg ->
  exists x r, In r (regs (nth_node s (v_simNode q))) /\ s_pos x < r_n r /\
              nth (s_pos x) (r_ids r) 0 = v_qid q /\
              step s (OGate1 h g) =
              (update_reg_at s (v_simNode q) (reg_with_tab r (r_n r) (tab_gate1 gg (r_n r) (s_pos x) (r_tab r))), OkNone).
Proof.
  intros R EF EG. destruct (reachable_ginv s R) as [HI H].
  pose proof (find_handle_some s h vi q EF) as (Lvi & Hq & Eh).
  destruct (inv_backed s H vi q Hq) as (y & ry & B1 & B2 & B3 & B4 & B5).
  pose proof (inv_nodes s H (v_simNode q)) as OK.
  exists y, ry. split; auto. split.
  { destruct (ok_sreg _ OK y B1) as [r2 [H2 [E2 L2]]].
    assert (r2 = ry) by (apply (NoDup_map_inj r_num (regs (nth_node s (v_simNode q)))); auto; [apply (ok_rnum _ OK)|congruence]). subst; auto. }
  split; auto.
  simpl. unfold op_gate1. rewrite EF. unfold locate.
  rewrite (find_sq_in (v_simNum q) _ y (ok_snum _ OK) B1 B2).
  rewrite (find_reg_in (s_reg y) _ ry (ok_rnum _ OK) B3 B4). rewrite EG. reflexivity.
Qed.

Theorem measure_hits_denoted_qubit s h ip c vi q :
  reachable s -> find_handle s h = Some (vi, q) ->
  exists x r, In r (regs (nth_node s (v_simNode q))) /\ s_pos x < r_n r /\
              nth (s_pos x) (r_ids r) 0 = v_qid q /\
              snd (step s (OMeas h ip c)) =
              Ok (if fst (fst (measure (r_n r) (s_pos x) true c (r_tab r))) then 1 else 0).
Proof.
  intros R EF. destruct (reachable_ginv s R) as [HI H].
  pose proof (find_handle_some s h vi q EF) as (Lvi & Hq & Eh).
  destruct (inv_backed s H vi q Hq) as (y & ry & B1 & B2 & B3 & B4 & B5).
  pose proof (inv_nodes s H (v_simNode q)) as OK.
  exists y, ry. split; auto. split.
  { destruct (ok_sreg _ OK y B1) as [r2 [H2 [E2 L2]]].
    assert (r2 = ry) by (apply (NoDup_map_inj r_num (regs (nth_node s (v_simNode q)))); auto; [apply (ok_rnum _ OK)|congruence]). subst; auto. }
  split; auto.
  simpl. unfold op_meas. rewrite EF. unfold locate.
  rewrite (find_sq_in (v_simNum q) _ y (ok_snum _ OK) B1 B2).
  rewrite (find_reg_in (s_reg y) _ ry (ok_rnum _ OK) B3 B4).
  destruct (measure (r_n ry) (s_pos y) true c (r_tab ry)) as [[o n1] t1]. destruct ip; reflexivity.
Qed.

(* ---- effect of local_merge on handles and simulated qubits ----------------------------------------------------- *)
Lemma local_merge_spec s ni k1 k2 :
  k1 <> k2 -> inv s ->
  (exists r1, In r1 (regs (nth_node s ni)) /\ r_num r1 = k1) ->
  (exists r2, In r2 (regs (nth_node s ni)) /\ r_num r2 = k2) ->
  let sm := local_merge s ni k1 k2 in
  (forall i, virt (nth_node sm i) = virt (nth_node s i)) /\
  (forall y, In y (sims (nth_node s ni)) -> (s_reg y = k1 \/ s_reg y = k2) -> sim_in_reg sm ni (s_simNum y) k1).
Proof.
  intros Hne H (r1 & Hr1 & E1) (r2 & Hr2 & E2) sm.
  pose proof (in_regs_lt s ni r1 Hr1) as Lni.
  pose proof (ok_rnum _ (inv_nodes s H ni)) as RN.
  unfold sm, local_merge.
  rewrite (find_reg_in k1 _ r1 RN Hr1 E1). rewrite (find_reg_in k2 _ r2 RN Hr2 E2).
  cbv zeta. split.
  - intro i. rewrite nth_node_set. destruct (_ && _)%bool eqn:C; auto.
    apply andb_true_iff in C as [C _]. apply Nat.eqb_eq in C. subst. reflexivity.
  - intros y Hy Ey. unfold sim_in_reg. rewrite nth_node_set_eq; auto. cbn [sims].
    exists (mv_sq k1 k2 (r_n r1) y). split; [apply (in_map (mv_sq k1 k2 (r_n r1))) in Hy; exact Hy|].
    rewrite mv_simNum. split; auto. unfold mv_sq. destruct (Nat.eqb_spec (s_reg y) k2); simpl; auto.
    destruct Ey; congruence.
Qed.

(* ---- effect of remote_merge_from on handles and simulated qubits --------------------------------------------------- *)
Lemma merge_from_spec s li oi simNum lk x lr :
  li <> oi -> inv s ->
  In x (sims (nth_node s oi)) -> s_simNum x = simNum ->
  In lr (regs (nth_node s li)) -> r_num lr = lk ->
  let sm := fst (merge_from s li oi simNum lk) in
  let newN := snd (merge_from s li oi simNum lk) in
  (forall i p, In p (virt (nth_node s i)) ->
     exists p', In p' (virt (nth_node sm i)) /\ v_hid p' = v_hid p /\ v_qid p' = v_qid p /\
       (v_simNode p = oi -> v_simNum p = simNum -> v_simNode p' = li /\ v_simNum p' = newN) /\
       (v_simNode p <> oi -> v_simNode p' = v_simNode p /\ v_simNum p' = v_simNum p)) /\
  (forall y, In y (sims (nth_node s li)) -> In y (sims (nth_node sm li))) /\
  sim_in_reg sm li newN lk /\
  (forall j, j <> li -> j <> oi -> sims (nth_node sm j) = sims (nth_node s j) /\ regs (nth_node sm j) = regs (nth_node s j)) /\
  (exists lr2, In lr2 (regs (nth_node sm li)) /\ r_num lr2 = lk).
Proof.
  intros Hne H Hx Ex Hlr El.
  pose proof (inv_nodes s H oi) as OKo. pose proof (inv_nodes s H li) as OKl.
  destruct (ok_sreg _ OKo x Hx) as [orr [Horr [Eo Lx]]].
  unfold merge_from.
  rewrite (find_sq_in simNum _ x (ok_snum _ OKo) Hx Ex).
  rewrite (find_reg_in (s_reg x) _ orr (ok_rnum _ OKo) Horr Eo).
  set (on := nth_node s oi) in *.
  set (on1 := mkNode (virt on) (filter (fun y => negb (Nat.eqb (s_reg y) (r_num orr))) (sims on))
                     (del_reg (regs on) (r_num orr)) (numRegs on - 1) (nextReg on) (maxQ on) (maxR on)).
  rewrite (nth_node_set_neq s oi on1 li Hne).
  set (ln := nth_node s li) in *.
  rewrite (find_reg_in lk _ lr (ok_rnum _ OKl) Hlr El).
  pose proof (alloc_spec (r_n orr) lk (r_n lr) (sims ln)) as AS.
  destruct (alloc_sims (r_n orr) lk (r_n lr) (sims ln)) as [sims' ids].
  destruct AS as (Lids & Esims & Nids & Dids).
  cbn [fst snd].
  pose proof (in_sims_lt s oi x Hx) as Loi. pose proof (in_regs_lt s li lr Hlr) as Lli.
  set (moved := filter (fun y => Nat.eqb (s_reg y) (r_num orr)) (sims on)).
  set (lr' := mkReg (r_num lr) (r_max lr + r_n orr) (r_n lr + r_n orr) (tensor (r_n lr) (r_tab lr) (r_n orr) (r_tab orr)) (r_ids lr ++ r_ids orr)).
  set (ln1 := mkNode (virt ln) sims' (set_reg (regs ln) lr') (numRegs ln) (nextReg ln) (maxQ ln) (maxR ln)).
  set (s1 := set_node s oi on1).
  set (s2 := set_node s1 li ln1).
  set (rp := fun q : vq =>
        if Nat.eqb (v_simNode q) oi then
          match find_sq (v_simNum q) moved with
          | Some y => mkVq (v_hid q) (v_num q) li (nth (s_pos y) ids 0) (v_qid q)
          | None => q
          end
        else q).
  change (mkNet (map (fun nd => with_virt nd (map rp (virt nd))) (nodes s2)) (next_hid s2))
    with (mkNet (map (fun nd => with_virt nd (map rp (virt nd))) (nodes s2)) (next_hid s2)).
  assert (E2 : forall j, nth_node s2 j = if Nat.eqb j li then ln1 else if Nat.eqb j oi then on1 else nth_node s j).
  { intro j. unfold s2, s1. rewrite nth_node_set. rewrite set_node_length.
    destruct (Nat.ltb_spec li (length (nodes s))); try lia. rewrite andb_true_r.
    destruct (Nat.eqb j li); auto. rewrite nth_node_set.
    destruct (Nat.ltb_spec oi (length (nodes s))); try lia. rewrite andb_true_r. auto. }
  assert (V2 : forall j, virt (nth_node s2 j) = virt (nth_node s j)).
  { intro j. rewrite E2. destruct (Nat.eqb_spec j li) as [->|]; auto. destruct (Nat.eqb_spec j oi) as [->|]; auto. }
  set (s3 := mkNet (map (fun nd => with_virt nd (map rp (virt nd))) (nodes s2)) (next_hid s2)).
  assert (E3 : forall j, nth_node s3 j = with_virt (nth_node s2 j) (map rp (virt (nth_node s j)))).
  { intro j. unfold s3. rewrite nth_node_map_virt, V2. reflexivity. }
  assert (XM : find_sq simNum moved = Some x).
  { rewrite <- Ex. unfold moved. apply find_sq_filter_some; auto; [apply (ok_snum _ OKo)|]. apply Nat.eqb_eq. auto. }
  split; [|split; [|split; [|split]]].
  - intros i p Hp. exists (rp p). split; [rewrite E3; cbn [virt with_virt]; apply in_map; auto|].
    unfold rp. destruct (Nat.eqb_spec (v_simNode p) oi) as [Eo'|No].
    + destruct (find_sq (v_simNum p) moved) as [y|] eqn:EY; cbn [v_hid v_qid v_simNode v_simNum].
      * split; auto. split; auto. split; [|congruence].
        intros _ Es. rewrite Es, XM in EY. inversion EY; subst y. auto.
      * split; auto. split; auto. split; [|congruence].
        intros _ Es. rewrite Es, XM in EY. discriminate.
    + split; auto. split; auto. split; [congruence|auto].
  - intros y Hy. rewrite E3. cbn [sims with_virt]. rewrite E2, Nat.eqb_refl. unfold ln1; cbn [sims].
    rewrite Esims. apply in_or_app; auto.
  - exists (mkSq (nth (s_pos x) ids 0) lk (r_n lr + s_pos x)). split; [|split; reflexivity].
    rewrite E3. cbn [sims with_virt]. rewrite E2, Nat.eqb_refl. unfold ln1; cbn [sims].
    rewrite Esims. apply in_or_app; right. apply in_map_iff. exists (s_pos x). split; auto. apply in_seq. lia.
  - intros j N1 N2. rewrite E3. cbn [sims regs with_virt]. rewrite E2.
    destruct (Nat.eqb_spec j li); [congruence|]. destruct (Nat.eqb_spec j oi); [congruence|]. auto.
  - exists lr'. rewrite E3. cbn [regs with_virt]. rewrite E2, Nat.eqb_refl. unfold ln1; cbn [regs].
    split; [apply in_set_reg_new with (r := lr); auto | simpl; auto].
Qed.

(* ---- two-qubit gates ------------------------------------------------------------------------------------------------ *)
Lemma finish sm vi h1 h2 qid1 qid2 ni sn1 sn2 k :
  inv sm -> denotes sm vi h1 qid1 ni sn1 -> denotes sm vi h2 qid2 ni sn2 ->
  sim_in_reg sm ni sn1 k -> sim_in_reg sm ni sn2 k -> h1 <> h2 ->
  exists r, In r (regs (nth_node sm ni)) /\ r_num r = k /\
            snd (pos_of sm ni sn1) < r_n r /\ snd (pos_of sm ni sn2) < r_n r /\
            snd (pos_of sm ni sn1) <> snd (pos_of sm ni sn2) /\
            nth (snd (pos_of sm ni sn1)) (r_ids r) 0 = qid1 /\ nth (snd (pos_of sm ni sn2)) (r_ids r) 0 = qid2.
Proof.
  intros H D1 D2 S1 S2 Hne.
  destruct (located_id sm vi h1 qid1 ni sn1 k H D1 S1) as (_ & r1 & R1 & K1 & L1 & I1).
  destruct (located_id sm vi h2 qid2 ni sn2 k H D2 S2) as (_ & r2 & R2 & K2 & L2 & I2).
  assert (r2 = r1) by (apply (NoDup_map_inj r_num (regs (nth_node sm ni))); auto; [apply (ok_rnum _ (inv_nodes sm H ni))|congruence]).
  subst r2. exists r1. repeat split; auto.
  intro EP.
  destruct S1 as (z1 & Z1 & ZS1 & ZK1). destruct S2 as (z2 & Z2 & ZS2 & ZK2).
  rewrite <- ZS1 in EP. rewrite <- ZS2 in EP. rewrite (pos_of_in sm ni z1 H Z1), (pos_of_in sm ni z2 H Z2) in EP. simpl in EP.
  assert (ES : s_simNum z1 = s_simNum z2) by (apply (ok_pos_inj _ (inv_nodes sm H ni)); auto; congruence).
  destruct D1 as (q1' & Q1 & EH1 & _ & EN1 & ES1). destruct D2 as (q2' & Q2 & EH2 & _ & EN2 & ES2).
  apply Hne. rewrite <- EH1, <- EH2. apply (inv_inj sm H vi vi q1' q2' Q1 Q2). unfold vref. congruence.
Qed.

Ltac fin HG := split; [exact HG|]; split; [reflexivity|]; repeat split; auto.

(* the register merges a two-qubit gate may perform before the engine call *)
Inductive mrel : net -> net -> Prop :=
| mrel_refl s : mrel s s
| mrel_local s sn k1 k2 r1 r2 : inv s -> k1 <> k2 -> In r1 (regs (nth_node s sn)) -> r_num r1 = k1 ->
    In r2 (regs (nth_node s sn)) -> r_num r2 = k2 -> mrel s (local_merge s sn k1 k2)
| mrel_from s li oi simNum lk x lr : li <> oi -> inv s -> In x (sims (nth_node s oi)) -> s_simNum x = simNum ->
    In lr (regs (nth_node s li)) -> r_num lr = lk -> mrel s (fst (merge_from s li oi simNum lk))
| mrel_force s vi : vi < length (nodes s) -> mrel s (set_node s vi (fst (add_register_force (nth_node s vi))))
| mrel_trans s1 s2 s3 : mrel s1 s2 -> mrel s2 s3 -> mrel s1 s3.

Theorem gate2_hits_denoted_qubits_merges s h1 h2 g vi q1 q2 :
  reachable s -> find_handle s h1 = Some (vi, q1) -> find_handle s h2 = Some (vi, q2) -> h1 <> h2 ->
  exists sm ni k p1 p2 r,
    mrel s sm /\ ginv sm /\
    step s (OGate2 h1 h2 g) = (apply_gate2_at sm ni k g p1 p2, OkNone) /\
    In r (regs (nth_node sm ni)) /\ r_num r = k /\ p1 < r_n r /\ p2 < r_n r /\ p1 <> p2 /\
    nth p1 (r_ids r) 0 = v_qid q1 /\ nth p2 (r_ids r) 0 = v_qid q2.
Proof.
  intros R EF1 EF2 Hne. destruct (reachable_ginv s R) as [HI H].
  pose proof (find_handle_some s h1 vi q1 EF1) as (Lvi & Hq1 & Eh1).
  pose proof (find_handle_some s h2 vi q2 EF2) as (_ & Hq2 & Eh2).
  destruct (inv_backed s H vi q1 Hq1) as (y1 & ry1 & A1 & A2 & A3 & A4 & A5).
  destruct (inv_backed s H vi q2 Hq2) as (y2 & ry2 & C1 & C2 & C3 & C4 & C5).
  pose proof (denotes_of_handle s h1 vi q1 EF1) as D1. pose proof (denotes_of_handle s h2 vi q2 EF2) as D2.
  simpl. unfold op_gate2. rewrite EF1, EF2. rewrite Nat.eqb_refl. cbn [negb].
  destruct (Nat.eqb_spec (v_simNode q1) (v_simNode q2)) as [Es|Ns].
  - (* same simulating node *)
    set (sn := v_simNode q1) in *. rewrite <- Es in C1, C3, D2.
    rewrite <- A2. rewrite (pos_of_in s sn y1 H A1). rewrite <- C2. rewrite (pos_of_in s sn y2 H C1).
    destruct (Nat.eqb_spec (s_reg y1) (s_reg y2)) as [Ek|Nk].
    + (* same register *)
      assert (S1 : sim_in_reg s sn (v_simNum q1) (s_reg y1)) by (exists y1; auto).
      assert (S2 : sim_in_reg s sn (v_simNum q2) (s_reg y1)) by (exists y2; auto).
      destruct (finish s vi h1 h2 _ _ sn _ _ (s_reg y1) H D1 D2 S1 S2 Hne) as (r & F1 & F2 & F3 & F4 & F5 & F6 & F7).
      rewrite <- A2 in F3, F5, F6. rewrite <- C2 in F4, F5, F7.
      rewrite (pos_of_in s sn y1 H A1) in F3, F5, F6. rewrite (pos_of_in s sn y2 H C1) in F4, F5, F7. simpl in *.
      destruct (Nat.eqb_spec (s_pos y1) (s_pos y2)); [contradiction|].
      exists s, sn, (s_reg y1), (s_pos y1), (s_pos y2), r. assert (HG : ginv s) by (split; auto).
      split; [apply mrel_refl|]. fin HG.
    + (* different registers on one node: local merge *)
      set (sm := local_merge s sn (s_reg y1) (s_reg y2)).
      assert (R1 : exists r1, In r1 (regs (nth_node s sn)) /\ r_num r1 = s_reg y1) by eauto.
      assert (R2 : exists r2, In r2 (regs (nth_node s sn)) /\ r_num r2 = s_reg y2) by eauto.
      destruct (local_merge_spec s sn (s_reg y1) (s_reg y2) Nk H R1 R2) as [LV LS]. fold sm in LV, LS.
      assert (IM : inv sm) by (apply inv_local_merge; auto).
      assert (D1' : denotes sm vi h1 (v_qid q1) sn (v_simNum q1)).
      { exists q1. rewrite LV. repeat split; auto. }
      assert (D2' : denotes sm vi h2 (v_qid q2) sn (v_simNum q2)).
      { exists q2. rewrite LV. repeat split; auto. }
      assert (S1 : sim_in_reg sm sn (v_simNum q1) (s_reg y1)) by (rewrite <- A2; apply LS; auto).
      assert (S2 : sim_in_reg sm sn (v_simNum q2) (s_reg y1)) by (rewrite <- C2; apply LS; auto).
      destruct (finish sm vi h1 h2 _ _ sn _ _ (s_reg y1) IM D1' D2' S1 S2 Hne) as (r & F1 & F2 & F3 & F4 & F5 & F6 & F7).
      rewrite A2, C2.
      destruct (pos_of sm sn (v_simNum q1)) as [a b]. destruct (pos_of sm sn (v_simNum q2)) as [a' b']. simpl in *.
      assert (HG : ginv sm) by (split; auto; apply (hid_inv_hkeeps _ s (local_merge_hkeeps sn (s_reg y1) (s_reg y2)) HI)).
      exists sm, sn, (s_reg y1), b, b', r.
      split; [apply (mrel_local s sn (s_reg y1) (s_reg y2) ry1 ry2); auto|]. fin HG.
  - destruct (Nat.eqb_spec (v_simNode q1) vi) as [E1|N1].
    + (* control local, target pulled here *)
      rewrite E1 in A1, A3. rewrite <- A2. rewrite (pos_of_in s vi y1 H A1).
      assert (Hne' : vi <> v_simNode q2) by congruence.
      destruct (merge_from_spec s vi (v_simNode q2) (v_simNum q2) (s_reg y1) y2 ry1 Hne' H C1 C2 A3 A4)
        as (MH & MS & MN & _ & _).
      pose proof (inv_merge_from s vi (v_simNode q2) (v_simNum q2) (s_reg y1) Hne' H) as IM.
      pose proof (merge_from_hkeeps vi (v_simNode q2) (v_simNum q2) (s_reg y1)) as HK.
      pose proof (hid_inv_hkeeps _ s HK HI) as HIM. cbv beta in HIM.
      assert (MR : mrel s (fst (merge_from s vi (v_simNode q2) (v_simNum q2) (s_reg y1))))
        by (apply (mrel_from s vi (v_simNode q2) (v_simNum q2) (s_reg y1) y2 ry1); auto).
      destruct (merge_from s vi (v_simNode q2) (v_simNum q2) (s_reg y1)) as [sm newT]. cbn [fst snd] in *.
      assert (D1' : denotes sm vi h1 (v_qid q1) vi (s_simNum y1)).
      { destruct (MH vi q1 Hq1) as (p' & P1 & P2 & P3 & _ & P5). destruct P5 as [P5 P6]; [congruence|].
        exists p'. repeat split; auto; congruence. }
      assert (D2' : denotes sm vi h2 (v_qid q2) vi newT).
      { destruct (MH vi q2 Hq2) as (p' & P1 & P2 & P3 & P4 & _). destruct P4 as [P4 P5]; auto.
        exists p'. repeat split; auto; congruence. }
      assert (S1 : sim_in_reg sm vi (s_simNum y1) (s_reg y1)) by (exists y1; auto).
      destruct (finish sm vi h1 h2 _ _ vi _ _ (s_reg y1) IM D1' D2' S1 MN Hne) as (r & F1 & F2 & F3 & F4 & F5 & F6 & F7).
      rewrite A2 in *.
      destruct (pos_of sm vi (v_simNum q1)) as [a b]. destruct (pos_of sm vi newT) as [a' b']. simpl in *.
      assert (HG : ginv sm) by (split; auto).
      exists sm, vi, (s_reg y1), b, b', r. split; [exact MR|]. fin HG.
    + destruct (Nat.eqb_spec (v_simNode q2) vi) as [E2|N2].
      * (* target local, control pulled here *)
        rewrite E2 in C1, C3. rewrite <- C2. rewrite (pos_of_in s vi y2 H C1).
        assert (Hne' : vi <> v_simNode q1) by congruence.
        destruct (merge_from_spec s vi (v_simNode q1) (v_simNum q1) (s_reg y2) y1 ry2 Hne' H A1 A2 C3 C4)
          as (MH & MS & MN & _ & _).
        pose proof (inv_merge_from s vi (v_simNode q1) (v_simNum q1) (s_reg y2) Hne' H) as IM.
        pose proof (merge_from_hkeeps vi (v_simNode q1) (v_simNum q1) (s_reg y2)) as HK.
        pose proof (hid_inv_hkeeps _ s HK HI) as HIM. cbv beta in HIM.
        assert (MR : mrel s (fst (merge_from s vi (v_simNode q1) (v_simNum q1) (s_reg y2))))
          by (apply (mrel_from s vi (v_simNode q1) (v_simNum q1) (s_reg y2) y1 ry2); auto).
        destruct (merge_from s vi (v_simNode q1) (v_simNum q1) (s_reg y2)) as [sm newC]. cbn [fst snd] in *.
        assert (D1' : denotes sm vi h1 (v_qid q1) vi newC).
        { destruct (MH vi q1 Hq1) as (p' & P1 & P2 & P3 & P4 & _). destruct P4 as [P4 P5]; auto.
          exists p'. repeat split; auto; congruence. }
        assert (D2' : denotes sm vi h2 (v_qid q2) vi (s_simNum y2)).
        { destruct (MH vi q2 Hq2) as (p' & P1 & P2 & P3 & _ & P5). destruct P5 as [P5 P6]; [congruence|].
          exists p'. repeat split; auto; congruence. }
        assert (S2 : sim_in_reg sm vi (s_simNum y2) (s_reg y2)) by (exists y2; auto).
        destruct (finish sm vi h1 h2 _ _ vi _ _ (s_reg y2) IM D1' D2' MN S2 Hne) as (r & F1 & F2 & F3 & F4 & F5 & F6 & F7).
        rewrite C2 in *.
        destruct (pos_of sm vi newC) as [a b]. destruct (pos_of sm vi (v_simNum q2)) as [a' b']. simpl in *.
        assert (HG : ginv sm) by (split; auto).
        exists sm, vi, (s_reg y2), b, b', r. split; [exact MR|]. fin HG.
      * (* both remote at two different nodes: fresh local register *)
        pose proof (inv_add_register_force s vi H) as I0.
        pose proof (mrel_force s vi Lvi) as MR0.
        unfold add_register_force in *. cbn [fst] in I0, MR0.
        set (nd1 := mkNode _ _ _ _ _ _ _) in *. set (r0 := mkReg _ _ _ _ _).
        set (s0 := set_node s vi nd1) in *.
        assert (HI0 : hid_inv s0).
        { destruct HI as [HA HB]. unfold hid_inv. unfold s0. rewrite hids_set_same by reflexivity. split; auto. }
        assert (N0 : forall j, nth_node s0 j = if Nat.eqb j vi then nd1 else nth_node s j).
        { intro j. unfold s0. rewrite nth_node_set. destruct (Nat.ltb_spec vi (length (nodes s))); try lia. rewrite andb_true_r. auto. }
        assert (V0 : forall j, virt (nth_node s0 j) = virt (nth_node s j)).
        { intro j. rewrite N0. destruct (Nat.eqb_spec j vi) as [->|]; auto. }
        assert (S0 : forall j, sims (nth_node s0 j) = sims (nth_node s j)).
        { intro j. rewrite N0. destruct (Nat.eqb_spec j vi) as [->|]; auto. }
        assert (R0 : In r0 (regs (nth_node s0 vi))).
        { rewrite N0, Nat.eqb_refl. unfold nd1; cbn [regs]. apply in_or_app; right; simpl; auto. }
        assert (Hne1 : vi <> v_simNode q1) by congruence. assert (Hne2 : vi <> v_simNode q2) by congruence.
        assert (A1' : In y1 (sims (nth_node s0 (v_simNode q1)))) by (rewrite S0; auto).
        destruct (merge_from_spec s0 vi (v_simNode q1) (v_simNum q1) (r_num r0) y1 r0 Hne1 I0 A1' A2 R0 eq_refl)
          as (MH1 & MS1 & MN1 & MO1 & (lr2 & LR2 & LK2)).
        pose proof (inv_merge_from s0 vi (v_simNode q1) (v_simNum q1) (r_num r0) Hne1 I0) as IM1.
        pose proof (hid_inv_hkeeps _ s0 (merge_from_hkeeps vi (v_simNode q1) (v_simNum q1) (r_num r0)) HI0) as HIM1. cbv beta in HIM1.
        assert (MR1 : mrel s0 (fst (merge_from s0 vi (v_simNode q1) (v_simNum q1) (r_num r0))))
          by (apply (mrel_from s0 vi (v_simNode q1) (v_simNum q1) (r_num r0) y1 r0); auto).
        destruct (merge_from s0 vi (v_simNode q1) (v_simNum q1) (r_num r0)) as [s1 newC]. cbn [fst snd] in *.
        assert (C1' : In y2 (sims (nth_node s1 (v_simNode q2)))).
        { destruct (MO1 (v_simNode q2)) as [E _]; auto. rewrite E, S0. auto. }
        destruct (merge_from_spec s1 vi (v_simNode q2) (v_simNum q2) (r_num r0) y2 lr2 Hne2 IM1 C1' C2 LR2 LK2)
          as (MH2 & MS2 & MN2 & _ & _).
        pose proof (inv_merge_from s1 vi (v_simNode q2) (v_simNum q2) (r_num r0) Hne2 IM1) as IM2.
        pose proof (hid_inv_hkeeps _ s1 (merge_from_hkeeps vi (v_simNode q2) (v_simNum q2) (r_num r0)) HIM1) as HIM2. cbv beta in HIM2.
        assert (MR2 : mrel s1 (fst (merge_from s1 vi (v_simNode q2) (v_simNum q2) (r_num r0))))
          by (apply (mrel_from s1 vi (v_simNode q2) (v_simNum q2) (r_num r0) y2 lr2); auto).
        destruct (merge_from s1 vi (v_simNode q2) (v_simNum q2) (r_num r0)) as [s2 newT]. cbn [fst snd] in *.
        (* follow the two handles through both merges *)
        assert (Hq1' : In q1 (virt (nth_node s0 vi))) by (rewrite V0; auto).
        assert (Hq2' : In q2 (virt (nth_node s0 vi))) by (rewrite V0; auto).
        destruct (MH1 vi q1 Hq1') as (p1 & P11 & P12 & P13 & P14 & _). destruct P14 as [P14 P15]; auto.
        destruct (MH1 vi q2 Hq2') as (p2 & P21 & P22 & P23 & _ & P25). destruct P25 as [P25 P26]; [congruence|].
        destruct (MH2 vi p1 P11) as (p1' & Q11 & Q12 & Q13 & _ & Q15). destruct Q15 as [Q15 Q16]; [congruence|].
        destruct (MH2 vi p2 P21) as (p2' & Q21 & Q22 & Q23 & Q24 & _). destruct Q24 as [Q24 Q25]; [congruence|congruence|].
        assert (D1' : denotes s2 vi h1 (v_qid q1) vi newC) by (exists p1'; repeat split; auto; congruence).
        assert (D2' : denotes s2 vi h2 (v_qid q2) vi newT) by (exists p2'; repeat split; auto; congruence).
        assert (S1 : sim_in_reg s2 vi newC (r_num r0)).
        { destruct MN1 as (z & Z1 & Z2 & Z3). exists z. split; auto. }
        destruct (finish s2 vi h1 h2 _ _ vi _ _ (r_num r0) IM2 D1' D2' S1 MN2 Hne) as (r & F1 & F2 & F3 & F4 & F5 & F6 & F7).
        destruct (pos_of s2 vi newC) as [a b]. destruct (pos_of s2 vi newT) as [a' b']. simpl in *.
        assert (HG : ginv s2) by (split; auto).
        exists s2, vi, (r_num r0), b, b', r.
        split; [exact (mrel_trans _ _ _ MR0 (mrel_trans _ _ _ MR1 MR2))|]. fin HG.
Qed.

Theorem gate2_hits_denoted_qubits s h1 h2 g vi q1 q2 :
  reachable s -> find_handle s h1 = Some (vi, q1) -> find_handle s h2 = Some (vi, q2) -> h1 <> h2 ->
  exists sm ni k p1 p2 r,
    ginv sm /\
    step s (OGate2 h1 h2 g) = (apply_gate2_at sm ni k g p1 p2, OkNone) /\
    In r (regs (nth_node sm ni)) /\ r_num r = k /\ p1 < r_n r /\ p2 < r_n r /\ p1 <> p2 /\
    nth p1 (r_ids r) 0 = v_qid q1 /\ nth p2 (r_ids r) 0 = v_qid q2.
Proof.
  intros R EF1 EF2 Hne.
  destruct (gate2_hits_denoted_qubits_merges s h1 h2 g vi q1 q2 R EF1 EF2 Hne) as (sm & ni & k & p1 & p2 & r & _ & HH).
  exists sm, ni, k, p1, p2, r. exact HH.
Qed.

(* ---- physical-qubit identities ----------------------------------------------------------------------------------------- *)
Theorem qid_identifies_held_qubit s i j q q' :
  reachable s -> In q (virt (nth_node s i)) -> In q' (virt (nth_node s j)) -> v_qid q = v_qid q' -> i = j /\ q = q'.
Proof.
  intros R Hq Hq' E. destruct (reachable_ginv s R) as [HI H].
  apply (hid_unique s i j q q' HI Hq Hq'). apply (inv_qid_inj s H i j q q' Hq Hq' E).
Qed.

(* sending hands over the same physical qubit, still backed by the same simulated qubit *)
Theorem send_moves_same_qubit s h t v vi q :
  reachable s -> find_handle s h = Some (vi, q) -> snd (step s (OSend h t)) = Ok v ->
  exists q', In q' (virt (nth_node (fst (step s (OSend h t))) t)) /\ v_num q' = v /\
             v_qid q' = v_qid q /\ v_simNode q' = v_simNode q /\ v_simNum q' = v_simNum q /\ v_hid q' = next_hid s.
Proof.
  intros R EF. simpl. unfold op_send. rewrite EF.
  destruct (Nat.leb_spec (length (nodes s)) t) as [|Lt]; [discriminate|].
  destruct (Nat.leb _ _); [discriminate|]. intro E. inversion E; subst v. cbn [fst].
  destruct (reachable_ginv s R) as [HI HV].
  pose proof (find_handle_some s h vi q EF) as (Lvi & Hq & Eh).
  set (nq := mkVq (next_hid s) _ _ _ _).
  exists nq. split; [|repeat split; auto].
  set (tn1 := with_virt _ _). set (s1 := mkNet _ _).
  assert (E1 : forall k, nth_node s1 k = if Nat.eqb k t then tn1 else nth_node s k).
  { intro k. unfold s1. rewrite nth_node_mk. destruct (Nat.ltb_spec t (length (nodes s))); try lia. rewrite andb_true_r. auto. }
  assert (L1 : length (nodes s1) = length (nodes s)) by (unfold s1; simpl; apply upd_length).
  assert (Hlt : h < next_hid s).
  { destruct HI as [_ HB]. rewrite Forall_forall in HB. apply HB. unfold hids. apply in_flat_map.
    exists (nth_node s vi). split; [apply nth_In; auto|]. unfold hn. rewrite <- Eh. apply in_map; auto. }
  rewrite nth_node_set. rewrite L1. destruct (Nat.ltb_spec vi (length (nodes s))); try lia. rewrite andb_true_r.
  destruct (Nat.eqb_spec t vi) as [->|].
  - cbn [virt with_virt]. unfold remove_vq. apply filter_In. rewrite E1, Nat.eqb_refl. unfold tn1; cbn [virt with_virt].
    split; [apply in_or_app; right; simpl; auto|]. simpl. destruct (Nat.eqb_spec (next_hid s) h); auto. lia.
  - rewrite E1, Nat.eqb_refl. unfold tn1; cbn [virt with_virt]. apply in_or_app; right; simpl; auto.
Qed.
