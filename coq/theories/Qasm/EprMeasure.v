(* C08 / C11: measure-directly pair creation as an action of the N-host model (TeardownNet.ACreateM, and ARecv popping an
   outcome record).  The statements are made for an arbitrary state satisfying the global invariant ninv -- hence for the
   state after every clean history over N hosts (TeardownNet.nrun_ninv) -- and all requests.
     md_request_leaves_nothing   whether it succeeds or fails, the request leaves every node's held qubits, simulated qubits,
                                 registers and register count, every other host, and the creator's qubitList, unit modules and
                                 active applications exactly as they were; a success appends ONE outcome record to the peer's
                                 deque and keeps ONE physical id reserved (the code never releases it), a failure changes nothing
     md_request_outcomes         a successful request reports Epr.md_outcomes for the sampled bases and coins -- possible for
                                 |Phi+> -- in the two records (creator: directionality 0, remote node r, purpose = local socket;
                                 peer: directionality 1, remote node i, purpose = remote socket; same sequence number), queues
                                 the peer's record, and issues exactly the native calls md_ops
     md_record_poll              polling a deque whose head is an outcome record pops it, reports it, maps no qubit
     md_record_is_no_qubit       an unclaimed outcome record does not block "nothing left" (instance of net_stop_leaves_nothing)
   and a history by vm_compute (md_example). *)
From Coq Require Import List Bool Arith Lia.
From SQ Require Import Base.ListUtil Stab.Tableau Net.Model Net.Refusal Net.Handles Net.Inv Net.InvStep Net.Population Net.PerNode
  Qasm.Exec Qasm.ExecProps Qasm.Teardown Qasm.TeardownFull Qasm.Epr Qasm.EprGate Qasm.PerNodeNum Qasm.TeardownX Qasm.EprFailNode
  Qasm.EprMeasureNode Qasm.TeardownNet Qasm.TeardownNetExamples.
Import ListNotations.

Local Arguments step : simpl never.

Lemma nstep_r_create_m s i known r adj lsock rsock seq bl br c1 c2 coins : i < length (n_hosts s) ->
  nstep_r s (ACreateM i known r adj lsock rsock seq bl br c1 c2 coins) =
  (fst (fst (fst (create_m s i known r adj lsock rsock seq bl br c1 c2 coins))),
   snd (fst (fst (create_m s i known r adj lsock rsock seq bl br c1 c2 coins)))).
Proof.
  intro Hi. cbn [nstep_r]. destruct (Nat.ltb_spec i (length (n_hosts s))); [|lia].
  destruct (create_m s i known r adj lsock rsock seq bl br c1 c2 coins) as [[[s' res] tr] o]. reflexivity.
Qed.

(* what create_m does, in one place *)
Lemma create_m_effect s i known r adj lsock rsock seq bl br c1 c2 coins :
  ninv s -> i < length (n_hosts s) ->
  let c := create_m s i known r adj lsock rsock seq bl br c1 c2 coins in
  let s' := fst (fst (fst c)) in
  let qid := fresh_id (h_used (host_at s i)) in
  let o := md_outcomes bl br c1 c2 in
  (forall j, virt (nth_node (n_net s') j) = virt (nth_node (n_net s) j) /\ sims (nth_node (n_net s') j) = sims (nth_node (n_net s) j) /\
             regs (nth_node (n_net s') j) = regs (nth_node (n_net s) j) /\ numRegs (nth_node (n_net s') j) = numRegs (nth_node (n_net s) j) /\
             held (n_net s') j = held (n_net s) j) /\
  ((snd (fst (fst c)) = RDone None /\ epr_gate known i r adj = true /\
    snd c = Some (md_records i r lsock rsock seq bl br (b2n (fst o), b2n (snd o))) /\
    n_hosts s' = upd (n_hosts s) i (keep_used (host_at s i) qid) /\
    n_pend s' = n_pend s ++ [DM r rsock (snd (md_records i r lsock rsock seq bl br (b2n (fst o), b2n (snd o))))] /\
    tops (snd (fst c)) = md_ops i (next_hid (n_net s)) (S (next_hid (n_net s))) bl br c1 c2)
   \/ (snd (fst (fst c)) = RErr /\ snd c = None /\ n_hosts s' = n_hosts s /\ n_pend s' = n_pend s)).
Proof.
  intros I Hi. cbv zeta. unfold create_m. set (qid := fresh_id (h_used (host_at s i))). set (o := md_outcomes bl br c1 c2).
  pose proof (g_host s I i Hi) as Ti.
  destruct (cmd_epr_measure i (mkQ (n_net s) (host_at s i)) known r adj qid bl br c1 c2 coins) as [[[s1 res] tr] oo] eqn:CM.
  assert (KK : forall k hd, plookup k (h_qlist (host_at s i)) = Some hd -> exists p, k = PP p /\ p <> qid).
  { intros k hd Hk. destruct (x_keys _ _ _ Ti k hd Hk) as (p & E & Hu). exists p. split; auto.
    intro; subst p. apply (fresh_id_not_in (h_used (host_at s i))). exact Hu. }
  destruct (epr_measure_effect i (mkQ (n_net s) (host_at s i)) known r adj qid bl br c1 c2 coins s1 res tr oo (g_ginv s I) KK CM)
    as (QH & G1 & Mo & LL & VV & (k & _ & NB) & D).
  cbn [q_net q_host] in *.
  assert (NODES : forall j, virt (nth_node (q_net s1) j) = virt (nth_node (n_net s) j) /\ sims (nth_node (q_net s1) j) = sims (nth_node (n_net s) j) /\
             regs (nth_node (q_net s1) j) = regs (nth_node (n_net s) j) /\ numRegs (nth_node (q_net s1) j) = numRegs (nth_node (n_net s) j) /\
             held (q_net s1) j = held (n_net s) j).
  { intro j. destruct (bumped_same_fields (n_net s) (q_net s1) i k NB j) as (A & B & C & E & _).
    split; [exact A|]. split; [exact B|]. split; [exact C|]. split; [exact E|]. rewrite !held_hn, !hn_vn, VV. reflexivity. }
  destruct D as [(R & O & Gt & TR & _)|(R & O)]; subst res oo; cbn [fst snd n_net n_hosts n_pend].
  - split; [exact NODES|]. left. rewrite QH. repeat split; auto.
  - split; [exact NODES|]. right. rewrite QH. repeat split; auto. apply upd_same.
Qed.

Lemma host_at_upd_other (l : list host) n pd i j h : j <> i -> host_at (mkN n (upd l i h) pd) j = nth j l empty_host.
Proof. intro H. unfold host_at. cbn [n_hosts]. apply nth_upd_neq. auto. Qed.

Theorem md_request_leaves_nothing s i known r adj lsock rsock seq bl br c1 c2 coins :
  ninv s -> i < length (n_hosts s) ->
  let x := ACreateM i known r adj lsock rsock seq bl br c1 c2 coins in
  let s' := nstep s x in
  (* every node *)
  (forall j, virt (nth_node (n_net s') j) = virt (nth_node (n_net s) j) /\ sims (nth_node (n_net s') j) = sims (nth_node (n_net s) j) /\
             regs (nth_node (n_net s') j) = regs (nth_node (n_net s) j) /\ numRegs (nth_node (n_net s') j) = numRegs (nth_node (n_net s) j) /\
             held (n_net s') j = held (n_net s) j) /\
  (* every other host; the creator's qubit list, unit modules, active applications *)
  (forall j, j <> i -> host_at s' j = host_at s j) /\
  h_qlist (host_at s' i) = h_qlist (host_at s i) /\ h_units (host_at s' i) = h_units (host_at s i) /\
  h_active (host_at s' i) = h_active (host_at s i) /\
  (* used physical ids and the deques: one id stays reserved and one record is queued -- or nothing at all *)
  ((snd (nstep_r s x) = RDone None /\
    h_used (host_at s' i) = insert_sorted (fresh_id (h_used (host_at s i))) (h_used (host_at s i)) /\
    exists rec, n_pend s' = n_pend s ++ [DM r rsock rec] /\ halves (n_pend s') = halves (n_pend s))
   \/ (snd (nstep_r s x) = RErr /\ n_hosts s' = n_hosts s /\ n_pend s' = n_pend s)).
Proof.
  intros I Hi x s'. unfold s', nstep, x. rewrite (nstep_r_create_m s i known r adj lsock rsock seq bl br c1 c2 coins Hi). cbn [fst snd].
  destruct (create_m_effect s i known r adj lsock rsock seq bl br c1 c2 coins I Hi) as (NODES & D). cbv zeta in NODES, D.
  set (c := create_m s i known r adj lsock rsock seq bl br c1 c2 coins) in *.
  split; [exact NODES|].
  destruct D as [(R & Gt & O & H & P & TR)|(R & O & H & P)].
  - assert (HI : host_at (fst (fst (fst c))) i = keep_used (host_at s i) (fresh_id (h_used (host_at s i)))).
    { unfold host_at at 1. rewrite H. apply nth_upd_eq. exact Hi. }
    split. { intros j Nj. unfold host_at. rewrite H. apply nth_upd_neq. auto. }
    rewrite HI. split; [reflexivity|]. split; [reflexivity|]. split; [reflexivity|].
    left. split; [exact R|]. split; [reflexivity|]. eexists. split; [exact P|].
    rewrite P, halves_app. cbn [halves]. apply app_nil_r.
  - assert (HJ : forall j, host_at (fst (fst (fst c))) j = host_at s j) by (intro j; unfold host_at; rewrite H; reflexivity).
    split; [intros j _; apply HJ|]. rewrite HJ. split; [reflexivity|]. split; [reflexivity|]. split; [reflexivity|].
    right. auto.
Qed.

Theorem md_request_outcomes s i known r adj lsock rsock seq bl br c1 c2 coins :
  ninv s -> i < length (n_hosts s) ->
  let x := ACreateM i known r adj lsock rsock seq bl br c1 c2 coins in
  snd (nstep_r s x) = RDone None ->
  let o := md_outcomes bl br c1 c2 in
  let rc := mkMrec (b2n (fst o)) bl seq 0 r lsock in        (* the creator's record *)
  let rr := mkMrec (b2n (snd o)) br seq 1 i rsock in        (* the peer's *)
  phi_plus_possible bl br (fst o) (snd o) = true /\
  act_records s x = [(i, rc)] /\
  n_pend (nstep s x) = n_pend s ++ [DM r rsock rr] /\
  tops (snd (fst (create_m s i known r adj lsock rsock seq bl br c1 c2 coins))) =
    md_ops i (next_hid (n_net s)) (S (next_hid (n_net s))) bl br c1 c2 /\
  In r known /\ r <> i /\ adj = true.
Proof.
  intros I Hi x R o rc rr. unfold x in *. unfold nstep. rewrite (nstep_r_create_m s i known r adj lsock rsock seq bl br c1 c2 coins Hi) in *.
  cbn [fst snd] in *.
  destruct (create_m_effect s i known r adj lsock rsock seq bl br c1 c2 coins I Hi) as (_ & D). cbv zeta in D.
  destruct D as [(_ & Gt & O & H & P & TR)|(R' & _)]; [|rewrite R' in R; discriminate].
  split. { unfold o. clear. destruct bl, br, c1, c2; vm_compute; reflexivity. }
  split. { cbn [act_records]. destruct (Nat.ltb_spec i (length (n_hosts s))); [|lia]. rewrite O. reflexivity. }
  split; [exact P|]. split; [exact TR|]. apply epr_gate_iff. exact Gt.
Qed.

(* the receiver polls a deque whose head is an outcome record: it is popped and reported; the network, every qubitList and
   every unit module are untouched (one more physical id is reserved at the polling host) *)
Theorem md_record_poll s i app a sock nd sk rec pd' :
  i < length (n_hosts s) -> take_pend i sock (n_pend s) = Some (DM nd sk rec, pd') ->
  nstep_r s (ARecv i app a sock) =
    (mkN (n_net s) (upd (n_hosts s) i (keep_used (host_at s i) (fresh_id (h_used (host_at s i))))) pd', RDone None) /\
  act_records s (ARecv i app a sock) = [(i, rec)] /\ halves pd' = halves (n_pend s) /\
  exists l1 l2, n_pend s = l1 ++ DM nd sk rec :: l2 /\ pd' = l1 ++ l2 /\ nd = i /\ sk = sock /\
                forall e, In e l1 -> ~ (d_node e = i /\ d_sock e = sock).
Proof.
  intros Hi TP. cbn [nstep_r act_records]. destruct (Nat.ltb_spec i (length (n_hosts s))); [|lia]. rewrite TP.
  split; [reflexivity|]. split; [reflexivity|].
  assert (G : forall pd pd', take_pend i sock pd = Some (DM nd sk rec, pd') ->
              exists l1 l2, pd = l1 ++ DM nd sk rec :: l2 /\ pd' = l1 ++ l2 /\ nd = i /\ sk = sock /\
                            forall e, In e l1 -> ~ (d_node e = i /\ d_sock e = sock)).
  { clear. induction pd as [|x t IH]; intros pd'; simpl; [discriminate|].
    destruct (Nat.eqb (d_node x) i && Nat.eqb (d_sock x) sock) eqn:B.
    - apply andb_prop in B as [B1 B2]. apply Nat.eqb_eq in B1, B2. intro H; inversion H; subst x pd'. cbn [d_node d_sock] in *.
      exists [], t. split; [reflexivity|]. split; [reflexivity|]. split; [auto|]. split; [auto|]. intros e [].
    - destruct (take_pend i sock t) as [[x0 t']|]; [|discriminate]. intro H; inversion H; subst x0 pd'.
      destruct (IH t' eq_refl) as (l1 & l2 & E3 & E4 & E5 & E6 & E7). exists (x :: l1), l2. rewrite E3, E4. split; [reflexivity|]. split; [reflexivity|]. split; [auto|]. split; [auto|].
      intros e [->|He]; [|apply E7; exact He]. intros [A1 A2]. rewrite A1, A2, !Nat.eqb_refl in B. discriminate. }
  destruct (G _ _ TP) as (l1 & l2 & E1 & E2 & E3 & E4 & E5).
  split; [|exists l1, l2; auto]. rewrite E1, E2, !halves_app. reflexivity.
Qed.

(* ---- non-vacuity, by computation --------------------------------------------------------------------------------------------------- *)
(* two hosts, sockets (0, 0).  Host 0: one measure-directly pair with the sampled bases (X, Z) and coins (1, 0); then a
   create-and-keep pair on the same sockets: its half is queued BEHIND the outcome record in node 1's deque.  Host 1 polls twice:
   the first poll pops the record (no qubit), the second the half (mapped to address 0).  Both stop. *)
Definition caps2 : list (nat * nat) := [(4, 5); (4, 5)].
Definition md_create : nact := ACreateM 0 [0; 1] 1 true 0 0 0 BX BZ true false [].
Definition md_history : list nact :=
  [AInstr 0 (QInitApp 0 2); AInstr 1 (QInitApp 0 2);
   md_create;
   ACreate 0 0 0 [0; 1] 1 true 0 [];
   ARecv 1 0 0 0; ARecv 1 0 0 0;
   AInstr 0 (QStopApp 0 [true]); AInstr 1 (QStopApp 0 [false])].
Fixpoint nrun_records (s : nst) (xs : list nact) : list (nat * mrec) :=
  match xs with [] => [] | x :: t => act_records s x ++ nrun_records (nstep s x) t end.

Example md_example :
  cleans (ninit caps2) md_history /\
  nrun_res (ninit caps2) md_history = [RDone None; RDone None; RDone None; RDone None; RDone None; RDone None; RDone None; RDone None] /\
  (* the reported records: creator's at host 0 when the request completes, the peer's at host 1 at its first poll *)
  md_outcomes BX BZ true false = (true, false) /\
  nrun_records (ninit caps2) md_history = [(0, mkMrec 1 BX 0 0 1 0); (1, mkMrec 0 BZ 0 1 0 0)] /\
  (* after the measure-directly request: nothing anywhere, one record queued, one id reserved *)
  populations (nrun (ninit caps2) (firstn 3 md_history)) = [(0, 0, 0, 0); (0, 0, 0, 0)] /\
  n_pend (nrun (ninit caps2) (firstn 3 md_history)) = [DM 1 0 (mkMrec 0 BZ 0 1 0 0)] /\
  map h_used (n_hosts (nrun (ninit caps2) (firstn 3 md_history))) = [[0]; []] /\
  (* after the create-and-keep request: the half behind the record *)
  map d_node (n_pend (nrun (ninit caps2) (firstn 4 md_history))) = [1; 1] /\
  halves (n_pend (nrun (ninit caps2) (firstn 4 md_history))) = [(1, 0, 0, 4)] /\
  (* the first poll maps nothing, the second maps the half *)
  map h_qlist (n_hosts (nrun (ninit caps2) (firstn 5 md_history))) = [[(PP 1, 2)]; []] /\
  map h_qlist (n_hosts (nrun (ninit caps2) (firstn 6 md_history))) = [[(PP 1, 2)]; [(PP 1, 4)]] /\
  populations (nrun (ninit caps2) (firstn 6 md_history)) = [(1, 2, 1, 1); (1, 0, 0, 0)] /\
  (* everybody stopped: nothing left *)
  populations (nrun (ninit caps2) md_history) = [(0, 0, 0, 0); (0, 0, 0, 0)] /\
  n_pend (nrun (ninit caps2) md_history) = [].
Proof. split; [apply cleansb_ok; vm_compute; reflexivity|]. vm_compute. repeat split; reflexivity. Qed.

(* an outcome record nobody polls for holds no qubit: the applications stop, the record stays queued, and the theorem
   net_stop_leaves_nothing applies all the same (its hypothesis speaks about delivered HALVES) *)
Definition md_unpolled : list nact :=
  [AInstr 0 (QInitApp 0 2); AInstr 1 (QInitApp 0 2); md_create; AInstr 0 (QStopApp 0 []); AInstr 1 (QStopApp 0 [])].
Example md_record_is_no_qubit :
  cleans (ninit caps2) md_unpolled /\
  length (n_pend (nrun (ninit caps2) md_unpolled)) = 1 /\
  forall j, virt (nth_node (n_net (nrun (ninit caps2) md_unpolled)) j) = [] /\ sims (nth_node (n_net (nrun (ninit caps2) md_unpolled)) j) = [] /\
            regs (nth_node (n_net (nrun (ninit caps2) md_unpolled)) j) = [] /\ numRegs (nth_node (n_net (nrun (ninit caps2) md_unpolled)) j) = 0.
Proof.
  assert (C : cleans (ninit caps2) md_unpolled) by (apply cleansb_ok; vm_compute; reflexivity).
  split; [exact C|]. split; [vm_compute; reflexivity|].
  apply (net_stop_leaves_nothing caps2 md_unpolled C).
  - intros i Hi. destruct i as [|[|i]]; try (vm_compute; reflexivity). simpl in Hi. lia.
  - vm_compute. reflexivity.
Qed.

(* a failing measure-directly request (room for one more qubit only: the second cmd_new is refused, the first temporary is
   removed again) inside a history: error, everything as before, stop leaves nothing *)
Definition md_tight : list nact :=
  [AInstr 0 (QInitApp 0 2); AInstr 0 (QAlloc 0 1); ACreateM 0 [0; 1] 1 true 0 0 0 BY BY true true [true]; AInstr 0 (QStopApp 0 [false])].
Example md_failed_request_restores :
  cleans (ninit caps_tight) md_tight /\
  nrun_res (ninit caps_tight) md_tight = [RDone None; RDone None; RErr; RDone None] /\
  nrun_records (ninit caps_tight) md_tight = [] /\
  populations (nrun (ninit caps_tight) (firstn 3 md_tight)) = populations (nrun (ninit caps_tight) (firstn 2 md_tight)) /\
  n_hosts (nrun (ninit caps_tight) (firstn 3 md_tight)) = n_hosts (nrun (ninit caps_tight) (firstn 2 md_tight)) /\
  n_pend (nrun (ninit caps_tight) (firstn 3 md_tight)) = [] /\
  populations (nrun (ninit caps_tight) md_tight) = [(0, 0, 0, 0); (0, 0, 0, 0)].
Proof. split; [apply cleansb_ok; vm_compute; reflexivity|]. vm_compute. repeat split; reflexivity. Qed.
