(* Model F: proofs about the server parser (Stream.v). *)
From Coq Require Import List NArith Arith Lia Bool.
From SQ Require Import Base.ListUtil Frame.Bytes Frame.Msg Frame.Stream.
Import ListNotations.
Open Scope N_scope.

(* ------------------------------------------------------------------------------------------ reading at offsets *)
Lemma hdr_app b d p : hdr b = Some p -> hdr (b ++ d) = Some p.
Proof.
  unfold hdr. destruct (Nat.leb_spec 8 (length b)) as [H|H]; [|discriminate].
  intro E. rewrite app_length.
  destruct (Nat.leb_spec 8 (length b + length d)) as [H2|H2]; [|lia].
  rewrite !rd32_at_app_l by lia. exact E.
Qed.

Lemma hdr_some_len b p : hdr b = Some p -> (8 <= length b)%nat.
Proof. unfold hdr. destruct (Nat.leb_spec 8 (length b)); [auto|discriminate]. Qed.

(* ------------------------------------------------------------------------------------------ one parse step *)
Lemma slice_nonempty a b (l : bytes) : slice a b l <> [] -> (N.to_nat a < N.to_nat b)%nat.
Proof.
  unfold slice. intro H. destruct (N.to_nat b - N.to_nat a)%nat eqn:E; [simpl in H; congruence | lia].
Qed.

Lemma parse_fix_progress buf id m rest :
  parse_fix buf = PParsed id m rest -> (length rest < length buf)%nat.
Proof.
  unfold parse_fix. destruct (hdr buf) as [[i hlen]|] eqn:Eh; [|discriminate].
  destruct (N.ltb_spec (blen buf) hlen) as [Hl|Hl]; [discriminate|].
  destruct (deser (slice 8 hlen buf)) as [m'|] eqn:Ed; [|discriminate].
  intro E; inversion E; subst; clear E.
  apply deser_some_nonempty in Ed. apply slice_nonempty in Ed.
  apply hdr_some_len in Eh. rewrite drop_length. unfold blen in Hl. lia.
Qed.

Lemma parse_fix_app b d id m rest :
  parse_fix b = PParsed id m rest -> parse_fix (b ++ d) = PParsed id m (rest ++ d).
Proof.
  unfold parse_fix. destruct (hdr b) as [[i hlen]|] eqn:Eh; [|discriminate].
  rewrite (hdr_app b d _ Eh).
  destruct (N.ltb_spec (blen b) hlen) as [Hl|Hl]; [discriminate|].
  destruct (N.ltb_spec (blen (b ++ d)) hlen) as [Hl2|Hl2]; [rewrite blen_app in Hl2; lia|].
  rewrite slice_app_le by assumption.
  destruct (deser (slice 8 hlen b)) as [m'|]; [|discriminate].
  intro E; inversion E; subst; clear E.
  rewrite drop_app_le by assumption. reflexivity.
Qed.

(* ------------------------------------------------------------------------------------------ the loop *)
Lemma drainF_fuel f1 : forall f2 buf, (length buf < f1)%nat -> (length buf < f2)%nat ->
  drainF f1 buf = drainF f2 buf.
Proof.
  induction f1 as [|f1 IH]; intros f2 buf H1 H2; [lia|].
  destruct f2 as [|f2]; [lia|]. simpl.
  destruct (parse_fix buf) as [| |id m rest] eqn:E; try reflexivity.
  apply parse_fix_progress in E.
  rewrite (IH f2 rest) by lia. reflexivity.
Qed.

Lemma drainF_no_fuel f : forall buf, (length buf < f)%nat -> snd (drainF f buf) <> SFuel.
Proof.
  induction f as [|f IH]; intros buf H; [lia|]. simpl.
  destruct (parse_fix buf) as [| |id m rest] eqn:E; simpl; try congruence.
  apply parse_fix_progress in E.
  specialize (IH rest ltac:(lia)).
  destruct (drainF f rest) as [[hs r] s]. simpl in *. exact IH.
Qed.

Lemma drain_unfold buf :
  drain buf = match parse_fix buf with
              | PIncomplete => ([], buf, SWait)
              | PRaise => ([], buf, SRaise)
              | PParsed id m rest => let '(hs, r, s) := drain rest in ((id, m) :: hs, r, s)
              end.
Proof.
  unfold drain at 1. simpl.
  destruct (parse_fix buf) as [| |id m rest] eqn:E; try reflexivity.
  apply parse_fix_progress in E.
  unfold drain. rewrite (drainF_fuel (length buf) (S (length rest)) rest) by lia. reflexivity.
Qed.

Lemma drain_no_fuel buf : snd (drain buf) <> SFuel.
Proof. unfold drain. apply drainF_no_fuel. lia. Qed.

Lemma drain_app_aux n : forall b d hs r s, (length b < n)%nat ->
  drain b = (hs, r, s) ->
  drain (b ++ d) = let '(hs2, r2, s2) := drain (r ++ d) in (hs ++ hs2, r2, s2).
Proof.
  induction n as [|n IH]; intros b d hs r s Hn E; [lia|].
  rewrite drain_unfold in E.
  destruct (parse_fix b) as [| |id m rest] eqn:Ep.
  - inversion E; subst. simpl. destruct (drain (r ++ d)) as [[a b'] c]. reflexivity.
  - inversion E; subst. simpl. destruct (drain (r ++ d)) as [[a b'] c]. reflexivity.
  - pose proof (parse_fix_progress _ _ _ _ Ep) as Hp.
    destruct (drain rest) as [[hs' r'] s'] eqn:Er. inversion E; subst; clear E.
    rewrite (drain_unfold (b ++ d)). rewrite (parse_fix_app _ d _ _ _ Ep).
    rewrite (IH rest d hs' r s ltac:(lia) Er).
    destruct (drain (r ++ d)) as [[a b'] c]. reflexivity.
Qed.

Lemma drain_app b d hs r s :
  drain b = (hs, r, s) ->
  drain (b ++ d) = let '(hs2, r2, s2) := drain (r ++ d) in (hs ++ hs2, r2, s2).
Proof. apply (drain_app_aux (S (length b))). lia. Qed.

(* what is left in the buffer after a call cannot be parsed any further *)
Lemma drain_residual_aux n : forall b hs r s, (length b < n)%nat ->
  drain b = (hs, r, s) -> drain r = ([], r, s).
Proof.
  induction n as [|n IH]; intros b hs r s Hn E; [lia|].
  pose proof E as E0.
  rewrite drain_unfold in E.
  destruct (parse_fix b) as [| |id m rest] eqn:Ep.
  - inversion E; subst. rewrite drain_unfold, Ep. reflexivity.
  - inversion E; subst. rewrite drain_unfold, Ep. reflexivity.
  - pose proof (parse_fix_progress _ _ _ _ Ep) as Hp.
    destruct (drain rest) as [[hs' r'] s'] eqn:Er. inversion E; subst; clear E.
    apply (IH rest hs' r s); [lia | exact Er].
Qed.

Lemma drain_residual b hs r s : drain b = (hs, r, s) -> drain r = ([], r, s).
Proof. apply (drain_residual_aux (S (length b))). lia. Qed.

(* ------------------------------------------------------------------------------------------ chunking invariance *)
Definition proj (x : list frame * bytes * status) : list frame * bytes := (fst (fst x), snd (fst x)).

Lemma run_fix_drain cs : forall b s0, drain b = ([], b, s0) ->
  run_fix b cs = proj (drain (b ++ concat cs)).
Proof.
  induction cs as [|c cs IH]; intros b s0 Hb.
  - simpl. rewrite app_nil_r, Hb. reflexivity.
  - unfold run_fix in *. simpl. unfold feed_fix at 1.
    destruct (drain (b ++ c)) as [[h1 r1] s1] eqn:E1.
    pose proof (drain_residual _ _ _ _ E1) as Hr1.
    rewrite (IH r1 s1 Hr1).
    rewrite app_assoc. rewrite (drain_app _ (concat cs) _ _ _ E1).
    destruct (drain (r1 ++ concat cs)) as [[h2 r2] s2]. reflexivity.
Qed.

Lemma drain_nil : drain [] = ([], [], SWait).
Proof. reflexivity. Qed.

(* for EVERY byte stream (well formed or not): what is handled and what stays buffered depends only on the
   concatenation of the reads, not on where the reads were cut *)
Lemma run_fix_chunking_invariant cs1 cs2 :
  concat cs1 = concat cs2 -> run_fix [] cs1 = run_fix [] cs2.
Proof.
  intro H. rewrite (run_fix_drain cs1 [] SWait drain_nil), (run_fix_drain cs2 [] SWait drain_nil).
  simpl. rewrite H. reflexivity.
Qed.

(* ------------------------------------------------------------------------------------------ well-formed streams *)
Lemma enc1_length id m : length (enc1 (id, m)) = (8 + length (ser m))%nat.
Proof. unfold enc1. rewrite !app_length, !le32_length. lia. Qed.

Lemma hdr_enc1 id m tail : u32_ok id -> u32_ok (8 + blen (ser m)) ->
  hdr (enc1 (id, m) ++ tail) = Some (id, 8 + blen (ser m)).
Proof.
  intros Hid Hl. unfold hdr.
  destruct (Nat.leb_spec 8 (length (enc1 (id, m) ++ tail))) as [H|H].
  2:{ rewrite app_length, enc1_length in H. lia. }
  unfold enc1. f_equal. f_equal.
  - rewrite <- app_assoc. apply (rd32_at_le32 [] id _ 0 Hid eq_refl).
  - rewrite <- !app_assoc.
    apply (rd32_at_le32 (le32 id) (8 + blen (ser m)) (ser m ++ tail) 4 Hl eq_refl).
Qed.

Lemma slice_enc1 id m tail :
  slice 8 (8 + blen (ser m)) (enc1 (id, m) ++ tail) = ser m.
Proof.
  unfold slice, enc1, blen.
  replace (N.to_nat (8 + N.of_nat (length (ser m))) - N.to_nat 8)%nat with (length (ser m)) by lia.
  change (N.to_nat 8) with 8%nat.
  rewrite <- !app_assoc.
  change (le32 id ++ le32 (8 + N.of_nat (length (ser m))) ++ ser m ++ tail)
    with ((le32 id ++ le32 (8 + N.of_nat (length (ser m)))) ++ ser m ++ tail) at 1.
  rewrite skipn_app.
  replace (length (le32 id ++ le32 (8 + N.of_nat (length (ser m))))) with 8%nat by reflexivity.
  rewrite skipn_all2 by (simpl; lia). simpl.
  rewrite firstn_app, Nat.sub_diag, firstn_all. simpl. apply app_nil_r.
Qed.

Lemma drop_enc1 id m tail : drop (8 + blen (ser m)) (enc1 (id, m) ++ tail) = tail.
Proof.
  replace (8 + blen (ser m)) with (blen (enc1 (id, m))).
  - apply drop_app_exact.
  - unfold blen. rewrite enc1_length. lia.
Qed.

Lemma parse_fix_enc1 id m tail : wf_frame (id, m) ->
  parse_fix (enc1 (id, m) ++ tail) = PParsed id m tail.
Proof.
  intros (Hid & Hm & Hl). unfold parse_fix.
  rewrite (hdr_enc1 id m tail Hid Hl).
  destruct (N.ltb_spec (blen (enc1 (id, m) ++ tail)) (8 + blen (ser m))) as [H|H].
  { rewrite blen_app in H. unfold blen in H. rewrite enc1_length in H. lia. }
  rewrite slice_enc1, (deser_ser m Hm), drop_enc1. reflexivity.
Qed.

Lemma drain_encode ms : Forall wf_frame ms -> drain (encode ms) = (ms, [], SWait).
Proof.
  induction 1 as [|[id m] ms Hm Hms IH]; [reflexivity|].
  unfold encode in *.
  change (flat_map enc1 ((id, m) :: ms)) with (enc1 (id, m) ++ flat_map enc1 ms).
  rewrite drain_unfold. rewrite (parse_fix_enc1 id m _ Hm). rewrite IH. reflexivity.
Qed.

Lemma server_reassembly_fix ms cs :
  Forall wf_frame ms -> concat cs = encode ms -> run_fix [] cs = (ms, []).
Proof.
  intros Hw Hc. rewrite (run_fix_drain cs [] SWait drain_nil). simpl.
  rewrite Hc, (drain_encode ms Hw). reflexivity.
Qed.

(* no read ever ends in the out-of-fuel case, and no read of a well-formed stream raises *)
Lemma feed_fix_no_fuel b d : snd (feed_fix b d) <> SFuel.
Proof. unfold feed_fix. apply drain_no_fuel. Qed.

(* ------------------------------------------------------------------------------------------ the code as found *)
Definition w_id1 : N := 1.
Definition w_id2 : N := 2.
Definition w_two_signals : list frame := [(1, HSignal 0); (2, HStop 5)].
Definition w_sub_then_stop : list frame := [(1, HSub [7; 7; 7]); (2, HStop 5)].

Lemma wf_w_two_signals : Forall wf_frame w_two_signals.
Proof. repeat constructor; unfold u32_ok, byte_ok; simpl; lia. Qed.
Lemma wf_w_sub_then_stop : Forall wf_frame w_sub_then_stop.
Proof. repeat constructor; unfold u32_ok, byte_ok; simpl; lia. Qed.

(* several messages in one read: only the first is handled, the second stays in the buffer *)
Lemma cur_coalesced_refuted :
  exists ms cs, Forall wf_frame ms /\ concat cs = encode ms /\
                run_cur [] cs = ([(1, HSignal 0)], enc1 (2, HStop 5)) /\ run_cur [] cs <> (ms, []).
Proof.
  exists w_two_signals, [encode w_two_signals].
  split; [exact wf_w_two_signals|]. split; [reflexivity|]. split; [vm_compute; reflexivity|].
  vm_compute. intro H. discriminate H.
Qed.

(* the payload is not cut at `length`: a subroutine swallows the bytes of the message that follows it *)
Lemma cur_payload_refuted :
  exists ms cs, Forall wf_frame ms /\ concat cs = encode ms /\
                fst (run_cur [] cs) = [(1, HSub ([7; 7; 7] ++ enc1 (2, HStop 5)))] /\
                fst (run_cur [] cs) <> ms.
Proof.
  exists w_sub_then_stop, [encode w_sub_then_stop].
  split; [exact wf_w_sub_then_stop|]. split; [reflexivity|]. split; [vm_compute; reflexivity|].
  vm_compute. intro H. discriminate H.
Qed.

(* the same stream cut between the messages is handled correctly by the code as found: the outcome depends on
   the chunking, which is exactly what the property forbids *)
Lemma cur_depends_on_chunking :
  exists cs1 cs2, concat cs1 = concat cs2 /\ run_cur [] cs1 <> run_cur [] cs2.
Proof.
  exists [encode w_two_signals], [enc1 (1, HSignal 0); enc1 (2, HStop 5)].
  split; [reflexivity|]. vm_compute. intro H. discriminate H.
Qed.

(* non-vacuity: a reachable, non-trivial instance of the reassembly theorem (3 messages, cut inside headers) *)
Example reassembly_example :
  let ms := [(7, HInit 1 3); (8, HSub [104; 105]); (9, HStop 1)] in
  let s := encode ms in
  Forall wf_frame ms /\
  concat [firstn 3 s; firstn 18 (skipn 3 s); skipn 21 s] = s /\
  run_fix [] [firstn 3 s; firstn 18 (skipn 3 s); skipn 21 s] = (ms, []).
Proof.
  split; [repeat constructor; unfold u32_ok, byte_ok; simpl; lia|].
  split; vm_compute; reflexivity.
Qed.
