(* Model P — the settings store of simulaqron/settings.py, as the code is.

     Config._config                      one dict per *process* (class attribute, shared by all instances)   -> cache
     <package>/config/settings.json      written by _write(): the WHOLE cache (json.dump)                      -> store
     ~/.simulaqron.json                  read only                                                            -> user

     update_settings(default=False):  cache.update(default)
                                      if store file exists: cache.update(store) else: _write()      (before the user merge)
                                      if cache["_read_user"]: if user file exists: cache.update(user)
     default_settings():              cache.update(default); _write()
     _set_setting(k, v):              cache[k] = v; _write()
     import of simulaqron.settings:   Config()  ->  update_settings()  on an empty cache

   Dictionaries are association lists in Python's insertion order (dict.update replaces in place or appends).
   Executable definitions only; proofs are in Settings/Facts.v. *)
From Coq Require Import List String ZArith Bool Arith.
Import ListNotations.
Local Open Scope string_scope.

Inductive val :=
| VNull
| VBool (b : bool)
| VInt (z : Z)
| VFloat (num : Z) (den : positive)      (* float.as_integer_ratio() *)
| VStr (s : string).

Definition val_eqb (a b : val) : bool :=
  match a, b with
  | VNull, VNull => true
  | VBool x, VBool y => Bool.eqb x y
  | VInt x, VInt y => Z.eqb x y
  | VFloat n d, VFloat n' d' => Z.eqb n n' && Pos.eqb d d'
  | VStr x, VStr y => String.eqb x y
  | _, _ => false
  end.

(* Python truthiness of a JSON value (`if self._read_user:`) *)
Definition truthy (v : val) : bool :=
  match v with
  | VNull => false
  | VBool b => b
  | VInt z => negb (Z.eqb z 0)
  | VFloat n _ => negb (Z.eqb n 0)
  | VStr s => negb (String.eqb s "")
  end.

Definition key := string.
Definition dict := list (key * val).

Fixpoint lookup (d : dict) (k : key) : option val :=
  match d with
  | [] => None
  | (k', v) :: t => if String.eqb k' k then Some v else lookup t k
  end.

(* d[k] = v *)
Fixpoint set (d : dict) (k : key) (v : val) : dict :=
  match d with
  | [] => [(k, v)]
  | (k', v') :: t => if String.eqb k' k then (k', v) :: t else (k', v') :: set t k v
  end.

(* d.update(e) *)
Definition update (d e : dict) : dict := fold_left (fun acc kv => set acc (fst kv) (snd kv)) e d.

Definition pid := nat.

Record state := {
  store : option dict;          (* None: the file does not exist *)
  user : option dict;           (* None: no ~/.simulaqron.json; never written by the code *)
  procs : list (pid * dict);    (* live processes and their caches *)
  stale : list pid              (* ghost: live processes that have not re-read the store since another process wrote it *)
}.

Inductive op :=
| Spawn (p : pid)                       (* a new interpreter imports simulaqron.settings *)
| SetK (p : pid) (k : key) (v : val)    (* simulaqron_settings.<k> = v *)
| Reset (p : pid)                       (* simulaqron_settings.default_settings() *)
| Reload (p : pid)                      (* simulaqron_settings.update_settings() *)
| Exit (p : pid).

Fixpoint cache_of (ps : list (pid * dict)) (p : pid) : option dict :=
  match ps with
  | [] => None
  | (q, c) :: t => if Nat.eqb q p then Some c else cache_of t p
  end.

Fixpoint pset (ps : list (pid * dict)) (p : pid) (c : dict) : list (pid * dict) :=
  match ps with
  | [] => [(p, c)]
  | (q, c') :: t => if Nat.eqb q p then (q, c) :: t else (q, c') :: pset t p c
  end.

Definition premove (ps : list (pid * dict)) (p : pid) : list (pid * dict) :=
  filter (fun qc => negb (Nat.eqb (fst qc) p)) ps.

Definition lremove (l : list pid) (p : pid) : list pid := filter (fun q => negb (Nat.eqb q p)) l.
Definition lmem (p : pid) (l : list pid) : bool := existsb (Nat.eqb p) l.

Section WithDefault.
Variable dflt : dict.                   (* Config._default_config, read from the implementation by the harness *)

Definition read_user_key : key := "_read_user".

(* `if self._read_user:` — a missing key would raise KeyError in the code; unreachable when dflt has the key *)
Definition enabled (c : dict) : bool :=
  match lookup c read_user_key with Some v => truthy v | None => false end.

Definition merge_user (u : option dict) (c : dict) : dict :=
  if enabled c then match u with Some ud => update c ud | None => c end else c.

(* update_settings() on a cache: new cache and new store *)
Definition load (st : option dict) (u : option dict) (cache : dict) : dict * option dict :=
  let c1 := update cache dflt in
  match st with
  | Some sd => (merge_user u (update c1 sd), st)
  | None => (merge_user u c1, Some c1)
  end.

Definition others (ps : list (pid * dict)) (p : pid) : list pid :=
  lremove (map fst ps) p.

Definition step (s : state) (o : op) : state :=
  match o with
  | Spawn p =>
      let '(c, st) := load (store s) (user s) [] in
      {| store := st; user := user s; procs := pset (procs s) p c; stale := lremove (stale s) p |}
  | Reload p =>
      match cache_of (procs s) p with
      | None => s
      | Some c0 =>
          let '(c, st) := load (store s) (user s) c0 in
          {| store := st; user := user s; procs := pset (procs s) p c; stale := lremove (stale s) p |}
      end
  | SetK p k v =>
      match cache_of (procs s) p with
      | None => s
      | Some c0 =>
          let c := set c0 k v in
          {| store := Some c; user := user s; procs := pset (procs s) p c; stale := others (procs s) p |}
      end
  | Reset p =>
      match cache_of (procs s) p with
      | None => s
      | Some c0 =>
          let c := update c0 dflt in
          {| store := Some c; user := user s; procs := pset (procs s) p c; stale := others (procs s) p |}
      end
  | Exit p =>
      {| store := store s; user := user s; procs := premove (procs s) p; stale := lremove (stale s) p |}
  end.

Definition run (s : state) (ops : list op) : state := fold_left step ops s.

Definition init (st u : option dict) : state := {| store := st; user := u; procs := []; stale := [] |}.

(* single-writer discipline: a process writes only if no other process wrote since it last read the store *)
Definition op_ok (s : state) (o : op) : bool :=
  match o with
  | SetK p _ _ | Reset p => negb (lmem p (stale s))
  | _ => true
  end.

Fixpoint disciplined (s : state) (ops : list op) : bool :=
  match ops with
  | [] => true
  | o :: t => op_ok s o && disciplined (step s o) t
  end.

(* what a process started now would see in the store layer: default < stored *)
Definition eff_store (s : state) (k : key) : option val :=
  match store s with
  | Some sd => match lookup sd k with Some v => Some v | None => lookup dflt k end
  | None => lookup dflt k
  end.

Definition user_has (s : state) (k : key) : bool :=
  match user s with Some u => match lookup u k with Some _ => true | None => false end | None => false end.

Definition overrides_enabled (s : state) : bool :=
  match eff_store s read_user_key with Some v => truthy v | None => false end.

(* the value a process started now reads for k (any unused pid) *)
Definition fresh_read (s : state) (k : key) : option val :=
  lookup (fst (load (store s) (user s) [])) k.

Definition writes_key (k : key) (o : op) : bool :=
  match o with
  | SetK _ k' _ => String.eqb k' k
  | Reset _ => true
  | _ => false
  end.

End WithDefault.

(* ---------- comparison helpers for the correspondence ------------------------------------------------- *)
Definition kv_eqb (a b : key * val) : bool := String.eqb (fst a) (fst b) && val_eqb (snd a) (snd b).
Fixpoint dict_eqb (a b : dict) : bool :=
  match a, b with
  | [], [] => true
  | x :: ta, y :: tb => kv_eqb x y && dict_eqb ta tb
  | _, _ => false
  end.
Definition optdict_eqb (a b : option dict) : bool :=
  match a, b with
  | None, None => true
  | Some x, Some y => dict_eqb x y
  | _, _ => false
  end.
Definition optval_eqb (a b : option val) : bool :=
  match a, b with
  | None, None => true
  | Some x, Some y => val_eqb x y
  | _, _ => false
  end.
