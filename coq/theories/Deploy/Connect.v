(* Model D — stability and liveness of the connect/retry state machine. *)
From Coq Require Import List Bool Arith Lia.
From SQ Require Import Deploy.Model Deploy.Invariant.
Import ListNotations.

(* ---- stability: nothing ever removes a connection entry (as in the code: [conn] is never pruned) -------------------- *)
Lemma conn_step_mono n s e p : In p (conn s) -> In p (conn (step n s e)).
Proof.
  intros H. destruct e as [i|i j|i j|i j]; simpl.
  - destruct ((i <? n) && negb (nmem i (started s))); simpl; auto.
  - destruct (lmem (i, j) (att s)); auto. destruct (nmem j (up s)); simpl; auto.
    apply In_lins. auto.
  - destruct (lmem (i, j) (ret s)); simpl; auto.
  - destruct (lmem (i, j) (att s)); simpl; auto.
Qed.

Lemma conn_run_mono n es : forall s p, In p (conn s) -> In p (conn (run_events n s es)).
Proof.
  unfold run_events. induction es as [|e es IH]; simpl; intros s p H; auto.
  apply IH. apply conn_step_mono; auto.
Qed.

Lemma check_step_stable n s e i :
  Inv n s -> check_connections n s i = true -> check_connections n (step n s e) i = true.
Proof.
  intros HI H. apply (check_connections_iff n (step n s e) i (Inv_step n s e HI)).
  intros j Hj. apply conn_step_mono. apply (check_connections_iff n s i HI); auto.
Qed.

Lemma check_run_stable n es : forall s i,
  Inv n s -> check_connections n s i = true -> check_connections n (run_events n s es) i = true.
Proof.
  unfold run_events. induction es as [|e es IH]; simpl; intros s i HI H; auto.
  apply IH; [apply Inv_step; auto | apply check_step_stable; auto].
Qed.

(* ---- what one step does to a link that is in flight / scheduled ------------------------------------------------------ *)
Lemma att_step n s e i j :
  In (i, j) (att s) -> is_crash e = false -> In (i, j) (att (step n s e)) \/ e = Try i j.
Proof.
  intros H C. destruct e as [a|a b|a b|a b]; simpl in *; try discriminate.
  - left. destruct ((a <? n) && negb (nmem a (started s))); simpl; auto. apply in_app_iff; auto.
  - destruct (link_dec (a, b) (i, j)) as [E|E]; [inversion E; auto|]. left.
    destruct (lmem (a, b) (att s)); auto.
    destruct (nmem b (up s)); simpl; apply In_ldel; split; auto; congruence.
  - left. destruct (lmem (a, b) (ret s)); simpl; auto. apply In_lins; auto.
Qed.

Lemma ret_step n s e i j :
  In (i, j) (ret s) -> is_crash e = false -> In (i, j) (ret (step n s e)) \/ e = Retry i j.
Proof.
  intros H C. destruct e as [a|a b|a b|a b]; simpl in *; try discriminate.
  - left. destruct ((a <? n) && negb (nmem a (started s))); simpl; auto.
  - left. destruct (lmem (a, b) (att s)); auto.
    destruct (nmem b (up s)); simpl; auto. apply In_lins; auto.
  - destruct (link_dec (a, b) (i, j)) as [E|E]; [inversion E; auto|]. left.
    destruct (lmem (a, b) (ret s)); simpl; auto. apply In_ldel; split; auto; congruence.
Qed.

(* handle_connection: an attempt towards a listening peer ends in a connection entry *)
Lemma try_connects n s i j :
  In (i, j) (att s) -> In j (up s) -> In (i, j) (conn (step n s (Try i j))).
Proof.
  intros H U. simpl. apply lmem_In in H. apply nmem_In in U. rewrite H, U. simpl.
  apply In_lins; auto.
Qed.

(* handle_connection_error(ConnectionRefused): an attempt towards a peer that is not listening is rescheduled *)
Lemma try_refused_reschedules n s i j :
  In (i, j) (att s) -> ~ In j (up s) -> In (i, j) (ret (step n s (Try i j))) /\ conn (step n s (Try i j)) = conn s.
Proof.
  intros H U. simpl. apply lmem_In in H. apply nmem_nIn in U. rewrite H, U. simpl.
  split; auto. apply In_lins; auto.
Qed.

Lemma retry_attempts n s i j :
  In (i, j) (ret s) -> In (i, j) (att (step n s (Retry i j))).
Proof.
  intros H. simpl. apply lmem_In in H. rewrite H. simpl. apply In_lins; auto.
Qed.

(* ---- runs ------------------------------------------------------------------------------------------------------------ *)
Section Run.
  Variable n : nat.
  Variable r : run.
  Hypothesis no_crash : forall t, is_crash (r t) = false.

  Let St := state_at n r.

  Lemma up_step_mono s e x : is_crash e = false -> In x (up s) -> In x (up (step n s e)).
  Proof.
    intros C H. destruct e as [i|i j|i j|i j]; simpl in *; try discriminate.
    - destruct ((i <? n) && negb (nmem i (started s))); simpl; auto.
    - destruct (lmem (i, j) (att s)); auto. destruct (nmem j (up s)); simpl; auto.
    - destruct (lmem (i, j) (ret s)); simpl; auto.
  Qed.

  Lemma up_mono x t d : In x (up (St t)) -> In x (up (St (t + d))).
  Proof.
    intros H. induction d as [|d IH]; [rewrite Nat.add_0_r; auto|].
    rewrite Nat.add_succ_r. unfold St in *. simpl. apply up_step_mono; auto.
  Qed.

  Lemma conn_mono p t d : In p (conn (St t)) -> In p (conn (St (t + d))).
  Proof.
    intros H. induction d as [|d IH]; [rewrite Nat.add_0_r; auto|].
    rewrite Nat.add_succ_r. unfold St in *. simpl. apply conn_step_mono; auto.
  Qed.

  (* without crashes, a started node is a listening node *)
  Lemma started_up t x : In x (started (St t)) -> In x (up (St t)).
  Proof.
    induction t as [|t IH]; simpl; [contradiction|].
    unfold St in *. simpl. specialize (no_crash t).
    destruct (r t) as [i|i j|i j|i j]; simpl in *; try discriminate.
    - destruct ((i <? n) && negb (nmem i (state_at n r t).(started))); simpl; auto.
      intros [E|E]; auto.
    - destruct (lmem (i, j) (att (state_at n r t))); auto.
      destruct (nmem j (up (state_at n r t))); simpl; auto.
    - destruct (lmem (i, j) (ret (state_at n r t))); simpl; auto.
  Qed.

  (* the event Up i leaves node i listening, whether or not it was the first one *)
  Lemma up_event t i : i < n -> r t = Up i -> In i (up (St (t + 1))).
  Proof.
    intros Hi E. rewrite Nat.add_1_r. unfold St. simpl. rewrite E. simpl.
    destruct (Nat.ltb_spec i n); [|lia]. simpl.
    destruct (nmem i (started (state_at n r t))) eqn:M; simpl; auto.
    apply nmem_In in M. apply started_up; auto.
  Qed.

  (* finitely many eventually-and-forever facts hold together from some time on *)
  Lemma collect (P : nat -> nat -> Prop) k :
    (forall x t d, P x t -> P x (t + d)) ->
    (forall x, x < k -> exists t, P x t) ->
    exists T, forall x, x < k -> P x T.
  Proof.
    intros M. induction k as [|k IH]; intros H.
    - exists 0. intros; lia.
    - destruct IH as [T1 H1]; [intros; apply H; lia|].
      destruct (H k) as [T2 H2]; [lia|].
      exists (T1 + T2). intros x Hx.
      destruct (Nat.eq_dec x k) as [->|Hne].
      + rewrite Nat.add_comm. apply M; auto.
      + apply M. apply H1. lia.
  Qed.

  Hypothesis all_start : forall i, i < n -> exists t, r t = Up i.
  Hypothesis att_fair : forall t i j, In (i, j) (att (St t)) -> exists t', t <= t' /\ r t' = Try i j.
  Hypothesis ret_fair : forall t i j, In (i, j) (ret (St t)) -> exists t', t <= t' /\ r t' = Retry i j.

  Lemma all_up : exists T0, forall i, i < n -> In i (up (St T0)).
  Proof.
    apply (collect (fun i t => In i (up (St t)))).
    - intros; apply up_mono; auto.
    - intros i Hi. destruct (all_start i Hi) as [t E]. exists (t + 1). apply up_event; auto.
  Qed.

  (* an attempt towards a listening peer: it stays in flight until it completes, and it completes in a connection *)
  Lemma att_persists t i j d : In j (up (St t)) -> In (i, j) (att (St t)) ->
    In (i, j) (att (St (t + d))) \/ exists u, In (i, j) (conn (St u)).
  Proof.
    intros U H. induction d as [|d IH]; [rewrite Nat.add_0_r; auto|].
    destruct IH as [IH|IH]; auto.
    rewrite Nat.add_succ_r.
    destruct (att_step n (St (t + d)) (r (t + d)) i j IH (no_crash _)) as [A|A].
    - left. exact A.
    - right. exists (S (t + d)). unfold St. simpl. fold (St (t + d)). rewrite A.
      apply try_connects; auto. apply up_mono; auto.
  Qed.

  Lemma att_connects t i j : In j (up (St t)) -> In (i, j) (att (St t)) -> exists u, In (i, j) (conn (St u)).
  Proof.
    intros U H. destruct (att_fair t i j H) as [t' [Ht E]].
    replace t' with (t + (t' - t)) in E by lia.
    destruct (att_persists t i j (t' - t) U H) as [A|A]; auto.
    exists (S (t + (t' - t))). unfold St. simpl. fold (St (t + (t' - t))). rewrite E.
    apply try_connects; auto. apply up_mono; auto.
  Qed.

  (* a scheduled retry stays scheduled until it fires, and then it is an attempt again *)
  Lemma ret_persists t i j d : In (i, j) (ret (St t)) ->
    In (i, j) (ret (St (t + d))) \/ exists u, t <= u /\ In (i, j) (att (St u)).
  Proof.
    intros H. induction d as [|d IH]; [rewrite Nat.add_0_r; auto|].
    destruct IH as [IH|IH]; auto.
    rewrite Nat.add_succ_r.
    destruct (ret_step n (St (t + d)) (r (t + d)) i j IH (no_crash _)) as [A|A].
    - left. exact A.
    - right. exists (S (t + d)). split; [lia|]. unfold St. simpl. fold (St (t + d)). rewrite A.
      apply retry_attempts; auto.
  Qed.

  Lemma ret_attempts t i j : In (i, j) (ret (St t)) -> exists u, t <= u /\ In (i, j) (att (St u)).
  Proof.
    intros H. destruct (ret_fair t i j H) as [t' [Ht E]].
    replace t' with (t + (t' - t)) in E by lia.
    destruct (ret_persists t i j (t' - t) H) as [A|A]; auto.
    exists (S (t + (t' - t))). split; [lia|]. unfold St. simpl. fold (St (t + (t' - t))). rewrite E.
    apply retry_attempts; auto.
  Qed.

  (* every link of the configuration is eventually a connection entry *)
  Lemma link_eventually T0 i j :
    (forall k, k < n -> In k (up (St T0))) -> i < n -> j < n -> exists u, In (i, j) (conn (St u)).
  Proof.
    intros U Hi Hj.
    destruct (inv_cover n (St T0) (Inv_state_at n r T0) i j (U i Hi) Hj) as [C|[C|C]].
    - exists T0; auto.
    - apply (att_connects T0); auto.
    - destruct (ret_attempts T0 i j C) as [u [Hu A]].
      apply (att_connects u); auto.
      replace u with (T0 + (u - T0)) by lia. apply up_mono; auto.
  Qed.

  Lemma eventually_all_links : exists T, forall i, i < n -> forall j, j < n -> In (i, j) (conn (St T)).
  Proof.
    destruct all_up as [T0 U].
    apply (collect (fun i t => forall j, j < n -> In (i, j) (conn (St t)))).
    - intros x t d H j Hj. apply conn_mono; auto.
    - intros i Hi.
      apply (collect (fun j t => In (i, j) (conn (St t)))).
      + intros; apply conn_mono; auto.
      + intros j Hj. apply (link_eventually T0); auto.
  Qed.

  Lemma eventually_connected_run :
    exists T, forall t, T <= t -> forall i, i < n -> check_connections n (St t) i = true.
  Proof.
    destruct eventually_all_links as [T H]. exists T. intros t Ht i Hi.
    apply (check_connections_iff n (St t) i (Inv_state_at n r t)).
    intros j Hj. replace t with (T + (t - T)) by lia. apply conn_mono. auto.
  Qed.
End Run.

Theorem eventually_connected n r : fair n r ->
  exists T, forall t, T <= t -> forall i, i < n -> check_connections n (state_at n r t) i = true.
Proof.
  intros [F1 [F2 [F3 F4]]]. apply eventually_connected_run; auto.
Qed.

(* before every node has come up nobody can report full connectivity (n >= 2): the answer True is never premature *)
Lemma conn_needs_listener n es : forall s, Inv n s ->
  (forall i j, In (i, j) (conn s) -> In j (started s)) ->
  forall i j, In (i, j) (conn (run_events n s es)) -> In j (started (run_events n s es)).
Proof.
  unfold run_events. induction es as [|e es IH]; simpl; intros s HI H; auto.
  apply IH; [apply Inv_step; auto|].
  intros i j. destruct e as [a|a b|a b|a b]; simpl.
  - destruct ((a <? n) && negb (nmem a (started s))); simpl; eauto.
    intros [E|E]; [inversion E; auto|]. right. eapply H; eauto.
  - destruct (lmem (a, b) (att s)); eauto. destruct (nmem b (up s)) eqn:U; simpl; eauto.
    intros E. apply In_lins in E. destruct E as [E|E]; [|eapply H; eauto].
    inversion E; subst. apply nmem_In in U. apply (inv_up_started n s HI) in U. tauto.
  - destruct (lmem (a, b) (ret s)); simpl; eauto.
  - destruct (lmem (a, b) (att s)); simpl; eauto.
Qed.

Theorem check_not_premature n es i :
  check_connections n (run_events n init es) i = true ->
  forall j, j < n -> In j (started (run_events n init es)).
Proof.
  intros H j Hj.
  assert (HI : Inv n (run_events n init es)) by (apply Inv_run; apply Inv_init).
  apply (conn_needs_listener n es init (Inv_init n)) with (i := i).
  - simpl. intros; contradiction.
  - apply (check_connections_iff n _ i HI); auto.
Qed.
